package govc

import (
	"fmt"
	"go/ast"
	"go/token"
	"go/types"

	"bngvc/smt"
)

func (fv *funcVerifier) execBlock(st *State, list []ast.Stmt) {
	for _, s := range list {
		if st.dead() {
			return
		}
		fv.execStmt(st, s, "")
	}
}

func (fv *funcVerifier) execStmt(st *State, s ast.Stmt, label string) {
	if st.dead() {
		return
	}
	switch x := s.(type) {
	case *ast.BlockStmt:
		fv.execBlock(st, x.List)
	case *ast.ExprStmt:
		if call, ok := ast.Unparen(x.X).(*ast.CallExpr); ok {
			fv.evalCall(st, call)
		} else {
			fv.evalExpr(st, x.X)
		}
	case *ast.AssignStmt:
		fv.execAssign(st, x)
	case *ast.DeclStmt:
		gd := x.Decl.(*ast.GenDecl)
		if gd.Tok != token.VAR {
			return
		}
		for _, sp := range gd.Specs {
			vs := sp.(*ast.ValueSpec)
			if len(vs.Values) == 0 {
				for _, n := range vs.Names {
					if v, ok := fv.info.Defs[n].(*types.Var); ok {
						fv.declVar(st, v, fv.so.zero(v.Type()))
					}
				}
				continue
			}
			var vals []smt.Term
			var vtypes []types.Type
			if len(vs.Values) == 1 && len(vs.Names) > 1 {
				vals, vtypes = fv.evalTuple(st, vs.Values[0], len(vs.Names))
			} else {
				for _, ve := range vs.Values {
					vals = append(vals, fv.evalExpr(st, ve))
					vtypes = append(vtypes, fv.typeOf(ve))
				}
			}
			for i, n := range vs.Names {
				if v, ok := fv.info.Defs[n].(*types.Var); ok {
					fv.declVar(st, v, fv.coerce(st, vals[i], vtypes[i], v.Type()))
				}
			}
		}
	case *ast.IncDecStmt:
		lv := fv.lvalueOf(st, x.X)
		one := smt.IntLit(1)
		if x.Tok == token.INC {
			lv.store(fv.wrapNear(smt.Add(lv.load(), one), lv.typ))
		} else {
			lv.store(fv.wrapNear(smt.Sub(lv.load(), one), lv.typ))
		}
	case *ast.IfStmt:
		fv.execIf(st, x)
	case *ast.ForStmt:
		fv.execFor(st, x, label)
	case *ast.RangeStmt:
		fv.execRange(st, x, label)
	case *ast.SwitchStmt:
		fv.execSwitch(st, x, label)
	case *ast.TypeSwitchStmt:
		fv.execTypeSwitch(st, x, label)
	case *ast.SelectStmt:
		fv.execSelect(st, x, label)
	case *ast.ReturnStmt:
		fv.doReturn(st, x, x.Pos())
	case *ast.BranchStmt:
		fv.execBranch(st, x)
	case *ast.LabeledStmt:
		fv.execStmt(st, x.Stmt, x.Label.Name)
	case *ast.DeferStmt:
		fv.defers = append(fv.defers, x.Call)
		fv.deferGuards = append(fv.deferGuards, st.live)
	case *ast.GoStmt:
		if lit, isLit := x.Call.Fun.(*ast.FuncLit); isLit && len(x.Call.Args) == 0 && fv.opt.GoInline {
			// idealisation (stated in evidence): a spawned closure without parameters runs to completion,
			// sequentially, at the point where it is spawned
			fv.note("go func(){...}() executed inline at the spawn point (goroutine assumed to run to completion; interleavings not modelled)")
			fv.inlineFuncLit(st, lit)
			return
		}
		for _, a := range x.Call.Args {
			fv.evalExpr(st, a)
		}
		if _, isLit := x.Call.Fun.(*ast.FuncLit); !isLit {
			fv.evalCallee(st, x.Call.Fun)
		}
		fv.note("go statement: spawned body is verified as its own function; its effects are not assumed here")
	case *ast.SendStmt:
		fv.evalExpr(st, x.Chan)
		fv.evalExpr(st, x.Value)
		fv.note("channel send: modelled as no-op (blocking / closed-channel panic not modelled)")
	case *ast.EmptyStmt:
	default:
		fv.unsupported("statement %T", s)
	}
}

func (fv *funcVerifier) evalCallee(st *State, fun ast.Expr) {
	if sel, ok := ast.Unparen(fun).(*ast.SelectorExpr); ok {
		if _, isSel := fv.info.Selections[sel]; isSel {
			fv.evalExpr(st, sel.X)
		}
	}
}

// evalTuple evaluates an expression producing n values (call, comma-ok forms).
func (fv *funcVerifier) evalTuple(st *State, e ast.Expr, n int) ([]smt.Term, []types.Type) {
	e = ast.Unparen(e)
	tup, _ := fv.typeOf(e).(*types.Tuple)
	var ts []types.Type
	if tup != nil {
		for i := 0; i < tup.Len(); i++ {
			ts = append(ts, tup.At(i).Type())
		}
	}
	switch x := e.(type) {
	case *ast.CallExpr:
		vals := fv.evalCall(st, x)
		if len(vals) != n {
			fv.unsupported("call yields %d values, want %d", len(vals), n)
		}
		return vals, ts
	case *ast.IndexExpr:
		mt, ok := fv.typeOf(x.X).Underlying().(*types.Map)
		if !ok {
			break
		}
		m := fv.evalExpr(st, x.X)
		k := fv.coerce(st, fv.evalExpr(st, x.Index), fv.typeOf(x.Index), mt.Key())
		v, ok2 := fv.mapLookup(st, m, k, mt)
		return []smt.Term{v, ok2}, []types.Type{mt.Elem(), types.Typ[types.Bool]}
	case *ast.TypeAssertExpr:
		fv.evalExpr(st, x.X)
		t := fv.typeOf(x.Type)
		ok := fv.c.Fresh("taok", smt.Bool)
		v := fv.freshNonNil(st, "tassert", t)
		return []smt.Term{fv.c.Let("ta", smt.Ite(ok, v, fv.so.zero(t))), ok}, []types.Type{t, types.Typ[types.Bool]}
	case *ast.UnaryExpr:
		if x.Op == token.ARROW {
			fv.evalExpr(st, x.X)
			ct := fv.typeOf(x.X).Underlying().(*types.Chan)
			return []smt.Term{fv.fresh(st, "recv", ct.Elem()), fv.c.Fresh("recvok", smt.Bool)}, []types.Type{ct.Elem(), types.Typ[types.Bool]}
		}
	}
	fv.unsupported("tuple expression %T", e)
	return nil, nil
}

func (fv *funcVerifier) execAssign(st *State, x *ast.AssignStmt) {
	// op-assign
	if x.Tok != token.ASSIGN && x.Tok != token.DEFINE {
		lv := fv.lvalueOf(st, x.Lhs[0])
		r := fv.evalExpr(st, x.Rhs[0])
		op := map[token.Token]token.Token{token.ADD_ASSIGN: token.ADD, token.SUB_ASSIGN: token.SUB, token.MUL_ASSIGN: token.MUL,
			token.QUO_ASSIGN: token.QUO, token.REM_ASSIGN: token.REM, token.AND_ASSIGN: token.AND, token.OR_ASSIGN: token.OR,
			token.XOR_ASSIGN: token.XOR, token.SHL_ASSIGN: token.SHL, token.SHR_ASSIGN: token.SHR, token.AND_NOT_ASSIGN: token.AND_NOT}[x.Tok]
		if isString(lv.typ) {
			lv.store(fv.strConcat(st, lv.load(), r))
			return
		}
		if isFloat(lv.typ) {
			opn := map[token.Token]string{token.ADD: "+", token.SUB: "-", token.MUL: "*", token.QUO: "/"}[op]
			lv.store(smt.App("Real", opn, lv.load(), fv.coerce(st, r, fv.typeOf(x.Rhs[0]), lv.typ)))
			return
		}
		lv.store(fv.intBinop(st, op, lv.load(), r, lv.typ, x.Lhs[0], fv.typeOf(x.Rhs[0])))
		return
	}
	var vals []smt.Term
	var vtypes []types.Type
	if len(x.Rhs) == 1 && len(x.Lhs) > 1 {
		vals, vtypes = fv.evalTuple(st, x.Rhs[0], len(x.Lhs))
	} else {
		for _, r := range x.Rhs {
			vals = append(vals, fv.evalExpr(st, r))
			vtypes = append(vtypes, fv.typeOf(r))
		}
	}
	// evaluate all lvalues before storing (Go order); only matters for index exprs
	type tgt struct {
		lv   lval
		decl *types.Var
	}
	var tgts []tgt
	for _, l := range x.Lhs {
		if id, ok := l.(*ast.Ident); ok {
			if id.Name == "_" {
				tgts = append(tgts, tgt{})
				continue
			}
			if x.Tok == token.DEFINE {
				if v, ok := fv.info.Defs[id].(*types.Var); ok {
					tgts = append(tgts, tgt{decl: v})
					continue
				}
			}
		}
		tgts = append(tgts, tgt{lv: fv.lvalueOf(st, l)})
	}
	for i, t := range tgts {
		switch {
		case t.decl != nil:
			fv.declVar(st, t.decl, fv.coerce(st, vals[i], vtypes[i], t.decl.Type()))
		case t.lv.store != nil:
			fv.lvStore(st, t.lv, fv.coerce(st, vals[i], vtypes[i], t.lv.typ))
		}
	}
}

func (fv *funcVerifier) lvStore(st *State, lv lval, v smt.Term) {
	if lv.typ == nil {
		return
	}
	lv.store(v)
}

func (fv *funcVerifier) execIf(st *State, x *ast.IfStmt) {
	if x.Init != nil {
		fv.execStmt(st, x.Init, "")
	}
	c := fv.evalExpr(st, x.Cond)
	if st.dead() {
		return
	}
	thenS := st.clone()
	fv.restrict(thenS, c)
	elseS := st.clone()
	fv.restrict(elseS, smt.Not(c))
	fv.execBlock(thenS, x.Body.List)
	if x.Else != nil {
		fv.execStmt(elseS, x.Else, "")
	}
	*st = *fv.merge(thenS, elseS)
}

func (fv *funcVerifier) findLoop(label string) *loopFrame {
	if label == "" {
		for i := len(fv.loops) - 1; i >= 0; i-- {
			return fv.loops[i]
		}
		return nil
	}
	for i := len(fv.loops) - 1; i >= 0; i-- {
		if fv.loops[i].label == label {
			return fv.loops[i]
		}
	}
	return nil
}

func (fv *funcVerifier) execBranch(st *State, x *ast.BranchStmt) {
	label := ""
	if x.Label != nil {
		label = x.Label.Name
	}
	switch x.Tok {
	case token.BREAK:
		var f *loopFrame
		if label == "" {
			// innermost breakable (loop, switch, select)
			if len(fv.loops) > 0 {
				f = fv.loops[len(fv.loops)-1]
			}
		} else {
			f = fv.findLoop(label)
		}
		if f == nil {
			fv.unsupported("break outside loop")
		}
		f.breaks = append(f.breaks, st.clone())
		st.live = smt.False
	case token.CONTINUE:
		var f *loopFrame
		for i := len(fv.loops) - 1; i >= 0; i-- {
			if fv.loops[i].isLoop && (label == "" || fv.loops[i].label == label) {
				f = fv.loops[i]
				break
			}
		}
		if f == nil {
			fv.unsupported("continue outside loop")
		}
		f.continues = append(f.continues, st.clone())
		st.live = smt.False
	default:
		fv.unsupported("branch %s", x.Tok)
	}
}

func (fv *funcVerifier) mergeAll(base *State, others []*State) *State {
	r := base
	for _, o := range others {
		r = fv.merge(r, o)
	}
	return r
}

// ---- switch ----

func (fv *funcVerifier) execSwitch(st *State, x *ast.SwitchStmt, label string) {
	if x.Init != nil {
		fv.execStmt(st, x.Init, "")
	}
	var tag smt.Term
	var tagT types.Type
	if x.Tag != nil {
		tag = fv.evalExpr(st, x.Tag)
		tagT = fv.typeOf(x.Tag)
	}
	frame := &loopFrame{label: label}
	fv.loops = append(fv.loops, frame)
	defer func() { fv.loops = fv.loops[:len(fv.loops)-1] }()
	var done []*State
	rest := st.clone()
	// entry state of every clause (case expressions are evaluated in order; the default clause
	// is entered when no case matches, wherever it stands)
	entry := make([]*State, len(x.Body.List))
	defaultIdx := -1
	for ci, cc := range x.Body.List {
		clause := cc.(*ast.CaseClause)
		if clause.List == nil {
			defaultIdx = ci
			continue
		}
		var conds []smt.Term
		for _, e := range clause.List {
			v := fv.evalExpr(rest, e)
			if x.Tag != nil {
				et := fv.typeOf(e)
				if isNilType(et) {
					conds = append(conds, fv.isNil(tag, tagT))
				} else {
					conds = append(conds, smt.Eq(tag, fv.coerce(rest, v, et, tagT)))
				}
			} else {
				conds = append(conds, v)
			}
		}
		c := fv.c.Let("case", smt.Or(conds...))
		body := rest.clone()
		fv.restrict(body, c)
		fv.restrict(rest, smt.Not(c))
		entry[ci] = body
	}
	if defaultIdx >= 0 {
		entry[defaultIdx] = rest
		rest = nil
	}
	// bodies in textual order; a body ending in fallthrough continues in the next clause
	var ft *State
	for ci, cc := range x.Body.List {
		clause := cc.(*ast.CaseClause)
		body := entry[ci]
		if ft != nil {
			body = fv.mergeAll(body, []*State{ft})
			ft = nil
		}
		stmts := clause.Body
		falls := false
		if n := len(stmts); n > 0 {
			if b, ok := stmts[n-1].(*ast.BranchStmt); ok && b.Tok == token.FALLTHROUGH {
				falls = true
				stmts = stmts[:n-1]
			}
		}
		fv.execCaseBody(body, stmts)
		if falls {
			ft = body
		} else {
			done = append(done, body)
		}
	}
	var res *State
	if rest != nil {
		res = fv.mergeAll(rest, done)
	} else if len(done) > 0 {
		res = fv.mergeAll(done[0], done[1:])
	} else {
		res = st.clone()
	}
	res = fv.mergeAll(res, frame.breaks)
	*st = *res
}

func (fv *funcVerifier) execCaseBody(st *State, body []ast.Stmt) {
	for _, s := range body {
		if b, ok := s.(*ast.BranchStmt); ok && b.Tok == token.FALLTHROUGH {
			fv.unsupported("fallthrough")
		}
	}
	fv.execBlock(st, body)
}

func (fv *funcVerifier) execTypeSwitch(st *State, x *ast.TypeSwitchStmt, label string) {
	if x.Init != nil {
		fv.execStmt(st, x.Init, "")
	}
	// evaluate the guard operand
	var operand ast.Expr
	switch a := x.Assign.(type) {
	case *ast.AssignStmt:
		operand = a.Rhs[0].(*ast.TypeAssertExpr).X
	case *ast.ExprStmt:
		operand = a.X.(*ast.TypeAssertExpr).X
	}
	opv := fv.evalExpr(st, operand)
	frame := &loopFrame{label: label}
	fv.loops = append(fv.loops, frame)
	defer func() { fv.loops = fv.loops[:len(fv.loops)-1] }()
	fv.note("type switch: case selection is nondeterministic (dynamic types are not modelled)")
	var done []*State
	rest := st.clone()
	var defaultClause *ast.CaseClause
	for _, cc := range x.Body.List {
		clause := cc.(*ast.CaseClause)
		if clause.List == nil {
			defaultClause = clause
			continue
		}
		c := fv.c.Fresh("tcase", smt.Bool)
		body := rest.clone()
		fv.restrict(body, c)
		fv.restrict(rest, smt.Not(c))
		if v, ok := fv.info.Implicits[clause].(*types.Var); ok {
			if len(clause.List) == 1 && !isNilType(fv.typeOf(clause.List[0])) {
				if _, isIface := v.Type().Underlying().(*types.Interface); isIface {
					body.vars[v] = opv
				} else {
					body.vars[v] = fv.freshNonNilIfPtr(body, "tsw_"+v.Name(), v.Type())
				}
			} else {
				body.vars[v] = opv
			}
		}
		fv.execCaseBody(body, clause.Body)
		done = append(done, body)
	}
	if defaultClause != nil {
		if v, ok := fv.info.Implicits[defaultClause].(*types.Var); ok {
			rest.vars[v] = opv
		}
		fv.execCaseBody(rest, defaultClause.Body)
	}
	res := fv.mergeAll(rest, done)
	res = fv.mergeAll(res, frame.breaks)
	*st = *res
}

func (fv *funcVerifier) freshNonNilIfPtr(st *State, hint string, t types.Type) smt.Term {
	if _, ok := t.Underlying().(*types.Pointer); ok {
		return fv.freshNonNil(st, hint, t)
	}
	return fv.fresh(st, hint, t)
}

func (fv *funcVerifier) execSelect(st *State, x *ast.SelectStmt, label string) {
	frame := &loopFrame{label: label}
	fv.loops = append(fv.loops, frame)
	defer func() { fv.loops = fv.loops[:len(fv.loops)-1] }()
	fv.note("select: case choice is nondeterministic; received values unconstrained")
	var done []*State
	rest := st.clone()
	n := len(x.Body.List)
	for i, cc := range x.Body.List {
		clause := cc.(*ast.CommClause)
		body := rest.clone()
		if i < n-1 {
			c := fv.c.Fresh("selcase", smt.Bool)
			fv.restrict(body, c)
			fv.restrict(rest, smt.Not(c))
		} else {
			rest.live = smt.False
		}
		if clause.Comm != nil {
			fv.execStmt(body, clause.Comm, "")
		}
		fv.execBlock(body, clause.Body)
		done = append(done, body)
	}
	res := fv.mergeAll(rest, done)
	res = fv.mergeAll(res, frame.breaks)
	*st = *res
}

// ---- return ----

func (fv *funcVerifier) doReturn(st *State, x *ast.ReturnStmt, pos token.Pos) {
	if st.dead() {
		return
	}
	if x != nil && len(x.Results) > 0 {
		var vals []smt.Term
		var vts []types.Type
		if len(x.Results) == 1 && len(fv.results) > 1 {
			vals, vts = fv.evalTuple(st, x.Results[0], len(fv.results))
		} else {
			for _, r := range x.Results {
				vals = append(vals, fv.evalExpr(st, r))
				vts = append(vts, fv.typeOf(r))
			}
		}
		for i, rv := range fv.results {
			v := fv.coerce(st, vals[i], vts[i], rv.Type())
			if fv.boxed[rv] {
				fv.storeAt(st, st.vars[rv], rv.Type(), v)
			} else {
				st.vars[rv] = fv.c.Let("ret_"+rv.Name(), v)
			}
		}
	}
	// run deferred calls LIFO; each only if its defer statement was reached
	for i := len(fv.defers) - 1; i >= 0; i-- {
		call := fv.defers[i]
		guard := fv.deferGuards[i]
		fv.runDeferred(st, call, guard)
	}
	fv.exits = append(fv.exits, st.clone())
	fv.exitAssume = append(fv.exitAssume, len(fv.assumptions))
	st.live = smt.False
}

func (fv *funcVerifier) runDeferred(st *State, call *ast.CallExpr, guard smt.Term) {
	// The defer statement dominates the return on most paths; when it does not
	// (defer inside a branch), execute the call under its guard.
	run := st.clone()
	fv.restrict(run, guard)
	skip := st.clone()
	fv.restrict(skip, smt.Not(guard))
	if lit, ok := call.Fun.(*ast.FuncLit); ok {
		if containsRecover(lit.Body) {
			fv.note("deferred function with recover(): panics in this function are intercepted; nopanic obligations still reported")
		}
		saveDefers, saveGuards := fv.defers, fv.deferGuards
		saveExits, saveExitAssume := fv.exits, fv.exitAssume
		fv.defers, fv.deferGuards, fv.exits, fv.exitAssume = nil, nil, nil, nil
		inLit := fv.inDeferLit
		fv.inDeferLit = true
		fv.execBlock(run, lit.Body.List)
		run = fv.mergeAll(run, fv.exits)
		fv.inDeferLit = inLit
		fv.defers, fv.deferGuards, fv.exits, fv.exitAssume = saveDefers, saveGuards, saveExits, saveExitAssume
	} else {
		fv.evalCall(run, call)
	}
	*st = *fv.merge(run, skip)
}

func containsRecover(b *ast.BlockStmt) bool {
	found := false
	ast.Inspect(b, func(n ast.Node) bool {
		if c, ok := n.(*ast.CallExpr); ok {
			if id, ok := c.Fun.(*ast.Ident); ok && id.Name == "recover" {
				found = true
			}
		}
		return true
	})
	return found
}

var _ = fmt.Sprintf

// inlineFuncLit executes the body of a parameterless function literal in st.
func (fv *funcVerifier) inlineFuncLit(st *State, lit *ast.FuncLit) {
	saveDefers, saveGuards, saveExits := fv.defers, fv.deferGuards, fv.exits
	saveLoops, saveExitAssume := fv.loops, fv.exitAssume
	fv.defers, fv.deferGuards, fv.exits, fv.loops, fv.exitAssume = nil, nil, nil, nil, nil
	inLit := fv.inDeferLit
	fv.inDeferLit = true
	fv.execBlock(st, lit.Body.List)
	if !st.dead() {
		fv.doReturn(st, nil, lit.Body.Rbrace)
	}
	merged := fv.mergeAll(&State{live: smt.False}, fv.exits)
	fv.inDeferLit = inLit
	fv.defers, fv.deferGuards, fv.exits, fv.loops, fv.exitAssume = saveDefers, saveGuards, saveExits, saveLoops, saveExitAssume
	if merged != nil && !merged.dead() {
		*st = *merged
	} else {
		st.live = smt.False
	}
}
