package pppoe

// Replay for C16.pppoe.Server.handlePAP.ensures[pppSent__1___authenticated___endCalls__1]
// "For every way a subscriber session can end (... authentication failure ...) afterwards its
// address is back in the pool."
//
// History on the wire (frames handed to handleDiscovery / handleSession as receiveLoop does):
// PADR -> session; PAP Authenticate-Request with the right password -> Access-Accept, the client
// gets an address; PAP Authenticate-Request with a wrong password -> Access-Reject, the server
// answers Authenticate-Nak and closes the session. The closed session must not keep its address,
// and it must not stay in the session table (where every further frame of the client refreshes
// its idle timer, so that the idle sweep never removes it either).

import (
	"encoding/binary"
	"net"
	"testing"
	"time"

	bngradius "github.com/codelaboratoryltd/bng/pkg/radius"
	"go.uber.org/zap"
	"layeh.com/radius"
	"layeh.com/radius/rfc2865"
)

type replayNullSocket struct{}

func (replayNullSocket) open(iface string, etherType uint16) error { return nil }
func (replayNullSocket) close() error                              { return nil }
func (replayNullSocket) recv(buf []byte) (int, error)              { time.Sleep(time.Second); return 0, nil }
func (replayNullSocket) send(iface string, dstMAC net.HardwareAddr, etherType uint16, data []byte) error {
	return nil
}

// replayAuthServer accepts the password "right" and rejects everything else.
func replayAuthServer(t *testing.T, secret string) (port int, closeFn func()) {
	conn, err := net.ListenUDP("udp4", &net.UDPAddr{IP: net.IPv4(127, 0, 0, 1), Port: 0})
	if err != nil {
		t.Fatal(err)
	}
	go func() {
		buf := make([]byte, 4096)
		for {
			n, addr, err := conn.ReadFromUDP(buf)
			if err != nil {
				return
			}
			pkt, err := radius.Parse(buf[:n], []byte(secret))
			if err != nil || pkt.Code != radius.CodeAccessRequest {
				continue
			}
			code := radius.CodeAccessReject
			if rfc2865.UserPassword_GetString(pkt) == "right" {
				code = radius.CodeAccessAccept
			}
			if b, err := pkt.Response(code).Encode(); err == nil {
				conn.WriteToUDP(b, addr)
			}
		}
	}()
	return conn.LocalAddr().(*net.UDPAddr).Port, func() { conn.Close() }
}

func replayPAPFrame(sessionID uint16, id uint8, user, pass string) []byte {
	pap := []byte{PAPCodeAuthRequest, id, 0, 0, byte(len(user))}
	pap = append(pap, user...)
	pap = append(pap, byte(len(pass)))
	pap = append(pap, pass...)
	binary.BigEndian.PutUint16(pap[2:4], uint16(len(pap)))
	payload := make([]byte, 2, 2+len(pap))
	binary.BigEndian.PutUint16(payload, ProtocolPAP)
	payload = append(payload, pap...)
	hdr := &PPPoEHeader{VerType: 0x11, Code: CodeSession, SessionID: sessionID, Length: uint16(len(payload))}
	return append(hdr.Serialize(), payload...)
}

func TestReplayVC(t *testing.T) {
	const secret = "s3cret"
	port, closeSrv := replayAuthServer(t, secret)
	defer closeSrv()

	logger := zap.NewNop()
	rc, err := bngradius.NewClient(bngradius.ClientConfig{
		Servers: []bngradius.ServerConfig{{Host: "127.0.0.1", Port: port, Secret: secret}},
		NASID:   "replay-nas",
		Timeout: time.Second,
		Retries: 1,
	}, logger)
	if err != nil {
		t.Fatal(err)
	}

	serverMAC, _ := net.ParseMAC("02:00:00:00:00:01")
	srv, err := NewServerWithInterface(ServerConfig{
		Interface: "eth0", ServerIP: "10.9.0.1", ClientPool: "10.9.0.0/29", PoolGateway: "10.9.0.1",
	}, logger, &net.Interface{Index: 1, MTU: 1500, Name: "eth0", HardwareAddr: serverMAC})
	if err != nil {
		t.Fatal(err)
	}
	srv.socket = replayNullSocket{}
	srv.SetRADIUSClient(rc)
	pool := srv.clientIPPool
	free0 := len(pool.available)

	clientMAC, _ := net.ParseMAC("aa:bb:cc:dd:ee:03")
	srv.handlePADR(clientMAC, []Tag{{Type: TagACCookie, Value: []byte("cookie")}})
	time.Sleep(50 * time.Millisecond) // startLCPNegotiation goroutine
	session := srv.sessions.GetSessionByMAC(clientMAC)
	if session == nil {
		t.Fatal("no session after PADR")
	}
	id, acctID := session.ID, session.SessionID

	srv.handleSession(clientMAC, replayPAPFrame(id, 1, "alice", "right"))
	if !session.Authenticated || session.ClientIP == nil {
		t.Fatalf("setup: first authentication did not succeed (authenticated=%v ip=%v)", session.Authenticated, session.ClientIP)
	}
	_, heldBefore := pool.allocated[acctID]

	srv.handleSession(clientMAC, replayPAPFrame(id, 2, "alice", "wrong"))

	_, heldAfter := pool.allocated[acctID]
	inTable := srv.sessions.GetSession(id) != nil
	t.Logf("after Authenticate-Nak: authenticated=%v state=%v, address still bound=%v (was %v), free addresses %d of %d, session still in table=%v",
		session.Authenticated, session.GetState(), heldAfter, heldBefore, len(pool.available), free0, inTable)
	if session.Authenticated {
		t.Fatalf("setup: second authentication was not rejected")
	}
	if heldAfter || len(pool.available) != free0 {
		t.Logf("REPLAY-VIOLATED: the session was ended by an authentication failure but its address %v is still allocated (free %d of %d) and the session is still registered: %v",
			session.ClientIP, len(pool.available), free0, inTable)
		return
	}
	if inTable {
		t.Logf("REPLAY-VIOLATED: the session was ended by an authentication failure but is still in the session table")
		return
	}
	t.Logf("REPLAY-OK")
}
