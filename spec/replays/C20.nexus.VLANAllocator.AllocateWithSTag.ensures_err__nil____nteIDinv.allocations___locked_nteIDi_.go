package nexus

// Replay for obligation C20.nexus.VLANAllocator.AllocateWithSTag.ensures[err != nil ==> (nteID in v.allocations) == locked(...)]:
// a failed re-allocation to another S-TAG has already released the NTE's old pair.

import (
	"fmt"
	"testing"
)

func TestReplayVC(t *testing.T) {
	defer func() {
		if r := recover(); r != nil {
			fmt.Printf("REPLAY-PANIC: %v\n", r)
		}
	}()
	v := NewVLANAllocator(VLANAllocatorConfig{STagRange: VLANRange{Start: 200, End: 300}, CTagRange: VLANRange{Start: 100, End: 101}})
	v.AllocateWithSTag("n1", 200)
	v.AllocateWithSTag("n2", 200) // S-TAG 200 is now full
	old, _ := v.AllocateWithSTag("n3", 300)
	_, err := v.AllocateWithSTag("n3", 200)
	_, still := v.Get("n3")
	if err != nil && !still {
		fmt.Printf("REPLAY-VIOLATED: AllocateWithSTag failed (%v) and n3 lost its pair (%d,%d)\n", err, old.STag, old.CTag)
		return
	}
	fmt.Println("REPLAY-OK")
}
