package check

import (
	"bngvc/llvc"
	"encoding/json"
	"flag"
	"fmt"
	"os"
	"path/filepath"
	"runtime"
	"sort"
	"strconv"
	"strings"
	"sync"
	"time"

	"bngvc/govc"
	"bngvc/smt"
)

// verifDir holds known_findings.json, spec/, evidence/, replays/ and the solver cache.
// BNGVC_VERIF_DIR redirects it (private runs that must not write into /verif).
var verifDir = func() string {
	if d := os.Getenv("BNGVC_VERIF_DIR"); d != "" {
		return d
	}
	return "/verif"
}()

// Finding is one entry of /verif/known_findings.json.
type Finding struct {
	Property   string `json:"property"`
	Obligation string `json:"obligation"`
	Status     string `json:"status"` // known | fixed
	What       string `json:"what"`
	History    string `json:"history,omitempty"`
	Commit     string `json:"commit,omitempty"`
}

type findingsFile struct {
	Findings []Finding `json:"findings"`
}

func loadFindings() []Finding {
	var ff findingsFile
	b, err := os.ReadFile(filepath.Join(verifDir, "known_findings.json"))
	if err != nil {
		return nil
	}
	if err := json.Unmarshal(b, &ff); err != nil {
		fmt.Fprintln(os.Stderr, "known_findings.json:", err)
		os.Exit(2)
	}
	return ff.Findings
}

// Baseline records what discharged on the unchanged tree.
type Baseline struct {
	Property   string   `json:"property"`
	Discharged []string `json:"discharged"`
	Clean      []string `json:"clean_functions"`
	Undecided  []string `json:"undecided"`
	Rejected   []string `json:"rejected"`
	// Kept records, per function, the auto-invariant candidates that survived Houdini
	// on the unchanged tree ("loopkey: desc"); quick runs start from this set.
	Kept map[string][]string `json:"kept_candidates,omitempty"`
	// DeadReturns: return statements (by canary id) that are unreachable on the unchanged tree
	DeadReturns []string `json:"dead_returns,omitempty"`
	// ReturnCounts: number of per-return canaries of each function on the unchanged tree; when the
	// number differs the return ordinals no longer denote the same statements and the per-return
	// comparison is skipped for that function (the exit canary still applies)
	ReturnCounts map[string]int `json:"return_counts,omitempty"`
}

func baselinePath(id string) string { return filepath.Join(verifDir, "spec", id+".baseline.json") }

func loadBaseline(id string) *Baseline {
	b, err := os.ReadFile(baselinePath(id))
	if err != nil {
		return nil
	}
	var bl Baseline
	if json.Unmarshal(b, &bl) != nil {
		return nil
	}
	return &bl
}

type oblRecord struct {
	ID     string  `json:"id"`
	Kind   string  `json:"kind"`
	Func   string  `json:"func"`
	Pos    string  `json:"pos,omitempty"`
	Status string  `json:"status"`
	Solver string  `json:"solver,omitempty"`
	TimeS  float64 `json:"time_s"`
	Class  string  `json:"class"` // discharged | known-finding | violation | undecided
}

// Main implements "bngvc check".
func Main(args []string) int {
	fs := flag.NewFlagSet("check", flag.ExitOnError)
	prop := fs.String("property", "", "property id")
	tier := fs.String("tier", os.Getenv("VERIF_TIER"), "quick|thorough")
	repo := fs.String("repo", "/repo", "repository")
	update := fs.Bool("update-baseline", false, "rewrite spec/<id>.baseline.json from this run")
	verbose := fs.Bool("v", false, "verbose")
	only := fs.String("only", "", "debug: restrict to functions with this key prefix (evidence is still written)")
	fs.Parse(args)
	if *tier == "" {
		*tier = "quick"
	}
	def := Props[*prop]
	if def == nil {
		fmt.Fprintf(os.Stderr, "unknown property %q\n", *prop)
		return 2
	}
	seed := 0
	if s := os.Getenv("VERIF_SEED"); s != "" {
		seed, _ = strconv.Atoi(s)
	}
	t0 := time.Now()
	run := &propRun{def: def, tier: *tier, repo: *repo, verbose: *verbose, seed: seed, update: *update, only: *only}
	code := run.exec()
	run.wall = time.Since(t0).Seconds()
	if err := run.writeEvidence(); err != nil {
		fmt.Fprintln(os.Stderr, "evidence:", err)
		return 2
	}
	fmt.Printf("%s %s: %d obligations claimed, %d discharged, %d known findings, %d violations, %d undecided (not claimed), %.1fs\n",
		def.ID, *tier, run.nClaimed, run.nDischarged, run.nKnown, len(run.violations), run.nUndecided, run.wall)
	return code
}

type violation struct {
	Obligation string
	Replay     string
	NoInput    bool
}

type propRun struct {
	def     *PropDef
	tier    string
	repo    string
	verbose bool
	seed    int
	update  bool
	only    string
	wall    float64

	prog     *govc.Program
	outcomes []*FuncOutcome
	records  []oblRecord
	samples  []map[string]string

	nClaimed, nDischarged, nKnown, nUndecided int
	violations                                []violation
	broken                                    []string
	funcsUnder                                []string
	rejected                                  []string
	notes                                     map[string]bool
	solverTime                                float64
	solverStats                               map[string]int
	extra                                     map[string]interface{}
	extraDischarged                           []string // ids discharged by def.Extra (recorded in the baseline)
	boundedReport                             []string // one line per bounded stand-in run (never counted as proved)
}

func (r *propRun) exec() int {
	def := r.def
	if len(def.BPF) > 0 && len(def.Funcs) == 0 && len(def.Roots) == 0 {
		return r.execLLVC()
	}
	prog, err := govc.Load(r.repo, def.Pkgs)
	if err != nil {
		fmt.Fprintln(os.Stderr, "load:", err)
		fmt.Printf("VIOLATION property=%s replay=%s no-failing-input-found\n", def.ID, r.writeBroken("load-failed", err.Error()))
		return 1
	}
	r.prog = prog
	r.notes = map[string]bool{}
	// wall-clock limits are generous; the deciding budget is the deterministic rlimit
	timeout := 60 * time.Second
	cache := filepath.Join(verifDir, ".cache", "smt")
	rlimit := int64(40_000_000)
	if r.tier == "thorough" {
		timeout = 180 * time.Second
		rlimit = 400_000_000
		cache = ""
	}
	solver := smt.NewSolver(timeout, cache)
	solver.RLimit = rlimit
	solver.CandRLimit = 24_000_000
	solver.Confirm = r.tier == "thorough"
	runner := &Runner{Solver: solver, Workers: runtime.NumCPU()}
	if r.update {
		runner.CanaryRLimit = 30_000_000
	}

	units := def.units(prog)
	findings := loadFindings()
	known := map[string]Finding{}
	for _, f := range findings {
		if f.Property == def.ID && f.Status == "known" {
			known[f.Obligation] = f
		}
	}
	bl := loadBaseline(def.ID)
	blDis, blClean := map[string]bool{}, map[string]bool{}
	if bl != nil {
		for _, id := range bl.Discharged {
			blDis[id] = true
		}
		for _, f := range bl.Clean {
			blClean[f] = true
		}
	}
	blDead := map[string]bool{}
	if bl != nil {
		for _, id := range bl.DeadReturns {
			blDead[id] = true
		}
	}
	// obligations recorded as undecided on the unchanged tree are never part of the claim (in any
	// tier); the quick tier does not even attempt them
	blNotClaimed := map[string]bool{}
	if bl != nil && !r.update {
		for _, id := range bl.Undecided {
			blNotClaimed[id] = true
		}
	}
	blUndecided := map[string]bool{}
	if bl != nil && r.tier == "quick" && !r.update {
		for _, id := range bl.Undecided {
			blUndecided[id] = true
		}
	}
	runner.Skip = func(o *govc.Oblig) bool {
		if def.Select != nil && !def.Select(o) {
			return true
		}
		return blUndecided[o.ID]
	}
	if r.tier == "quick" {
		runner.Cheap = func(o *govc.Oblig) bool { _, ok := known[o.ID]; return ok }
	}
	roots := map[string]bool{}
	for _, f := range def.Roots {
		roots[f] = true
	}
	newBL := &Baseline{Property: def.ID}
	seenKnown := map[string]bool{}
	seenFunc := map[string]bool{}

	// VC generation and solving of the units run concurrently (each unit has its own
	// context); classification, replay and reporting below stay sequential and ordered
	mkOpt := func(u Unit) govc.Options {
		opt := govc.Options{Property: def.ID, Canary: true, ServiceLoops: map[string]bool{}, LenientNames: !r.update}
		for _, l := range def.ServiceLoops {
			opt.ServiceLoops[l] = true
		}
		if u.Sweep {
			opt.Sweep, opt.NoPanic, opt.Variants = true, true, true
		} else {
			opt.AutoInv = true
		}
		return opt
	}
	outcomes := make([]*FuncOutcome, len(units))
	{
		par := runtime.NumCPU() / 3
		if par < 1 {
			par = 1
		}
		sem := make(chan struct{}, par)
		var wg sync.WaitGroup
		for i, u := range units {
			if r.only != "" && !strings.HasPrefix(u.Func, r.only) {
				continue
			}
			fi := prog.Funcs[u.Func]
			if fi == nil {
				continue
			}
			var seedKept []string
			if bl != nil && !r.update {
				seedKept = bl.Kept[u.Func]
			}
			i, u := i, u
			wg.Add(1)
			sem <- struct{}{}
			go func() {
				defer wg.Done()
				defer func() { <-sem }()
				outcomes[i] = runner.VerifyFunctionSeeded(prog, fi, mkOpt(u), seedKept)
			}()
		}
		wg.Wait()
	}
	for ui, u := range units {
		if r.only != "" && !strings.HasPrefix(u.Func, r.only) {
			seenFunc[u.Func] = true
			continue
		}
		fi := prog.Funcs[u.Func]
		if fi == nil {
			r.broken = append(r.broken, "function under contract not found: "+u.Func)
			continue
		}
		seenFunc[u.Func] = true
		fo := outcomes[ui]
		if newBL.Kept == nil {
			newBL.Kept = map[string][]string{}
		}
		if len(fo.Kept) > 0 {
			newBL.Kept[u.Func] = fo.Kept
		}
		r.outcomes = append(r.outcomes, fo)
		if fo.Reject != "" {
			r.rejected = append(r.rejected, u.Func+": "+fo.Reject)
			newBL.Rejected = append(newBL.Rejected, u.Func)
			if blClean[u.Func] || !u.Sweep {
				r.broken = append(r.broken, "function under contract left the supported subset: "+u.Func+": "+fo.Reject)
			}
			continue
		}
		r.funcsUnder = append(r.funcsUnder, u.Func)
		for _, n := range fo.Notes {
			r.notes[n] = true
		}
		clean := true
		nRet := 0
		for _, res := range fo.Results {
			if res.O.Canary && strings.Contains(res.O.ID, "return_reachable") {
				nRet++
			}
		}
		if nRet > 0 {
			if newBL.ReturnCounts == nil {
				newBL.ReturnCounts = map[string]int{}
			}
			newBL.ReturnCounts[u.Func] = nRet
		}
		sameReturns := true
		if bl != nil && bl.ReturnCounts != nil {
			if n, ok := bl.ReturnCounts[u.Func]; ok && n != nRet {
				sameReturns = false
				r.notes[fmt.Sprintf("%s: number of return statements changed (%d recorded, %d now); per-return vacuity canaries not compared", u.Func, n, nRet)] = true
			}
		}
		for _, res := range fo.Results {
			o := res.O
			r.solverTime += res.R.TimeS
			if o.Canary {
				if res.R.Status == "unsat" {
					if strings.Contains(o.ID, "return_reachable") {
						// one of several returns is unreachable: recorded at baseline time (defensive
						// returns exist), an alarm when a return that was reachable no longer is
						newBL.DeadReturns = append(newBL.DeadReturns, o.ID)
						if r.update {
							fmt.Printf("note: %s is unreachable under the assumed contracts (recorded)\n", o.ID)
						} else if !blDead[o.ID] && sameReturns {
							r.broken = append(r.broken, "vacuity: "+o.ID+" became unreachable under the assumed contracts and invariants")
						}
					} else {
						r.broken = append(r.broken, "vacuity: exit of "+u.Func+" is unreachable under the assumed contracts")
					}
				}
				continue
			}
			if def.Select != nil && !def.Select(o) {
				continue // belongs to another property's claim
			}
			rec := oblRecord{ID: o.ID, Kind: o.Kind, Func: o.Func, Pos: o.Pos, Status: res.R.Status, Solver: res.R.Solver, TimeS: res.R.TimeS}
			switch {
			case res.R.Status == "unsat":
				rec.Class = "discharged"
				newBL.Discharged = append(newBL.Discharged, o.ID)
				if bl == nil || blDis[o.ID] || blClean[o.Func] || r.update || !def.BaselineClaims {
					r.nClaimed++
					r.nDischarged++
				} else {
					// discharged but not part of the recorded claim: counted as claimed too (it holds)
					r.nClaimed++
					r.nDischarged++
				}
				if len(r.samples) < 4 && (o.Kind != "nopanic" || len(r.samples) < 2) {
					r.samples = append(r.samples, map[string]string{"obligation": o.ID, "pos": o.Pos, "solver": res.R.Solver, "smt2": truncate(res.Query, 2500)})
				}
			default:
				clean = false
				if f, ok := known[o.ID]; ok {
					rec.Class = "known-finding"
					r.nKnown++
					if !seenKnown[o.ID] {
						seenKnown[o.ID] = true
						fmt.Printf("KNOWN-FINDING: property=%s %s — %s\n", def.ID, o.ID, f.What)
					}
					break
				}
				inClaim := (blDis[o.ID] || blClean[o.Func] || (!def.BaselineClaims && !u.Sweep)) && !blNotClaimed[o.ID]
				var rp *ReplayResult
				if res.R.Status == "skipped" {
					rec.Class = "undecided"
					r.nUndecided++
					newBL.Undecided = append(newBL.Undecided, o.ID)
					break
				}
				rp = r.tryReplay(u, fo, res)
				switch {
				case rp != nil && rp.Reproduced:
					rec.Class = "violation"
					r.violations = append(r.violations, violation{o.ID, rp.Path, false})
				case inClaim && !r.update:
					rec.Class = "violation"
					path := r.writeReplayFile(res, rp, "obligation discharged on the unchanged tree now fails")
					r.violations = append(r.violations, violation{o.ID, path, true})
				default:
					rec.Class = "undecided"
					r.nUndecided++
					newBL.Undecided = append(newBL.Undecided, o.ID)
				}
			}
			r.records = append(r.records, rec)
			if r.verbose && rec.Class != "discharged" {
				fmt.Printf("  %-13s %s @%s (%s)\n", rec.Class, o.ID, o.Pos, res.R.Status)
			}
		}
		if clean {
			newBL.Clean = append(newBL.Clean, u.Func)
		}
	}
	// a property anchored in both Go and eBPF code: the kernel programs are verified in the same run
	if len(def.BPF) > 0 {
		llvc.RepoBPFDir = filepath.Join(r.repo, "bpf")
		lt, lrl, lcache := 180*time.Second, int64(400_000_000), filepath.Join(verifDir, ".cache", "smt")
		if r.tier == "thorough" {
			lt, lrl, lcache = 600*time.Second, 2_000_000_000, ""
		}
		ls := smt.NewSolver(lt, lcache)
		ls.RLimit = lrl
		ls.Confirm = r.tier == "thorough"
		helpers, irs := r.runBPFUnits(ls, known, blDis, newBL)
		if r.extra == nil {
			r.extra = map[string]interface{}{}
		}
		var hs []string
		for h := range helpers {
			hs = append(hs, h)
		}
		sort.Strings(hs)
		r.extra["bpf_helpers_used"] = hs
		r.extra["ir_sha256"] = irs
		r.extra["assumed_helper_contracts"] = llvc.AssumedHelpers
		for k, v := range ls.Stats {
			solver.Stats[k] += v
		}
	}
	// baseline functions that disappeared
	if bl != nil && !r.update {
		for _, f := range bl.Clean {
			if !seenFunc[f] {
				r.broken = append(r.broken, "function in the recorded claim is no longer under contract: "+f)
			}
		}
		recordedUnits := 0
		for _, id := range bl.Discharged {
			if !strings.Contains(id, ".layout.") {
				recordedUnits++
			}
		}
		if r.only == "" && r.nDischarged < recordedUnits*9/10 {
			r.broken = append(r.broken, fmt.Sprintf("obligation count dropped: %d discharged now, %d recorded", r.nDischarged, len(bl.Discharged)))
		}
	}
	r.runBounded()
	// known findings that no longer fail are fine (defect repaired); nothing to do.
	if def.Extra != nil {
		before := r.nDischarged
		def.Extra(r)
		newBL.Discharged = append(newBL.Discharged, r.extraDischarged...)
		if bl != nil && !r.update && r.only == "" {
			recorded := 0
			for _, id := range bl.Discharged {
				if strings.Contains(id, ".layout.") {
					recorded++
				}
			}
			if got := r.nDischarged - before; got < recorded*9/10 {
				r.broken = append(r.broken, fmt.Sprintf("layout obligation count dropped: %d discharged now, %d recorded", got, recorded))
			}
		}
	}
	r.solverStats = solver.Stats
	if r.update {
		sort.Strings(newBL.Discharged)
		sort.Strings(newBL.Clean)
		sort.Strings(newBL.Undecided)
		b, _ := json.MarshalIndent(newBL, "", " ")
		os.MkdirAll(filepath.Dir(baselinePath(def.ID)), 0o755)
		os.WriteFile(baselinePath(def.ID), b, 0o644)
		fmt.Printf("baseline written: %d discharged, %d clean functions, %d undecided\n", len(newBL.Discharged), len(newBL.Clean), len(newBL.Undecided))
	}
	code := 0
	for _, v := range r.violations {
		suffix := ""
		if v.NoInput {
			suffix = " no-failing-input-found"
		}
		fmt.Printf("VIOLATION property=%s replay=%s obligation=%s%s\n", def.ID, v.Replay, v.Obligation, suffix)
		code = 1
	}
	for _, b := range r.broken {
		path := r.writeBroken("broken", b)
		fmt.Printf("VIOLATION property=%s replay=%s %s no-failing-input-found\n", def.ID, path, strings.ReplaceAll(b, "\n", " "))
		code = 1
	}
	if r.nDischarged == 0 {
		fmt.Printf("VIOLATION property=%s replay=%s zero obligations discharged no-failing-input-found\n", def.ID, r.writeBroken("empty", "no obligations"))
		code = 1
	}
	return code
}

func truncate(s string, n int) string {
	if len(s) <= n {
		return s
	}
	return s[:n] + "\n; ... truncated"
}

func (r *propRun) replayDir() string {
	d := filepath.Join(verifDir, "replays", r.def.ID)
	os.MkdirAll(d, 0o755)
	return d
}

func (r *propRun) writeBroken(kind, msg string) string {
	p := filepath.Join(r.replayDir(), kind+".json")
	b, _ := json.MarshalIndent(map[string]string{"property": r.def.ID, "kind": kind, "message": msg}, "", " ")
	os.WriteFile(p, b, 0o644)
	return p
}

func (r *propRun) writeReplayFile(res *OblResult, rp *ReplayResult, reason string) string {
	p := filepath.Join(r.replayDir(), smt.Sanitize(res.O.ID)+".json")
	m := map[string]interface{}{
		"property": r.def.ID, "obligation": res.O.ID, "kind": res.O.Kind, "func": res.O.Func, "pos": res.O.Pos,
		"reason": reason, "solver_status": res.R.Status, "solver": res.R.Solver, "solver_outputs": res.R.Outputs,
		"model": res.R.Values, "query_smt2": res.Query,
	}
	if rp != nil {
		m["replay"] = rp
	}
	b, _ := json.MarshalIndent(m, "", " ")
	os.WriteFile(p, b, 0o644)
	return p
}

func (r *propRun) writeEvidence() error {
	def := r.def
	notes := make([]string, 0, len(r.notes))
	for n := range r.notes {
		notes = append(notes, n)
	}
	sort.Strings(notes)
	if len(notes) > 60 {
		notes = append(notes[:60], fmt.Sprintf("... %d more abstraction notes", len(notes)-60))
	}
	sort.Strings(r.funcsUnder)
	var undecided, knownIDs []string
	bySolver := map[string]int{}
	for _, rec := range r.records {
		switch rec.Class {
		case "undecided":
			undecided = append(undecided, rec.ID)
		case "known-finding":
			knownIDs = append(knownIDs, rec.ID)
		case "discharged":
			bySolver[rec.Solver]++
		}
	}
	trusted := append([]string{}, def.Trusted...)
	trusted = append(trusted, "VC generator bngvc/govc (typed Go AST -> SMT), SMT encoding, solvers z3 5.1.0 / z3 4.8.12 / cvc5 1.0.3")
	trusted = append(trusted, govc.AssumedLib...)
	if r.prog != nil && r.prog.Specs != nil {
		for _, a := range r.prog.Specs.Assumed {
			trusted = append(trusted, "assumed contract: "+a)
		}
	}
	if len(r.samples) == 0 {
		r.samples = []map[string]string{{"note": "no discharged obligation"}}
	}
	cov := map[string]interface{}{
		"obligations":                       r.nClaimed,
		"discharged":                        r.nDischarged,
		"checker_cmd":                       fmt.Sprintf("/verif/bin/bngvc check -property %s -tier %s", def.ID, r.tier),
		"trusted_base":                      trusted,
		"samples":                           r.samples,
		"functions_under_contract":          r.funcsUnder,
		"functions_outside_subset":          r.rejected,
		"known_finding_obligations":         knownIDs,
		"undecided_obligations_not_claimed": undecided,
		"undecided_clauses":                 def.Undecided,
		"bounded":                           append(append([]string{}, def.Bounded...), r.boundedReport...),
		"discharged_by_solver":              bySolver,
		"solver_time_s":                     r.solverTime,
		"abstractions_applied":              notes,
		"integers":                          "mathematical integers with exact two's-complement wrap-around at every fixed-width operation (8/16/32/64 bit); bitwise and/or/xor over-approximated by range facts unless operands are bit-disjoint",
		"explanation":                       def.Explanation,
	}
	for k, v := range r.extra {
		cov[k] = v
	}
	ev := map[string]interface{}{
		"property_id": def.ID,
		"tier":        r.tier,
		"seed":        r.seed,
		"level":       "proof",
		"coverage":    cov,
		"assumptions": def.Assumptions,
		"wall_s":      r.wall,
		"violations":  len(r.violations) + len(r.broken),
	}
	b, err := json.MarshalIndent(ev, "", " ")
	if err != nil {
		return err
	}
	os.MkdirAll(filepath.Join(verifDir, "evidence"), 0o755)
	return os.WriteFile(filepath.Join(verifDir, "evidence", def.ID+".json"), b, 0o644)
}

// List prints the properties with checks.
func List() {
	var ids []string
	for id := range Props {
		ids = append(ids, id)
	}
	sort.Strings(ids)
	for _, id := range ids {
		fmt.Printf("%s  %s\n", id, Props[id].Title)
	}
}

// runBounded runs the bounded stand-ins of the property on the real code. A stand-in that finds a
// failing input is a violation with that input; one that does not run is reported as broken.
func (r *propRun) runBounded() {
	for _, bc := range r.def.BoundedChecks {
		if r.only != "" && !strings.HasPrefix(bc.ID, r.only) {
			continue
		}
		src, err := os.ReadFile(filepath.Join(verifDir, "spec", "bounded", bc.File))
		if err != nil {
			r.broken = append(r.broken, "bounded stand-in "+bc.ID+": "+err.Error())
			continue
		}
		t0 := time.Now()
		out, rerr := RunOverlayTest(r.repo, bc.Pkg, string(src), "TestBoundedVC")
		line := ""
		for _, ln := range strings.Split(out, "\n") {
			if strings.Contains(ln, "BOUNDED-VIOLATED") || strings.Contains(ln, "BOUNDED-OK") {
				line = strings.TrimSpace(ln)
				if strings.Contains(ln, "BOUNDED-VIOLATED") {
					break
				}
			}
		}
		switch {
		case strings.Contains(line, "BOUNDED-VIOLATED"):
			id := r.def.ID + ".bounded." + bc.ID
			path := filepath.Join(r.replayDir(), smt.Sanitize(id)+".json")
			m := map[string]interface{}{"property": r.def.ID, "obligation": id, "kind": "bounded stand-in (exhaustive run of the real function up to the bound)",
				"bound": bc.Bound, "claim": bc.Claim, "failing_input": line, "test": string(src), "output": truncate(out, 4000)}
			b, _ := json.MarshalIndent(m, "", " ")
			os.MkdirAll(filepath.Dir(path), 0o755)
			os.WriteFile(path, b, 0o644)
			r.violations = append(r.violations, violation{id, path, false})
			r.boundedReport = append(r.boundedReport, fmt.Sprintf("BOUNDED (not a proof) %s: %s -- FAILED: %s", bc.ID, bc.Bound, line))
		case strings.Contains(line, "BOUNDED-OK"):
			r.boundedReport = append(r.boundedReport, fmt.Sprintf("BOUNDED (not a proof) %s: %s; checked on each: %s -- %s (%.1fs)", bc.ID, bc.Bound, bc.Claim, line, time.Since(t0).Seconds()))
		default:
			r.broken = append(r.broken, fmt.Sprintf("bounded stand-in %s did not run: %v %s", bc.ID, rerr, truncate(out, 600)))
		}
	}
}

