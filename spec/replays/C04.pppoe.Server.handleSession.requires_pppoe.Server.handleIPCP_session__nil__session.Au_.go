package pppoe

import (
	"fmt"
	"net"
	"testing"

	"go.uber.org/zap"
)

type replaySock struct{}

func (replaySock) open(string, uint16) error                            { return nil }
func (replaySock) close() error                                        { return nil }
func (replaySock) recv([]byte) (int, error)                            { return 0, nil }
func (replaySock) send(string, net.HardwareAddr, uint16, []byte) error { return nil }

func replayServer() (*Server, *Session, net.HardwareAddr) {
	s := &Server{logger: zap.NewNop(), sessions: NewSessionManager(), socket: replaySock{}, serverMAC: net.HardwareAddr{2, 0, 0, 0, 0, 9}}
	owner := net.HardwareAddr{2, 0, 0, 0, 0, 1}
	sess, _ := s.sessions.CreateSession(owner, s.serverMAC)
	sess.SetState(StateLCPNegotiation)
	return s, sess, owner
}

// sessionFrame builds PPPoE session header + PPP protocol + payload.
func sessionFrame(id uint16, proto uint16, payload []byte) []byte {
	n := 2 + len(payload)
	f := []byte{0x11, 0x00, byte(id >> 8), byte(id), byte(n >> 8), byte(n), byte(proto >> 8), byte(proto)}
	return append(f, payload...)
}

// An IPCP Configure-Ack sent right after PADS (no LCP, no PAP/CHAP) by the session owner.
func TestReplayVC(t *testing.T) {
	s, sess, owner := replayServer()
	s.handleSession(owner, sessionFrame(sess.ID, ProtocolIPCP, []byte{LCPCodeConfigAck, 1, 0, 4}))
	if sess.GetState() == StateEstablished && !sess.Authenticated {
		fmt.Println("REPLAY-VIOLATED: session reported Established with Authenticated=false after an unauthenticated IPCP Configure-Ack")
		return
	}
	fmt.Println("REPLAY-OK")
}
