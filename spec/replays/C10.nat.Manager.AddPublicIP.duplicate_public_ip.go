package nat

// Replay without an obligation of its own (belongs to the "same public address" clause behind
// invariant adisj, which identifies a public address with its pool index): AddPublicIP accepted the
// same address twice; the two pool entries handed out the same ports of one public address.

import (
	"fmt"
	"net"
	"testing"

	"go.uber.org/zap"
)

func TestReplayVC(t *testing.T) {
	defer func() {
		if r := recover(); r != nil {
			fmt.Printf("REPLAY-PANIC: %v\n", r)
		}
	}()
	m, _ := NewManager(ManagerConfig{Interface: "eth0", PortsPerSubscriber: 1024, PortRangeStart: 1024, PortRangeEnd: 2047}, zap.NewNop())
	m.AddPublicIP(net.ParseIP("203.0.113.9"))
	err2 := m.AddPublicIP(net.ParseIP("203.0.113.9"))
	x, _ := m.AllocateNAT(net.ParseIP("10.0.1.1"))
	y, err := m.AllocateNAT(net.ParseIP("10.0.1.2"))
	if err == nil && x != nil && y != nil && x.PublicIP.Equal(y.PublicIP) && x.PortStart <= y.PortEnd && y.PortStart <= x.PortEnd {
		fmt.Printf("REPLAY-VIOLATED: public address added twice (second AddPublicIP error: %v): %s and %s both hold %s:%d-%d\n", err2, x.PrivateIP, y.PrivateIP, x.PublicIP, x.PortStart, x.PortEnd)
		return
	}
	fmt.Println("REPLAY-OK")
}
