package pppoe

import (
	"fmt"
	"testing"
	"time"

	"go.uber.org/zap"
)

// Obligation: C11.pppoe.LCPStateMachine.closeInternal.ensures[old(lcp.state) >= LCPStateReqSent ==>
// lcp.state == LCPStateClosing && lcp.restartCount == lcp.config.MaxTerminate - 1 ...]
// (also Close / receiveCodeReject / receiveProtocolReject: entry into the terminate phase)
//
// closeInternal initialises the restart counter with initializeRestartCount(), i.e. with
// MaxConfigure; MaxTerminate is never read. Against a silent peer the number of Terminate-Requests
// is MaxConfigure (10 by default) instead of the configured MaxTerminate (2 by default).
func TestReplayVC(t *testing.T) {
	var sent [][]byte
	cfg := DefaultLCPConfig() // MaxTerminate 2, MaxConfigure 10
	cfg.MagicNumber = 0x11223344
	cfg.RestartTimer = time.Hour // timer expiries are delivered explicitly below
	lcp, err := NewLCPStateMachine(cfg, func(proto uint16, data []byte) {
		sent = append(sent, append([]byte(nil), data...))
	}, zap.NewNop())
	if err != nil {
		fmt.Println("REPLAY-SETUP-FAILED", err)
		return
	}
	lcp.Open()
	lcp.Up()
	first := sent[len(sent)-1]
	lcp.ReceivePacket([]byte{LCPCodeConfigRequest, 9, 0, 14, LCPOptMRU, 4, 0x05, 0xd4, LCPOptMagicNumber, 6, 1, 2, 3, 4})
	ack := append([]byte(nil), first...)
	ack[0] = LCPCodeConfigAck
	lcp.ReceivePacket(ack)
	if !lcp.IsOpened() {
		fmt.Println("REPLAY-SETUP-FAILED: not Opened")
		return
	}
	n0 := len(sent)
	lcp.Close()
	// silent peer: every restart-timer expiry is a timeout event
	for i := 0; i < 100 && lcp.GetState() == LCPStateClosing; i++ {
		lcp.timeout()
	}
	lcp.stopTimer()
	tr := 0
	for _, p := range sent[n0:] {
		if p[0] == LCPCodeTermRequest {
			tr++
		}
	}
	if tr > cfg.MaxTerminate {
		fmt.Printf("REPLAY-VIOLATED: %d Terminate-Requests sent to a silent peer, configured MaxTerminate=%d (MaxConfigure=%d); final state %s\n", tr, cfg.MaxTerminate, cfg.MaxConfigure, lcp.GetState())
		return
	}
	fmt.Println("REPLAY-OK")
}
