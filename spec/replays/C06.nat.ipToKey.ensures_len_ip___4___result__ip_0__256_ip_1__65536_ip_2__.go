package nat

import (
	"fmt"
	"net"
	"testing"

	"github.com/cilium/ebpf"
	"go.uber.org/zap"
)

// The control plane allocates a NAT block for 10.0.1.100 through AllocateNAT,
// writing into a real kernel hash map with the key/value sizes of
// subscriber_nat. bpf/nat44.c looks the block up with ip->saddr as loaded from
// the frame (key bytes 0a 00 01 64) and writes block.public_ip into ip->saddr as
// it is, so key and public_ip must hold the address bytes in network order.
func TestReplayVC(t *testing.T) {
	sn, err := ebpf.NewMap(&ebpf.MapSpec{Type: ebpf.Hash, KeySize: 4, ValueSize: 64, MaxEntries: 8})
	if err != nil {
		fmt.Println("REPLAY-SETUP-FAILED (cannot create a BPF map here):", err)
		return
	}
	defer sn.Close()
	m, err := NewManager(ManagerConfig{Interface: "lo"}, zap.NewNop())
	if err != nil {
		fmt.Println("REPLAY-SETUP-FAILED", err)
		return
	}
	m.subscriberNAT = sn
	pub := net.IPv4(203, 0, 113, 1).To4()
	if err := m.AddPublicIP(pub); err != nil {
		fmt.Println("REPLAY-SETUP-FAILED", err)
		return
	}
	priv := net.IPv4(10, 0, 1, 100).To4()
	if _, err := m.AllocateNAT(priv); err != nil {
		fmt.Println("REPLAY-SETUP-FAILED", err)
		return
	}
	frameKey := [4]byte{priv[0], priv[1], priv[2], priv[3]}
	var val [64]byte
	if err := sn.Lookup(&frameKey, &val); err != nil {
		var k [4]byte
		it := sn.Iterate()
		it.Next(&k, &val)
		fmt.Printf("REPLAY-VIOLATED: the NAT block of %s is stored under key bytes % x with public_ip bytes % x; nat44_egress looks up % x and finds nothing (%v), so the subscriber is never translated\n",
			priv, k[:], val[0:4], frameKey[:], err)
		return
	}
	if val[0] != pub[0] || val[1] != pub[1] || val[2] != pub[2] || val[3] != pub[3] {
		fmt.Printf("REPLAY-VIOLATED: block.public_ip bytes are % x, the program writes them into ip->saddr unchanged\n", val[0:4])
		return
	}
	fmt.Println("REPLAY-OK")
}
