package govc

import (
	"fmt"
	"go/scanner"
	"go/token"
	"os"
	"path/filepath"
	"strconv"
	"strings"

	"golang.org/x/tools/go/packages"
)

// SExpr is a specification expression.
type SExpr struct {
	Op   string // ident int str bool nil | binop names | not neg | field index update slice call old forall exists in ite
	Name string
	Args []*SExpr
	Vars []SBinder
	Pats [][]*SExpr // quantifier triggers: forall x T {t1, t2} {t3} :: body  (each group is one multi-pattern)
	Src  string
}

type SBinder struct{ Name, Type string }

func (e *SExpr) String() string {
	if e == nil {
		return "<nil>"
	}
	if e.Src != "" {
		return e.Src
	}
	return e.Op + ":" + e.Name
}

// FuncSpec is the contract of one function.
type FuncSpec struct {
	Key       string
	Requires  []*SExpr
	Ensures   []*SExpr
	Modifies  []*SExpr // nil = unspecified; empty non-nil = nothing
	ModAll    bool
	Pure      bool
	Decreases *SExpr
	Trusted   bool   // contract assumed, body not verified (external or out of subset)
	Mode      string // int | bv
	Line      int
	File      string
	Params    []string // for interface/func-type contracts: parameter names
	Sets      []GhostSet // ghost assignments performed in the caller when the call returns
	Ghosts    []GhostSet // ghost variables of the function with their entry values
	GhostExit []GhostAssign // ghost field assignments performed at function exit
	Lemmas    []NamedExpr   // "lemma name: expr" inside a func block: proved in the entry state of that function, without its requires; never assumed
	CallSite  bool          // assumed contract of one external call site ("callsite" block)
	PerExit   bool          // "perexit": ensures are checked at every return separately instead of on the merged exit state
	Indep     bool          // "indep": every ensures clause is proved on its own (earlier ensures clauses are not assumed for later ones)
}

// GhostAssign is "x.f = expr" for a ghost field f.
type GhostAssign struct {
	Target *SExpr
	E      *SExpr
}

// GhostSet is "name = expr".
type GhostSet struct {
	Name string
	Type string
	E    *SExpr
}

type LoopSpec struct {
	Key        string
	Invariants []*SExpr
	Iteration  []*SExpr // checked at the end of every iteration; iter(e) = e in the state at the loop head
	Decreases  *SExpr
	Modifies   []*SExpr
}

type TypeSpec struct {
	Name  string // pkg.Type
	Invs  []NamedExpr
	Owns  map[string][]string // mutex field -> owned fields
	GhostFields map[string]string // ghost field -> type name
}

type NamedExpr struct {
	Name string
	E    *SExpr
}

type PureFunc struct {
	Name   string
	Params []SBinder
	Ret    string
	Body   *SExpr
	Rec    bool
	Pkg    string
	Uninterp bool // "ghost func": uninterpreted (deterministic) function over the argument sorts
}

type SpecSet struct {
	Funcs  map[string]*FuncSpec
	Loops  map[string]*LoopSpec
	Types  map[string]*TypeSpec
	Pures  map[string]*PureFunc // by pkg.name and by name
	Lemmas map[string]*NamedExpr
	CallSites map[string]*FuncSpec // "pkg.Func:callee#n" -> assumed contract of that external call site
	Ghosts map[string]bool // package-level ghost variables declared with "ghostvar" (pkg.name), mathematical integers
	Files  []string
	Assumed []string // trusted contracts, scanned mechanically
}

// LoadSpecs reads the //@ lines of every verif_contracts.go in loaded packages.
func LoadSpecs(p *Program) (*SpecSet, error) {
	ss := &SpecSet{Funcs: map[string]*FuncSpec{}, Loops: map[string]*LoopSpec{}, Types: map[string]*TypeSpec{},
		Pures: map[string]*PureFunc{}, Lemmas: map[string]*NamedExpr{}, Ghosts: map[string]bool{}, CallSites: map[string]*FuncSpec{}}
	// contract files of the loaded packages and of every repository package they import
	seen := map[string]bool{}
	var visit func(path string, imports map[string]*packages.Package)
	addDir := func(pkgPath string) error {
		if seen[pkgPath] {
			return nil
		}
		seen[pkgPath] = true
		if p.ModPath == "" || !(pkgPath == p.ModPath || strings.HasPrefix(pkgPath, p.ModPath+"/")) {
			return nil
		}
		f := filepath.Join(p.RepoDir, strings.TrimPrefix(strings.TrimPrefix(pkgPath, p.ModPath), "/"), "verif_contracts.go")
		b, err := os.ReadFile(f)
		if err != nil {
			return nil
		}
		ss.Files = append(ss.Files, f)
		return ss.parseFile(ShortPkg(pkgPath), f, string(b))
	}
	var firstErr error
	visit = func(path string, imports map[string]*packages.Package) {
		if err := addDir(path); err != nil && firstErr == nil {
			firstErr = err
		}
		for ip, ipkg := range imports {
			if !seen[ip] {
				visit(ip, ipkg.Imports)
			}
		}
	}
	for _, pkg := range p.Pkgs {
		visit(pkg.PkgPath, pkg.Imports)
	}
	if firstErr != nil {
		return nil, firstErr
	}
	return ss, nil
}

func (ss *SpecSet) parseFile(pkg, file, text string) error {
	var curF *FuncSpec
	var curL *LoopSpec
	var curT *TypeSpec
	lines := strings.Split(text, "\n")
	// join continuation lines: a //@ line starting with more indentation and not a keyword continues the previous clause
	type item struct {
		line int
		text string
	}
	var items []item
	kw := map[string]bool{"func": true, "loop": true, "type": true, "pure": true, "lemma": true, "requires": true, "ensures": true,
		"modifies": true, "decreases": true, "invariant": true, "inv": true, "owns": true, "mode": true, "trusted": true, "iface": true, "functype": true, "sets": true, "ghost": true, "ghost_exit": true, "ghostvar": true, "iteration": true, "callsite": true, "perexit": true, "indep": true}
	for i, ln := range lines {
		t := strings.TrimSpace(ln)
		if !strings.HasPrefix(t, "//@") {
			continue
		}
		body := strings.TrimSpace(t[3:])
		if body == "" {
			continue
		}
		if j := strings.Index(body, " //"); j >= 0 {
			body = strings.TrimSpace(body[:j])
		}
		first := body
		if j := strings.IndexAny(body, " \t"); j >= 0 {
			first = body[:j]
		}
		if kw[first] || len(items) == 0 {
			items = append(items, item{i + 1, body})
		} else {
			items[len(items)-1].text += " " + body
		}
	}
	for _, it := range items {
		body := it.text
		first, rest := body, ""
		if j := strings.IndexAny(body, " \t"); j >= 0 {
			first, rest = body[:j], strings.TrimSpace(body[j+1:])
		}
		errf := func(format string, a ...interface{}) error {
			return fmt.Errorf("%s:%d: %s", file, it.line, fmt.Sprintf(format, a...))
		}
		parse := func(s string) (*SExpr, error) {
			e, err := ParseSpecExpr(s)
			if err != nil {
				return nil, errf("%v in %q", err, s)
			}
			return e, nil
		}
		switch first {
		case "func", "iface", "functype":
			key := funcSpecKey(pkg, rest)
			curF = &FuncSpec{Key: key, Line: it.line, File: file}
			if first != "func" {
				curF.Trusted = true
				// "iface Store.Get(ctx, key)" : parameter names in parentheses
				if i := strings.Index(rest, "("); i >= 0 && strings.HasSuffix(rest, ")") && !strings.HasPrefix(rest, "(") {
					names := strings.Split(rest[i+1:len(rest)-1], ",")
					for _, n := range names {
						curF.Params = append(curF.Params, strings.TrimSpace(n))
					}
					curF.Key = pkg + "." + strings.TrimSpace(rest[:i])
				}
				ss.Assumed = append(ss.Assumed, first+" "+curF.Key)
			}
			if prev := ss.Funcs[curF.Key]; prev != nil {
				// a second block would silently replace the first one
				return errf("duplicate contract block for %s (first at %s:%d)", curF.Key, prev.File, prev.Line)
			}
			ss.Funcs[curF.Key] = curF
			curL, curT = nil, nil
		case "callsite":
			// "callsite Func callee#n": assumed contract of the n-th call (source order of evaluation) of the
			// external function callee (full name, e.g. sort.Slice) inside Func; locals of Func are
			// visible, old() is the state before the call; modifies: x.f or elems(s)
			fs := strings.Fields(rest)
			if len(fs) != 2 {
				return errf("callsite needs: Func callee#n")
			}
			key := funcSpecKey(pkg, fs[0]) + ":" + fs[1]
			curF = &FuncSpec{Key: key, Line: it.line, File: file, Trusted: true, CallSite: true}
			ss.CallSites[key] = curF
			ss.Assumed = append(ss.Assumed, "callsite "+key)
			curL, curT = nil, nil
		case "perexit":
			if curF == nil {
				return errf("perexit outside func")
			}
			curF.PerExit = true
		case "indep":
			if curF == nil {
				return errf("indep outside func")
			}
			curF.Indep = true
		case "loop":
			key := pkg + "." + strings.TrimSpace(rest)
			curL = &LoopSpec{Key: key}
			ss.Loops[key] = curL
			curF, curT = nil, nil
		case "type":
			key := pkg + "." + strings.TrimSpace(rest)
			curT = &TypeSpec{Name: key, Owns: map[string][]string{}, GhostFields: map[string]string{}}
			ss.Types[key] = curT
			curF, curL = nil, nil
		case "pure":
			if rest == "" && curF != nil {
				curF.Pure = true // bare clause inside a func block
				break
			}
			pf, err := parsePure(rest)
			if err != nil {
				return errf("%v", err)
			}
			pf.Pkg = pkg
			ss.Pures[pkg+"."+pf.Name] = pf
			ss.Pures[pf.Name] = pf
		case "lemma":
			i := strings.Index(rest, ":")
			if i < 0 {
				return errf("lemma needs name: expr")
			}
			e, err := parse(rest[i+1:])
			if err != nil {
				return err
			}
			if curF != nil && !curF.CallSite {
				curF.Lemmas = append(curF.Lemmas, NamedExpr{strings.TrimSpace(rest[:i]), e})
				continue
			}
			ss.Lemmas[pkg+"."+strings.TrimSpace(rest[:i])] = &NamedExpr{strings.TrimSpace(rest[:i]), e}
		case "requires", "ensures":
			if curF == nil {
				return errf("%s outside func", first)
			}
			e, err := parse(rest)
			if err != nil {
				return err
			}
			if first == "requires" {
				curF.Requires = append(curF.Requires, e)
			} else {
				curF.Ensures = append(curF.Ensures, e)
			}
		case "modifies":
			var tgt *[]*SExpr
			if curF != nil {
				tgt = &curF.Modifies
			} else if curL != nil {
				tgt = &curL.Modifies
			} else {
				return errf("modifies outside func/loop")
			}
			if *tgt == nil {
				*tgt = []*SExpr{}
			}
			switch rest {
			case "nothing":
			case "*":
				if curF != nil {
					curF.ModAll = true
				}
			default:
				for _, part := range splitTop(rest, ',') {
					e, err := parse(part)
					if err != nil {
						return err
					}
					*tgt = append(*tgt, e)
				}
			}
		case "decreases":
			e, err := parse(rest)
			if err != nil {
				return err
			}
			if curF != nil {
				curF.Decreases = e
			} else if curL != nil {
				curL.Decreases = e
			}
		case "ghostvar":
			for _, g := range strings.Fields(strings.ReplaceAll(rest, ",", " ")) {
				ss.Ghosts[pkg+"."+g] = true
			}
			curF, curL, curT = nil, nil, nil
		case "iteration":
			if curL == nil {
				return errf("iteration outside loop")
			}
			e, err := parse(rest)
			if err != nil {
				return err
			}
			curL.Iteration = append(curL.Iteration, e)
		case "invariant":
			if curL == nil {
				return errf("invariant outside loop")
			}
			e, err := parse(rest)
			if err != nil {
				return err
			}
			curL.Invariants = append(curL.Invariants, e)
		case "inv":
			if curT == nil {
				return errf("inv outside type")
			}
			i := strings.Index(rest, ":")
			if i < 0 {
				return errf("inv needs name: expr")
			}
			e, err := parse(rest[i+1:])
			if err != nil {
				return err
			}
			curT.Invs = append(curT.Invs, NamedExpr{strings.TrimSpace(rest[:i]), e})
		case "owns":
			if curT == nil {
				return errf("owns outside type")
			}
			i := strings.Index(rest, ":")
			if i < 0 {
				return errf("owns needs mutex: fields")
			}
			curT.Owns[strings.TrimSpace(rest[:i])] = strings.Fields(rest[i+1:])
		case "mode":
			if curF != nil {
				curF.Mode = rest
			}
		case "ghost_exit":
			if curF == nil {
				return errf("ghost_exit outside func")
			}
			i := strings.Index(rest, "=")
			if i < 0 {
				return errf("ghost_exit needs x.f = expr")
			}
			tgt, err := parse(rest[:i])
			if err != nil {
				return err
			}
			e, err := parse(rest[i+1:])
			if err != nil {
				return err
			}
			curF.GhostExit = append(curF.GhostExit, GhostAssign{tgt, e})
		case "sets", "ghost":
			if first == "ghost" && strings.HasPrefix(rest, "func ") {
				// "ghost func name(a T, b U) R": uninterpreted spec function (no body)
				pf, err := parseGhostFunc(rest)
				if err != nil {
					return errf("%v", err)
				}
				pf.Pkg = pkg
				ss.Pures[pkg+"."+pf.Name] = pf
				ss.Pures[pf.Name] = pf
				ss.Assumed = append(ss.Assumed, "ghost func "+pkg+"."+pf.Name+": uninterpreted total function of its arguments")
				continue
			}
			if first == "ghost" && curT != nil && curF == nil {
				fs := strings.Fields(rest)
				if len(fs) != 2 {
					return errf("ghost field needs: ghost name type")
				}
				curT.GhostFields[fs[0]] = fs[1]
				continue
			}
			if curF == nil {
				return errf("%s outside func", first)
			}
			i := strings.Index(rest, "=")
			if i < 0 {
				return errf("%s needs name = expr", first)
			}
			e, err := parse(rest[i+1:])
			if err != nil {
				return err
			}
			lhs := strings.Fields(strings.TrimSpace(rest[:i]))
			gs := GhostSet{Name: lhs[0], E: e}
			if len(lhs) > 1 {
				gs.Type = lhs[1]
			}
			if first == "sets" {
				curF.Sets = append(curF.Sets, gs)
			} else {
				curF.Ghosts = append(curF.Ghosts, gs)
			}
		case "trusted":
			if curF != nil {
				curF.Trusted = true
				ss.Assumed = append(ss.Assumed, "trusted "+curF.Key+": "+rest)
			}
		default:
			return errf("unknown clause %q", first)
		}
		if first == "pure" && curF != nil && rest == "" {
			curF.Pure = true
		}
	}
	return nil
}

// funcSpecKey parses "(a *IPAllocator) Allocate" or "ParseTags".
func funcSpecKey(pkg, s string) string {
	s = strings.TrimSpace(s)
	if strings.HasPrefix(s, "(") {
		i := strings.Index(s, ")")
		recv := strings.Fields(strings.TrimSpace(s[1:i]))
		t := recv[len(recv)-1]
		t = strings.TrimPrefix(t, "*")
		name := strings.TrimSpace(s[i+1:])
		return pkg + "." + t + "." + name
	}
	return pkg + "." + s
}

func splitTop(s string, sep byte) []string {
	var out []string
	d := 0
	last := 0
	for i := 0; i < len(s); i++ {
		switch s[i] {
		case '(', '[':
			d++
		case ')', ']':
			d--
		default:
			if s[i] == sep && d == 0 {
				out = append(out, strings.TrimSpace(s[last:i]))
				last = i + 1
			}
		}
	}
	out = append(out, strings.TrimSpace(s[last:]))
	return out
}

// parseGhostFunc parses "func name(a T, b U) R" (after the leading "ghost").
func parseGhostFunc(s string) (*PureFunc, error) {
	s = strings.TrimSpace(strings.TrimPrefix(strings.TrimSpace(s), "func "))
	i := strings.Index(s, "(")
	j := strings.LastIndex(s, ")")
	if i < 0 || j < i {
		return nil, fmt.Errorf("malformed ghost func %q", s)
	}
	pf := &PureFunc{Name: strings.TrimSpace(s[:i]), Ret: strings.TrimSpace(s[j+1:]), Uninterp: true}
	if pf.Ret == "" {
		return nil, fmt.Errorf("ghost func %s needs a result type", pf.Name)
	}
	for _, p := range splitTop(s[i+1:j], ',') {
		if p == "" {
			continue
		}
		fs := strings.Fields(p)
		if len(fs) != 2 {
			return nil, fmt.Errorf("bad param %q", p)
		}
		pf.Params = append(pf.Params, SBinder{fs[0], fs[1]})
	}
	return pf, nil
}

// parsePure parses "func name(a T, b U) R = expr" (after the leading "pure").
func parsePure(s string) (*PureFunc, error) {
	s = strings.TrimSpace(s)
	rec := false
	if strings.HasPrefix(s, "rec ") {
		rec = true
		s = strings.TrimSpace(s[4:])
	}
	if !strings.HasPrefix(s, "func ") {
		return nil, fmt.Errorf("pure needs func")
	}
	s = strings.TrimSpace(s[5:])
	i := strings.Index(s, "(")
	j := strings.Index(s, ")")
	eq := strings.Index(s, "=")
	// find the '=' that is not part of ==, <=, >=, !=
	for eq >= 0 {
		if eq+1 < len(s) && s[eq+1] == '=' {
			nx := strings.Index(s[eq+2:], "=")
			if nx < 0 {
				eq = -1
			} else {
				eq = eq + 2 + nx
			}
			continue
		}
		if eq > 0 && strings.ContainsRune("<>!=:", rune(s[eq-1])) {
			nx := strings.Index(s[eq+1:], "=")
			if nx < 0 {
				eq = -1
			} else {
				eq = eq + 1 + nx
			}
			continue
		}
		break
	}
	if i < 0 || j < i || eq < j {
		return nil, fmt.Errorf("malformed pure func %q", s)
	}
	pf := &PureFunc{Name: strings.TrimSpace(s[:i]), Ret: strings.TrimSpace(s[j+1 : eq]), Rec: rec}
	for _, p := range splitTop(s[i+1:j], ',') {
		if p == "" {
			continue
		}
		fs := strings.Fields(p)
		if len(fs) != 2 {
			return nil, fmt.Errorf("bad param %q", p)
		}
		pf.Params = append(pf.Params, SBinder{fs[0], fs[1]})
	}
	e, err := ParseSpecExpr(s[eq+1:])
	if err != nil {
		return nil, err
	}
	pf.Body = e
	return pf, nil
}

// ---- expression parser ----

type stok struct {
	tok token.Token
	lit string
	pos int
}

type sparser struct {
	toks []stok
	i    int
	src  string
}

func ParseSpecExpr(src string) (*SExpr, error) {
	src = strings.TrimSpace(src)
	fset := token.NewFileSet()
	file := fset.AddFile("", fset.Base(), len(src))
	var s scanner.Scanner
	var errs []string
	s.Init(file, []byte(src), func(pos token.Position, msg string) { errs = append(errs, msg) }, 0)
	p := &sparser{src: src}
	for {
		pos, tok, lit := s.Scan()
		if tok == token.EOF {
			break
		}
		if tok == token.SEMICOLON && lit == "\n" {
			continue
		}
		p.toks = append(p.toks, stok{tok, lit, int(pos) - file.Base()})
	}
	if len(errs) > 0 {
		return nil, fmt.Errorf("scan: %s", strings.Join(errs, "; "))
	}
	e, err := p.parseExpr()
	if err != nil {
		return nil, err
	}
	if p.i < len(p.toks) {
		return nil, fmt.Errorf("unexpected %q at %d", p.cur().String(), p.cur().pos)
	}
	e.Src = src
	return e, nil
}

func (t stok) String() string {
	if t.lit != "" {
		return t.lit
	}
	return t.tok.String()
}

func (p *sparser) cur() stok {
	if p.i < len(p.toks) {
		return p.toks[p.i]
	}
	return stok{tok: token.EOF}
}
func (p *sparser) peek(k int) stok {
	if p.i+k < len(p.toks) {
		return p.toks[p.i+k]
	}
	return stok{tok: token.EOF}
}
func (p *sparser) next() stok { t := p.cur(); p.i++; return t }
func (p *sparser) accept(tok token.Token) bool {
	if p.cur().tok == tok {
		p.i++
		return true
	}
	return false
}
func (p *sparser) expect(tok token.Token) error {
	if !p.accept(tok) {
		return fmt.Errorf("expected %s, got %q at %d", tok, p.cur().String(), p.cur().pos)
	}
	return nil
}

func (p *sparser) isIdent(name string) bool {
	return p.cur().tok == token.IDENT && p.cur().lit == name
}

// adjacent reports whether tokens i and i+1 touch in the source.
func (p *sparser) adjacent(a, b stok) bool { return a.pos+len(a.String()) == b.pos }

func (p *sparser) parseExpr() (*SExpr, error) {
	if p.isIdent("forall") || p.isIdent("exists") {
		q := p.next().lit
		var bs []SBinder
		for {
			if p.cur().tok != token.IDENT {
				return nil, fmt.Errorf("binder name expected")
			}
			name := p.next().lit
			ty, err := p.parseTypeName()
			if err != nil {
				return nil, err
			}
			bs = append(bs, SBinder{name, ty})
			if !p.accept(token.COMMA) {
				break
			}
		}
		var pats [][]*SExpr
		for p.cur().tok == token.LBRACE {
			p.next()
			var grp []*SExpr
			for {
				t, err := p.parseExpr()
				if err != nil {
					return nil, err
				}
				grp = append(grp, t)
				if !p.accept(token.COMMA) {
					break
				}
			}
			if err := p.expect(token.RBRACE); err != nil {
				return nil, err
			}
			pats = append(pats, grp)
		}
		if err := p.expect(token.COLON); err != nil {
			return nil, err
		}
		if err := p.expect(token.COLON); err != nil {
			return nil, err
		}
		body, err := p.parseExpr()
		if err != nil {
			return nil, err
		}
		return &SExpr{Op: q, Vars: bs, Pats: pats, Args: []*SExpr{body}}, nil
	}
	return p.parseIff()
}

func (p *sparser) parseTypeName() (string, error) {
	var b strings.Builder
	// [] prefix, * prefix, qualified names, map[K]V
	for {
		t := p.cur()
		switch t.tok {
		case token.LBRACK:
			p.next()
			b.WriteString("[")
			if p.cur().tok == token.INT {
				b.WriteString(p.next().lit)
			}
			if err := p.expect(token.RBRACK); err != nil {
				return "", err
			}
			b.WriteString("]")
			continue
		case token.MUL:
			p.next()
			b.WriteString("*")
			continue
		case token.MAP:
			p.next()
			if err := p.expect(token.LBRACK); err != nil {
				return "", err
			}
			k, err := p.parseTypeName()
			if err != nil {
				return "", err
			}
			if err := p.expect(token.RBRACK); err != nil {
				return "", err
			}
			v, err := p.parseTypeName()
			if err != nil {
				return "", err
			}
			b.WriteString("map[" + k + "]" + v)
			return b.String(), nil
		case token.IDENT:
			p.next()
			b.WriteString(t.lit)
			if p.cur().tok == token.PERIOD && p.peek(1).tok == token.IDENT {
				p.next()
				b.WriteString("." + p.next().lit)
			}
			return b.String(), nil
		}
		return "", fmt.Errorf("type expected at %d, got %q", t.pos, t.String())
	}
}

func (p *sparser) parseIff() (*SExpr, error) {
	l, err := p.parseImplies()
	if err != nil {
		return nil, err
	}
	// <==> : LSS EQL GTR adjacent
	// (the Go scanner splits "<==>" as "<=" "=" ">")
	for (p.cur().tok == token.LSS && p.peek(1).tok == token.EQL && p.peek(2).tok == token.GTR) ||
		(p.cur().tok == token.LEQ && p.peek(1).tok == token.ASSIGN && p.peek(2).tok == token.GTR && p.adjacent(p.cur(), p.peek(1))) {
		p.i += 3
		r, err := p.parseImplies()
		if err != nil {
			return nil, err
		}
		l = &SExpr{Op: "iff", Args: []*SExpr{l, r}}
	}
	return l, nil
}

func (p *sparser) parseImplies() (*SExpr, error) {
	l, err := p.parseOr()
	if err != nil {
		return nil, err
	}
	if p.cur().tok == token.EQL && p.peek(1).tok == token.GTR && p.adjacent(p.cur(), p.peek(1)) {
		p.i += 2
		var r *SExpr
		if p.isIdent("forall") || p.isIdent("exists") {
			r, err = p.parseExpr()
		} else {
			r, err = p.parseImplies()
		}
		if err != nil {
			return nil, err
		}
		return &SExpr{Op: "implies", Args: []*SExpr{l, r}}, nil
	}
	return l, nil
}

func (p *sparser) parseOr() (*SExpr, error) {
	l, err := p.parseAnd()
	if err != nil {
		return nil, err
	}
	for p.cur().tok == token.LOR {
		p.next()
		r, err := p.parseAnd()
		if err != nil {
			return nil, err
		}
		l = &SExpr{Op: "or", Args: []*SExpr{l, r}}
	}
	return l, nil
}

func (p *sparser) parseAnd() (*SExpr, error) {
	l, err := p.parseCmp()
	if err != nil {
		return nil, err
	}
	for p.cur().tok == token.LAND {
		p.next()
		var r *SExpr
		if p.isIdent("forall") || p.isIdent("exists") {
			r, err = p.parseExpr()
		} else {
			r, err = p.parseCmp()
		}
		if err != nil {
			return nil, err
		}
		l = &SExpr{Op: "and", Args: []*SExpr{l, r}}
	}
	return l, nil
}

func (p *sparser) parseCmp() (*SExpr, error) {
	l, err := p.parseAdd()
	if err != nil {
		return nil, err
	}
	for {
		t := p.cur()
		op := ""
		switch t.tok {
		case token.EQL:
			if p.peek(1).tok == token.GTR && p.adjacent(t, p.peek(1)) {
				return l, nil
			}
			op = "eq"
		case token.NEQ:
			op = "ne"
		case token.LSS:
			if p.peek(1).tok == token.EQL && p.peek(2).tok == token.GTR {
				return l, nil
			}
			op = "lt"
		case token.LEQ:
			if p.peek(1).tok == token.ASSIGN && p.peek(2).tok == token.GTR && p.adjacent(t, p.peek(1)) {
				return l, nil
			}
			op = "le"
		case token.GTR:
			op = "gt"
		case token.GEQ:
			op = "ge"
		case token.IDENT:
			if t.lit == "in" {
				op = "in"
			}
		case token.NOT:
			if p.peek(1).tok == token.IDENT && p.peek(1).lit == "in" {
				p.next()
				op = "notin"
			}
		}
		if op == "" {
			return l, nil
		}
		p.next()
		r, err := p.parseAdd()
		if err != nil {
			return nil, err
		}
		isCmp := func(o string) bool { return o == "lt" || o == "le" || o == "gt" || o == "ge" }
		switch {
		case op == "notin":
			l = &SExpr{Op: "not", Args: []*SExpr{{Op: "in", Args: []*SExpr{l, r}}}}
		case isCmp(op) && isCmp(l.Op):
			// chained comparison a <= b < c
			l = &SExpr{Op: "and", Args: []*SExpr{l, {Op: op, Args: []*SExpr{l.Args[1], r}}}}
		case isCmp(op) && l.Op == "and" && len(l.Args) == 2 && isCmp(l.Args[1].Op):
			l = &SExpr{Op: "and", Args: []*SExpr{l, {Op: op, Args: []*SExpr{l.Args[1].Args[1], r}}}}
		default:
			l = &SExpr{Op: op, Args: []*SExpr{l, r}}
		}
	}
}

func (p *sparser) parseAdd() (*SExpr, error) {
	l, err := p.parseMul()
	if err != nil {
		return nil, err
	}
	for p.cur().tok == token.ADD || p.cur().tok == token.SUB {
		op := map[token.Token]string{token.ADD: "add", token.SUB: "sub"}[p.next().tok]
		r, err := p.parseMul()
		if err != nil {
			return nil, err
		}
		l = &SExpr{Op: op, Args: []*SExpr{l, r}}
	}
	return l, nil
}

func (p *sparser) parseMul() (*SExpr, error) {
	l, err := p.parseUnary()
	if err != nil {
		return nil, err
	}
	for p.cur().tok == token.MUL || p.cur().tok == token.QUO || p.cur().tok == token.REM {
		op := map[token.Token]string{token.MUL: "mul", token.QUO: "div", token.REM: "mod"}[p.next().tok]
		r, err := p.parseUnary()
		if err != nil {
			return nil, err
		}
		l = &SExpr{Op: op, Args: []*SExpr{l, r}}
	}
	return l, nil
}

func (p *sparser) parseUnary() (*SExpr, error) {
	switch p.cur().tok {
	case token.NOT:
		p.next()
		x, err := p.parseUnary()
		if err != nil {
			return nil, err
		}
		return &SExpr{Op: "not", Args: []*SExpr{x}}, nil
	case token.SUB:
		p.next()
		x, err := p.parseUnary()
		if err != nil {
			return nil, err
		}
		return &SExpr{Op: "neg", Args: []*SExpr{x}}, nil
	}
	return p.parsePostfix()
}

func (p *sparser) parsePostfix() (*SExpr, error) {
	x, err := p.parsePrimary()
	if err != nil {
		return nil, err
	}
	for {
		switch p.cur().tok {
		case token.PERIOD:
			p.next()
			if p.cur().tok != token.IDENT {
				return nil, fmt.Errorf("field name expected at %d", p.cur().pos)
			}
			x = &SExpr{Op: "field", Name: p.next().lit, Args: []*SExpr{x}}
		case token.LBRACK:
			p.next()
			if p.cur().tok == token.COLON {
				p.next()
				hi, err := p.parseExpr()
				if err != nil {
					return nil, err
				}
				if err := p.expect(token.RBRACK); err != nil {
					return nil, err
				}
				x = &SExpr{Op: "slice", Args: []*SExpr{x, nil, hi}}
				continue
			}
			i, err := p.parseExpr()
			if err != nil {
				return nil, err
			}
			switch p.cur().tok {
			case token.DEFINE:
				p.next()
				v, err := p.parseExpr()
				if err != nil {
					return nil, err
				}
				if err := p.expect(token.RBRACK); err != nil {
					return nil, err
				}
				x = &SExpr{Op: "update", Args: []*SExpr{x, i, v}}
			case token.COLON:
				p.next()
				var hi *SExpr
				if p.cur().tok != token.RBRACK {
					hi, err = p.parseExpr()
					if err != nil {
						return nil, err
					}
				}
				if err := p.expect(token.RBRACK); err != nil {
					return nil, err
				}
				x = &SExpr{Op: "slice", Args: []*SExpr{x, i, hi}}
			default:
				if err := p.expect(token.RBRACK); err != nil {
					return nil, err
				}
				x = &SExpr{Op: "index", Args: []*SExpr{x, i}}
			}
		case token.LPAREN:
			p.next()
			var args []*SExpr
			for p.cur().tok != token.RPAREN {
				a, err := p.parseExpr()
				if err != nil {
					return nil, err
				}
				args = append(args, a)
				if !p.accept(token.COMMA) {
					break
				}
			}
			if err := p.expect(token.RPAREN); err != nil {
				return nil, err
			}
			x = &SExpr{Op: "call", Args: append([]*SExpr{x}, args...)}
		default:
			return x, nil
		}
	}
}

func (p *sparser) parsePrimary() (*SExpr, error) {
	t := p.cur()
	switch t.tok {
	case token.IDENT:
		p.next()
		switch t.lit {
		case "true", "false":
			return &SExpr{Op: "bool", Name: t.lit}, nil
		case "nil":
			return &SExpr{Op: "nil"}, nil
		}
		return &SExpr{Op: "ident", Name: t.lit}, nil
	case token.INT:
		p.next()
		lit := strings.ReplaceAll(t.lit, "_", "")
		if strings.HasPrefix(lit, "0x") || strings.HasPrefix(lit, "0X") {
			v, err := strconv.ParseUint(lit[2:], 16, 64)
			if err != nil {
				return nil, err
			}
			lit = strconv.FormatUint(v, 10)
		}
		return &SExpr{Op: "int", Name: lit}, nil
	case token.STRING:
		p.next()
		s, err := strconv.Unquote(t.lit)
		if err != nil {
			return nil, err
		}
		return &SExpr{Op: "str", Name: s}, nil
	case token.LPAREN:
		p.next()
		e, err := p.parseExpr()
		if err != nil {
			return nil, err
		}
		if err := p.expect(token.RPAREN); err != nil {
			return nil, err
		}
		return e, nil
	case token.MUL:
		// *p dereference
		p.next()
		x, err := p.parseUnary()
		if err != nil {
			return nil, err
		}
		return &SExpr{Op: "deref", Args: []*SExpr{x}}, nil
	}
	return nil, fmt.Errorf("unexpected %q at %d", t.String(), t.pos)
}
