package check

func init() {
	register(&PropDef{
		ID:    "C15",
		Title: "CoA and Disconnect requests are acted on only if authentic",
		Pkgs:  []string{"./pkg/radius"},
		Funcs: []string{
			"radius.CoAServer.receiveLoop",
			"radius.CoAServer.verifyRequestAuthenticator",
			"radius.parseAttributes",
			"radius.CoAServer.parseCoARequest", "radius.CoAServer.parseDisconnectRequest",
			"radius.CoAServer.handleCoARequest", "radius.CoAServer.handleDisconnectRequest",
			"radius.CoAServer.sendCoAResponse", "radius.CoAServer.sendDisconnectResponse",
			"radius.CoAServer.sendResponse",
		},
		ServiceLoops: []string{"radius.CoAServer.receiveLoop#1"},
		Trusted: []string{
			"functype radius.CoAHandler / radius.DisconnectHandler (injected callbacks): return a non-nil response, do not write to the CoA socket, do not modify the listener's receive buffer (they hold no reference to it: parseAttributes copies every attribute value); each call counts as one invocation of a session-changing handler (ghost handlerCalls)",
			"engine library model crypto/md5 + hash.Hash: New/Write/Sum over uninterpreted hash_init/hash_absorb/hash_sum on byte sequences (bseq extensional, digest bytes in 0..255); []byte(string) copies the string's bytes",
			"engine library model (*net.UDPConn).ReadFromUDP / WriteToUDP: ghost record of the datagram just received (udp_rx_buf, udp_rx_n; contents arbitrary, 0 <= n <= len(buf)) and of every datagram handed to the socket (udp_tx_count, snapshot udp_tx_mem/off/len); WriteToUDP does not modify program memory",
			"encoding/binary big-endian accessors, zap logging and sync/atomic counters have no effect on modelled state",
		},
		Undecided: []string{
			"well-formedness of the attribute TLVs is taken as parseAttributes' verdict (err == nil); no independent specification of the TLV grammar is proved here (a trailing single octet after the last attribute is ignored by parseAttributes)",
			"an authentic datagram whose code is neither 40 nor 43 is dropped silently; the property is read as ranging over CoA-Request and Disconnect-Request codes",
			"'session-changing': what the registered handler does to the session is outside the listener; only the fact that it is invoked (or not) before the ACK/NAK is decided",
			"whether WriteToUDP succeeds: the ghost counts datagrams handed to the socket; a send error is only logged by the code",
			"the byte-level content of attributes other than Error-Cause and Reply-Message (none are emitted)",
			"concurrent mutation of the receive buffer: receiveLoop is the only goroutine using buf (not checked by the engine)",
		},
		Assumptions: []string{
			"function inputs are type-valid Go values; buffer contents and the byte count returned by ReadFromUDP are unconstrained (every datagram)",
			"nil-dereference / index panics are outside this property (C09); func-mode verification assumes them away",
			"MD5 is uninterpreted: authenticity is 'the 16 octets at offset 4 equal hash_sum of the RFC 5176 input sequence under the configured secret', proved for every interpretation of the hash symbols",
		},
		Explanation: "Contract-based: verifyRequestAuthenticator ensures result <==> reqAuthOK (the RFC 5176 Request Authenticator written independently of the code over the uninterpreted hash model, including the 16-byte comparison loop). handleCoARequest/handleDisconnectRequest REQUIRE that the datagram most recently received is complete (n >= 20, 20 <= Length <= n), that its authenticator verifies under s.secret, that its code matches the handler, and that the identifier/authenticator arguments are taken from it; these requires are checked at the two call sites in receiveLoop for arbitrary buffer contents and n (only-if direction). Two 'iteration' clauses on the receive loop give the if direction (read ok, complete, authentic, attributes accepted, code 40/43 ==> exactly one datagram is handed to the socket in this iteration) and at-most-one response per datagram. sendResponse ensures the datagram sent has the given code and identifier, Length = 20 + attributes (for datagrams that fit UDP), well-formed Error-Cause/Reply-Message attributes and a Response Authenticator that verifies against the request authenticator and secret; the handlers ensure the response code is ACK/NAK of the right kind, carries the request identifier and authenticates against the unchanged request authenticator. Two obligations do not discharge and are genuine (replays in replays/C15_*): the 1-octet Reply-Message length overflows for messages longer than 253 octets; handleCoARequest answers CoA-ACK when no handler is registered.",
	})
}
