package check

func init() {
	register(&PropDef{
		ID:    "C16",
		Title: "Ending a session by any path releases everything it held",
		Pkgs:  []string{"./pkg/dhcp", "./pkg/ebpf", "./pkg/pppoe", "./pkg/subscriber", "./pkg/qos", "./pkg/radius"},
		Funcs: []string{
			// DHCPv4
			"dhcp.Server.releaseLease", "dhcp.Server.handleRelease", "dhcp.Server.handleDecline", "dhcp.Server.cleanupExpiredLeases",
			"dhcp.Pool.Release", "dhcp.Pool.MarkUnavailable", "dhcp.PoolManager.GetPool",
			"ebpf.Loader.HasVLANSupport", "ebpf.Loader.HasCircuitIDSubscriberSupport",
			// PPPoE teardown component (teardown.go)
			"pppoe.SessionTeardown.cleanup", "pppoe.SessionTeardown.sendAccountingStop", "pppoe.SessionTeardown.gatherStats",
			"pppoe.SessionTeardown.HandleClientPADT", "pppoe.SessionTeardown.TerminateSession", "pppoe.SessionTeardown.waitForLCPTermAck",
			"pppoe.SessionTeardown.TerminateByID", "pppoe.SessionTeardown.TerminateByMAC", "pppoe.SessionTeardown.TerminateByUsername",
			"pppoe.SessionTeardown.TerminateAll",
			"pppoe.SessionManager.detach", "pppoe.Session.Duration",
			// PPPoE server (server.go): PADT, LCP Terminate-Request, authentication failure, idle timeout (frame), shutdown
			"pppoe.Server.handlePADT", "pppoe.Server.handleLCPTermRequest", "pppoe.Server.handlePAP", "pppoe.Server.endSession",
			"pppoe.Server.expireSessions", "pppoe.Server.Stop", "pppoe.Server.handleIPCPConfigAck",
			// subscriber.Manager: administrative / RADIUS disconnect, session and idle timeout
			"subscriber.Manager.TerminateSession", "subscriber.Manager.cleanupExpiredSessions", "subscriber.Manager.emitEvent",
			"subscriber.Manager.CreateSession", "subscriber.NewManager", "subscriber.Manager.AssignAddress",
			// the removers of the fast-path and QoS kernel maps: one Delete per loaded map, whatever the key
			"ebpf.Loader.RemoveSubscriber", "ebpf.Loader.RemoveCircuitIDSubscriber", "ebpf.Loader.RemoveCircuitIDMapping", "ebpf.Loader.RemoveVLANSubscriber", "qos.Manager.RemoveSubscriberQoS",
		},
		Trusted: []string{
			"ebpf.Loader.RemoveSubscriber / RemoveVLANSubscriber / RemoveCircuitIDSubscriber / RemoveCircuitIDMapping, qos.Manager.RemoveSubscriberQoS: trusted frames (write kernel maps / their own tables only); each call is observed by the caller through a ghost counter",
			"nat.Manager.DeallocateNAT: frame verified under C10's contracts; radius.Client.SendAccounting: contract verified under C08 (ghost counters acctStops / acctStarts)",
			"pppoe.SessionManager.GetAllSessions: trusted read-only snapshot (frame, non-nil elements); the body is not verified because the engine cannot re-establish the quantified byte-content lock invariant SessionManager.rev across the allocation of the result slice",
			"pppoe callbacks SessionTeardown.updateEBPFMaps / sendPADT / sendLCPTermReq, interface IPPoolAllocator.Release, subscriber.AddressAllocator.ReleaseIPv4/ReleaseIPv6 and subscriber.EventHandler: assumed frames (modify nothing the caller can see); each call is observed through a ghost counter",
			"pppoe.IPPool.Release, SessionManager.RemoveSession / GetSession / GetSessionByMAC / CleanupExpired, Session.SetState / GetState, Server.sendPPPPacket / startIPCPNegotiation, radius.Client.Authenticate: called through their contracts, which are verified under C01/C05, C20 and C04",
		},
		Undecided: []string{
			"'exactly one Accounting-Stop' (DHCPv4): the Stop is sent by a goroutine spawned by releaseLease; the goroutine body is executed inline at the spawn point (it is assumed to run to completion), delivery/retry is C08",
			"that the kernel maps no longer answer for the lease / session after the Remove* calls (kernel side, C03); for PPPoE the fast-path entry is behind the updateEBPFMaps callback: that it is invoked exactly once with remove=true is decided, what it does (and that cleanup continues when it returns an error) is not",
			"two termination paths racing for the same session: decided through the monitor model only (DHCPv4: the lease is removed under leasesMu before releaseLease runs; PPPoE teardown component: SessionManager.detach decides under the table lock who tears down; subscriber.Manager: the session leaves the table in the critical section that found it)",
			"PPPoE server paths (handlePADT, handleLCPTermRequest, endSession) look the session up and remove it in separate critical sections; they are serialised by the single receive goroutine and the address release is keyed by the session's unique Acct-Session-Id (a second release is a no-op by IPPool.Release's contract), so a repeated end releases nothing twice; this argument is not an obligation",
			"PPPoE idle timeout (Server.expireSessions): frame and 'no accounting record' only; that the address of every expired session is released is confirmed by replay under C01/C05, the count is not decided (snapshot / CleanupExpired / GetSession are three critical sections)",
			"PPPoE dead-peer detection (KeepAliveManager.terminateSession callback) and LCP/IPCP automaton callbacks: the callbacks are supplied by the embedding code, which does not exist in this repository; not under contract",
			"SessionTeardown used without a session table (SetSessionManager never called): there is no table to decide who tears down, a repeated termination is not detected (wasLive stays -1 and everything is released again)",
			"subscriber.Manager.AssignAddress racing with TerminateSession (an address allocated for a session that was ended meanwhile is never released) and sessions whose NAT / QoS / accounting are released by EventSessionTerminate handlers registered by the embedding code: not under contract; that exactly one terminate event is emitted per ended session is decided",
			"shutdown of the DHCPv4 server and of subscriber.Manager (Stop cancels the loops, sessions are not ended) is not a termination path in the code and is not claimed",
		},
		Assumptions: []string{
			"go func(){...}() closures are executed inline at the spawn point (mode goinline)",
			"Server.leasesMu owns leases, leasesByCircuitIDMu owns leasesByCircuitID; Pool.mu and PoolManager.poolsMu own their tables; pppoe.SessionManager.mu owns sessions / macToSession / nextID, pppoe.Session.mu owns State / EstablishedAt / LastActivity / LCPIdentifier, SessionTeardown.mu owns nothing (it serialises teardowns); subscriber.Manager.mu owns sessions / byMAC / byIP / stats (monitor model)",
			"pkg/pppoe allocates no NAT block and installs no QoS policy (it imports neither pkg/nat nor pkg/qos): a PPPoE session holds its table / MAC-index entry, its pool address, its fast-path entry (teardown component only) and its accounting session",
			"Session.AcctStarted is true iff an Accounting-Start was issued for the session; nothing in pkg/pppoe issues one (Server: acctStarts == 0 is an obligation of handlePAP / handleIPCPConfigAck), so the flag is only ever set by embedding code",
		},
		Explanation: "Every release operation increments a ghost counter in its caller through the 'sets' clause of its contract. DHCPv4: releaseLease (the single teardown path) ensures the address went back to its pool exactly once (quarantined for DECLINE), NAT and QoS were removed exactly once when configured, exactly one Accounting-Stop was issued iff a RADIUS session had been started, and the MAC, VLAN-pair and circuit-id fast-path entries were removed when the corresponding cache exists; handleRelease / handleDecline / cleanupExpiredLeases ensure that releaseLease ran exactly once per lease removed under leasesMu and not at all otherwise. PPPoE teardown component: SessionTeardown.cleanup is the single teardown; it first takes the session out of the table (SessionManager.detach, which reports whether this call removed it) and only then releases: pool address once iff the session holds one, fast-path callback once, Accounting-Stop once iff an Accounting-Start was issued (Session.AcctStarted), nothing at all when the session had already left the table (ending twice / by two paths has no further effect). HandleClientPADT, TerminateSession, TerminateByID/MAC/Username/All call cleanup exactly once per session they end and release nothing themselves. PPPoE server: PADT, LCP Terminate-Request, authentication failure (handlePAP -> endSession) and shutdown (Stop -> endSession for every session of the snapshot) remove the session from the table and release its address exactly once; the server issues neither Accounting-Start nor Stop. subscriber.Manager.TerminateSession (operator / RADIUS disconnect / timeout sweep): a session found under the lock leaves the table and its indexes in that critical section, its IPv4 / IPv6 addresses are released once each iff held, one terminate event is emitted; a session that is not in the table releases nothing.",
	})
}
