package llvc

// ReplayResult reports whether a counterexample was reproduced on the real,
// natively compiled C code.
type ReplayResult struct {
	Status string `json:"status"` // reproduced | not-reproduced | error
	Detail string `json:"detail"`
	Output string `json:"output,omitempty"`
}

func Replay(mod *Module, res *Result, o *Obligation, m *Model) (*ReplayResult, error) {
	return &ReplayResult{Status: "error", Detail: "not implemented"}, nil
}
