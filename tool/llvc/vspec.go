package llvc

import (
	"fmt"
	"math/big"
	"os"
	"path/filepath"
	"strconv"
	"strings"

	"bngvc/smt"
)

// vspec: a small typed s-expression language in which functional
// specifications of BPF programs are written (files *.vspec next to
// programs.json).  A specification talks about the INPUTS of a program run
// only -- the received frame, the context, the contents of the maps at entry
// (ghost maps: presence and value bytes as functions of the key bytes, the
// same uninterpreted functions the helper contract of bpf_map_lookup_elem
// uses), helper results by call ordinal -- never about program variables.
//
//   file    := form*
//   form    := (define NAME expr) | (scope expr) | (verdict expr) | (case NAME expr)
//            | (contract NAME expr)            ; extra named obligations (bit-vector reading, about the program)
//            | (math NAME expr)                ; lemma about the definitions in the integer reading (see vsEnv)
//            | (lemma NAME expr)               ; bit-vector lemma about (any W) values, proved without the program state
//   expr    := NAME | literal | (op expr*) | (let ((NAME expr)*) expr) | (if c a b)
//   literal := #xHH.. | #bBB.. | (bv VALUE WIDTH) | true | false
//   frame   := len                                   ; initial length, 64 bit
//            | (pkt OFF) | (pkt-be N OFF)            ; byte / N bytes big-endian at OFF (OFF: integer or 64-bit expr)
//   ctx     := (ctx-le N OFF)                        ; N bytes little-endian of the context struct at entry
//   free    := (any W)                               ; an arbitrary W-bit value (fresh per occurrence)
//   maps    := (map-has MAP KEY)                     ; entry present at program entry
//            | (map-byte MAP KEY OFF) | (map-be N MAP KEY OFF) | (map-le N MAP KEY OFF)
//            | (key-struct e1 ... en)                ; key from fields in memory order (each a little-endian value)
//   ops     := and or not => = distinct bvult bvule bvugt bvuge bvslt bvsle bvsgt bvsge
//              bvadd bvsub bvmul bvudiv bvurem bvand bvor bvxor bvshl bvlshr bvnot
//              concat (extract HI LO e) (zext W e) (bswap e)
//
// Integers in OFF/N/W/HI/LO positions are decimal literals.

type vsVal struct {
	t smt.Term
	w int    // 0 = Bool
	i string // the same value over mathematical integers (Int / Bool term); see mathematical mode below
}

type sx struct {
	atom string
	list []*sx
	isL  bool
	line int
}

func parseSx(text string) ([]*sx, error) {
	var out []*sx
	var stack []*sx
	line := 1
	i, n := 0, len(text)
	push := func(x *sx) {
		if len(stack) == 0 {
			out = append(out, x)
		} else {
			top := stack[len(stack)-1]
			top.list = append(top.list, x)
		}
	}
	for i < n {
		c := text[i]
		switch {
		case c == '\n':
			line++
			i++
		case c == ' ' || c == '\t' || c == '\r':
			i++
		case c == ';':
			for i < n && text[i] != '\n' {
				i++
			}
		case c == '(':
			x := &sx{isL: true, line: line}
			push(x)
			stack = append(stack, x)
			i++
		case c == ')':
			if len(stack) == 0 {
				return nil, fmt.Errorf("line %d: unbalanced ')'", line)
			}
			stack = stack[:len(stack)-1]
			i++
		default:
			j := i
			for j < n && !strings.ContainsRune(" \t\r\n();", rune(text[j])) {
				j++
			}
			push(&sx{atom: text[i:j], line: line})
			i = j
		}
	}
	if len(stack) != 0 {
		return nil, fmt.Errorf("line %d: unbalanced '('", stack[len(stack)-1].line)
	}
	return out, nil
}

// FuncSpec is a compiled functional specification.
type FuncSpec struct {
	File      string
	Scope     smt.Term // Bool; True if absent
	Verdict   smt.Term // BV32; empty if absent
	Contracts []NamedTerm
	Cases     []NamedTerm // optional case split of the verdict obligation (each: scope and case => ret == verdict)
	Defines   []NamedTerm // in file order (for models)
	Lemmas    []MathLemma // (lemma NAME expr): bit-vector lemmas about (any W) values, independent of the program state
	Math      []MathLemma // (math NAME expr): lemmas over mathematical integers about the definitions of this file
}

// MathLemma is one obligation over Int: the SMT-LIB text is unsat iff the lemma holds.
type MathLemma struct {
	Name  string
	Query string
}

type NamedTerm struct {
	Name string
	T    smt.Term
	W    int
}

type vsEnv struct {
	e    *executor
	vars map[string]vsVal
	file string
	hook *hookCtx
	// mathematical mode: every value also has a term over Int in which
	// bvadd/bvmul/bvsub/bvudiv/bvurem are +, *, -, div, mod; each such
	// operation records the side condition under which the two readings
	// agree (no wrap / no borrow / divisor not 0), guarded by the enclosing
	// (if ..) conditions.  Anything else (frame bytes, map bytes, call
	// observations, bit operations) is an unconstrained integer of its width.
	leafOf map[string]string // bit-vector term -> Int constant
	leaves []mathLeaf
	guard  []string
	sides  []mathSide
}

type mathLeaf struct {
	name string
	w    int
	bv   string
}

type mathSide struct {
	guard string
	cond  string
	what  string
}

func pow2(w int) string {
	return new(big.Int).Lsh(big.NewInt(1), uint(w)).String()
}

func (v *vsEnv) curGuard() string {
	if len(v.guard) == 0 {
		return "true"
	}
	return "(and " + strings.Join(v.guard, " ") + ")"
}

func (v *vsEnv) side(cond, what string) {
	v.sides = append(v.sides, mathSide{v.curGuard(), cond, what})
}

// leafInt returns the Int constant standing for an opaque bit-vector / Bool term.
func (v *vsEnv) leafInt(r vsVal) string {
	if r.t.IsTrue() {
		return "true"
	}
	if r.t.IsFalse() {
		return "false"
	}
	if c, ok := bvConst(r.t); ok && r.w > 0 && r.w <= 64 {
		return strconv.FormatUint(c&maskOf(r.w), 10)
	}
	if n, ok := v.leafOf[r.t.S]; ok {
		return n
	}
	n := fmt.Sprintf("in%d", len(v.leaves))
	v.leafOf[r.t.S] = n
	v.leaves = append(v.leaves, mathLeaf{n, r.w, r.t.S})
	return n
}

func mkv(t smt.Term, w int, i ...string) vsVal {
	r := vsVal{t: t, w: w}
	if len(i) > 0 {
		r.i = i[0]
	}
	return r
}

// eval evaluates an expression in both readings.
func (v *vsEnv) eval(x *sx) (vsVal, error) {
	r, err := v.evalBV(x)
	if err != nil {
		return r, err
	}
	if r.i == "" {
		r.i = v.leafInt(r)
	}
	return r, nil
}

// hookCtx is what a specification may observe besides the inputs.
//
//	exit hook (default): ret (32 bit), outlen (64 bit), (out OFF), (out-be N OFF): the
//	  frame as the program leaves it
//	call hook "call:<function>": arg0..argN (integer arguments), ret (if any),
//	  (pre-le N ARG OFF) / (post-le N ARG OFF): N bytes little-endian at pointer
//	  argument ARG + OFF before / after the call, (helper-ret NAME K): result of
//	  the K-th call of helper NAME made inside the call, (ctx FIELD): 32-bit context field
//	  (probed offset) before the call
type hookCtx struct {
	outArr    smt.Term
	outMem    *RegMem // exit hooks: the packet memory (overlay of bytes at concrete offsets over a base array)
	pre, post *State
	post2     *State // call2 hooks: state after the second call
	args      []*Val
	calls     []callProbe
}

func (v *vsEnv) errf(x *sx, format string, a ...interface{}) error {
	return fmt.Errorf("%s:%d: %s", v.file, x.line, fmt.Sprintf(format, a...))
}

func (v *vsEnv) intLit(x *sx) (int64, error) {
	if x.isL {
		return 0, v.errf(x, "integer literal expected")
	}
	n, err := strconv.ParseInt(x.atom, 0, 64)
	if err != nil {
		return 0, v.errf(x, "integer literal expected, got %q", x.atom)
	}
	return n, nil
}

// off evaluates an offset operand: integer literal or 64-bit expression.
func (v *vsEnv) off(x *sx) (smt.Term, error) {
	if !x.isL {
		if n, err := strconv.ParseInt(x.atom, 0, 64); err == nil {
			return lit(uint64(n), 64), nil
		}
	}
	o, err := v.eval(x)
	if err != nil {
		return smt.Term{}, err
	}
	if o.w != 64 {
		return smt.Term{}, v.errf(x, "offset must be an integer literal or a 64-bit value (got width %d)", o.w)
	}
	return o.t, nil
}

func (v *vsEnv) mapOf(x *sx) (*MapInfo, error) {
	if x.isL {
		return nil, v.errf(x, "map name expected")
	}
	mi, ok := v.e.mod.Maps[x.atom]
	if !ok || mi.KeySize < 0 {
		return nil, v.errf(x, "no map %q with key/value types in %s", x.atom, v.e.mod.CFile)
	}
	return mi, nil
}

func (v *vsEnv) mapKey(mi *MapInfo, x *sx) (smt.Term, error) {
	k, err := v.eval(x)
	if err != nil {
		return smt.Term{}, err
	}
	if k.w != int(8*mi.KeySize) {
		return smt.Term{}, v.errf(x, "key of map %s must be %d bits wide, got %d", mi.Name, 8*mi.KeySize, k.w)
	}
	return k.t, nil
}

func (v *vsEnv) bytesBE(parts []smt.Term) vsVal {
	return mkv(v.e.tm.concat(parts), 8*len(parts))
}

func (v *vsEnv) evalBV(x *sx) (vsVal, error) {
	tm := v.e.tm
	if !x.isL {
		a := x.atom
		switch {
		case a == "true":
			return mkv(smt.True, 0), nil
		case a == "false":
			return mkv(smt.False, 0), nil
		case a == "len":
			return mkv(v.e.pktLen0, 64), nil
		case strings.HasPrefix(a, "#x"):
			w := 4 * (len(a) - 2)
			if w == 0 || w > 64 {
				return vsVal{}, v.errf(x, "hex literal must have 1..16 digits")
			}
			n, err := strconv.ParseUint(a[2:], 16, 64)
			if err != nil {
				return vsVal{}, v.errf(x, "bad literal %s", a)
			}
			return mkv(lit(n, w), w), nil
		case strings.HasPrefix(a, "#b"):
			w := len(a) - 2
			n, err := strconv.ParseUint(a[2:], 2, 64)
			if err != nil || w == 0 {
				return vsVal{}, v.errf(x, "bad literal %s", a)
			}
			return mkv(lit(n, w), w), nil
		}
		if val, ok := v.vars[a]; ok {
			return val, nil
		}
		return vsVal{}, v.errf(x, "unknown name %q", a)
	}
	if len(x.list) == 0 || x.list[0].isL {
		return vsVal{}, v.errf(x, "operator expected")
	}
	op := x.list[0].atom
	args := x.list[1:]
	need := func(n int) error {
		if len(args) != n {
			return v.errf(x, "%s takes %d arguments", op, n)
		}
		return nil
	}
	evalAll := func() ([]vsVal, error) {
		var out []vsVal
		for _, a := range args {
			r, err := v.eval(a)
			if err != nil {
				return nil, err
			}
			out = append(out, r)
		}
		return out, nil
	}
	switch op {
	case "bv":
		if err := need(2); err != nil {
			return vsVal{}, err
		}
		n, err := v.intLit(args[0])
		if err != nil {
			return vsVal{}, err
		}
		w, err := v.intLit(args[1])
		if err != nil {
			return vsVal{}, err
		}
		if w < 1 || w > 64 {
			return vsVal{}, v.errf(x, "width 1..64")
		}
		return mkv(lit(uint64(n), int(w)), int(w)), nil
	case "let":
		if err := need(2); err != nil {
			return vsVal{}, err
		}
		saved := map[string]*vsVal{}
		for _, b := range args[0].list {
			if !b.isL || len(b.list) != 2 || b.list[0].isL {
				return vsVal{}, v.errf(b, "binding (name expr) expected")
			}
			r, err := v.eval(b.list[1])
			if err != nil {
				return vsVal{}, err
			}
			name := b.list[0].atom
			if old, ok := v.vars[name]; ok {
				o := old
				saved[name] = &o
			} else {
				saved[name] = nil
			}
			v.vars[name] = r
		}
		r, err := v.eval(args[1])
		for name, old := range saved {
			if old == nil {
				delete(v.vars, name)
			} else {
				v.vars[name] = *old
			}
		}
		return r, err
	case "if", "ite":
		if err := need(3); err != nil {
			return vsVal{}, err
		}
		c, err := v.eval(args[0])
		if err != nil {
			return vsVal{}, err
		}
		v.guard = append(v.guard, c.i)
		a, err := v.eval(args[1])
		v.guard = v.guard[:len(v.guard)-1]
		if err != nil {
			return vsVal{}, err
		}
		v.guard = append(v.guard, "(not "+c.i+")")
		b, err := v.eval(args[2])
		v.guard = v.guard[:len(v.guard)-1]
		if err != nil {
			return vsVal{}, err
		}
		if c.w != 0 || a.w != b.w {
			return vsVal{}, v.errf(x, "if: Bool condition and equally typed branches expected")
		}
		return mkv(smt.Ite(c.t, a.t, b.t), a.w, "(ite "+c.i+" "+a.i+" "+b.i+")"), nil
	case "pkt":
		if err := need(1); err != nil {
			return vsVal{}, err
		}
		o, err := v.off(args[0])
		if err != nil {
			return vsVal{}, err
		}
		return mkv(smt.Select(v.e.res.pkt0, o), 8), nil
	case "pkt-be":
		if err := need(2); err != nil {
			return vsVal{}, err
		}
		n, err := v.intLit(args[0])
		if err != nil {
			return vsVal{}, err
		}
		o, err := v.off(args[1])
		if err != nil {
			return vsVal{}, err
		}
		var parts []smt.Term
		for i := int64(0); i < n; i++ {
			parts = append(parts, smt.Select(v.e.res.pkt0, tm.addConst(o, uint64(i))))
		}
		return v.bytesBE(parts), nil
	case "ctx-le":
		if err := need(2); err != nil {
			return vsVal{}, err
		}
		n, err := v.intLit(args[0])
		if err != nil {
			return vsVal{}, err
		}
		o, err := v.intLit(args[1])
		if err != nil {
			return vsVal{}, err
		}
		var parts []smt.Term
		for i := n - 1; i >= 0; i-- {
			parts = append(parts, smt.Select(v.e.res.ctx0, lit(uint64(o+i), 64)))
		}
		return v.bytesBE(parts), nil
	case "map-has":
		if err := need(2); err != nil {
			return vsVal{}, err
		}
		mi, err := v.mapOf(args[0])
		if err != nil {
			return vsVal{}, err
		}
		k, err := v.mapKey(mi, args[1])
		if err != nil {
			return vsVal{}, err
		}
		return mkv(v.e.mapInstance(mi, 0, k).present, 0), nil
	case "map-byte", "map-be", "map-le":
		idx := 0
		n := int64(1)
		if op != "map-byte" {
			if len(args) != 4 {
				return vsVal{}, v.errf(x, "%s takes N MAP KEY OFF", op)
			}
			var err error
			if n, err = v.intLit(args[0]); err != nil {
				return vsVal{}, err
			}
			idx = 1
		} else if err := need(3); err != nil {
			return vsVal{}, err
		}
		mi, err := v.mapOf(args[idx])
		if err != nil {
			return vsVal{}, err
		}
		k, err := v.mapKey(mi, args[idx+1])
		if err != nil {
			return vsVal{}, err
		}
		o, err := v.intLit(args[idx+2])
		if err != nil {
			return vsVal{}, err
		}
		if o < 0 || o+n > mi.ValueSize {
			return vsVal{}, v.errf(x, "bytes %d..%d outside the %d-byte value of map %s", o, o+n, mi.ValueSize, mi.Name)
		}
		inst := v.e.mapInstance(mi, 0, k)
		var parts []smt.Term
		for i := int64(0); i < n; i++ {
			b := inst.bytes[o+i]
			if op == "map-le" {
				parts = append([]smt.Term{b}, parts...)
			} else {
				parts = append(parts, b)
			}
		}
		return v.bytesBE(parts), nil
	case "key-struct":
		rs, err := evalAll()
		if err != nil {
			return vsVal{}, err
		}
		var parts []smt.Term
		w := 0
		for i := len(rs) - 1; i >= 0; i-- {
			if rs[i].w == 0 || rs[i].w%8 != 0 {
				return vsVal{}, v.errf(x, "key-struct fields must be whole bytes")
			}
			parts = append(parts, rs[i].t)
			w += rs[i].w
		}
		return mkv(tm.concat(parts), w), nil
	case "concat":
		rs, err := evalAll()
		if err != nil {
			return vsVal{}, err
		}
		var parts []smt.Term
		w := 0
		for _, r := range rs {
			if r.w == 0 {
				return vsVal{}, v.errf(x, "concat of Bool")
			}
			parts = append(parts, r.t)
			w += r.w
		}
		return mkv(tm.concat(parts), w), nil
	case "extract":
		if err := need(3); err != nil {
			return vsVal{}, err
		}
		hi, err := v.intLit(args[0])
		if err != nil {
			return vsVal{}, err
		}
		lo, err := v.intLit(args[1])
		if err != nil {
			return vsVal{}, err
		}
		r, err := v.eval(args[2])
		if err != nil {
			return vsVal{}, err
		}
		if lo < 0 || hi < lo || int(hi) >= r.w {
			return vsVal{}, v.errf(x, "extract range")
		}
		return mkv(tm.extract(r.t, int(hi), int(lo)), int(hi-lo+1)), nil
	case "zext":
		if err := need(2); err != nil {
			return vsVal{}, err
		}
		w, err := v.intLit(args[0])
		if err != nil {
			return vsVal{}, err
		}
		r, err := v.eval(args[1])
		if err != nil {
			return vsVal{}, err
		}
		if r.w == 0 || int(w) < r.w {
			return vsVal{}, v.errf(x, "zext to a smaller width")
		}
		return mkv(tm.zext(r.t, r.w, int(w)), int(w), r.i), nil
	case "out", "out-be":
		if v.hook == nil || v.hook.outArr.S == "" {
			return vsVal{}, v.errf(x, "%s is only available in exit specifications", op)
		}
		n := int64(1)
		oi := 0
		if op == "out-be" {
			if err := need(2); err != nil {
				return vsVal{}, err
			}
			var err error
			if n, err = v.intLit(args[0]); err != nil {
				return vsVal{}, err
			}
			oi = 1
		} else if err := need(1); err != nil {
			return vsVal{}, err
		}
		o, err := v.off(args[oi])
		if err != nil {
			return vsVal{}, err
		}
		var parts []smt.Term
		for i := int64(0); i < n; i++ {
			oi := tm.addConst(o, uint64(i))
			if c, ok := bvConst(oi); ok && v.hook.outMem != nil {
				// a byte at a concrete offset: straight from the overlay (or the
				// untouched base array), not through the store chain
				if b, ok := v.hook.outMem.Ov[int64(c)]; ok {
					parts = append(parts, v.e.byteTerm(b))
				} else {
					parts = append(parts, smt.Select(v.hook.outMem.Base, oi))
				}
				continue
			}
			parts = append(parts, smt.Select(v.hook.outArr, oi))
		}
		return v.bytesBE(parts), nil
	case "pre-le", "post-le", "post2-le":
		if v.hook == nil || v.hook.pre == nil {
			return vsVal{}, v.errf(x, "%s is only available in call specifications", op)
		}
		if err := need(3); err != nil {
			return vsVal{}, err
		}
		n, err := v.intLit(args[0])
		if err != nil {
			return vsVal{}, err
		}
		ai, err := v.intLit(args[1])
		if err != nil {
			return vsVal{}, err
		}
		o, err := v.intLit(args[2])
		if err != nil {
			return vsVal{}, err
		}
		if ai < 0 || int(ai) >= len(v.hook.args) || !v.hook.args[ai].IsPtr {
			return vsVal{}, v.errf(x, "argument %d is not a pointer argument", ai)
		}
		st := v.hook.pre
		if op == "post-le" {
			st = v.hook.post
		}
		if op == "post2-le" {
			if v.hook.post2 == nil {
				return vsVal{}, v.errf(x, "post2-le is only available in call2 specifications")
			}
			st = v.hook.post2
		}
		base := v.hook.args[ai].P
		p := &Ptr{Reg: base.Reg, Off: tm.addConst(base.Off, uint64(o)), OffUB: satAdd(base.OffUB, uint64(o)), Cands: base.Cands}
		val, err := v.e.loadMem(st, p, int(n))
		if err != nil {
			return vsVal{}, v.errf(x, "%v", err)
		}
		return mkv(v.e.bitsOf(val), int(8*n)), nil
	case "ctx":
		// (ctx FIELD): the 32-bit context field FIELD (e.g. len of struct __sk_buff) as the call finds it
		if v.hook == nil || v.hook.pre == nil {
			return vsVal{}, v.errf(x, "ctx is only available in call specifications")
		}
		if err := need(1); err != nil {
			return vsVal{}, err
		}
		fo, ok := v.e.mod.CtxOff[v.e.ctxStruct+"."+args[0].atom]
		if !ok {
			return vsVal{}, v.errf(x, "no probed offset for context field %s.%s", v.e.ctxStruct, args[0].atom)
		}
		cv, err := v.e.loadMem(v.hook.pre, v.e.ptrTo(v.e.regions[ridCtx], fo).P, 4)
		if err != nil {
			return vsVal{}, v.errf(x, "%v", err)
		}
		return mkv(v.e.bitsOf(cv), 32), nil
	case "helper-ret":
		if v.hook == nil {
			return vsVal{}, v.errf(x, "helper-ret is only available in call specifications")
		}
		if err := need(2); err != nil {
			return vsVal{}, err
		}
		k, err := v.intLit(args[1])
		if err != nil {
			return vsVal{}, err
		}
		cnt := int64(0)
		for _, c := range v.hook.calls {
			if c.kind == args[0].atom && c.ret.S != "" {
				if cnt == k {
					return mkv(c.ret, widthOf(c.ret)), nil
				}
				cnt++
			}
		}
		return vsVal{}, v.errf(x, "no call #%d of helper %s inside the call", k, args[0].atom)
	case "any":
		// (any W): an arbitrary W-bit value (a fresh input of the specification)
		if err := need(1); err != nil {
			return vsVal{}, err
		}
		w, err := v.intLit(args[0])
		if err != nil {
			return vsVal{}, err
		}
		if w < 1 || w > 64 {
			return vsVal{}, v.errf(x, "width 1..64")
		}
		return mkv(v.e.fresh("spec_any", int(w)).T, int(w)), nil
	case "bswap":
		if err := need(1); err != nil {
			return vsVal{}, err
		}
		r, err := v.eval(args[0])
		if err != nil {
			return vsVal{}, err
		}
		if r.w == 0 || r.w%8 != 0 {
			return vsVal{}, v.errf(x, "bswap of a non-byte width")
		}
		var parts []smt.Term
		for i := 0; i < r.w/8; i++ {
			parts = append(parts, tm.extract(r.t, 8*i+7, 8*i))
		}
		return mkv(tm.concat(parts), r.w), nil
	}
	rs, err := evalAll()
	if err != nil {
		return vsVal{}, err
	}
	allBool := func() bool {
		for _, r := range rs {
			if r.w != 0 {
				return false
			}
		}
		return true
	}
	sameBV := func() bool {
		if len(rs) == 0 || rs[0].w == 0 {
			return false
		}
		for _, r := range rs {
			if r.w != rs[0].w {
				return false
			}
		}
		return true
	}
	terms := func() []smt.Term {
		var ts []smt.Term
		for _, r := range rs {
			ts = append(ts, r.t)
		}
		return ts
	}
	ints := func() string {
		var is []string
		for _, r := range rs {
			is = append(is, r.i)
		}
		return strings.Join(is, " ")
	}
	switch op {
	case "and", "or":
		if !allBool() {
			return vsVal{}, v.errf(x, "%s of non-Bool", op)
		}
		if len(rs) == 0 {
			return mkv(smt.BoolLit(op == "and"), 0), nil
		}
		if op == "and" {
			return mkv(smt.And(terms()...), 0, "(and "+ints()+" true)"), nil
		}
		return mkv(smt.Or(terms()...), 0, "(or "+ints()+" false)"), nil
	case "not":
		if len(rs) != 1 || !allBool() {
			return vsVal{}, v.errf(x, "not takes one Bool")
		}
		return mkv(smt.Not(rs[0].t), 0, "(not "+rs[0].i+")"), nil
	case "=>":
		if len(rs) != 2 || !allBool() {
			return vsVal{}, v.errf(x, "=> takes two Bools")
		}
		return mkv(smt.Implies(rs[0].t, rs[1].t), 0, "(=> "+ints()+")"), nil
	case "=", "distinct":
		if len(rs) != 2 || rs[0].w != rs[1].w {
			return vsVal{}, v.errf(x, "%s takes two equally typed arguments (widths %v)", op, widths(rs))
		}
		var t smt.Term
		if rs[0].w == 0 {
			t = smt.Eq(rs[0].t, rs[1].t)
		} else {
			t = tm.icmp("eq", rs[0].t, rs[1].t)
		}
		it := "(= " + ints() + ")"
		if op == "distinct" {
			t = smt.Not(t)
			it = "(not " + it + ")"
		}
		return mkv(t, 0, it), nil
	case "bvult", "bvule", "bvugt", "bvuge", "bvslt", "bvsle", "bvsgt", "bvsge":
		if len(rs) != 2 || !sameBV() {
			return vsVal{}, v.errf(x, "%s takes two bit-vectors of one width (widths %v)", op, widths(rs))
		}
		if iop, ok := map[string]string{"bvult": "<", "bvule": "<=", "bvugt": ">", "bvuge": ">="}[op]; ok {
			return mkv(tm.icmp(op[2:], rs[0].t, rs[1].t), 0, "("+iop+" "+ints()+")"), nil
		}
		return mkv(tm.icmp(op[2:], rs[0].t, rs[1].t), 0), nil
	case "bvadd", "bvsub", "bvmul", "bvudiv", "bvurem", "bvand", "bvor", "bvxor", "bvshl", "bvlshr":
		if len(rs) < 2 || !sameBV() {
			return vsVal{}, v.errf(x, "%s takes bit-vectors of one width (widths %v)", op, widths(rs))
		}
		// mathematical reading with the side condition of each binary step
		iv := ""
		if iop, ok := map[string]string{"bvadd": "+", "bvsub": "-", "bvmul": "*", "bvudiv": "div", "bvurem": "mod"}[op]; ok {
			iv = rs[0].i
			for _, r := range rs[1:] {
				nv := "(" + iop + " " + iv + " " + r.i + ")"
				switch op {
				case "bvadd", "bvmul":
					v.side("(< "+nv+" "+pow2(rs[0].w)+")", fmt.Sprintf("%s at line %d fits %d bits", op, x.line, rs[0].w))
				case "bvsub":
					v.side("(>= "+iv+" "+r.i+")", fmt.Sprintf("bvsub at line %d does not borrow", x.line))
				case "bvudiv", "bvurem":
					v.side("(> "+r.i+" 0)", fmt.Sprintf("%s at line %d: divisor not 0", op, x.line))
				}
				iv = nv
			}
		}
		if rs[0].w > 64 {
			// wide arithmetic (reference values): no constant folding
			t := rs[0].t
			for _, r := range rs[1:] {
				t = smt.App(t.Sort, op, t, r.t)
			}
			return mkv(t, rs[0].w, iv), nil
		}
		irOp := map[string]string{"bvadd": "add", "bvsub": "sub", "bvmul": "mul", "bvudiv": "udiv", "bvurem": "urem", "bvand": "and", "bvor": "or", "bvxor": "xor", "bvshl": "shl", "bvlshr": "lshr"}[op]
		t := rs[0].t
		for _, r := range rs[1:] {
			t = tm.binop(irOp, t, r.t)
		}
		return mkv(t, rs[0].w, iv), nil
	case "bvnot":
		if len(rs) != 1 || rs[0].w == 0 {
			return vsVal{}, v.errf(x, "bvnot takes one bit-vector")
		}
		return mkv(smt.App(rs[0].t.Sort, "bvnot", rs[0].t), rs[0].w), nil
	}
	return vsVal{}, v.errf(x, "unknown operator %q", op)
}

func widths(rs []vsVal) []int {
	var w []int
	for _, r := range rs {
		w = append(w, r.w)
	}
	return w
}

// loadFuncSpec compiles a vspec file in the context of the current run.
// extra pre-binds names (program observation points offered by the
// obligation generator, e.g. helper results).
func (e *executor) loadFuncSpec(path string, extra map[string]vsVal, hook *hookCtx) (*FuncSpec, error) {
	if !filepath.IsAbs(path) {
		path = filepath.Join(filepath.Dir(SpecFile), path)
	}
	b, err := os.ReadFile(path)
	if err != nil {
		return nil, err
	}
	forms, err := parseSx(string(b))
	if err != nil {
		return nil, fmt.Errorf("%s: %v", path, err)
	}
	env := &vsEnv{e: e, vars: map[string]vsVal{}, file: path, hook: hook, leafOf: map[string]string{}}
	for k, v := range extra {
		env.vars[k] = v
	}
	fs := &FuncSpec{File: path, Scope: smt.True}
	scopeInt := "true"
	var mathGoals [][2]string
	var mathDefs [][3]string
	for _, f := range forms {
		if !f.isL || len(f.list) == 0 || f.list[0].isL {
			return nil, env.errf(f, "top-level form expected")
		}
		switch f.list[0].atom {
		case "define":
			if len(f.list) != 3 || f.list[1].isL {
				return nil, env.errf(f, "(define NAME expr)")
			}
			r, err := env.eval(f.list[2])
			if err != nil {
				return nil, err
			}
			name := f.list[1].atom
			r.t = e.tm.named("spec_"+name, r.t)
			env.vars[name] = r
			isort := "Int"
			if r.w == 0 {
				isort = "Bool"
			}
			dn := "d_" + smt.Sanitize(name)
			mathDefs = append(mathDefs, [3]string{dn, isort, r.i})
			r.i = dn
			env.vars[name] = r
			fs.Defines = append(fs.Defines, NamedTerm{name, r.t, r.w})
		case "scope":
			r, err := env.eval(f.list[1])
			if err != nil {
				return nil, err
			}
			if r.w != 0 {
				return nil, env.errf(f, "scope must be Bool")
			}
			fs.Scope = e.tm.named("spec_scope", r.t)
			scopeInt = r.i
		case "verdict":
			r, err := env.eval(f.list[1])
			if err != nil {
				return nil, err
			}
			if r.w != 32 {
				return nil, env.errf(f, "verdict must be 32 bits wide")
			}
			fs.Verdict = e.tm.named("spec_verdict", r.t)
		case "case":
			if len(f.list) != 3 || f.list[1].isL {
				return nil, env.errf(f, "(case NAME expr)")
			}
			r, err := env.eval(f.list[2])
			if err != nil {
				return nil, err
			}
			if r.w != 0 {
				return nil, env.errf(f, "case must be Bool")
			}
			fs.Cases = append(fs.Cases, NamedTerm{f.list[1].atom, e.tm.named("spec_case_"+f.list[1].atom, r.t), 0})
		case "lemma":
			if len(f.list) != 3 || f.list[1].isL {
				return nil, env.errf(f, "(lemma NAME expr)")
			}
			nsides := len(env.sides)
			r, err := env.eval(f.list[2])
			env.sides = env.sides[:nsides]
			if err != nil {
				return nil, err
			}
			if r.w != 0 {
				return nil, env.errf(f, "lemma must be Bool")
			}
			fs.Lemmas = append(fs.Lemmas, MathLemma{f.list[1].atom, e.tm.weakQuery([]weakCase{{goal: r.t}})})
		case "math":
			if len(f.list) != 3 || f.list[1].isL {
				return nil, env.errf(f, "(math NAME expr)")
			}
			r, err := env.eval(f.list[2])
			if err != nil {
				return nil, err
			}
			if r.w != 0 {
				return nil, env.errf(f, "math lemma must be Bool")
			}
			mathGoals = append(mathGoals, [2]string{f.list[1].atom, r.i})
		case "contract":
			if len(f.list) != 3 || f.list[1].isL {
				return nil, env.errf(f, "(contract NAME expr)")
			}
			nsides := len(env.sides)
			r, err := env.eval(f.list[2])
			env.sides = env.sides[:nsides] // contracts are claims in the (wrapping) bit-vector reading only
			if err != nil {
				return nil, err
			}
			if r.w != 0 {
				return nil, env.errf(f, "contract must be Bool")
			}
			fs.Contracts = append(fs.Contracts, NamedTerm{f.list[1].atom, r.t, 0})
		default:
			return nil, env.errf(f, "unknown form %q", f.list[0].atom)
		}
	}
	if len(mathGoals) > 0 {
		// common prefix: integer inputs with their ranges, the scope
		var pre strings.Builder
		pre.WriteString("(set-logic ALL)\n")
		for _, l := range env.leaves {
			if l.w == 0 {
				fmt.Fprintf(&pre, "(declare-fun %s () Bool) ; %s\n", l.name, oneLine(l.bv))
			} else {
				fmt.Fprintf(&pre, "(declare-fun %s () Int) ; %d-bit value %s\n(assert (and (>= %s 0) (< %s %s)))\n", l.name, l.w, oneLine(l.bv), l.name, l.name, pow2(l.w))
			}
		}
		for _, d := range mathDefs {
			fmt.Fprintf(&pre, "(define-fun %s () %s %s)\n", d[0], d[1], d[2])
		}
		fmt.Fprintf(&pre, "(assert %s) ; scope\n", scopeInt)
		// 1. the arithmetic of the definitions is exact: every +,*,-,div of the
		// bit-vector reading agrees with the integer reading (proved in order,
		// each assuming the earlier ones)
		var names []string
		for _, l := range env.leaves {
			names = append(names, l.name)
		}
		for _, d := range mathDefs {
			names = append(names, d[0])
		}
		getv := ""
		if len(names) > 0 {
			getv = "(get-value (" + strings.Join(names, " ") + "))\n"
		}
		var assumed strings.Builder
		for k, sd := range env.sides {
			q := pre.String() + assumed.String() + fmt.Sprintf("(assert (not (=> %s %s))) ; %s\n(check-sat)\n", sd.guard, sd.cond, sd.what) + getv
			fs.Math = append(fs.Math, MathLemma{fmt.Sprintf("exact#%d:%s", k, strings.ReplaceAll(sd.what, " ", "_")), q})
			fmt.Fprintf(&assumed, "(assert (=> %s %s))\n", sd.guard, sd.cond)
		}
		// 2. the lemmas, given exact arithmetic
		for _, g := range mathGoals {
			q := pre.String() + assumed.String() + fmt.Sprintf("(assert (not %s)) ; %s\n(check-sat)\n", g[1], g[0]) + getv
			fs.Math = append(fs.Math, MathLemma{g[0], q})
		}
	}
	return fs, nil
}

func oneLine(s string) string {
	if len(s) > 80 {
		s = s[:80] + "..."
	}
	return strings.ReplaceAll(s, "\n", " ")
}
