package pppoe

// Replay for C16.pppoe.Server.Stop.ensures[endCalls__snapshotLen]
// "For every way a subscriber session can end (... shutdown) afterwards its address is back in the pool."
//
// History: two clients establish sessions (PADR, PAP accepted, address assigned); the server is
// stopped. After Stop no session may be left in the table and every address must be free again.

import (
	"encoding/binary"
	"net"
	"testing"
	"time"

	"go.uber.org/zap"
)

type replayStopSocket struct{}

func (replayStopSocket) open(iface string, etherType uint16) error { return nil }
func (replayStopSocket) close() error                              { return nil }
func (replayStopSocket) recv(buf []byte) (int, error)              { time.Sleep(time.Second); return 0, nil }
func (replayStopSocket) send(iface string, dstMAC net.HardwareAddr, etherType uint16, data []byte) error {
	return nil
}

func replayStopPAPFrame(sessionID uint16, id uint8, user, pass string) []byte {
	pap := []byte{PAPCodeAuthRequest, id, 0, 0, byte(len(user))}
	pap = append(pap, user...)
	pap = append(pap, byte(len(pass)))
	pap = append(pap, pass...)
	binary.BigEndian.PutUint16(pap[2:4], uint16(len(pap)))
	payload := make([]byte, 2, 2+len(pap))
	binary.BigEndian.PutUint16(payload, ProtocolPAP)
	payload = append(payload, pap...)
	hdr := &PPPoEHeader{VerType: 0x11, Code: CodeSession, SessionID: sessionID, Length: uint16(len(payload))}
	return append(hdr.Serialize(), payload...)
}

func TestReplayVC(t *testing.T) {
	serverMAC, _ := net.ParseMAC("02:00:00:00:00:01")
	srv, err := NewServerWithInterface(ServerConfig{
		Interface: "eth0", ServerIP: "10.9.0.1", ClientPool: "10.9.0.0/29", PoolGateway: "10.9.0.1",
	}, zap.NewNop(), &net.Interface{Index: 1, MTU: 1500, Name: "eth0", HardwareAddr: serverMAC})
	if err != nil {
		t.Fatal(err)
	}
	srv.socket = replayStopSocket{}
	pool := srv.clientIPPool
	free0 := len(pool.available)

	for i, m := range []string{"aa:bb:cc:dd:ee:11", "aa:bb:cc:dd:ee:12"} {
		mac, _ := net.ParseMAC(m)
		srv.handlePADR(mac, []Tag{{Type: TagACCookie, Value: []byte("cookie")}})
		s := srv.sessions.GetSessionByMAC(mac)
		if s == nil {
			t.Fatal("no session after PADR")
		}
		srv.handleSession(mac, replayStopPAPFrame(s.ID, uint8(i+1), "user", "pw")) // no RADIUS client: accepted
		if s.ClientIP == nil {
			t.Fatal("setup: no address assigned")
		}
	}
	time.Sleep(50 * time.Millisecond) // startLCPNegotiation goroutines
	if len(pool.allocated) != 2 {
		t.Fatalf("setup: %d addresses allocated, want 2", len(pool.allocated))
	}

	if err := srv.Stop(); err != nil {
		t.Fatal(err)
	}

	left, held, free := srv.GetSessionCount(), len(pool.allocated), len(pool.available)
	t.Logf("after Stop: %d sessions in the table, %d addresses still bound, %d of %d free", left, held, free, free0)
	if left != 0 || held != 0 || free != free0 {
		t.Logf("REPLAY-VIOLATED: shutdown ended no session: %d sessions still registered, %d addresses still bound (%d of %d free)", left, held, free, free0)
		return
	}
	t.Logf("REPLAY-OK")
}
