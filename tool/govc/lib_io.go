package govc

import (
	"go/ast"
	"go/types"

	"bngvc/smt"
)

// Library models for stream plumbing and sorting (added for C13 / C17).
//
// Assumed contracts (listed in AssumedLib):
//   - (*json.Decoder).Decode(v): writes an arbitrary type-valid value into *v (v a pointer to a
//     non-opaque type) and may allocate; nothing else of the modelled heap changes.
//   - json.NewDecoder / NewEncoder / (*Encoder).Encode, io.ReadAll: allocate their result only
//     (encoders only read their argument and write to an external io.Writer).
//   - (io.Closer).Close: no effect on the modelled heap.
//   - sort.Strings(x): x[0:len(x)] becomes a permutation of its previous contents, ordered by the
//     string order str_lt (no later element is smaller than an earlier one).

// impureModel lists modelled library functions that write the heap or allocate, so that loops
// containing them are not treated as heap-preserving.
var impureModel = map[string]bool{}

// bumpFrontier lets the callee allocate.
func (fv *funcVerifier) bumpFrontier(st *State) {
	nf := fv.c.Fresh("frontier", smt.Int)
	fv.assume(st, smt.Ge(nf, st.frontier))
	st.frontier = nf
}

// decodeInto models a decoder writing through pointer argument a.
func (fv *funcVerifier) decodeInto(st *State, a ast.Expr) {
	t := fv.typeOf(a)
	p := fv.evalExpr(st, a)
	pt, ok := t.Underlying().(*types.Pointer)
	if !ok {
		fv.note("decode into non-pointer static type %s: heap havocked", t)
		fv.havocAll(st)
		return
	}
	fv.bumpFrontier(st)
	fv.mut++
	v := fv.fresh(st, "decoded", pt.Elem())
	fv.storeAt(st, p, pt.Elem(), v)
}

func init() {
	libModels["(*encoding/json.Decoder).Decode"] = func(fv *funcVerifier, st *State, call *ast.CallExpr, fn *types.Func) []smt.Term {
		fv.evalCallee(st, call.Fun)
		fv.decodeInto(st, call.Args[0])
		return fv.freshResults(st, call, "decode")
	}
	// cilium/ebpf Map.Lookup(key, valueOut) / LookupAndDelete: the kernel map is only read (the
	// delete is counted like Map.Delete); an arbitrary type-valid value is stored through valueOut
	for _, name := range []string{"Lookup", "LookupAndDelete"} {
		name := name
		libModels["(*github.com/cilium/ebpf.Map)."+name] = func(fv *funcVerifier, st *State, call *ast.CallExpr, fn *types.Func) []smt.Term {
			fv.evalCallee(st, call.Fun)
			if len(call.Args) >= 1 {
				fv.evalExpr(st, call.Args[0])
			}
			before := st.clone()
			if len(call.Args) >= 2 {
				fv.decodeInto(st, call.Args[1])
			}
			// the value is stored only when the lookup succeeds: on an error (key not present) the
			// library leaves the output object untouched
			rs := fv.freshResults(st, call, "bpflookup")
			hit := smt.True
			if len(rs) == 1 {
				hit = fv.c.Let("lkhit", smt.Eq(rs[0], smt.IntLit(0)))
				var ks []string
				for k := range st.heap {
					ks = append(ks, k)
				}
				sortStrings(ks)
				for _, k := range ks {
					if b := fv.heapGet(before, k); b.S != st.heap[k].S && b.Sort == st.heap[k].Sort {
						st.heap[k] = fv.c.Let("lkmem", smt.Ite(hit, st.heap[k], b))
					}
				}
			}
			if cur, ok := st.ghost["bpfLookupHits"]; ok && !st.dead() {
				st.ghost["bpfLookupHits"] = fv.c.Let("ghost_bpfLookupHits", smt.Add(cur, smt.Ite(hit, smt.IntLit(1), smt.IntLit(0))))
			}
			// observable through the function-level ghost counter bpfLookups, when declared
			if cur, ok := st.ghost["bpfLookups"]; ok && !st.dead() {
				st.ghost["bpfLookups"] = fv.c.Let("ghost_bpfLookups", smt.Add(cur, smt.IntLit(1)))
			}
			if name == "LookupAndDelete" {
				if cur, ok := st.ghost["bpfDeletes"]; ok && !st.dead() {
					st.ghost["bpfDeletes"] = fv.c.Let("ghost_bpfDeletes", smt.Add(cur, smt.IntLit(1)))
				}
			}
			return rs
		}
		impureModel["(*github.com/cilium/ebpf.Map)."+name] = true
	}
	// os.WriteFile / os.Remove: file-system effects only (no effect on the modelled Go state, results
	// unconstrained, as for the rest of package os); observable through the function-level ghost
	// counters fsWrites / fsRemoves when the contract of the verified function declares them.
	for name, g := range map[string]string{"os.WriteFile": "fsWrites", "os.Remove": "fsRemoves"} {
		g := g
		libModels[name] = func(fv *funcVerifier, st *State, call *ast.CallExpr, fn *types.Func) []smt.Term {
			fv.evalArgs(st, call, fn.Type().(*types.Signature))
			if cur, ok := st.ghost[g]; ok && !st.dead() {
				st.ghost[g] = fv.c.Let("ghost_"+g, smt.Add(cur, smt.IntLit(1)))
			}
			return fv.freshResults(st, call, fn.Name())
		}
	}
	allocOnly := func(fv *funcVerifier, st *State, call *ast.CallExpr, fn *types.Func) []smt.Term {
		for _, a := range call.Args {
			fv.evalExpr(st, a)
		}
		fv.bumpFrontier(st)
		return fv.freshResults(st, call, fn.Name())
	}
	nonNil := func(fv *funcVerifier, st *State, call *ast.CallExpr, fn *types.Func) []smt.Term {
		res := allocOnly(fv, st, call, fn)
		fv.assume(st, smt.Ne(res[0], smt.IntLit(0)))
		return res
	}
	libModels["encoding/json.NewDecoder"] = nonNil
	libModels["encoding/json.NewEncoder"] = nonNil
	libModels["(*encoding/json.Encoder).Encode"] = func(fv *funcVerifier, st *State, call *ast.CallExpr, fn *types.Func) []smt.Term {
		fv.evalCallee(st, call.Fun)
		return allocOnly(fv, st, call, fn)
	}
	libModels["io.ReadAll"] = allocOnly
	noEff := func(fv *funcVerifier, st *State, call *ast.CallExpr, fn *types.Func, recv smt.Term, args []smt.Term) []smt.Term {
		return fv.freshResults(st, call, fn.Name())
	}
	ifaceModels["(io.Closer).Close"] = noEff
	ifaceModels["(io.ReadCloser).Close"] = noEff
	// directory entries returned by os.ReadDir: read-only accessors of library values
	for _, m := range []string{"IsDir", "Name", "Type"} {
		ifaceModels["(io/fs.DirEntry)."+m] = noEff
	}

	// sort.Strings(x): a sorted permutation of the old contents, given by two mutually inverse index
	// maps over indices RELATIVE to the slice offset (element terms keep the shape
	// (select mem (+ off i)) that the triggers of contracts match).
	libModels["sort.Strings"] = func(fv *funcVerifier, st *State, call *ast.CallExpr, fn *types.Func) []smt.Term {
		x := fv.evalExpr(st, call.Args[0])
		fv.declareStrLt()
		key := fv.memKey(types.Typ[types.String])
		fv.instFrames(key, slArr(x))
		h := fv.heapGet(st, key)
		// The slice header may be an ite-merged value; "if" is illegal inside quantifier triggers,
		// so the old contents and the offset are named by constants with defining equations.
		old := fv.c.Fresh("sortold", smt.Arr(smt.Int, StrSort))
		fv.assumeGlobal(smt.Eq(old, smt.Select(h, slArr(x))))
		nw := fv.c.Fresh("sorted", smt.Arr(smt.Int, StrSort))
		perm := fv.c.FreshName("sortperm")
		inv := fv.c.FreshName("sortinv")
		fv.c.DeclareFun(perm, []string{smt.Int}, smt.Int)
		fv.c.DeclareFun(inv, []string{smt.Int}, smt.Int)
		off, n := fv.c.Fresh("sortoff", smt.Int), fv.c.Fresh("sortlen", smt.Int)
		fv.assumeGlobal(smt.And(smt.Eq(off, slOff(x)), smt.Eq(n, slLen(x))))
		i := smt.Term{S: "si", Sort: smt.Int}
		j := smt.Term{S: "sj", Sort: smt.Int}
		in := func(t smt.Term) smt.Term { return smt.And(smt.Ge(t, smt.IntLit(0)), smt.Lt(t, n)) }
		at := func(a, t smt.Term) smt.Term { return smt.Select(a, smt.App(smt.Int, "+", off, t)) }
		pf := func(t smt.Term) smt.Term { return smt.App(smt.Int, perm, t) }
		nf := func(t smt.Term) smt.Term { return smt.App(smt.Int, inv, t) }
		ax1 := func(t smt.Term) smt.Term {
			return smt.Implies(in(t), smt.And(in(pf(t)), smt.Eq(at(nw, t), at(old, pf(t))), smt.Eq(nf(pf(t)), t)))
		}
		ax2 := func(t smt.Term) smt.Term {
			return smt.Implies(in(t), smt.And(in(nf(t)), smt.Eq(at(nw, nf(t)), at(old, t)), smt.Eq(pf(nf(t)), t)))
		}
		fv.assumeGlobal(smt.Forall([]smt.Term{i}, ax1(i), pf(i), at(nw, i)))
		fv.assumeGlobal(smt.Forall([]smt.Term{i}, ax2(i), nf(i), at(old, i)))
		// ground instances for the first and the last element (append-then-sort idiom)
		last := smt.Sub(n, smt.IntLit(1))
		fv.assumeGlobal(smt.And(ax1(smt.IntLit(0)), ax2(smt.IntLit(0)), ax1(last), ax2(last), ax1(nf(last)), ax2(pf(last))))
		fv.assumeGlobal(smt.Forall([]smt.Term{i}, smt.Implies(smt.Or(smt.Lt(i, off), smt.Ge(i, smt.Add(off, n))), smt.Eq(smt.Select(nw, i), smt.Select(old, i))), smt.Select(nw, i)))
		fv.assumeGlobal(smt.Forall([]smt.Term{i, j}, smt.Implies(smt.And(in(i), in(j), smt.Lt(i, j)),
			smt.Not(smt.App(smt.Bool, "str_lt", at(nw, j), at(nw, i)))), smt.Term{S: at(nw, i).S + " " + at(nw, j).S, Sort: smt.Bool}))
		fv.mut++
		fv.heapSet(st, key, smt.Store(h, slArr(x), nw))
		return nil
	}
	// slices.Compact(x): consecutive runs of equal elements are replaced by one copy, in place.
	// Result: same backing array and offset, length <= len(x); every element of the result is an
	// element of x and vice versa (index maps, non-decreasing source positions), adjacent
	// elements of the result differ; the tail of x beyond the new length is unspecified.
	libModels["slices.Compact"] = func(fv *funcVerifier, st *State, call *ast.CallExpr, fn *types.Func) []smt.Term {
		x := fv.evalExpr(st, call.Args[0])
		sl, ok := fv.typeOf(call.Args[0]).Underlying().(*types.Slice)
		if !ok {
			fv.unsupported("slices.Compact of %s", fv.typeOf(call.Args[0]))
		}
		es := fv.so.sortOf(sl.Elem())
		key := fv.memKey(sl.Elem())
		fv.instFrames(key, slArr(x))
		h := fv.heapGet(st, key)
		old := fv.c.Fresh("compactold", smt.Arr(smt.Int, es))
		fv.assumeGlobal(smt.Eq(old, smt.Select(h, slArr(x))))
		nw := fv.c.Fresh("compacted", smt.Arr(smt.Int, es))
		n2 := fv.c.Fresh("compactlen", smt.Int)
		src := fv.c.FreshName("compactsrc")
		dst := fv.c.FreshName("compactdst")
		fv.c.DeclareFun(src, []string{smt.Int}, smt.Int)
		fv.c.DeclareFun(dst, []string{smt.Int}, smt.Int)
		off, n := fv.c.Fresh("compactoff", smt.Int), fv.c.Fresh("compactn", smt.Int)
		fv.assumeGlobal(smt.And(smt.Eq(off, slOff(x)), smt.Eq(n, slLen(x))))
		i := smt.Term{S: "ci", Sort: smt.Int}
		at := func(a, t smt.Term) smt.Term { return smt.Select(a, smt.App(smt.Int, "+", off, t)) }
		sf := func(t smt.Term) smt.Term { return smt.App(smt.Int, src, t) }
		df := func(t smt.Term) smt.Term { return smt.App(smt.Int, dst, t) }
		fv.assumeGlobal(smt.And(smt.Ge(n2, smt.IntLit(0)), smt.Le(n2, n), smt.Implies(smt.Gt(n, smt.IntLit(0)), smt.Gt(n2, smt.IntLit(0)))))
		inNew := func(t smt.Term) smt.Term { return smt.And(smt.Ge(t, smt.IntLit(0)), smt.Lt(t, n2)) }
		inOld := func(t smt.Term) smt.Term { return smt.And(smt.Ge(t, smt.IntLit(0)), smt.Lt(t, n)) }
		fv.assumeGlobal(smt.Forall([]smt.Term{i}, smt.Implies(inNew(i), smt.And(inOld(sf(i)), smt.Ge(sf(i), i), smt.Eq(at(nw, i), at(old, sf(i))))), sf(i), at(nw, i)))
		fv.assumeGlobal(smt.Forall([]smt.Term{i}, smt.Implies(inOld(i), smt.And(inNew(df(i)), smt.Le(df(i), i), smt.Eq(at(nw, df(i)), at(old, i)))), df(i), at(old, i)))
		fv.assumeGlobal(smt.Forall([]smt.Term{i}, smt.Implies(smt.And(smt.Ge(i, smt.IntLit(0)), smt.Lt(smt.Add(i, smt.IntLit(1)), n2)),
			smt.Ne(at(nw, i), at(nw, smt.Add(i, smt.IntLit(1))))), at(nw, i)))
		// the kept elements keep their order: source positions are strictly increasing
		fv.assumeGlobal(smt.Forall([]smt.Term{i}, smt.Implies(smt.And(smt.Ge(i, smt.IntLit(0)), smt.Lt(smt.Add(i, smt.IntLit(1)), n2)),
			smt.Lt(sf(i), sf(smt.Add(i, smt.IntLit(1))))), sf(i)))
		fv.assumeGlobal(smt.Forall([]smt.Term{i}, smt.Implies(smt.Or(smt.Lt(i, off), smt.Ge(i, smt.Add(off, n))), smt.Eq(smt.Select(nw, i), smt.Select(old, i))), smt.Select(nw, i)))
		fv.mut++
		fv.heapSet(st, key, smt.Store(h, slArr(x), nw))
		return []smt.Term{fv.c.Let("compact", mkSlice(slArr(x), slOff(x), n2, slCap(x)))}
	}
	impureModel["slices.Compact"] = true
	for _, f := range []string{"(*encoding/json.Decoder).Decode", "encoding/json.NewDecoder", "encoding/json.NewEncoder",
		"(*encoding/json.Encoder).Encode", "io.ReadAll", "sort.Strings"} {
		impureModel[f] = true
	}
	AssumedLib = append(AssumedLib,
		"(*json.Decoder).Decode: stores an arbitrary type-valid value through the pointer argument, may allocate, changes nothing else; json.NewDecoder/NewEncoder/(*Encoder).Encode, io.ReadAll: allocate only",
		"(io.Closer).Close: no effect on the modelled heap",
		"(io/fs.DirEntry).IsDir/Name/Type: no effect on the modelled heap, unconstrained results",
		"cilium/ebpf Map.Lookup / LookupAndDelete(key, out): on a nil error store an arbitrary type-valid value through out, on an error leave out untouched; change nothing else of the Go state",
		"sort.Strings(x): afterwards x[0:len(x)] is a permutation of its previous contents and no later element is str_lt an earlier one; nothing else changes",
		"slices.Compact(x): in place; the result has the elements of x in order (strictly increasing source positions) without adjacent repeats (index maps both ways), adjacent elements differ, len <= len(x)",
		"os.WriteFile / os.Remove: no effect on the modelled Go state, unconstrained error; each call increments the function-level ghost counter fsWrites / fsRemoves when declared",
		"reads of exported fields of library structs modelled as opaque (e.g. http.Request.Method) are unconstrained")
}
