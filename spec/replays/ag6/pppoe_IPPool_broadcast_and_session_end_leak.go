package pppoe

// Replay for
//   pppoe.isBroadcast.ensures[the all-host-bits-set address of the network is recognised]  (C01: handed-out
//     values exclude the broadcast address, which NewIPPool means to skip: "skip network, gateway, and broadcast")
//   pppoe.Server.handleLCPTermRequest.ensures[s.clientIPPool != nil ==> pppRel == 1]        (C05: a session that ends
//     puts its address back into circulation)
//   pppoe.Server.expireSessions (cleanupLoop): expired sessions give their address back     (C05: expiry)

import (
	"fmt"
	"net"
	"testing"
	"time"

	"go.uber.org/zap"
)

type replaySocket struct{}

func (replaySocket) open(string, uint16) error                           { return nil }
func (replaySocket) close() error                                        { return nil }
func (replaySocket) recv([]byte) (int, error)                            { return 0, fmt.Errorf("none") }
func (replaySocket) send(string, net.HardwareAddr, uint16, []byte) error { return nil }

func TestReplayVC(t *testing.T) {
	defer func() {
		if r := recover(); r != nil {
			fmt.Printf("REPLAY-PANIC: %v\n", r)
		}
	}()
	violated := false

	// 1. the directed broadcast address of the pool network is handed to a client
	pool, err := NewIPPool("10.0.0.0/29", "10.0.0.1")
	if err != nil {
		t.Fatal(err)
	}
	for i := 0; i < 8; i++ {
		ip := pool.Allocate(fmt.Sprintf("s%d", i))
		if ip != nil && ip.Equal(net.ParseIP("10.0.0.7")) {
			fmt.Printf("REPLAY-VIOLATED: session s%d was given %v, the broadcast address of 10.0.0.0/29\n", i, ip)
			violated = true
		}
	}

	// 2. a session terminated by LCP Terminate-Request keeps its address forever
	mac := net.HardwareAddr{2, 0, 0, 0, 0, 1}
	srv := &Server{iface: "x", serverMAC: net.HardwareAddr{2, 0, 0, 0, 0, 9}, logger: zap.NewNop(), sessions: NewSessionManager(), serverIP: net.ParseIP("10.1.0.1"), socket: replaySocket{}}
	srv.clientIPPool, _ = NewIPPool("10.1.0.0/29", "10.1.0.1")
	total := len(srv.clientIPPool.available)
	sess, err := srv.sessions.CreateSession(mac, srv.serverMAC)
	if err != nil {
		t.Fatal(err)
	}
	sess.Authenticated = true
	srv.startIPCPNegotiation(sess)
	srv.handleLCPTermRequest(sess, &LCPPacket{Code: LCPCodeTermRequest, Identifier: 1})
	if srv.sessions.GetSession(sess.ID) == nil && len(srv.clientIPPool.available) != total {
		fmt.Printf("REPLAY-VIOLATED: session ended by LCP Terminate-Request, %d of %d addresses free, %v still bound to the dead session\n", len(srv.clientIPPool.available), total, sess.ClientIP)
		violated = true
	}

	// 3. an expired session keeps its address forever
	srv2 := &Server{iface: "x", serverMAC: net.HardwareAddr{2, 0, 0, 0, 0, 9}, logger: zap.NewNop(), sessions: NewSessionManager(), serverIP: net.ParseIP("10.2.0.1"), socket: replaySocket{}}
	srv2.clientIPPool, _ = NewIPPool("10.2.0.0/29", "10.2.0.1")
	total2 := len(srv2.clientIPPool.available)
	sess2, _ := srv2.sessions.CreateSession(mac, srv2.serverMAC)
	sess2.Authenticated = true
	srv2.startIPCPNegotiation(sess2)
	sess2.LastActivity = time.Now().Add(-time.Hour)
	// one tick of cleanupLoop: the repaired code expires sessions through expireSessions,
	// the original calls SessionManager.CleanupExpired directly
	if e, ok := interface{}(srv2).(interface{ expireSessions(time.Duration) int }); ok {
		e.expireSessions(time.Minute)
	} else {
		srv2.sessions.CleanupExpired(time.Minute)
	}
	if srv2.sessions.GetSession(sess2.ID) == nil && len(srv2.clientIPPool.available) != total2 {
		fmt.Printf("REPLAY-VIOLATED: session expired and removed, %d of %d addresses free, %v still bound to the dead session\n", len(srv2.clientIPPool.available), total2, sess2.ClientIP)
		violated = true
	}
	if !violated {
		fmt.Println("REPLAY-OK")
	}
}
