package dhcp

// Bounded stand-in for the constructor part of the DHCPv4 pool invariants (NewPool /
// generateAvailableIPs build the free list by byte arithmetic the verifier does not model):
// every IPv4 network of prefix length 22..30 at three bases, gateway at every interesting position
// (first host, second host, a middle host, last host, network address, broadcast address, outside),
// reserved ranges {0,1,3} x {0,2}. On each: the free list is duplicate-free, every entry lies strictly
// between the network and the broadcast address, none is the gateway, and the list is exactly the
// hosts minus the reserved ranges minus the gateway.

import (
	"encoding/binary"
	"fmt"
	"net"
	"testing"
	"time"
)

func TestBoundedVC(t *testing.T) {
	bad, n := 0, 0
	report := func(format string, a ...any) {
		if bad < 5 {
			fmt.Printf("BOUNDED-VIOLATED "+format+"\n", a...)
		}
		bad++
	}
	u32 := func(ip net.IP) uint32 { return binary.BigEndian.Uint32(ip.To4()) }
	mk := func(v uint32) net.IP { b := make(net.IP, 4); binary.BigEndian.PutUint32(b, v); return b }
	for plen := 22; plen <= 30; plen++ {
		size := uint32(1) << (32 - plen)
		for _, b0 := range []uint32{0x0A140000, 0xAC10FC00, 0xC0A8FF00} {
			base := b0 &^ (size - 1)
			cidr := fmt.Sprintf("%s/%d", mk(base), plen)
			hosts := int(size) - 2
			for _, gw := range []uint32{base + 1, base + 2, base + size/2, base + size - 2, base, base + size - 1, base + size + 5} {
				for _, rs := range []int{0, 1, 3} {
					for _, re := range []int{0, 2} {
						n++
						p, err := NewPool(PoolConfig{ID: 1, Name: "b", Network: cidr, Gateway: mk(gw).String(), LeaseTime: time.Hour, ReservedStart: rs, ReservedEnd: re})
						if err != nil {
							report("NewPool(%s, gw %v): %v", cidr, mk(gw), err)
							continue
						}
						seen := map[uint32]bool{}
						for _, ip := range p.available {
							if ip == nil || ip.To4() == nil {
								report("NewPool(%s): nil/invalid free-list entry", cidr)
								continue
							}
							v := u32(ip)
							switch {
							case seen[v]:
								report("NewPool(%s, gw %v, reserved %d/%d): %v twice in the free list", cidr, mk(gw), rs, re, ip)
							case v <= base || v >= base+size-1:
								report("NewPool(%s, gw %v, reserved %d/%d): free list contains %v (network/broadcast/outside)", cidr, mk(gw), rs, re, ip)
							case v == gw:
								report("NewPool(%s, gw %v, reserved %d/%d): free list contains the gateway", cidr, mk(gw), rs, re)
							}
							seen[v] = true
						}
						want := 0
						for i := 1; i <= hosts; i++ {
							if i <= rs || i > hosts-re || base+uint32(i) == gw {
								continue
							}
							want++
							if !seen[base+uint32(i)] {
								report("NewPool(%s, gw %v, reserved %d/%d): host %v missing from the free list", cidr, mk(gw), rs, re, mk(base+uint32(i)))
								break
							}
						}
						if len(seen) != want {
							report("NewPool(%s, gw %v, reserved %d/%d): %d addresses in the free list, want %d", cidr, mk(gw), rs, re, len(seen), want)
						}
						if len(p.allocated) != 0 || p.allocated == nil || p.unavailable == nil {
							report("NewPool(%s): tables not empty / nil", cidr)
						}
					}
				}
			}
		}
	}
	if bad != 0 {
		fmt.Printf("BOUNDED-VIOLATED %d deviations in total\n", bad)
		return
	}
	fmt.Printf("BOUNDED-OK %d pool configurations (/22../30, 3 bases, 7 gateway positions, 6 reserved-range settings)\n", n)
}
