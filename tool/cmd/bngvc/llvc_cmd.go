package main

import (
	"encoding/json"
	"flag"
	"fmt"
	"os"
	"path/filepath"
	"runtime"
	"strings"
	"time"

	"bngvc/llvc"
	"bngvc/smt"
)

func init() {
	extraCmds["llvc"] = llvcCmd
	extraCmds["llvc-selftest"] = func(args []string) int { return llvc.SelfTestMain(args) }
	extraCmds["llvc-layouts"] = func(args []string) int { return llvc.LayoutsMain(args) }
}

// bngvc llvc [flags] <file.c> [func ...]
func llvcCmd(args []string) int {
	fs := flag.NewFlagSet("llvc", flag.ExitOnError)
	timeout := fs.Duration("timeout", 10*time.Second, "per-obligation solver timeout")
	workers := fs.Int("j", runtime.NumCPU(), "parallel solver processes")
	prop := fs.String("property", "LLVC", "obligation id prefix")
	verbose := fs.Bool("v", false, "list every obligation")
	dump := fs.String("dump", "", "write the queries of undischarged obligations into this directory")
	cache := fs.String("cache", "", "solver result cache directory (default: none)")
	spec := fs.String("spec", llvc.SpecFile, "program specification file")
	replay := fs.Bool("replay", true, "replay counterexamples on the natively compiled C code")
	jsonOut := fs.String("json", "", "write a machine-readable report to this file")
	kinds := fs.String("kinds", "", "only solve obligations of these kinds (comma separated)")
	confirm := fs.Bool("confirm", false, "confirm every unsat answer with a second solver")
	allSpecs := fs.Bool("all-specs", false, "generate the functional-spec obligations of every property (default: only those of -property)")
	fs.Usage = func() {
		fmt.Fprintln(os.Stderr, "usage: bngvc llvc [flags] <file.c> [func ...]")
		fs.PrintDefaults()
	}
	fs.Parse(args)
	rest := fs.Args()
	if len(rest) < 1 {
		fs.Usage()
		return 2
	}
	cfile := rest[0]
	if !strings.Contains(cfile, "/") {
		if _, err := os.Stat(cfile); err != nil {
			cfile = filepath.Join(llvc.RepoBPFDir, cfile)
		}
	}
	t0 := time.Now()
	mod, err := llvc.Compile(cfile)
	if err != nil {
		fmt.Fprintln(os.Stderr, "llvc:", err)
		return 2
	}
	fmt.Printf("compiled %s: %d functions, %d maps, IR sha256 %s (%.1fs)\n", mod.CFile, len(mod.Functions()), len(mod.Maps), mod.IRSHA[:16], time.Since(t0).Seconds())
	var fns []string
	if len(rest) > 1 {
		fns = rest[1:]
	} else {
		for _, f := range mod.EntryPoints() {
			fns = append(fns, f.Name)
		}
	}
	solver := smt.NewSolver(*timeout, *cache)
	solver.Confirm = *confirm
	exit := 0
	var reports []*llvc.Report
	for _, fn := range fns {
		f, ok := mod.Funcs[fn]
		if !ok {
			fmt.Fprintf(os.Stderr, "llvc: no function %s\n", fn)
			return 2
		}
		sp, err := llvc.LoadSpec(*spec, mod.CFile, fn, llvc.ProgTypeOfSection(f.Section))
		if err != nil {
			fmt.Fprintln(os.Stderr, "llvc:", err)
			return 2
		}
		rep, err := llvc.Check(mod, fn, llvc.Options{Property: *prop, Spec: sp, AllFunctional: *allSpecs}, solver, *workers, llvc.CheckOptions{Replay: *replay, Kinds: *kinds})
		if err != nil {
			fmt.Fprintln(os.Stderr, "llvc:", err)
			return 2
		}
		rep.Print(os.Stdout, *verbose)
		if *dump != "" {
			os.MkdirAll(*dump, 0o755)
			for _, s := range rep.Solved {
				if s.Status != "unsat" {
					os.WriteFile(filepath.Join(*dump, smt.Sanitize(s.O.ID)+".smt2"), []byte(s.O.Query()), 0o644)
				}
			}
		}
		if !rep.AllDischarged() {
			exit = 1
		}
		reports = append(reports, rep)
	}
	if *jsonOut != "" {
		var js []interface{}
		for _, r := range reports {
			js = append(js, r.JSON())
		}
		b, _ := json.MarshalIndent(js, "", " ")
		if err := os.WriteFile(*jsonOut, b, 0o644); err != nil {
			fmt.Fprintln(os.Stderr, "llvc:", err)
			return 2
		}
	}
	fmt.Printf("total %.1fs\n", time.Since(t0).Seconds())
	return exit
}
