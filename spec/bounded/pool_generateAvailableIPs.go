package pool

// Bounded stand-in for the constructor part of the LocalPool invariants of pkg/pool
// (generateAvailableIPs / newLocalPool): every IPv4 network /22../30 at three bases, gateway at
// seven positions. On each: the free list is duplicate-free, strictly between network and broadcast
// address, without the gateway, and complete.

import (
	"encoding/binary"
	"fmt"
	"net"
	"testing"
)

func TestBoundedVC(t *testing.T) {
	bad, n := 0, 0
	report := func(format string, a ...any) {
		if bad < 5 {
			fmt.Printf("BOUNDED-VIOLATED "+format+"\n", a...)
		}
		bad++
	}
	u32 := func(ip net.IP) uint32 { return binary.BigEndian.Uint32(ip.To4()) }
	mk := func(v uint32) net.IP { b := make(net.IP, 4); binary.BigEndian.PutUint32(b, v); return b }
	for plen := 22; plen <= 30; plen++ {
		size := uint32(1) << (32 - plen)
		for _, b0 := range []uint32{0x0A140000, 0xAC10FC00, 0xC0A8FF00} {
			base := b0 &^ (size - 1)
			cidr := fmt.Sprintf("%s/%d", mk(base), plen)
			_, ipnet, _ := net.ParseCIDR(cidr)
			for _, gw := range []uint32{base + 1, base + 2, base + size/2, base + size - 2, base, base + size - 1, base + size + 5} {
				n++
				lp := newLocalPool(ipnet, mk(gw))
				seen := map[uint32]bool{}
				for _, ip := range lp.available {
					if ip == nil || ip.To4() == nil {
						report("newLocalPool(%s): nil/invalid free-list entry", cidr)
						continue
					}
					v := u32(ip)
					switch {
					case seen[v]:
						report("newLocalPool(%s, gw %v): %v twice in the free list", cidr, mk(gw), ip)
					case v <= base || v >= base+size-1:
						report("newLocalPool(%s, gw %v): free list contains %v (network/broadcast/outside)", cidr, mk(gw), ip)
					case v == gw:
						report("newLocalPool(%s, gw %v): free list contains the gateway", cidr, mk(gw))
					}
					seen[v] = true
				}
				want := int(size) - 2
				if gw > base && gw < base+size-1 {
					want--
				}
				if len(seen) != want {
					report("newLocalPool(%s, gw %v): %d addresses in the free list, want %d", cidr, mk(gw), len(seen), want)
				}
				if lp.allocations == nil || lp.ipToSub == nil || len(lp.allocations) != 0 || len(lp.ipToSub) != 0 {
					report("newLocalPool(%s): tables not empty / nil", cidr)
				}
			}
		}
	}
	if bad != 0 {
		fmt.Printf("BOUNDED-VIOLATED %d deviations in total\n", bad)
		return
	}
	fmt.Printf("BOUNDED-OK %d pool configurations (/22../30, 3 bases, 7 gateway positions)\n", n)
}
