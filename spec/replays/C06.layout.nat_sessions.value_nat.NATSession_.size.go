package nat

import (
	"fmt"
	"net"
	"strings"
	"testing"

	"github.com/cilium/ebpf"
	"go.uber.org/zap"
)

// nat_sessions is created with the key/value sizes of the C declaration
// (16 / 80 bytes: struct nat_session has 4 bytes of alignment padding before
// last_seen and 4 after is_hairpin). A session written by the kernel program
// (here: 80 raw bytes under the key the control plane computes) must be readable
// through LookupSession, and last_seen must come back from offset 24.
func TestReplayVC(t *testing.T) {
	ns, err := ebpf.NewMap(&ebpf.MapSpec{Type: ebpf.Hash, KeySize: 16, ValueSize: 80, MaxEntries: 8})
	if err != nil {
		fmt.Println("REPLAY-SETUP-FAILED (cannot create a BPF map here):", err)
		return
	}
	defer ns.Close()
	m, err := NewManager(ManagerConfig{Interface: "lo"}, zap.NewNop())
	if err != nil {
		fmt.Println("REPLAY-SETUP-FAILED", err)
		return
	}
	m.natSessions = ns
	src, dst := net.IPv4(10, 0, 1, 100), net.IPv4(198, 51, 100, 7)
	type natKey struct {
		SrcIP, DstIP     uint32
		SrcPort, DstPort uint16
		Protocol         uint8
		_                [3]byte
	}
	key := natKey{SrcIP: ipToKey(src.To4()), DstIP: ipToKey(dst.To4()), SrcPort: 40000, DstPort: 443, Protocol: 6}
	var raw [80]byte
	raw[24] = 0x2a // last_seen = 42 at the C offset
	if err := ns.Put(&key, &raw); err != nil {
		fmt.Println("REPLAY-SETUP-FAILED", err)
		return
	}
	s, err := m.LookupSession(src, dst, 40000, 443, 6)
	if err != nil {
		if strings.Contains(err.Error(), "marshal") || strings.Contains(err.Error(), "bytes") {
			fmt.Printf("REPLAY-VIOLATED: LookupSession cannot read a session the kernel wrote: %v\n", err)
			return
		}
		fmt.Println("REPLAY-SETUP-FAILED", err)
		return
	}
	if s.LastSeen != 42 {
		fmt.Printf("REPLAY-VIOLATED: last_seen written at C offset 24 is read back as %d\n", s.LastSeen)
		return
	}
	fmt.Println("REPLAY-OK")
}
