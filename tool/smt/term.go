// Package smt is the shared back end: SMT-LIB terms as (text, sort) pairs,
// a context that collects declarations/definitions, cone-of-influence query
// slicing, and a solver portfolio (z3-new, z3, cvc5).
package smt

import (
	"fmt"
	"math/big"
	"sort"
	"strings"
)

// Term is an SMT-LIB term with its sort, both as text.
type Term struct {
	S    string
	Sort string
}

const (
	Bool = "Bool"
	Int  = "Int"
)

func BV(n int) string            { return fmt.Sprintf("(_ BitVec %d)", n) }
func Arr(idx, elem string) string { return "(Array " + idx + " " + elem + ")" }

var (
	True  = Term{"true", Bool}
	False = Term{"false", Bool}
)

func (t Term) IsTrue() bool  { return t.S == "true" }
func (t Term) IsFalse() bool { return t.S == "false" }
func (t Term) String() string { return t.S }

func IntLit(n int64) Term {
	if n < 0 {
		return Term{fmt.Sprintf("(- %d)", -n), Int}
	}
	return Term{fmt.Sprintf("%d", n), Int}
}

func BigLit(n *big.Int) Term {
	if n.Sign() < 0 {
		return Term{"(- " + new(big.Int).Neg(n).String() + ")", Int}
	}
	return Term{n.String(), Int}
}

func BVLit(v uint64, w int) Term {
	if w < 64 {
		v &= (uint64(1) << uint(w)) - 1
	}
	return Term{fmt.Sprintf("(_ bv%d %d)", v, w), BV(w)}
}

func BVLitBig(v *big.Int, w int) Term {
	m := new(big.Int).Lsh(big.NewInt(1), uint(w))
	x := new(big.Int).Mod(v, m)
	return Term{fmt.Sprintf("(_ bv%s %d)", x.String(), w), BV(w)}
}

func BoolLit(b bool) Term {
	if b {
		return True
	}
	return False
}

// App builds (op a1 ... an) of the given sort.
func App(sort, op string, args ...Term) Term {
	if len(args) == 0 {
		return Term{op, sort}
	}
	var b strings.Builder
	b.WriteByte('(')
	b.WriteString(op)
	for _, a := range args {
		b.WriteByte(' ')
		b.WriteString(a.S)
	}
	b.WriteByte(')')
	return Term{b.String(), sort}
}

func Not(a Term) Term {
	switch {
	case a.IsTrue():
		return False
	case a.IsFalse():
		return True
	case strings.HasPrefix(a.S, "(not ") && balanced(a.S[5:len(a.S)-1]):
		return Term{a.S[5 : len(a.S)-1], Bool}
	}
	return App(Bool, "not", a)
}

func balanced(s string) bool {
	d := 0
	for i, c := range s {
		switch c {
		case '(':
			d++
		case ')':
			d--
			if d < 0 {
				return false
			}
			if d == 0 && i != len(s)-1 {
				return false
			}
		case ' ':
			if d == 0 {
				return false
			}
		}
	}
	return d == 0
}

func And(as ...Term) Term {
	var out []Term
	for _, a := range as {
		if a.IsFalse() {
			return False
		}
		if a.IsTrue() {
			continue
		}
		out = append(out, a)
	}
	switch len(out) {
	case 0:
		return True
	case 1:
		return out[0]
	}
	return App(Bool, "and", out...)
}

func Or(as ...Term) Term {
	var out []Term
	for _, a := range as {
		if a.IsTrue() {
			return True
		}
		if a.IsFalse() {
			continue
		}
		out = append(out, a)
	}
	switch len(out) {
	case 0:
		return False
	case 1:
		return out[0]
	}
	return App(Bool, "or", out...)
}

func Implies(a, b Term) Term {
	if a.IsTrue() {
		return b
	}
	if a.IsFalse() || b.IsTrue() {
		return True
	}
	if b.IsFalse() {
		return Not(a)
	}
	return App(Bool, "=>", a, b)
}

func Eq(a, b Term) Term {
	if a.S == b.S {
		return True
	}
	if a.Sort == Bool {
		if b.IsTrue() {
			return a
		}
		if a.IsTrue() {
			return b
		}
		if b.IsFalse() {
			return Not(a)
		}
		if a.IsFalse() {
			return Not(b)
		}
	}
	return App(Bool, "=", a, b)
}

func Ne(a, b Term) Term { return Not(Eq(a, b)) }

func Ite(c, a, b Term) Term {
	if c.IsTrue() {
		return a
	}
	if c.IsFalse() {
		return b
	}
	if a.S == b.S {
		return a
	}
	if a.Sort == Bool {
		if a.IsTrue() && b.IsFalse() {
			return c
		}
		if a.IsFalse() && b.IsTrue() {
			return Not(c)
		}
	}
	return App(a.Sort, "ite", c, a, b)
}

func isIntLit(t Term) (*big.Int, bool) {
	s := t.S
	neg := false
	if strings.HasPrefix(s, "(- ") && strings.HasSuffix(s, ")") {
		s = s[3 : len(s)-1]
		neg = true
	}
	if s == "" {
		return nil, false
	}
	for _, c := range s {
		if c < '0' || c > '9' {
			return nil, false
		}
	}
	n, ok := new(big.Int).SetString(s, 10)
	if !ok {
		return nil, false
	}
	if neg {
		n.Neg(n)
	}
	return n, true
}

// IntVal returns the value of an integer literal term.
func IntVal(t Term) (*big.Int, bool) { return isIntLit(t) }

func Add(a, b Term) Term {
	x, ok1 := isIntLit(a)
	y, ok2 := isIntLit(b)
	if ok1 && ok2 {
		return BigLit(new(big.Int).Add(x, y))
	}
	if ok1 && x.Sign() == 0 {
		return b
	}
	if ok2 && y.Sign() == 0 {
		return a
	}
	// a + (k - a) = k (change of variable for slice-index binders, see speceval forall)
	if strings.HasPrefix(b.S, "(- ") && strings.HasSuffix(b.S, " "+a.S+")") {
		k := b.S[3 : len(b.S)-len(a.S)-2]
		if !strings.ContainsAny(k, " ()") {
			return Term{k, Int}
		}
	}
	return App(Int, "+", a, b)
}

func Sub(a, b Term) Term {
	x, ok1 := isIntLit(a)
	y, ok2 := isIntLit(b)
	if ok1 && ok2 {
		return BigLit(new(big.Int).Sub(x, y))
	}
	if ok2 && y.Sign() == 0 {
		return a
	}
	return App(Int, "-", a, b)
}

func Mul(a, b Term) Term {
	x, ok1 := isIntLit(a)
	y, ok2 := isIntLit(b)
	if ok1 && ok2 {
		return BigLit(new(big.Int).Mul(x, y))
	}
	if ok1 && x.Cmp(big.NewInt(1)) == 0 {
		return b
	}
	if ok2 && y.Cmp(big.NewInt(1)) == 0 {
		return a
	}
	return App(Int, "*", a, b)
}

func Neg(a Term) Term {
	if x, ok := isIntLit(a); ok {
		return BigLit(new(big.Int).Neg(x))
	}
	return App(Int, "-", a)
}

func cmp(op string, a, b Term, f func(int) bool) Term {
	x, ok1 := isIntLit(a)
	y, ok2 := isIntLit(b)
	if ok1 && ok2 {
		return BoolLit(f(x.Cmp(y)))
	}
	return App(Bool, op, a, b)
}

func Lt(a, b Term) Term { return cmp("<", a, b, func(c int) bool { return c < 0 }) }
func Le(a, b Term) Term { return cmp("<=", a, b, func(c int) bool { return c <= 0 }) }
func Gt(a, b Term) Term { return cmp(">", a, b, func(c int) bool { return c > 0 }) }
func Ge(a, b Term) Term { return cmp(">=", a, b, func(c int) bool { return c >= 0 }) }

// Div and Mod are SMT-LIB euclidean div/mod.
func Div(a, b Term) Term { return App(Int, "div", a, b) }
func Mod(a, b Term) Term {
	x, ok1 := isIntLit(a)
	y, ok2 := isIntLit(b)
	if ok1 && ok2 && y.Sign() > 0 {
		return BigLit(new(big.Int).Mod(x, y))
	}
	return App(Int, "mod", a, b)
}

func Select(arr, idx Term) Term {
	// (Array I E) -> E
	return App(ElemSort(arr.Sort), "select", arr, idx)
}

func Store(arr, idx, v Term) Term { return App(arr.Sort, "store", arr, idx, v) }

// ElemSort returns E of "(Array I E)".
func ElemSort(s string) string {
	_, e := SplitArr(s)
	return e
}

// SplitArr splits "(Array I E)" into I and E.
func SplitArr(s string) (string, string) {
	if !strings.HasPrefix(s, "(Array ") {
		panic("not an array sort: " + s)
	}
	body := s[7 : len(s)-1]
	d := 0
	for i, c := range body {
		switch c {
		case '(':
			d++
		case ')':
			d--
		case ' ':
			if d == 0 {
				return body[:i], body[i+1:]
			}
		}
	}
	panic("bad array sort: " + s)
}

// Forall builds a quantified formula; vars are (name, sort) pairs. pats are
// optional trigger terms.
func Forall(vars []Term, body Term, pats ...Term) Term {
	return quant("forall", vars, body, pats)
}
func Exists(vars []Term, body Term, pats ...Term) Term {
	return quant("exists", vars, body, pats)
}

func quant(q string, vars []Term, body Term, pats []Term) Term {
	if body.IsTrue() && q == "forall" {
		return True
	}
	var b strings.Builder
	b.WriteString("(" + q + " (")
	for _, v := range vars {
		b.WriteString("(" + v.S + " " + v.Sort + ")")
	}
	b.WriteString(") ")
	if len(pats) > 0 {
		b.WriteString("(! " + body.S)
		for _, p := range pats {
			b.WriteString(" :pattern (" + p.S + ")")
		}
		b.WriteString(")")
	} else {
		b.WriteString(body.S)
	}
	b.WriteString(")")
	return Term{b.String(), Bool}
}

// Symbols returns the identifier-like tokens of an SMT text.
func Symbols(s string, into map[string]bool) {
	i := 0
	n := len(s)
	for i < n {
		c := s[i]
		if c == '|' {
			j := i + 1
			for j < n && s[j] != '|' {
				j++
			}
			into[s[i:min(j+1, n)]] = true
			i = j + 1
			continue
		}
		if isSymCh(c) {
			j := i
			for j < n && isSymCh(s[j]) {
				j++
			}
			into[s[i:j]] = true
			i = j
			continue
		}
		i++
	}
}

func isSymCh(c byte) bool {
	return c == '_' || c == '.' || c == '!' || c == '$' || c == '#' || c == '@' || c == '~' ||
		(c >= 'a' && c <= 'z') || (c >= 'A' && c <= 'Z') || (c >= '0' && c <= '9')
}

func sortedKeys(m map[string]bool) []string {
	out := make([]string, 0, len(m))
	for k := range m {
		out = append(out, k)
	}
	sort.Strings(out)
	return out
}
