package ha

// HISTORICAL: written against the code before d51cde6 (part 2) and 9375239 (part 1), when
// executeFailover had no generation parameter; it does not compile against the current tree
// (check out c585738 to reproduce). Both parts are now watched by spec/bounded/ha_failover_*.go.
// Replays for two C14 findings made by inspection while writing the contracts; the
// contracts leave timer semantics (time.AfterFunc firing vs. Stop) undecided, so there is
// no obligation id. In both, the callback body of a time.AfterFunc timer that has already
// fired but has not yet obtained c.mu is represented by calling executeFailover directly
// (Timer.Stop does not stop a callback that has already started).
//
// (1) stale timer: down -> (timer1 fires, its goroutine is descheduled) -> up (cancel) ->
//     down again (timer2 armed) -> timer1's executeFailover runs, finds state pending and
//     promotes at once although the partner has been down for ~0 s of the configured delay.
//     Property: "a standby becomes active only if the partner was reported down
//     continuously for the configured failover delay".
// (2) re-entry: executeFailover also accepts state in-progress, so a second invocation that
//     arrives while the first one sleeps through the grace period (lock released) performs a
//     second promotion: two callback calls and two "completed" events for one failover.
//     Property: "each promotion emits exactly one completed event".

import (
	"fmt"
	"sync"
	"testing"
	"time"

	"go.uber.org/zap"
)

func TestReplayVC(t *testing.T) {
	defer func() {
		if r := recover(); r != nil {
			fmt.Printf("REPLAY-PANIC: %v\n", r)
		}
	}()
	violated := false
	mk := func(delay, grace time.Duration) (*FailoverController, *int, *int, *sync.Mutex) {
		cfg := DefaultFailoverConfig()
		cfg.FailoverDelay, cfg.GracePeriod = delay, grace
		hm := NewHealthMonitor(DefaultHealthConfig(), &PartnerInfo{NodeID: "a", Endpoint: "127.0.0.1:1"}, zap.NewNop())
		c := NewFailoverController(cfg, "b", RoleStandby, 1, hm, zap.NewNop())
		var mu sync.Mutex
		calls, completed := new(int), new(int)
		c.SetRoleChangeCallback(func(Role) error { mu.Lock(); *calls++; mu.Unlock(); return nil })
		c.OnFailoverEvent(func(e FailoverEvent) {
			if e.Type == FailoverEventCompleted {
				mu.Lock()
				*completed++
				mu.Unlock()
			}
		})
		return c, calls, completed, &mu
	}

	// (1) stale timer
	c, _, _, _ := mk(time.Hour, 0) // real timers never fire during the test
	c.handleHealthEvent(HealthEvent{Type: HealthEventPartnerDown, Timestamp: time.Now()}) // timer1
	c.handleHealthEvent(HealthEvent{Type: HealthEventPartnerUp, Timestamp: time.Now()})   // cancelled, timer1.Stop()
	t0 := time.Now()
	c.handleHealthEvent(HealthEvent{Type: HealthEventPartnerDown, Timestamp: t0}) // timer2: promotion due in 1h
	c.executeFailover("partner health check failure")                             // body of the already-fired timer1
	if c.CurrentRole() == RoleActive {
		fmt.Printf("REPLAY-VIOLATED: stale timer callback promoted the standby %v after the (second) partner-down report; configured FailoverDelay is %v\n",
			time.Since(t0).Round(time.Millisecond), time.Hour)
		violated = true
	}

	// (2) re-entry during the grace period
	c2, calls, completed, mu := mk(time.Hour, 150*time.Millisecond)
	c2.handleHealthEvent(HealthEvent{Type: HealthEventPartnerDown, Timestamp: time.Now()})
	var wg sync.WaitGroup
	wg.Add(2)
	go func() { defer wg.Done(); c2.executeFailover("timer") }()
	time.Sleep(30 * time.Millisecond) // first invocation is now sleeping in the grace period, state in-progress
	go func() { defer wg.Done(); c2.executeFailover("second invocation") }()
	wg.Wait()
	mu.Lock()
	nCalls, nCompleted := *calls, *completed
	mu.Unlock()
	_, done, _, _ := c2.Stats()
	if nCompleted != 1 {
		fmt.Printf("REPLAY-VIOLATED: one failover produced %d completed events, %d role-change callback calls, failoversCompleted=%d\n", nCompleted, nCalls, done)
		violated = true
	}
	if !violated {
		fmt.Println("REPLAY-OK")
	}
}
