package govc

import (
	"go/ast"
	"go/types"

	"bngvc/smt"
)

// math/big.Int model: every *big.Int object has a mathematical value
// ("big:val") and an independent bit view ("big:bits", used when the number is
// a bitmap). Operations on one view make the other unknown. This is an assumed
// library contract (listed in AssumedLib).

func (fv *funcVerifier) bigSetVal(st *State, z, v smt.Term) {
	fv.mut++
	k := fv.bigKey("val")
	fv.heapSet(st, k, smt.Store(fv.heapGet(st, k), z, v))
	kb := fv.bigKey("bits")
	h := fv.heapGet(st, kb)
	fv.heapSet(st, kb, smt.Store(h, z, fv.c.Fresh("bits", smt.ElemSort(h.Sort))))
}

func (fv *funcVerifier) bigVal(st *State, x smt.Term) smt.Term {
	k := fv.bigKey("val")
	fv.instFrames(k, x)
	return fv.c.Let("bigval", smt.Select(fv.heapGet(st, k), x))
}

func (fv *funcVerifier) bigBits(st *State, x smt.Term) smt.Term {
	k := fv.bigKey("bits")
	fv.instFrames(k, x)
	return fv.c.Let("bigbits", smt.Select(fv.heapGet(st, k), x))
}

func (fv *funcVerifier) bigNew(st *State, val smt.Term, zeroBits bool) smt.Term {
	r := fv.alloc(st, "big")
	fv.mut++
	k := fv.bigKey("val")
	fv.heapSet(st, k, smt.Store(fv.heapGet(st, k), r, val))
	kb := fv.bigKey("bits")
	h := fv.heapGet(st, kb)
	if zeroBits {
		empty := smt.Term{S: "((as const (Array Int Bool)) false)", Sort: smt.Arr(smt.Int, smt.Bool)}
		fv.heapSet(st, kb, smt.Store(h, r, empty))
	} else {
		fv.heapSet(st, kb, smt.Store(h, r, fv.c.Fresh("bits", smt.ElemSort(h.Sort))))
	}
	return r
}

func recvOf(fv *funcVerifier, st *State, call *ast.CallExpr) smt.Term {
	sel := ast.Unparen(call.Fun).(*ast.SelectorExpr)
	z := fv.evalExpr(st, sel.X)
	fv.nilCheck(st, z, sel.X, sel.Pos())
	return z
}

func (fv *funcVerifier) pow2Term(n smt.Term) smt.Term {
	if k, ok := smt.IntVal(n); ok && k.Sign() >= 0 && k.BitLen() < 10 {
		return smt.BigLit(pow2(int(k.Int64())))
	}
	fv.declarePow2()
	return smt.App(smt.Int, "pow2", n)
}

func init() {
	libModels["math/big.NewInt"] = func(fv *funcVerifier, st *State, call *ast.CallExpr, fn *types.Func) []smt.Term {
		v := fv.evalExpr(st, call.Args[0])
		zero := false
		if n, ok := smt.IntVal(v); ok && n.Sign() == 0 {
			zero = true
		}
		return []smt.Term{fv.bigNew(st, v, zero)}
	}
	bin := func(op func(fv *funcVerifier, st *State, a, b smt.Term, call *ast.CallExpr) smt.Term) libHandler {
		return func(fv *funcVerifier, st *State, call *ast.CallExpr, fn *types.Func) []smt.Term {
			z := recvOf(fv, st, call)
			x := fv.evalExpr(st, call.Args[0])
			y := fv.evalExpr(st, call.Args[1])
			xv, yv := fv.bigVal(st, x), fv.bigVal(st, y)
			fv.bigSetVal(st, z, fv.c.Let("bigop", op(fv, st, xv, yv, call)))
			return []smt.Term{z}
		}
	}
	libModels["(*math/big.Int).Add"] = bin(func(fv *funcVerifier, st *State, a, b smt.Term, _ *ast.CallExpr) smt.Term { return smt.Add(a, b) })
	libModels["(*math/big.Int).Sub"] = bin(func(fv *funcVerifier, st *State, a, b smt.Term, _ *ast.CallExpr) smt.Term { return smt.Sub(a, b) })
	libModels["(*math/big.Int).Mul"] = bin(func(fv *funcVerifier, st *State, a, b smt.Term, _ *ast.CallExpr) smt.Term { return smt.Mul(a, b) })
	libModels["(*math/big.Int).Div"] = bin(func(fv *funcVerifier, st *State, a, b smt.Term, call *ast.CallExpr) smt.Term {
		nz := smt.Ne(b, smt.IntLit(0))
		if fv.opt.NoPanic {
			fv.assert(st, "nopanic", "bigdivzero:"+fv.exprStr(call), call.Pos(), nz)
		} else {
			fv.assume(st, nz)
		}
		return smt.Div(a, b) // big.Int.Div is Euclidean, like SMT-LIB div
	})
	libModels["(*math/big.Int).Mod"] = bin(func(fv *funcVerifier, st *State, a, b smt.Term, call *ast.CallExpr) smt.Term {
		fv.assume(st, smt.Ne(b, smt.IntLit(0)))
		return smt.Mod(a, b)
	})
	libModels["(*math/big.Int).Lsh"] = func(fv *funcVerifier, st *State, call *ast.CallExpr, fn *types.Func) []smt.Term {
		z := recvOf(fv, st, call)
		x := fv.evalExpr(st, call.Args[0])
		n := fv.evalExpr(st, call.Args[1])
		fv.bigSetVal(st, z, fv.c.Let("lsh", smt.Mul(fv.bigVal(st, x), fv.pow2Term(n))))
		return []smt.Term{z}
	}
	libModels["(*math/big.Int).Set"] = func(fv *funcVerifier, st *State, call *ast.CallExpr, fn *types.Func) []smt.Term {
		z := recvOf(fv, st, call)
		x := fv.evalExpr(st, call.Args[0])
		xb := fv.bigBits(st, x)
		fv.bigSetVal(st, z, fv.bigVal(st, x))
		kb := fv.bigKey("bits")
		fv.heapSet(st, kb, smt.Store(fv.heapGet(st, kb), z, xb))
		return []smt.Term{z}
	}
	setScalar := func(fv *funcVerifier, st *State, call *ast.CallExpr, fn *types.Func) []smt.Term {
		z := recvOf(fv, st, call)
		v := fv.evalExpr(st, call.Args[0])
		fv.bigSetVal(st, z, v)
		return []smt.Term{z}
	}
	libModels["(*math/big.Int).SetUint64"] = setScalar
	libModels["(*math/big.Int).SetInt64"] = setScalar
	libModels["(*math/big.Int).Uint64"] = func(fv *funcVerifier, st *State, call *ast.CallExpr, fn *types.Func) []smt.Term {
		z := recvOf(fv, st, call)
		v := fv.bigVal(st, z)
		// "If x cannot be represented in a uint64, the result is undefined": in fact the low 64 bits of |x|
		abs := smt.Ite(smt.Ge(v, smt.IntLit(0)), v, smt.Neg(v))
		return []smt.Term{fv.c.Let("u64", smt.Mod(abs, smt.BigLit(pow2(64))))}
	}
	libModels["(*math/big.Int).Int64"] = func(fv *funcVerifier, st *State, call *ast.CallExpr, fn *types.Func) []smt.Term {
		z := recvOf(fv, st, call)
		v := fv.bigVal(st, z)
		return []smt.Term{fv.wrap(v, types.Typ[types.Int64])}
	}
	libModels["(*math/big.Int).IsUint64"] = func(fv *funcVerifier, st *State, call *ast.CallExpr, fn *types.Func) []smt.Term {
		z := recvOf(fv, st, call)
		v := fv.bigVal(st, z)
		return []smt.Term{smt.And(smt.Ge(v, smt.IntLit(0)), smt.Lt(v, smt.BigLit(pow2(64))))}
	}
	libModels["(*math/big.Int).Sign"] = func(fv *funcVerifier, st *State, call *ast.CallExpr, fn *types.Func) []smt.Term {
		z := recvOf(fv, st, call)
		v := fv.bigVal(st, z)
		return []smt.Term{fv.c.Let("sign", smt.Ite(smt.Gt(v, smt.IntLit(0)), smt.IntLit(1), smt.Ite(smt.Lt(v, smt.IntLit(0)), smt.IntLit(-1), smt.IntLit(0))))}
	}
	libModels["(*math/big.Int).Cmp"] = func(fv *funcVerifier, st *State, call *ast.CallExpr, fn *types.Func) []smt.Term {
		z := recvOf(fv, st, call)
		y := fv.evalExpr(st, call.Args[0])
		a, b := fv.bigVal(st, z), fv.bigVal(st, y)
		return []smt.Term{fv.c.Let("cmp", smt.Ite(smt.Gt(a, b), smt.IntLit(1), smt.Ite(smt.Lt(a, b), smt.IntLit(-1), smt.IntLit(0))))}
	}
	libModels["(*math/big.Int).SetBit"] = func(fv *funcVerifier, st *State, call *ast.CallExpr, fn *types.Func) []smt.Term {
		z := recvOf(fv, st, call)
		x := fv.evalExpr(st, call.Args[0])
		i := fv.evalExpr(st, call.Args[1])
		b := fv.evalExpr(st, call.Args[2])
		g := smt.Ge(i, smt.IntLit(0))
		if fv.opt.NoPanic {
			fv.assert(st, "nopanic", "bigsetbit-negative-index:"+fv.exprStr(call.Args[1]), call.Pos(), g)
		} else {
			fv.assume(st, g)
		}
		xb := fv.bigBits(st, x)
		fv.mut++
		kb := fv.bigKey("bits")
		fv.heapSet(st, kb, smt.Store(fv.heapGet(st, kb), z, smt.Store(xb, i, smt.Ne(b, smt.IntLit(0)))))
		k := fv.bigKey("val")
		fv.heapSet(st, k, smt.Store(fv.heapGet(st, k), z, fv.c.Fresh("bigval", smt.Int)))
		return []smt.Term{z}
	}
	libModels["(*math/big.Int).Bit"] = func(fv *funcVerifier, st *State, call *ast.CallExpr, fn *types.Func) []smt.Term {
		z := recvOf(fv, st, call)
		i := fv.evalExpr(st, call.Args[0])
		g := smt.Ge(i, smt.IntLit(0))
		if fv.opt.NoPanic {
			fv.assert(st, "nopanic", "bigbit-negative-index:"+fv.exprStr(call.Args[0]), call.Pos(), g)
		} else {
			fv.assume(st, g)
		}
		return []smt.Term{fv.c.Let("bit", smt.Ite(smt.Select(fv.bigBits(st, z), i), smt.IntLit(1), smt.IntLit(0)))}
	}
	// byte conversions: value relation through the uninterpreted big-endian valuation be_val
	libModels["(*math/big.Int).SetBytes"] = func(fv *funcVerifier, st *State, call *ast.CallExpr, fn *types.Func) []smt.Term {
		z := recvOf(fv, st, call)
		b := fv.evalExpr(st, call.Args[0])
		fv.bigSetVal(st, z, fv.beVal(st, b))
		return []smt.Term{z}
	}
	libModels["(*math/big.Int).Bytes"] = func(fv *funcVerifier, st *State, call *ast.CallExpr, fn *types.Func) []smt.Term {
		z := recvOf(fv, st, call)
		v := fv.bigVal(st, z)
		arr := fv.alloc(st, "bigbytes")
		n := fv.c.Fresh("nbytes", smt.Int)
		fv.assume(st, smt.And(smt.Ge(n, smt.IntLit(0)), smt.Le(n, smt.IntLit(maxLen))))
		r := fv.c.Let("bytes", mkSlice(arr, smt.IntLit(0), n, n))
		key := fv.memKey(types.Typ[types.Uint8])
		fv.mut++
		fv.heapSet(st, key, smt.Store(fv.heapGet(st, key), arr, fv.c.Fresh("bytesmem", smt.Arr(smt.Int, smt.Int))))
		abs := smt.Ite(smt.Ge(v, smt.IntLit(0)), v, smt.Neg(v))
		fv.assume(st, smt.Eq(fv.beVal(st, r), abs))
		return []smt.Term{r}
	}
	AssumedLib = append(AssumedLib,
		"math/big.Int: mathematical value view (Add/Sub/Mul/Div(Euclidean)/Lsh/Cmp/Sign/SetUint64/Uint64 = |x| mod 2^64) and independent bit view (SetBit/Bit); SetBytes/Bytes relate the value to the uninterpreted big-endian valuation be_val of the byte slice",
	)
}

// beVal is the (uninterpreted) big-endian value of a byte slice's contents.
func (fv *funcVerifier) beVal(st *State, s smt.Term) smt.Term {
	fv.c.DeclareFun("be_val", []string{smt.Arr(smt.Int, smt.Int), smt.Int, smt.Int}, smt.Int)
	key := fv.memKey(types.Typ[types.Uint8])
	fv.instFrames(key, slArr(s))
	v := fv.c.Let("beval", smt.App(smt.Int, "be_val", smt.Select(fv.heapGet(st, key), slArr(s)), slOff(s), slLen(s)))
	fv.assume(st, smt.Ge(v, smt.IntLit(0)))
	return v
}
