package nexus

// Replay for obligation C20.nexus.VLANAllocator.LoadFromStore.loopinv.step[...v.fwd]
// (and lockinv fwd@unlock): two stored NTEs carrying the same (S,C) pair are both
// accepted; the pair then identifies two subscribers, and releasing one of them
// makes the allocator hand the pair of the other one to a third NTE.

import (
	"context"
	"fmt"
	"testing"
)

func TestReplayVC(t *testing.T) {
	defer func() {
		if r := recover(); r != nil {
			fmt.Printf("REPLAY-PANIC: %v\n", r)
		}
	}()
	v := NewVLANAllocator(DefaultVLANConfig())
	_ = v.LoadFromStore(context.Background(), []*NTE{
		{ID: "nte-a", STag: 100, CTag: 100},
		{ID: "nte-b", STag: 100, CTag: 100},
	})
	a, okA := v.Get("nte-a")
	b, okB := v.Get("nte-b")
	violated := false
	if okA && okB && a.STag == b.STag && a.CTag == b.CTag {
		fmt.Printf("REPLAY-VIOLATED: pair (%d,%d) identifies two subscribers after LoadFromStore: %s and %s\n", a.STag, a.CTag, a.NTEID, b.NTEID)
		violated = true
	}
	v.Release("nte-a")
	c, err := v.Allocate("nte-c")
	if err == nil {
		if b2, ok := v.Get("nte-b"); ok && b2.STag == c.STag && b2.CTag == c.CTag {
			fmt.Printf("REPLAY-VIOLATED: after Release(nte-a), Allocate(nte-c) returned (%d,%d) which nte-b still holds\n", c.STag, c.CTag)
			violated = true
		}
	}
	if !violated {
		fmt.Println("REPLAY-OK")
	}
}
