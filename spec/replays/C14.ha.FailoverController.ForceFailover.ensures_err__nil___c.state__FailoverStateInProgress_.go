package ha

// Replay for obligation
//   C14.ha.FailoverController.ForceFailover.ensures[err == nil ==> c.state != FailoverStateInProgress]
// The operator command ForceFailover only runs initiateFailover: the state becomes
// in-progress, an "initiated" event is emitted and the counter is bumped, but no timer is
// armed and executeFailover is never called. The controller stays in-progress for ever, the
// role never changes, and later partner-down events are ignored (they need state normal).
// Property C14: "the controller never remains in an in-progress state with no transition
// pending".

import (
	"fmt"
	"testing"
	"time"

	"go.uber.org/zap"
)

func TestReplayVC(t *testing.T) {
	defer func() {
		if r := recover(); r != nil {
			fmt.Printf("REPLAY-PANIC: %v\n", r)
		}
	}()
	cfg := DefaultFailoverConfig()
	cfg.FailoverDelay = 20 * time.Millisecond
	cfg.GracePeriod = 0
	hm := NewHealthMonitor(DefaultHealthConfig(), &PartnerInfo{NodeID: "a", Endpoint: "127.0.0.1:1"}, zap.NewNop())
	c := NewFailoverController(cfg, "b", RoleStandby, 1, hm, zap.NewNop())
	calls := 0
	c.SetRoleChangeCallback(func(Role) error { calls++; return nil })
	completed := 0
	c.OnFailoverEvent(func(e FailoverEvent) {
		if e.Type == FailoverEventCompleted {
			completed++
		}
	})
	if err := c.ForceFailover("operator"); err != nil {
		fmt.Printf("REPLAY-OK (command refused: %v)\n", err)
		return
	}
	time.Sleep(300 * time.Millisecond) // far longer than FailoverDelay + GracePeriod
	st1, role1 := c.State(), c.CurrentRole()
	// a later genuine partner failure is ignored as well
	c.handleHealthEvent(HealthEvent{Type: HealthEventPartnerDown, Timestamp: time.Now()})
	time.Sleep(300 * time.Millisecond)
	st2, role2 := c.State(), c.CurrentRole()
	if st1 == FailoverStateInProgress && st2 == FailoverStateInProgress {
		fmt.Printf("REPLAY-VIOLATED: after ForceFailover returned nil the controller stays in state %s (role %s, callback calls %d, completed events %d); 300 ms later and after a partner-down event it is still %s / %s\n",
			st1, role1, calls, completed, st2, role2)
		return
	}
	fmt.Printf("REPLAY-OK (state %s -> %s, role %s)\n", st1, st2, role2)
}
