package llvc
import ("testing";"fmt";"time")
func TestN(t *testing.T){
  m, err := Compile("/repo/bpf/nat44.c"); if err != nil { t.Fatal(err) }
  for _, fn := range []string{"nat44_hairpin_xdp","nat44_ingress","nat44_egress"} {
  t0 := time.Now()
  r, err := Verify(m, fn, Options{}); if err != nil { t.Fatal(err) }
  nt := 0; kinds := map[string]int{}
  for _, o := range r.Obligations { if o.Trivial { nt++ }; kinds[o.Kind]++ }
  fmt.Println(fn, "exec", time.Since(t0), "rejected:", r.Rejected, "obligs", len(r.Obligations), "trivial", nt, kinds, "steps", r.Steps, "regions", r.Regions)
  t1 := time.Now(); n := 0; tot := 0
  for _, o := range r.Obligations { if o.Trivial || o.Kind != "inbounds" { continue }; w := o.WeakQuery(); tot += len(w); n++; if n >= 200 { break } }
  fmt.Println("  weak gen", n, time.Since(t1), "avg bytes", tot/(n+1))
  t1 = time.Now(); n = 0; tot = 0
  for i := len(r.Obligations)-1; i >= 0; i-- { o := r.Obligations[i]; if o.Trivial || o.Kind != "inbounds" { continue }; w := o.Query(); tot += len(w); n++; if n >= 20 { break } }
  fmt.Println("  full gen", n, time.Since(t1), "avg bytes", tot/(n+1))
  }
}
