package pool

// Replay for the undischarged NewPeerPool obligations of C17
//   ...NewPeerPool.ensures[err == nil ==> forall b {inert(b)} :: ... (new members come from cfg.Peers or NodeID)]  (unknown)
//   ...NewPeerPool.ensures[err == nil ==> sortedStrict(result.peerNodes)]         (unknown)
// and for the precondition "cfg.Peers is duplicate-free": on the real code the node's own id
// is always in peerNodes and the list is sorted; a duplicated configured peer survives and
// RemovePeer then removes only one occurrence (the peer stays an owner candidate).

import (
	"fmt"
	"sort"
	"testing"
)

func TestReplayVC(t *testing.T) {
	defer func() {
		if r := recover(); r != nil {
			fmt.Printf("REPLAY-PANIC: %v\n", r)
		}
	}()
	ok := true
	for _, peers := range [][]string{nil, {}, {"b", "a"}, {"n", "a"}, {"c", "n", "a"}, make([]string, 0, 4)} {
		p, err := NewPeerPool(PeerPoolConfig{NodeID: "n", Peers: peers, Network: "10.0.0.0/29", Gateway: "10.0.0.1"})
		if err != nil {
			fmt.Printf("REPLAY-PANIC: unexpected error %v\n", err)
			return
		}
		found := false
		for _, x := range p.peerNodes {
			if x == "n" {
				found = true
			}
		}
		if !found || !sort.StringsAreSorted(p.peerNodes) {
			fmt.Printf("REPLAY-VIOLATED: peers=%v peerNodes=%v (own id present=%v)\n", peers, p.peerNodes, found)
			ok = false
		}
	}
	// duplicate entry in the configuration (violates the stated precondition)
	p, _ := NewPeerPool(PeerPoolConfig{NodeID: "n", Peers: []string{"a", "a", "b"}, Network: "10.0.0.0/29", Gateway: "10.0.0.1"})
	p.RemovePeer("a")
	still := false
	for _, x := range p.peerNodes {
		if x == "a" {
			still = true
		}
	}
	if still {
		fmt.Printf("REPLAY-VIOLATED (precondition nodup(cfg.Peers) broken): after RemovePeer(\"a\") peerNodes=%v still contains \"a\"; GetOwner can still return it\n", p.peerNodes)
		ok = false
	}
	if ok {
		fmt.Println("REPLAY-OK")
	}
}
