package dhcp

import (
	"fmt"
	"net"
	"testing"
	"time"
)

// An address is declined (MarkUnavailable) while a client still holds it — the
// order in which a DECLINE racing with the pool's bookkeeping, or any direct
// user of the exported Pool API, can call the two operations. Releasing it
// afterwards must not put the declined address back on the free list: "a
// declined address is not offered again".
func TestReplayVC(t *testing.T) {
	pool, err := NewPool(PoolConfig{ID: 1, Name: "p", Network: "10.0.1.0/30", Gateway: "10.0.1.1", LeaseTime: time.Hour})
	if err != nil {
		fmt.Println("REPLAY-SETUP-FAILED", err)
		return
	}
	macA, _ := net.ParseMAC("aa:bb:cc:dd:ee:01")
	macB, _ := net.ParseMAC("aa:bb:cc:dd:ee:02")
	ip, err := pool.Allocate(macA) // 10.0.1.2, the only free address of the /30
	if err != nil {
		fmt.Println("REPLAY-SETUP-FAILED", err)
		return
	}
	pool.MarkUnavailable(ip) // DECLINE: someone else answers for this address
	pool.Release(ip)         // the declining client's binding ends
	again, err := pool.Allocate(macB)
	if err == nil && again.Equal(ip) {
		fmt.Printf("REPLAY-VIOLATED: %s was declined (marked unavailable) and is offered again to %s\n", ip, macB)
		return
	}
	fmt.Println("REPLAY-OK")
}
