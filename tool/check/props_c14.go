package check

func init() {
	register(&PropDef{
		ID:    "C14",
		Title: "A standby promotes itself only after sustained partner failure",
		Pkgs:  []string{"./pkg/ha"},
		Funcs: []string{
			"ha.FailoverController.handleHealthEvent", "ha.FailoverController.initiateFailover", "ha.FailoverController.executeFailover",
			"ha.FailoverController.executeFailback", "ha.FailoverController.initiateFailback", "ha.FailoverController.ForceFailover",
			"ha.FailoverController.ForceFailback", "ha.FailoverController.notifyHandlers", "ha.FailoverController.CurrentRole",
		},
		BoundedChecks: []BoundedCheck{
			{ID: "ha.failover_reentry", Pkg: "github.com/codelaboratoryltd/bng/pkg/ha", File: "ha_failover_reentry.go",
				Bound: "a standby with FailoverDelay 20 ms, GracePeriod 120 ms and real timers; partner-down report followed by 0, 1 or 2 ForceFailover commands at offsets {0, 10, 30, 60, 100, 170} ms, and two simultaneous commands without a report: 34 scenarios",
				Claim: "after everything has settled the node is active, the role-change callback was called exactly once, exactly one completed event was emitted, failoversCompleted is 1 and the controller is not left in progress (the oracle does not depend on the timing achieved)"},
			{ID: "ha.failover_stale_timer", Pkg: "github.com/codelaboratoryltd/bng/pkg/ha", File: "ha_failover_stale_timer.go",
				Bound: "every sequence of partner-down / partner-up reports of length 1..6 on a real controller (FailoverDelay 1 h, so real timers do not fire); the callback of every arming noted along the way is run at the end, as the timer's closure would run it, on its own replica of the history: 321 callbacks",
				Claim: "the callback promotes exactly when no partner-up report followed the report that armed its timer (a callback that outlived a cancellation or a re-arming does nothing; one whose partner stayed down promotes)"},
		},
		Undecided: []string{
			"timer semantics: that the timer's closure runs only FailoverDelay after the partner-down report is the timer's business (time.AfterFunc, goroutine scheduling) and outside the contracts. What the controller adds is decided: every arming and every cancellation starts a new generation (handleHealthEvent), and an invocation carrying an older generation changes nothing (executeFailover) -- a callback that had fired but not yet taken c.mu used to be indistinguishable from the current timer, so down/up/down let it promote at once (found by inspection, spec/replays/inspection_C14_stale_timer_and_reentry.go part 1; repaired by 9375239); that the closure passes the generation it captured at the arming is watched only by the bounded stand-in ha.failover_stale_timer's replica of that call",
			"'each promotion emits exactly one completed event' across invocations: executeFailover used to accept state in-progress from a second invocation arriving during the grace period (timer + ForceFailover, or two commands), which promoted again (found by inspection, spec/replays/inspection_C14_stale_timer_and_reentry.go part 2; repaired by d51cde6). Now decided per invocation by contract (an invocation that finds failoverRunning set changes nothing; the flag is held from the first critical section to the one that ends the attempt) and, for real overlapping invocations, watched by the bounded stand-in ha.failover_reentry; there is still no ghost event log",
			"the health monitor's thresholds (when partner-down / partner-up events are produced) and the liveness gap after a failed role-change callback (state returns to normal while the partner is still down and the monitor emits partner-down only on the healthy->unhealthy transition, so no new promotion is ever scheduled)",
			"notifyHandlers is called with c.mu held in handleHealthEvent/initiateFailover/initiateFailback (a handler calling back into the controller deadlocks) and WITHOUT it in executeFailover/executeFailback (unsynchronised read of c.handlers): concurrency aspects not decided",
			"ForceFailback performs no failback at all (it only emits 'failback_initiated'); the clause 'failback happens only while the partner is healthy' is decided for executeFailback",
		},
		Assumptions: []string{
			"monitor model: c.mu owns state, currentRole, failoverTime, failbackTime, lastRoleChange, both timers, onRoleChange, handlers; the statistics counters are sequentially consistent atomics",
			"event handlers and the role-change callback do not modify controller state and do not call back into it (functype contracts 'modifies nothing')",
			"HealthMonitor.IsPartnerHealthy returns healthAt(now()) for an uninterpreted predicate healthAt (what the monitor reports at that instant)",
		},
		Explanation: "Per-function contracts over the state machine. handleHealthEvent: complete transition table on (event type, state, role, FailbackEnabled); the role never changes there and in-progress is never entered. executeFailover / executeFailback: stated per critical section with lockedN(k,·)/unlockedN(k,·) (program order of acquisitions / releases): the first section never writes the role; the role is written only in the section that follows a callback returning nil (that path alone increments the completed counter, by one); on the callback-failure path role is untouched and the state goes back to normal (failover) / complete (failback); the in-progress state is left on every return path; a failback completes only if the partner was reported healthy at some instant during the call. ForceFailover: from the property ('never remains in an in-progress state with no transition pending') the command, which arms no timer and starts no executeFailover, must not return in state in-progress: before fix_2 this obligation failed (sat); ForceFailover now runs executeFailover after initiateFailover, and 'err == nil ==> state != in-progress' (and the same when the command got as far as executing) discharges from executeFailover's contract. 'failoversInitiated counted twice on the timer path' is refuted: the timer path counts once (executeFailover), the operator path once (initiateFailover).",
		Trusted: []string{
			"functype FailoverEventHandler / RoleChangeCallback / HealthEventHandler: modifies nothing",
			"HealthMonitor.IsPartnerHealthy: trusted contract (result == healthAt(now()))",
			"time.AfterFunc / Timer.Stop / time.Sleep: no effect on the modelled heap (time package model)",
		},
	})
}
