package llvc

import (
	"fmt"
	"strconv"
	"strings"
)

// ---------------------------------------------------------------- lexer

type tokKind int

const (
	tkEOF     tokKind = iota
	tkWord            // bare identifier / keyword / type such as i32
	tkLocal           // %name
	tkGlobal          // @name
	tkInt             // -?[0-9]+
	tkPunct           // ( ) [ ] { } < > , = * ...
	tkString          // "..."
	tkCString         // c"..."
	tkMeta            // !name, !5, !{ ... handled as raw
	tkAttr            // #5
)

type token struct {
	k tokKind
	s string
}

func isNameCh(c byte) bool {
	return c == '-' || c == '$' || c == '.' || c == '_' || (c >= 'a' && c <= 'z') || (c >= 'A' && c <= 'Z') || (c >= '0' && c <= '9')
}

func lexLine(s string) ([]token, error) {
	var out []token
	i, n := 0, len(s)
	readQuoted := func(j int) (string, int, error) {
		// s[j] == '"'
		var b []byte
		j++
		for j < n && s[j] != '"' {
			if s[j] == '\\' && j+2 < n {
				v, err := strconv.ParseUint(s[j+1:j+3], 16, 8)
				if err == nil {
					b = append(b, byte(v))
					j += 3
					continue
				}
				if s[j+1] == '\\' {
					b = append(b, '\\')
					j += 2
					continue
				}
			}
			b = append(b, s[j])
			j++
		}
		if j >= n {
			return "", j, fmt.Errorf("unterminated string")
		}
		return string(b), j + 1, nil
	}
	for i < n {
		c := s[i]
		switch {
		case c == ' ' || c == '\t' || c == '\r':
			i++
		case c == ';':
			return out, nil // comment to end of line
		case c == '%' || c == '@':
			k := tkLocal
			if c == '@' {
				k = tkGlobal
			}
			if i+1 < n && s[i+1] == '"' {
				str, j, err := readQuoted(i + 1)
				if err != nil {
					return nil, err
				}
				out = append(out, token{k, str})
				i = j
				continue
			}
			j := i + 1
			for j < n && isNameCh(s[j]) {
				j++
			}
			out = append(out, token{k, s[i+1 : j]})
			i = j
		case c == '"':
			str, j, err := readQuoted(i)
			if err != nil {
				return nil, err
			}
			out = append(out, token{tkString, str})
			i = j
		case c == 'c' && i+1 < n && s[i+1] == '"':
			str, j, err := readQuoted(i + 1)
			if err != nil {
				return nil, err
			}
			out = append(out, token{tkCString, str})
			i = j
		case c == '!':
			// metadata: the rest of the operand list is never needed; lex a
			// coarse token
			j := i + 1
			if j < n && s[j] == '"' {
				_, j2, err := readQuoted(j)
				if err != nil {
					return nil, err
				}
				out = append(out, token{tkMeta, s[i:j2]})
				i = j2
				continue
			}
			for j < n && isNameCh(s[j]) {
				j++
			}
			out = append(out, token{tkMeta, s[i:j]})
			i = j
		case c == '#':
			j := i + 1
			for j < n && s[j] >= '0' && s[j] <= '9' {
				j++
			}
			out = append(out, token{tkAttr, s[i:j]})
			i = j
		case (c >= '0' && c <= '9') || (c == '-' && i+1 < n && s[i+1] >= '0' && s[i+1] <= '9'):
			j := i + 1
			for j < n && ((s[j] >= '0' && s[j] <= '9') || s[j] == 'x' || (s[j] >= 'A' && s[j] <= 'F') || (s[j] >= 'a' && s[j] <= 'f') || s[j] == '.' || s[j] == '+') {
				j++
			}
			out = append(out, token{tkInt, s[i:j]})
			i = j
		case c == '.' && strings.HasPrefix(s[i:], "..."):
			out = append(out, token{tkPunct, "..."})
			i += 3
		case isNameCh(c):
			j := i
			for j < n && isNameCh(s[j]) {
				j++
			}
			out = append(out, token{tkWord, s[i:j]})
			i = j
		case strings.ContainsRune("()[]{}<>,=*:", rune(c)):
			out = append(out, token{tkPunct, string(c)})
			i++
		default:
			return nil, fmt.Errorf("unexpected character %q", c)
		}
	}
	return out, nil
}

// ---------------------------------------------------------------- parser

type parser struct {
	m    *Module
	toks []token
	pos  int
	line int
	raw  string
}

func (p *parser) errf(format string, args ...interface{}) error {
	return fmt.Errorf("IR line %d: %s\n    %s", p.line, fmt.Sprintf(format, args...), strings.TrimSpace(p.raw))
}

func (p *parser) peek() token {
	if p.pos < len(p.toks) {
		return p.toks[p.pos]
	}
	return token{tkEOF, ""}
}
func (p *parser) next() token {
	t := p.peek()
	if p.pos < len(p.toks) {
		p.pos++
	}
	return t
}
func (p *parser) isPunct(s string) bool {
	t := p.peek()
	return t.k == tkPunct && t.s == s
}
func (p *parser) isWord(s string) bool {
	t := p.peek()
	return t.k == tkWord && t.s == s
}
func (p *parser) acceptPunct(s string) bool {
	if p.isPunct(s) {
		p.pos++
		return true
	}
	return false
}
func (p *parser) acceptWord(s string) bool {
	if p.isWord(s) {
		p.pos++
		return true
	}
	return false
}
func (p *parser) expectPunct(s string) error {
	if !p.acceptPunct(s) {
		return p.errf("expected %q, got %q", s, p.peek().s)
	}
	return nil
}
func (p *parser) expectWord(s string) error {
	if !p.acceptWord(s) {
		return p.errf("expected %q, got %q", s, p.peek().s)
	}
	return nil
}

var (
	tyVoid  = &Type{Kind: TVoid}
	tyLabel = &Type{Kind: TLabel}
	tyMeta  = &Type{Kind: TMeta}
	intTys  = map[int]*Type{}
)

func IntType(bits int) *Type {
	if t, ok := intTys[bits]; ok {
		return t
	}
	t := &Type{Kind: TInt, Bits: bits}
	intTys[bits] = t
	return t
}

func PtrTo(t *Type) *Type { return &Type{Kind: TPtr, Elem: t} }

func (p *parser) namedType(name string) *Type {
	if t, ok := p.m.Types[name]; ok {
		return t
	}
	t := &Type{Kind: TStruct, Name: "%" + name}
	p.m.Types[name] = t
	return t
}

func (p *parser) parseType() (*Type, error) {
	var base *Type
	t := p.next()
	switch {
	case t.k == tkWord && t.s == "void":
		base = tyVoid
	case t.k == tkWord && t.s == "label":
		base = tyLabel
	case t.k == tkWord && t.s == "metadata":
		base = tyMeta
	case t.k == tkWord && t.s == "ptr":
		return nil, p.errf("opaque pointers are not supported (expected typed-pointer IR of clang-14)")
	case t.k == tkWord && len(t.s) > 1 && t.s[0] == 'i' && allDigits(t.s[1:]):
		n, _ := strconv.Atoi(t.s[1:])
		base = IntType(n)
	case t.k == tkWord && (t.s == "float" || t.s == "double" || t.s == "half" || t.s == "x86_fp80" || t.s == "fp128"):
		return nil, p.errf("floating-point type %s is not supported", t.s)
	case t.k == tkLocal:
		base = p.namedType(t.s)
	case t.k == tkPunct && t.s == "[":
		nt := p.next()
		if nt.k != tkInt {
			return nil, p.errf("array length expected")
		}
		n, err := strconv.ParseInt(nt.s, 10, 64)
		if err != nil {
			return nil, p.errf("bad array length %s", nt.s)
		}
		if err := p.expectWord("x"); err != nil {
			return nil, err
		}
		el, err := p.parseType()
		if err != nil {
			return nil, err
		}
		if err := p.expectPunct("]"); err != nil {
			return nil, err
		}
		base = &Type{Kind: TArray, Len: n, Elem: el}
	case t.k == tkPunct && t.s == "{":
		st, err := p.parseStructBody(false)
		if err != nil {
			return nil, err
		}
		base = st
	case t.k == tkPunct && t.s == "<":
		if p.isPunct("{") {
			p.next()
			st, err := p.parseStructBody(true)
			if err != nil {
				return nil, err
			}
			if err := p.expectPunct(">"); err != nil {
				return nil, err
			}
			base = st
		} else {
			return nil, p.errf("vector types are not supported")
		}
	default:
		return nil, p.errf("type expected, got %q", t.s)
	}
	for {
		if p.acceptPunct("*") {
			base = PtrTo(base)
			continue
		}
		if p.isPunct("(") {
			// function type
			p.next()
			ft := &Type{Kind: TFunc, Ret: base}
			for !p.isPunct(")") {
				if p.acceptPunct("...") {
					ft.VarArg = true
				} else {
					pt, err := p.parseType()
					if err != nil {
						return nil, err
					}
					ft.Params = append(ft.Params, pt)
				}
				if !p.acceptPunct(",") {
					break
				}
			}
			if err := p.expectPunct(")"); err != nil {
				return nil, err
			}
			base = ft
			continue
		}
		if p.isWord("addrspace") {
			return nil, p.errf("address spaces are not supported")
		}
		break
	}
	return base, nil
}

// parseStructBody parses after '{' up to and including '}'.
func (p *parser) parseStructBody(packed bool) (*Type, error) {
	st := &Type{Kind: TStruct, Packed: packed, resolved: true}
	for !p.isPunct("}") {
		ft, err := p.parseType()
		if err != nil {
			return nil, err
		}
		st.Fields = append(st.Fields, ft)
		if !p.acceptPunct(",") {
			break
		}
	}
	if err := p.expectPunct("}"); err != nil {
		return nil, err
	}
	return st, nil
}

func allDigits(s string) bool {
	if s == "" {
		return false
	}
	for _, c := range s {
		if c < '0' || c > '9' {
			return false
		}
	}
	return true
}

func parseIntLit(s string) (uint64, bool) {
	if v, err := strconv.ParseInt(s, 10, 64); err == nil {
		return uint64(v), true
	}
	if v, err := strconv.ParseUint(s, 10, 64); err == nil {
		return v, true
	}
	return 0, false
}

var paramAttrs = map[string]bool{
	"noundef": true, "zeroext": true, "signext": true, "nonnull": true, "nocapture": true,
	"readonly": true, "writeonly": true, "readnone": true, "noalias": true, "immarg": true,
	"returned": true, "inreg": true, "nofree": true, "nest": true,
}

// skipParamAttrs skips parameter / return attributes.
func (p *parser) skipParamAttrs() error {
	for {
		t := p.peek()
		if t.k != tkWord {
			return nil
		}
		if paramAttrs[t.s] {
			p.next()
			continue
		}
		if t.s == "align" || t.s == "dereferenceable" || t.s == "dereferenceable_or_null" {
			p.next()
			if p.acceptPunct("(") {
				p.next()
				if err := p.expectPunct(")"); err != nil {
					return err
				}
			} else {
				p.next()
			}
			continue
		}
		if t.s == "byval" || t.s == "sret" || t.s == "inalloca" || t.s == "byref" {
			return p.errf("parameter attribute %s is not supported", t.s)
		}
		return nil
	}
}

func (p *parser) parseValue(ty *Type) (*Value, error) {
	t := p.next()
	switch t.k {
	case tkLocal:
		return &Value{Kind: VLocal, Ty: ty, Name: t.s}, nil
	case tkGlobal:
		return &Value{Kind: VGlobal, Ty: ty, Name: t.s}, nil
	case tkInt:
		v, ok := parseIntLit(t.s)
		if !ok {
			return nil, p.errf("unsupported numeric literal %q", t.s)
		}
		if ty.Kind != TInt {
			return nil, p.errf("integer literal for non-integer type %s", ty)
		}
		if ty.Bits > 64 {
			return nil, p.errf("integer wider than 64 bits")
		}
		return &Value{Kind: VInt, Ty: ty, Int: v}, nil
	case tkCString:
		return &Value{Kind: VString, Ty: ty, Str: []byte(t.s)}, nil
	case tkWord:
		switch t.s {
		case "true":
			return &Value{Kind: VInt, Ty: ty, Int: 1}, nil
		case "false":
			return &Value{Kind: VInt, Ty: ty, Int: 0}, nil
		case "null":
			return &Value{Kind: VNull, Ty: ty}, nil
		case "undef", "poison":
			return &Value{Kind: VUndef, Ty: ty}, nil
		case "zeroinitializer":
			return &Value{Kind: VZero, Ty: ty}, nil
		case "bitcast", "inttoptr", "ptrtoint", "addrspacecast", "trunc", "zext", "sext":
			if t.s != "bitcast" && t.s != "inttoptr" && t.s != "ptrtoint" {
				return nil, p.errf("constant expression %s is not supported", t.s)
			}
			if err := p.expectPunct("("); err != nil {
				return nil, err
			}
			st, err := p.parseType()
			if err != nil {
				return nil, err
			}
			a, err := p.parseValue(st)
			if err != nil {
				return nil, err
			}
			if err := p.expectWord("to"); err != nil {
				return nil, err
			}
			to, err := p.parseType()
			if err != nil {
				return nil, err
			}
			if err := p.expectPunct(")"); err != nil {
				return nil, err
			}
			return &Value{Kind: VExpr, Ty: to, Expr: &ConstExpr{Op: t.s, Args: []*Value{a}, To: to}}, nil
		case "getelementptr":
			p.acceptWord("inbounds")
			if err := p.expectPunct("("); err != nil {
				return nil, err
			}
			st, err := p.parseType()
			if err != nil {
				return nil, err
			}
			ce := &ConstExpr{Op: "getelementptr", SrcTy: st}
			for p.acceptPunct(",") {
				p.acceptWord("inrange")
				at, err := p.parseType()
				if err != nil {
					return nil, err
				}
				a, err := p.parseValue(at)
				if err != nil {
					return nil, err
				}
				ce.Args = append(ce.Args, a)
			}
			if err := p.expectPunct(")"); err != nil {
				return nil, err
			}
			return &Value{Kind: VExpr, Ty: ty, Expr: ce}, nil
		}
		return nil, p.errf("unsupported constant %q", t.s)
	case tkPunct:
		switch t.s {
		case "[", "{", "<":
			closer := map[string]string{"[": "]", "{": "}", "<": ">"}[t.s]
			packed := false
			if t.s == "<" {
				if !p.acceptPunct("{") {
					return nil, p.errf("vector constants are not supported")
				}
				packed = true
				closer = "}"
			}
			agg := &Value{Kind: VAggregate, Ty: ty}
			for !p.isPunct(closer) {
				et, err := p.parseType()
				if err != nil {
					return nil, err
				}
				ev, err := p.parseValue(et)
				if err != nil {
					return nil, err
				}
				agg.Elems = append(agg.Elems, ev)
				if !p.acceptPunct(",") {
					break
				}
			}
			if err := p.expectPunct(closer); err != nil {
				return nil, err
			}
			if packed {
				if err := p.expectPunct(">"); err != nil {
					return nil, err
				}
			}
			return agg, nil
		}
	}
	return nil, p.errf("value expected, got %q", t.s)
}

func (p *parser) parseTypedValue() (*Value, error) {
	ty, err := p.parseType()
	if err != nil {
		return nil, err
	}
	if err := p.skipParamAttrs(); err != nil {
		return nil, err
	}
	return p.parseValue(ty)
}

func (p *parser) parseLabel() (string, error) {
	if err := p.expectWord("label"); err != nil {
		return "", err
	}
	t := p.next()
	if t.k != tkLocal {
		return "", p.errf("label expected")
	}
	return t.s, nil
}

// skipTrailer consumes ", align N", ", !md !N" and attribute refs at the end
// of an instruction and errors on anything else.
func (p *parser) skipTrailer() error {
	for p.peek().k != tkEOF {
		t := p.next()
		switch {
		case t.k == tkPunct && t.s == ",":
		case t.k == tkWord && t.s == "align":
			p.next()
		case t.k == tkMeta, t.k == tkAttr:
		default:
			return p.errf("unexpected trailing token %q", t.s)
		}
	}
	return nil
}

var binops = map[string]bool{"add": true, "sub": true, "mul": true, "udiv": true, "sdiv": true, "urem": true, "srem": true,
	"shl": true, "lshr": true, "ashr": true, "and": true, "or": true, "xor": true}
var casts = map[string]bool{"zext": true, "sext": true, "trunc": true, "bitcast": true, "inttoptr": true, "ptrtoint": true}
var icmpPreds = map[string]bool{"eq": true, "ne": true, "ugt": true, "uge": true, "ult": true, "ule": true, "sgt": true, "sge": true, "slt": true, "sle": true}

func (p *parser) parseInstr() (*Instr, error) {
	in := &Instr{Line: p.line, Raw: strings.TrimSpace(p.raw), Ty: tyVoid}
	if p.peek().k == tkLocal && p.pos+1 < len(p.toks) && p.toks[p.pos+1].k == tkPunct && p.toks[p.pos+1].s == "=" {
		in.Res = p.next().s
		p.next()
	}
	opt := p.next()
	if opt.k != tkWord {
		return nil, p.errf("opcode expected, got %q", opt.s)
	}
	op := opt.s
	if op == "tail" || op == "musttail" || op == "notail" {
		if err := p.expectWord("call"); err != nil {
			return nil, err
		}
		op = "call"
	}
	in.Op = op
	var err error
	switch {
	case binops[op]:
		for p.acceptWord("nuw") || p.acceptWord("nsw") || p.acceptWord("exact") {
		}
		if in.Ty, err = p.parseType(); err != nil {
			return nil, err
		}
		if in.Ty.Kind != TInt {
			return nil, p.errf("%s on non-integer type %s", op, in.Ty)
		}
		a, err := p.parseValue(in.Ty)
		if err != nil {
			return nil, err
		}
		if err := p.expectPunct(","); err != nil {
			return nil, err
		}
		b, err := p.parseValue(in.Ty)
		if err != nil {
			return nil, err
		}
		in.Args = []*Value{a, b}
	case casts[op]:
		a, err := p.parseTypedValue()
		if err != nil {
			return nil, err
		}
		if err := p.expectWord("to"); err != nil {
			return nil, err
		}
		if in.Ty, err = p.parseType(); err != nil {
			return nil, err
		}
		in.Args = []*Value{a}
	case op == "icmp":
		pr := p.next()
		if !icmpPreds[pr.s] {
			return nil, p.errf("unknown icmp predicate %q", pr.s)
		}
		in.Pred = pr.s
		ty, err := p.parseType()
		if err != nil {
			return nil, err
		}
		a, err := p.parseValue(ty)
		if err != nil {
			return nil, err
		}
		if err := p.expectPunct(","); err != nil {
			return nil, err
		}
		b, err := p.parseValue(ty)
		if err != nil {
			return nil, err
		}
		in.Args = []*Value{a, b}
		in.Ty = IntType(1)
	case op == "alloca":
		if in.ElemTy, err = p.parseType(); err != nil {
			return nil, err
		}
		if p.acceptPunct(",") {
			if p.acceptWord("align") {
				p.next()
			} else {
				// element count
				cnt, err := p.parseTypedValue()
				if err != nil {
					return nil, err
				}
				in.Args = []*Value{cnt}
			}
		}
		in.Ty = PtrTo(in.ElemTy)
	case op == "load":
		if p.isWord("atomic") {
			return nil, p.errf("atomic load is not supported")
		}
		p.acceptWord("volatile")
		if in.ElemTy, err = p.parseType(); err != nil {
			return nil, err
		}
		in.Ty = in.ElemTy
		if err := p.expectPunct(","); err != nil {
			return nil, err
		}
		a, err := p.parseTypedValue()
		if err != nil {
			return nil, err
		}
		in.Args = []*Value{a}
	case op == "store":
		if p.isWord("atomic") {
			return nil, p.errf("atomic store is not supported")
		}
		p.acceptWord("volatile")
		v, err := p.parseTypedValue()
		if err != nil {
			return nil, err
		}
		if err := p.expectPunct(","); err != nil {
			return nil, err
		}
		a, err := p.parseTypedValue()
		if err != nil {
			return nil, err
		}
		in.Args = []*Value{v, a}
		in.ElemTy = v.Ty
	case op == "getelementptr":
		p.acceptWord("inbounds")
		if in.ElemTy, err = p.parseType(); err != nil {
			return nil, err
		}
		for p.acceptPunct(",") {
			a, err := p.parseTypedValue()
			if err != nil {
				return nil, err
			}
			in.Args = append(in.Args, a)
		}
		if len(in.Args) < 1 {
			return nil, p.errf("getelementptr without pointer operand")
		}
		// result type computed by the layout code
	case op == "phi":
		if in.Ty, err = p.parseType(); err != nil {
			return nil, err
		}
		for {
			if err := p.expectPunct("["); err != nil {
				return nil, err
			}
			v, err := p.parseValue(in.Ty)
			if err != nil {
				return nil, err
			}
			if err := p.expectPunct(","); err != nil {
				return nil, err
			}
			b := p.next()
			if b.k != tkLocal {
				return nil, p.errf("phi block expected")
			}
			if err := p.expectPunct("]"); err != nil {
				return nil, err
			}
			in.In = append(in.In, PhiIn{v, b.s})
			if !p.acceptPunct(",") {
				break
			}
		}
	case op == "select":
		c, err := p.parseTypedValue()
		if err != nil {
			return nil, err
		}
		if c.Ty.Kind != TInt || c.Ty.Bits != 1 {
			return nil, p.errf("select with non-i1 condition")
		}
		if err := p.expectPunct(","); err != nil {
			return nil, err
		}
		a, err := p.parseTypedValue()
		if err != nil {
			return nil, err
		}
		if err := p.expectPunct(","); err != nil {
			return nil, err
		}
		b, err := p.parseTypedValue()
		if err != nil {
			return nil, err
		}
		in.Args = []*Value{c, a, b}
		in.Ty = a.Ty
	case op == "br":
		if p.isWord("label") {
			l, err := p.parseLabel()
			if err != nil {
				return nil, err
			}
			in.Targets = []string{l}
		} else {
			c, err := p.parseTypedValue()
			if err != nil {
				return nil, err
			}
			if err := p.expectPunct(","); err != nil {
				return nil, err
			}
			a, err := p.parseLabel()
			if err != nil {
				return nil, err
			}
			if err := p.expectPunct(","); err != nil {
				return nil, err
			}
			b, err := p.parseLabel()
			if err != nil {
				return nil, err
			}
			in.Args = []*Value{c}
			in.Targets = []string{a, b}
		}
	case op == "switch":
		v, err := p.parseTypedValue()
		if err != nil {
			return nil, err
		}
		if err := p.expectPunct(","); err != nil {
			return nil, err
		}
		d, err := p.parseLabel()
		if err != nil {
			return nil, err
		}
		in.Args = []*Value{v}
		in.Targets = []string{d}
		if err := p.expectPunct("["); err != nil {
			return nil, err
		}
		for !p.isPunct("]") {
			cv, err := p.parseTypedValue()
			if err != nil {
				return nil, err
			}
			if cv.Kind != VInt {
				return nil, p.errf("non-constant switch case")
			}
			if err := p.expectPunct(","); err != nil {
				return nil, err
			}
			l, err := p.parseLabel()
			if err != nil {
				return nil, err
			}
			in.Cases = append(in.Cases, SwitchCase{cv.Int, l})
		}
		p.next()
	case op == "ret":
		if p.acceptWord("void") {
			break
		}
		v, err := p.parseTypedValue()
		if err != nil {
			return nil, err
		}
		in.Args = []*Value{v}
	case op == "unreachable":
	case op == "freeze":
		v, err := p.parseTypedValue()
		if err != nil {
			return nil, err
		}
		in.Args = []*Value{v}
		in.Ty = v.Ty
	case op == "call":
		for p.acceptWord("fastcc") || p.acceptWord("ccc") {
		}
		if err := p.skipParamAttrs(); err != nil {
			return nil, err
		}
		ty, err := p.parseType()
		if err != nil {
			return nil, err
		}
		if ty.Kind == TPtr && ty.Elem.Kind == TFunc {
			ty = ty.Elem
		}
		if ty.Kind == TFunc {
			in.Ty = ty.Ret
		} else {
			in.Ty = ty
		}
		ct := p.next()
		if ct.k != tkGlobal {
			return nil, p.errf("indirect calls / inline asm are not supported (callee %q)", ct.s)
		}
		in.Callee = ct.s
		if err := p.expectPunct("("); err != nil {
			return nil, err
		}
		for !p.isPunct(")") {
			if p.isWord("metadata") {
				// debug intrinsics: skip operand
				p.next()
				depth := 0
				for p.peek().k != tkEOF {
					if p.isPunct("(") {
						depth++
					} else if p.isPunct(")") {
						if depth == 0 {
							break
						}
						depth--
					} else if p.isPunct(",") && depth == 0 {
						break
					}
					p.next()
				}
				in.Args = append(in.Args, &Value{Kind: VMeta, Ty: tyMeta})
			} else {
				a, err := p.parseTypedValue()
				if err != nil {
					return nil, err
				}
				in.Args = append(in.Args, a)
			}
			if !p.acceptPunct(",") {
				break
			}
		}
		if err := p.expectPunct(")"); err != nil {
			return nil, err
		}
	case op == "atomicrmw":
		p.acceptWord("volatile")
		o := p.next()
		switch o.s {
		case "add", "sub", "and", "or", "xor", "xchg", "max", "min", "umax", "umin":
		default:
			return nil, p.errf("unsupported atomicrmw operation %q", o.s)
		}
		in.Pred = o.s
		a, err := p.parseTypedValue()
		if err != nil {
			return nil, err
		}
		if err := p.expectPunct(","); err != nil {
			return nil, err
		}
		v, err := p.parseTypedValue()
		if err != nil {
			return nil, err
		}
		in.Args = []*Value{a, v}
		in.Ty = v.Ty
		// ordering
		for p.peek().k == tkWord && p.peek().s != "align" {
			p.next()
		}
	default:
		return nil, p.errf("unsupported instruction %q", op)
	}
	if err := p.skipTrailer(); err != nil {
		return nil, err
	}
	return in, nil
}

// ParseIR parses textual LLVM IR (typed-pointer dialect of LLVM 14).
func ParseIR(text string) (*Module, error) {
	m := &Module{Types: map[string]*Type{}, Globals: map[string]*Global{}, Funcs: map[string]*Function{}, Maps: map[string]*MapInfo{}, CtxOff: map[string]int64{}}
	p := &parser{m: m}
	lines := strings.Split(text, "\n")
	var cur *Function
	var blk *Block
	for i := 0; i < len(lines); i++ {
		ln := lines[i]
		p.line = i + 1
		p.raw = ln
		trim := strings.TrimSpace(ln)
		if trim == "" || trim[0] == ';' {
			continue
		}
		// join multi-line switch
		if cur != nil && strings.Contains(trim, "switch ") && strings.HasSuffix(trim, "[") {
			for i+1 < len(lines) {
				i++
				ln += " " + lines[i]
				if strings.TrimSpace(lines[i]) == "]" {
					break
				}
			}
			p.raw = ln
		}
		toks, err := lexLine(ln)
		if err != nil {
			return nil, p.errf("%v", err)
		}
		if len(toks) == 0 {
			continue
		}
		p.toks, p.pos = toks, 0
		if cur != nil {
			// inside a function body
			if toks[0].k == tkPunct && toks[0].s == "}" {
				cur, blk = nil, nil
				continue
			}
			if len(toks) >= 2 && toks[0].k == tkWord && toks[1].k == tkPunct && toks[1].s == ":" {
				blk = &Block{Name: toks[0].s, Index: len(cur.Blocks)}
				cur.Blocks = append(cur.Blocks, blk)
				cur.BlockBy[blk.Name] = blk
				continue
			}
			if len(toks) >= 2 && toks[0].k == tkInt && toks[1].k == tkPunct && toks[1].s == ":" {
				blk = &Block{Name: toks[0].s, Index: len(cur.Blocks)}
				cur.Blocks = append(cur.Blocks, blk)
				cur.BlockBy[blk.Name] = blk
				continue
			}
			if blk == nil {
				// unnamed entry block: its label is the number of parameters
				blk = &Block{Name: strconv.Itoa(len(cur.Params)), Index: 0}
				cur.Blocks = append(cur.Blocks, blk)
				cur.BlockBy[blk.Name] = blk
			}
			in, err := p.parseInstr()
			if err != nil {
				return nil, err
			}
			in.Ord = len(blk.Instrs)
			blk.Instrs = append(blk.Instrs, in)
			continue
		}
		switch {
		case toks[0].k == tkWord && toks[0].s == "source_filename":
		case toks[0].k == tkWord && toks[0].s == "target":
			if len(toks) >= 4 && toks[1].s == "datalayout" {
				m.DataLayout = toks[3].s
			} else if len(toks) >= 4 && toks[1].s == "triple" {
				m.Triple = toks[3].s
			}
		case toks[0].k == tkLocal:
			// %name = type ...
			name := p.next().s
			if err := p.expectPunct("="); err != nil {
				return nil, err
			}
			if err := p.expectWord("type"); err != nil {
				return nil, err
			}
			nt := p.namedType(name)
			if p.acceptWord("opaque") {
				nt.Kind = TOpaque
				nt.resolved = true
				continue
			}
			body, err := p.parseType()
			if err != nil {
				return nil, err
			}
			if body.Kind != TStruct {
				return nil, p.errf("named non-struct type")
			}
			nt.Fields, nt.Packed, nt.resolved = body.Fields, body.Packed, true
		case toks[0].k == tkGlobal:
			if err := p.parseGlobal(); err != nil {
				return nil, err
			}
		case toks[0].k == tkWord && (toks[0].s == "define" || toks[0].s == "declare"):
			f, err := p.parseFuncHeader()
			if err != nil {
				return nil, err
			}
			m.Funcs[f.Name] = f
			m.FuncList = append(m.FuncList, f)
			if !f.Decl {
				cur, blk = f, nil
			}
		case toks[0].k == tkWord && toks[0].s == "attributes":
		case toks[0].k == tkMeta:
		default:
			return nil, p.errf("unsupported top-level entity %q", toks[0].s)
		}
	}
	for name, t := range m.Types {
		if !t.resolved {
			return nil, fmt.Errorf("IR: type %%%s used but not defined", name)
		}
	}
	return m, nil
}

var linkageWords = map[string]bool{
	"dso_local": true, "internal": true, "private": true, "external": true, "common": true, "weak": true,
	"linkonce": true, "linkonce_odr": true, "weak_odr": true, "appending": true, "hidden": true, "protected": true,
	"default": true, "unnamed_addr": true, "local_unnamed_addr": true, "dso_preemptable": true, "available_externally": true,
	"externally_initialized": true,
}

func (p *parser) parseGlobal() error {
	g := &Global{Name: p.next().s}
	if err := p.expectPunct("="); err != nil {
		return err
	}
	for p.peek().k == tkWord && linkageWords[p.peek().s] {
		w := p.next().s
		if w == "internal" || w == "private" {
			g.Internal = true
		}
		if w == "external" {
			g.Init = nil
		}
	}
	switch {
	case p.acceptWord("global"):
	case p.acceptWord("constant"):
		g.Const = true
	case p.isWord("alias") || p.isWord("ifunc"):
		return p.errf("aliases are not supported")
	case p.isWord("thread_local"):
		return p.errf("thread_local globals are not supported")
	default:
		return p.errf("global/constant expected, got %q", p.peek().s)
	}
	ty, err := p.parseType()
	if err != nil {
		return err
	}
	g.Ty = ty
	if p.peek().k != tkEOF && !p.isPunct(",") {
		if g.Name == "llvm.compiler.used" || g.Name == "llvm.used" {
			// list of retained symbols; not needed
			p.pos = len(p.toks)
		} else {
			init, err := p.parseValue(ty)
			if err != nil {
				return err
			}
			g.Init = init
		}
	}
	for p.acceptPunct(",") {
		switch {
		case p.acceptWord("section"):
			g.Section = p.next().s
		case p.acceptWord("align"):
			p.next()
		case p.peek().k == tkMeta:
			p.next()
			if p.peek().k == tkMeta {
				p.next()
			}
		case p.acceptWord("comdat"):
		default:
			return p.errf("unexpected global attribute %q", p.peek().s)
		}
	}
	p.m.Globals[g.Name] = g
	p.m.GlobalList = append(p.m.GlobalList, g)
	return nil
}

func (p *parser) parseFuncHeader() (*Function, error) {
	f := &Function{BlockBy: map[string]*Block{}, Line: p.line}
	f.Decl = p.next().s == "declare"
	for p.peek().k == tkWord && linkageWords[p.peek().s] {
		p.next()
	}
	if err := p.skipParamAttrs(); err != nil {
		return nil, err
	}
	ret, err := p.parseType()
	if err != nil {
		return nil, err
	}
	f.Ret = ret
	nt := p.next()
	if nt.k != tkGlobal {
		return nil, p.errf("function name expected")
	}
	f.Name = nt.s
	if err := p.expectPunct("("); err != nil {
		return nil, err
	}
	idx := 0
	for !p.isPunct(")") {
		if p.acceptPunct("...") {
			f.VarArg = true
		} else {
			pt, err := p.parseType()
			if err != nil {
				return nil, err
			}
			if err := p.skipParamAttrs(); err != nil {
				return nil, err
			}
			name := strconv.Itoa(idx)
			if p.peek().k == tkLocal {
				name = p.next().s
			}
			f.Params = append(f.Params, Param{name, pt})
			idx++
		}
		if !p.acceptPunct(",") {
			break
		}
	}
	if err := p.expectPunct(")"); err != nil {
		return nil, err
	}
	for p.peek().k != tkEOF {
		t := p.next()
		switch {
		case t.k == tkWord && t.s == "section":
			f.Section = p.next().s
		case t.k == tkWord && (linkageWords[t.s] || t.s == "nounwind" || t.s == "uwtable"):
		case t.k == tkWord && t.s == "align":
			p.next()
		case t.k == tkAttr, t.k == tkMeta:
		case t.k == tkPunct && t.s == "{":
		case t.k == tkWord && (t.s == "personality" || t.s == "gc" || t.s == "prefix" || t.s == "prologue"):
			return nil, p.errf("function attribute %s is not supported", t.s)
		default:
			return nil, p.errf("unexpected token %q in function header", t.s)
		}
	}
	return f, nil
}
