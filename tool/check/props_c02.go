package check

import "bngvc/govc"

// notDerivedKeyEnsures keeps every obligation except the functional postconditions of the
// IPv4 key derivations, which are claimed (and recorded as known findings) under C06.
func notDerivedKeyEnsures(o *govc.Oblig) bool {
	if o.Kind == "ensures" && (o.Func == "ebpf.IPToUint32" || o.Func == "nat.ipToKey") {
		return false
	}
	return true
}

func init() {
	register(&PropDef{
		ID:    "C02",
		Title: "DHCP servers never bind one address or prefix to two clients",
		Pkgs:  []string{"./pkg/dhcp", "./pkg/dhcpv6", "./pkg/ebpf", "./pkg/qos", "./pkg/nat", "./pkg/radius", "./pkg/nexus", "./pkg/allocator"},
		Funcs: []string{
			// DHCPv4 pool: ownership invariants and whole-view postconditions
			"dhcp.Pool.Allocate", "dhcp.Pool.Release", "dhcp.Pool.MarkUnavailable", "dhcp.Pool.IsAllocatedTo", "dhcp.Pool.Rebind",
			// DHCPv4 server: the ACK gate and the OFFER source, with the frames they rest on
			"dhcp.Server.handleRequest", "dhcp.Server.handleDiscover", "dhcp.Server.cleanupExpiredLeases",
			"dhcp.parseOption82", "dhcp.Server.lookupLeaseByCircuitID", "dhcp.Server.buildNAK", "dhcp.Server.updateFastPathCache",
			"dhcp.PoolManager.ClassifyClient", "dhcp.PoolManager.GetPool",
			"ebpf.Loader.AddSubscriber", "ebpf.Loader.AddVLANSubscriber", "ebpf.Loader.AddCircuitIDMapping", "ebpf.Loader.AddCircuitIDSubscriber",
			"ebpf.HashCircuitID", "ebpf.IPToUint32", "ebpf.MACToUint64",
			// DHCPv6 pools and the RELEASE / DECLINE paths
			"dhcpv6.NewAddressPool", "dhcpv6.nextIPv6", "dhcpv6.copyIPv6",
			"dhcpv6.AddressPool.Allocate", "dhcpv6.AddressPool.Release", "dhcpv6.AddressPool.Quarantine",
			"dhcpv6.PrefixPool.Allocate", "dhcpv6.PrefixPool.Release",
			"dhcpv6.Server.releaseAddress", "dhcpv6.Server.releasePrefix", "dhcpv6.Message.GetOption",
			"dhcpv6.Server.endBinding", "dhcpv6.Server.handleRelease", "dhcpv6.Server.handleDecline",
			"dhcpv6.Server.buildReply", "dhcpv6.Server.buildAdvertise",
		},
		// constructors whose byte / bit arithmetic the verifier cannot reach: bounded stand-ins on the real code
		BoundedChecks: []BoundedCheck{
			{ID: "dhcp.NewPool", Pkg: "github.com/codelaboratoryltd/bng/pkg/dhcp", File: "dhcp_NewPool.go",
				Bound: "every IPv4 network /22../30 at three bases, 7 gateway positions (hosts, network, broadcast, outside), reserved ranges {0,1,3} x {0,2}: 1134 configurations",
				Claim: "free list duplicate-free, strictly between network and broadcast address, without the gateway, exactly the hosts minus the reserved ranges"},
			{ID: "dhcpv6.NewPrefixPool+NewAddressPool", Pkg: "github.com/codelaboratoryltd/bng/pkg/dhcpv6", File: "dhcpv6_pools.go",
				Bound: "NewPrefixPool: 18 pool prefix lengths x 1..12 index bits; NewAddressPool: /118../128 and /64: 224 geometries",
				Claim: "min(2^bits,1000) prefixes, pairwise different, inside the pool, mask = delegation length, prefix i = base + i<<(128-len); addresses pairwise different, inside the network, not the network address"},
		},
		// the byte-order postconditions of the key derivations belong to C06's claim
		Select: notDerivedKeyEnsures,
		Trusted: []string{
			"ebpf.Loader.CheckCircuitIDCollision, qos.Manager.SetSubscriberPolicy, dhcpv6.Server.sendResponse, allocator.PoolAllocator.Release: trusted frames (kernel maps / sockets / the external allocator's own tables)",
			"radius.Client.Authenticate (oracle, C04), radius.Client.SendAccounting (C08), nat.Manager.AllocateNAT (C10): contracts verified under those properties",
			"github.com/insomniacslk/dhcp/dhcpv4 constructors and accessors: assumed not to write existing memory",
		},
		Undecided: []string{
			"NOT DECIDED (whole-history clauses): agreement between the DHCPv4 lease table (leasesMu) and the pool (Pool.mu) between the ownership check and the insertion of the lease; 'never two unexpired bindings on one address' in the lease table itself (two mutexes, check-then-act, needs a cross-lock invariant the monitor model cannot express); lease expiry and the cleanup tick (time); circuit-id based lease takeover by a different MAC; DHCPv6 lifetimes (the v6 server never expires a binding: there is no cleanup path to put under contract)",
			"NOT DECIDED: that generated pool members lie inside the network and exclude network / broadcast / gateway (NewPool.generateAvailableIPs, NewAddressPool, NewPrefixPool establish the pool invariants; their byte / bit arithmetic is outside the integer fragment; NewAddressPool's in-network clause is proved, everything else about the constructors is covered only by the BOUNDED stand-ins listed under 'bounded', which are not proofs)",
			"NOT DECIDED: Nexus-managed addressing (httpAllocator / nexusClient) and the external PoolAllocator mode of the DHCPv6 server; DHCPv6 buildAdvertise / buildReply pass the client's own DUID to the pools (call sites not under contract); INFORM, CONFIRM, RENEW, REBIND",
			"callers are assumed not to modify the bytes of a net.IP handed out by a pool (the slices are shared)",
		},
		Assumptions: []string{
			"net.IP.Equal / String are modelled through an uninterpreted extensional class key (ip_key) with String injective on classes",
			"Pool.mu / AddressPool.mu / PrefixPool.mu own their tables, Server.leasesMu owns leases (monitor model)",
			"the ACK path of dhcp.Server.handleRequest is identified by the increment of acksTotal, the OFFER path of handleDiscover by offersTotal (the only increments in the package)",
		},
		Explanation: "Pool level (v4 Pool, v6 AddressPool, v6 PrefixPool): lock invariants say that free-list entries are pairwise different, never held by a client and (v4) never quarantined, and that no two clients hold the same value; every public operation re-establishes them and has a whole-view postcondition: Allocate returns the client's existing value unchanged or the head of the free list, which nobody else holds; Release/Quarantine remove exactly the addressed binding and leave all others untouched; a released value is on the free list again, a declined one is not. Server level: DHCPv4 handleRequest reaches its ACK path only if the client's own lease carries the requested address or Pool.IsAllocatedTo confirmed under the pool mutex that the pool holds it for this MAC; handleDiscover offers the client's own lease address or the value Pool.Allocate returned for its MAC; DHCPv6 DECLINE ends the binding through Quarantine (never Release), RELEASE through Release. Three failing obligations were genuine defects (fixed, see known_findings.json).",
	})
}
