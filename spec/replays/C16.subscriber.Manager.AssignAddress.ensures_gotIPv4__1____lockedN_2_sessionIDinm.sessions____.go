package subscriber

import (
	"context"
	"fmt"
	"net"
	"testing"

	"go.uber.org/zap"
)

// an allocator whose AllocateIPv4 lets a concurrent termination win: the session is terminated
// (operator disconnect, PADT ...) between AssignAddress's look-up and the moment the address is recorded
type raceAllocator struct {
	m        *Manager
	id       string
	out      map[string]bool
	released []string
}

func (a *raceAllocator) AllocateIPv4(ctx context.Context, s *Session, pool string) (net.IP, net.IPMask, net.IP, error) {
	ip := net.ParseIP("10.7.0.9").To4()
	a.out[ip.String()] = true
	a.m.TerminateSession(ctx, a.id, TerminateReason("admin")) // the concurrent termination
	return ip, net.CIDRMask(24, 32), net.ParseIP("10.7.0.1").To4(), nil
}
func (a *raceAllocator) AllocateIPv6(ctx context.Context, s *Session, pool string) (net.IP, *net.IPNet, error) {
	return nil, nil, fmt.Errorf("no v6")
}
func (a *raceAllocator) ReleaseIPv4(ctx context.Context, ip net.IP) error {
	delete(a.out, ip.String())
	a.released = append(a.released, ip.String())
	return nil
}
func (a *raceAllocator) ReleaseIPv6(ctx context.Context, ip net.IP) error { return nil }

func TestReplayVC(t *testing.T) {
	al := &raceAllocator{out: map[string]bool{}}
	m := NewManager(ManagerConfig{MaxSessions: 10}, nil, al, zap.NewNop())
	al.m = m
	mac, _ := net.ParseMAC("02:00:00:00:00:01")
	s, err := m.CreateSession(context.Background(), &SessionRequest{MAC: mac})
	if err != nil {
		fmt.Println("REPLAY-SETUP-FAILED", err)
		return
	}
	al.id = s.ID
	err = m.AssignAddress(context.Background(), s.ID, "pool4", "")
	m.mu.Lock()
	_, inTable := m.sessions[s.ID]
	idx, indexed := m.byIP["10.7.0.9"]
	m.mu.Unlock()
	if !inTable && (al.out["10.7.0.9"] || indexed) {
		fmt.Printf("REPLAY-VIOLATED: session %s ended during AssignAddress (err=%v); address 10.7.0.9 still allocated=%v, byIP entry=%q present=%v: nothing will ever release it\n", s.ID, err, al.out["10.7.0.9"], idx, indexed)
		return
	}
	fmt.Println("REPLAY-OK")
}
