package llvc

import (
	"fmt"
	"path/filepath"
	"sort"
	"strconv"
	"strings"
	"sync"
	"time"

	"bngvc/smt"
)

// MaxQueryBytes caps the text size of one SMT query; larger ones are reported
// as "toolimit" instead of being sent to a solver.
var MaxQueryBytes = 4 << 20

// Obligation is one proof obligation: under the path condition (and the
// earlier obligations on the path) the goal holds.
type Obligation struct {
	ID         string
	Kind       string // inbounds | unwind | verdict | pass_unmodified | divzero | unreachable | helperarg
	Func       string
	Desc       string
	Source     string // IR instruction / description
	Trivial    bool   // goal folded to true during symbolic execution (no solver needed)
	Iterations int    // unwind: number of iterations executed
	res        *Result
	pc, goal   smt.Term
	facts      *factNode
	known      *knownNode
	values     []string
	probes     []NamedTerm // named terms whose model values explain a counterexample
	callReplay *callReplay // call-hook obligations: how to replay the call natively
	raw        string      // lemma over mathematical integers: complete SMT-LIB text (no program state involved)
	hints      []smt.Term  // sufficient refutations tried when the exact query is undecided (counterexample search)
	cex        *smt.Term   // refutation under which a counterexample was found (replaces "not goal")
	// Canary: the goal is false on purpose; the expected answer is sat (the hooked call is reachable
	// under the facts assumed from earlier obligations). unsat means the contracts of this hook hold vacuously.
	Canary bool
}

// Query returns the SMT-LIB text whose unsatisfiability proves the obligation.
// (After a counterexample was found through a sufficient refutation, it is
// the satisfiable query "path condition and refutation".)
func (o *Obligation) Query() string {
	return o.queryWith(append([]string{o.res.pktLen0.S}, o.values...))
}

func (o *Obligation) queryWith(gv []string) string {
	if o.raw != "" {
		return o.raw
	}
	o.res.mu.Lock()
	defer o.res.mu.Unlock()
	if o.cex != nil {
		return o.res.ctx.SatQuery(o.facts.list(), smt.And(o.pc, *o.cex), []string{o.res.pktLen0.S})
	}
	return o.res.ctx.Query(o.facts.list(), o.pc, o.goal, gv)
}

// WeakQuery returns a cheaper sufficient query: instead of the exact path
// condition it assumes only the (decomposed) branch conditions that hold on
// every path to the obligation, sliced to those connected to the goal by
// scalar data flow (memory loads and merged path conditions are atoms), and
// no earlier obligations.  unsat proves the
// obligation; any other answer is inconclusive (use Query).  Returns "" when
// there is nothing to gain.
func (o *Obligation) WeakQuery() string {
	if o.raw != "" {
		return ""
	}
	o.res.mu.Lock()
	defer o.res.mu.Unlock()
	c, ok := o.weakCase()
	if !ok {
		return ""
	}
	return o.res.tm.weakQuery([]weakCase{c})
}

func (o *Obligation) weakCase() (weakCase, bool) {
	tm := o.res.tm
	var gs []smt.Term
	for n := o.known; n != nil; n = n.next {
		if n.comp {
			continue
		}
		t := smt.Term{S: n.s, Sort: smt.Bool}
		if !n.v {
			t = smt.Not(t)
		}
		gs = append(gs, t)
	}
	for i, j := 0, len(gs)-1; i < j; i, j = i+1, j-1 {
		gs[i], gs[j] = gs[j], gs[i]
	}
	if len(gs) == 0 {
		return weakCase{}, false
	}
	cone := tm.scalarSyms(o.goal.S)
	syms := make([]map[string]bool, len(gs))
	incl := make([]bool, len(gs))
	for i, g := range gs {
		syms[i] = tm.scalarSyms(g.S)
	}
	for changed := true; changed; {
		changed = false
		for i := range gs {
			if incl[i] {
				continue
			}
			hit := false
			for k := range syms[i] {
				if cone[k] {
					hit = true
					break
				}
			}
			if hit {
				incl[i] = true
				changed = true
				for k := range syms[i] {
					cone[k] = true
				}
			}
		}
	}
	var as []smt.Term
	for i, g := range gs {
		if incl[i] {
			as = append(as, g)
		}
	}
	return weakCase{as: as, goal: o.goal}, true
}

type blockProbe struct {
	name string
	pc   smt.Term
}

type callProbe struct {
	kind     string
	ghost    bool // made by the second execution of a call2 hook (not a call of the real program)
	desc     string
	pc       smt.Term
	mapName  string
	key      smt.Term
	keySize  int
	found    smt.Term
	valSize  int
	valBytes []smt.Term
	ret      smt.Term
	aux      smt.Term
}

type probeSet struct {
	blocks []blockProbe
	calls  []callProbe
}

// Result of the symbolic execution of one entry point.
type Result struct {
	File        string
	Func        string
	ProgType    string
	Spec        *ProgSpec
	Obligations []*Obligation
	Notes       []string // abstractions that were applied
	Rejected    string   // non-empty: construct that puts the function out of reach (nothing is proved)
	HelpersUsed map[string]bool
	Regions     int
	Steps       int
	ExecTimeS   float64
	IRSHA       string

	mu         sync.Mutex
	ctx        *smt.Ctx
	pktLen0    smt.Term
	pkt0       smt.Term
	ctx0       smt.Term
	ctxSize    int
	ctxStruct  string
	ctxOff     map[string]int64
	probes     *probeSet
	topFrame   *frame
	retBlocks  []int
	retTerm    smt.Term
	finalLen   smt.Term
	finalPkt   smt.Term
	probeNames map[string]string
	tm         *terms
}

// Verify executes entry point funcName of mod symbolically and returns its
// proof obligations.  A construct outside the supported subset yields a
// Result with Rejected set (and no obligations counted as proved).
func Verify(mod *Module, funcName string, opts Options) (*Result, error) {
	f, ok := mod.Funcs[funcName]
	if !ok || f.Decl {
		return nil, fmt.Errorf("no function %s defined in %s", funcName, mod.CFile)
	}
	pt := ProgTypeOfSection(f.Section)
	if pt == "" {
		return nil, fmt.Errorf("%s is not a program entry point (section %q); non-entry functions are verified inlined at their call sites", funcName, f.Section)
	}
	if opts.Property == "" {
		opts.Property = "LLVC"
	}
	if opts.MaxUnroll == 0 {
		opts.MaxUnroll = 512
	}
	if opts.MaxSteps == 0 {
		opts.MaxSteps = 4000000
	}
	spec := opts.Spec
	if spec == nil {
		spec = DefaultSpec(pt)
	}
	res := &Result{File: mod.CFile, Func: funcName, ProgType: pt, Spec: spec, HelpersUsed: map[string]bool{}, ctx: smt.NewCtx(), probes: &probeSet{}, probeNames: map[string]string{}, IRSHA: mod.IRSHA, ctxOff: mod.CtxOff}
	res.ctx.Logic = "QF_AUFBV"
	t0 := time.Now()
	e := &executor{mod: mod, ctx: res.ctx, opts: opts, res: res, fn: f, globalReg: map[string]*Region{}, mergeMemo: map[mergeKey]*Val{},
		siteOrd: map[*Instr]int{}, ids: map[string]int{}, offCases: map[string][]offCase{}, mapInsts: map[string][]*mapInst{}, mapVerMax: map[string]int{}, probes: res.probes, notes: map[string]bool{}}
	e.tm = &terms{ctx: res.ctx, addInfo: map[string]addRec{}, defs: map[string]*defRec{}, boolDefs: map[string]string{}, axIDs: map[string]bool{}}
	res.tm = e.tm
	err := e.verifyEntry(f, pt, spec)
	res.ExecTimeS = time.Since(t0).Seconds()
	res.Regions = len(e.regions)
	res.Steps = e.steps
	if err != nil {
		if u, ok := err.(*unsupportedError); ok {
			res.Rejected = u.msg
			return res, nil
		}
		return nil, err
	}
	// specifications restricted to pinned frame bytes: one extra execution each
	if opts.onlyRef == nil {
		for i := range spec.Functional {
			ref := spec.Functional[i]
			if len(ref.Pin) == 0 || !(opts.AllFunctional || ref.Property == opts.Property) {
				continue
			}
			so := opts
			so.onlyRef = &ref
			sub, err := Verify(mod, funcName, so)
			if err != nil {
				return nil, err
			}
			if sub.Rejected != "" {
				res.Rejected = "pinned run for " + ref.File + ": " + sub.Rejected
				return res, nil
			}
			res.Obligations = append(res.Obligations, sub.Obligations...)
			res.ExecTimeS += sub.ExecTimeS
			res.Steps += sub.Steps
			res.Notes = append(res.Notes, fmt.Sprintf("%s: obligations generated by a separate execution with frame bytes pinned to %v", ref.File, ref.Pin))
		}
	}
	return res, nil
}

func (e *executor) verifyEntry(f *Function, pt string, spec *ProgSpec) error {
	if len(f.Params) != 1 || f.Params[0].Ty.Kind != TPtr || f.Params[0].Ty.Elem.Kind != TStruct {
		return unsupported("entry point %s does not take a single context pointer", f.Name)
	}
	switch f.Params[0].Ty.Elem.Name {
	case "%struct.xdp_md":
		e.ctxStruct = "xdp_md"
	case "%struct.__sk_buff":
		e.ctxStruct = "__sk_buff"
	default:
		return unsupported("unknown context type %s", f.Params[0].Ty.Elem.Name)
	}
	if (pt == "xdp") != (e.ctxStruct == "xdp_md") {
		return unsupported("section %q does not match context type %s", f.Section, e.ctxStruct)
	}
	if f.Ret.Kind != TInt || f.Ret.Bits != 32 {
		return unsupported("entry point does not return i32")
	}
	// fixed regions
	e.newRegion(rkNull, "null", 0)
	e.newRegion(rkInvalid, "invalid", 0)
	pkt := e.newRegion(rkPacket, "packet", 0)
	ctxSize := e.mod.CtxOff[e.ctxStruct+".sizeof"]
	if irSize, err := SizeOf(f.Params[0].Ty.Elem); err != nil || irSize != ctxSize {
		return unsupported("context struct size mismatch between IR (%d) and uapi header (%d)", irSize, ctxSize)
	}
	cr := e.newRegion(rkCtx, "ctx", ctxSize)
	if pkt.ID != ridPacket || cr.ID != ridCtx {
		panic("region numbering")
	}
	e.res.pkt0, e.res.ctx0, e.res.ctxSize, e.res.ctxStruct = pkt.init.Base, cr.init.Base, int(ctxSize), e.ctxStruct
	if e.opts.onlyRef != nil {
		for k, v := range e.opts.onlyRef.Pin {
			off, err1 := strconv.ParseInt(k, 0, 64)
			bv, err2 := strconv.ParseUint(v, 0, 8)
			if err1 != nil || err2 != nil || off < 0 {
				return fmt.Errorf("bad pin %q:%q in the specification of %s", k, v, f.Name)
			}
			pkt.init.Ov[off] = Byte{V: constVal(bv, 8)}
			e.tm.axiom(fmt.Sprintf("pin:%d", off), smt.Eq(smt.Select(pkt.init.Base, lit(uint64(off), 64)), lit(bv, 8)), pkt.init.Base.S)
		}
		if !debugNoMute {
			e.mute = 1 // the program's own obligations belong to the unpinned run
		}
	}
	e.pktLen0 = e.tm.declConst("pkt_len0", smt.BV(64))
	e.tm.axiom("pkt_len0", e.tm.icmp("ule", e.pktLen0, lit(65535, 64)), "pkt_len0")
	e.res.pktLen0 = e.pktLen0
	// globals
	for _, g := range e.mod.GlobalList {
		if strings.HasPrefix(g.Name, "llvm.") {
			continue
		}
		if g.Section == ".maps" {
			r := e.newRegion(rkMapDef, g.Name, 0)
			r.Map = g.Name
			e.globalReg[g.Name] = r
			continue
		}
		sz, err := SizeOf(g.Ty)
		if err != nil {
			return unsupported("global @%s: %v", g.Name, err)
		}
		r := e.newRegion(rkGlobal, g.Name, sz)
		r.ReadOnly = g.Const
		if g.Const && g.Init != nil {
			bs, err := constBytes(g.Init, g.Ty)
			if err != nil {
				return unsupported("initializer of @%s: %v", g.Name, err)
			}
			for i, b := range bs {
				r.init.Ov[int64(i)] = Byte{V: constVal(uint64(b), 8)}
			}
		} else if !g.Const {
			e.note("mutable global @%s: contents treated as arbitrary", g.Name)
		}
		e.globalReg[g.Name] = r
	}
	st := &State{pc: smt.True, regs: map[string]*Val{}, mem: map[int]*RegMem{}, pktLen: e.pktLen0, mapVer: map[string]int{}, found: map[string]smt.Term{}}
	rv, out, err := e.execFunc(f, []*Val{e.ptrTo(cr, 0)}, st, "", true)
	if err != nil {
		return err
	}
	if e.opts.onlyRef != nil {
		e.mute = 0
		fr := e.res.topFrame
		fr.cur, fr.iters = nil, nil
		if out.pc.IsFalse() || rv == nil {
			return nil
		}
		ret := e.tm.named("retval", rv.T)
		e.res.retTerm, e.res.finalLen = ret, out.pktLen
		if e.opts.onlyRef.Hook == "" || e.opts.onlyRef.Hook == "exit" {
			return e.exitSpec(fr, out, ret, *e.opts.onlyRef)
		}
		return nil
	}
	fr := e.res.topFrame
	fr.cur, fr.iters = nil, nil
	if out.pc.IsFalse() || rv == nil {
		e.note("no path reaches a return instruction")
		return nil
	}
	ret := e.tm.named("retval", rv.T)
	e.res.retTerm = ret
	e.res.finalLen = out.pktLen
	// verdict
	var alts []smt.Term
	for _, v := range spec.Verdicts {
		alts = append(alts, e.tm.icmp("eq", ret, lit(uint64(v), 32)))
	}
	if o := e.oblige(fr, out, "verdict", "ret", smt.Or(alts...), fmt.Sprintf("return value in %v", spec.Verdicts)); o != nil {
		o.values = []string{ret.S}
	}
	// pass_unmodified
	if !spec.NoPassUnmodified {
		k := e.tm.declConst("pu_idx", smt.BV(64))
		var pre smt.Term // ret == PASS and not acts, for the leaf handled last
		mkGoal := func(retT smt.Term, s *State, mem *RegMem) (smt.Term, []string, error) {
			acts, err := spec.actsTerm(s)
			if err != nil {
				return smt.Term{}, nil, err
			}
			same := e.tm.icmp("eq", s.pktLen, e.pktLen0)
			final := e.res.pkt0
			if !(mem.Base.S == e.res.pkt0.S && len(mem.Ov) == 0) {
				final = e.flush(mem).Base
				same = smt.And(same, smt.Implies(e.tm.icmp("ult", k, e.pktLen0), smt.Eq(smt.Select(final, k), smt.Select(e.res.pkt0, k))))
			}
			if v, ok := e.knownVal(s, acts.S, 0); ok && v {
				acts = smt.True // decided by the branch conditions on every path to this point
			}
			isPass := e.tm.icmp("eq", retT, lit(uint64(spec.Pass), 32))
			goal := smt.Implies(isPass, smt.Or(acts, e.tm.named("pkt_unmodified", same)))
			pre = smt.And(isPass, smt.Not(acts))
			return goal, []string{retT.S, k.S, smt.Select(final, k).S, smt.Select(e.res.pkt0, k).S, s.pktLen.S}, nil
		}
		src := fmt.Sprintf("ret == %d => packet bytes and length unchanged (or acts: %q)", spec.Pass, spec.Acts)
		leaves := e.retSources(fr)
		if len(leaves) == 0 {
			leaves = []retLeaf{{label: "ret", pc: smt.True}}
		}
		for _, lf := range leaves {
			if lf.snap != nil && !lf.snap.multi && lf.pure {
				// state on the edge itself; nothing between the edge and the
				// return instruction touches memory
				sn := lf.snap
				ls := &State{pc: sn.pc, pktLen: sn.pktLen, facts: sn.facts, known: sn.known, found: sn.found}
				retT := ret
				if v, ok := sn.phis[lf.reg]; ok && lf.reg != "" && !v.IsPtr {
					retT = e.resolve(ls, v).T
				}
				goal, vals, err := mkGoal(retT, ls, sn.pkt)
				if err != nil {
					return err
				}
				if o := e.oblige(fr, ls, "pass_unmodified", "via "+lf.label, goal, src); o != nil {
					o.values = vals
					o.hints = e.storeWitnesses(sn.writes, pre)
				}
				continue
			}
			ls := *out
			ls.pc = e.tm.named("pc", smt.And(out.pc, lf.pc))
			goal, vals, err := mkGoal(ret, &ls, out.regMem(e, ridPacket))
			if err != nil {
				return err
			}
			if o := e.oblige(fr, &ls, "pass_unmodified", "via "+lf.label, goal, src); o != nil {
				o.values = vals
				o.hints = e.storeWitnesses(out.writes, pre)
			}
		}
	}
	// functional specifications evaluated at program exit
	for _, ref := range spec.Functional {
		if (ref.Hook != "" && ref.Hook != "exit") || len(ref.Pin) > 0 {
			continue
		}
		if !(e.opts.AllFunctional || ref.Property == e.opts.Property) {
			continue
		}
		if err := e.exitSpec(fr, out, ret, ref); err != nil {
			return err
		}
	}
	return nil
}

// exitSpec generates the obligations of one functional specification at
// program exit, one set per return source (leaf).
func (e *executor) exitSpec(fr *frame, out *State, ret smt.Term, ref FunctionalRef) error {
	leaves := e.retSources(fr)
	if len(leaves) == 0 {
		leaves = []retLeaf{{label: "ret", pc: smt.True}}
	}
	coverDone := map[string]bool{}
	for _, lf := range leaves {
		var ls *State
		var mem *RegMem
		retT := ret
		if lf.snap != nil && !lf.snap.multi && lf.pure {
			sn := lf.snap
			ls = &State{pc: sn.pc, pktLen: sn.pktLen, facts: sn.facts, known: sn.known, found: sn.found}
			if v, ok := sn.phis[lf.reg]; ok && lf.reg != "" && !v.IsPtr {
				retT = e.resolve(ls, v).T
			}
			mem = sn.pkt
		} else {
			c := *out
			ls = &c
			ls.pc = e.tm.named("pc", smt.And(out.pc, lf.pc))
			mem = out.regMem(e, ridPacket)
		}
		if ls.pc.IsFalse() {
			continue
		}
		outArr := e.res.pkt0
		if !(mem.Base.S == e.res.pkt0.S && len(mem.Ov) == 0) {
			outArr = e.flush(mem).Base
		}
		extra := map[string]vsVal{"ret": mkv(retT, 32), "outlen": mkv(ls.pktLen, 64)}
		fs, err := e.loadFuncSpec(ref.File, extra, &hookCtx{outArr: outArr, outMem: mem})
		if err != nil {
			return err
		}
		probes := []NamedTerm{{"ret", retT, 32}, {"spec_scope", fs.Scope, 0}}
		if fs.Verdict.S != "" {
			probes = append(probes, NamedTerm{"spec_verdict", fs.Verdict, 32})
		}
		for _, d := range fs.Defines {
			probes = append(probes, d)
		}
		if fs.Verdict.S != "" && len(fs.Cases) == 0 {
			goal := smt.Implies(fs.Scope, e.tm.icmp("eq", retT, fs.Verdict))
			if o := e.oblige(fr, ls, ref.Kind, "via "+lf.label, goal, "return value equals the specified verdict ("+filepath.Base(fs.File)+")"); o != nil {
				o.probes = probes
			}
		}
		if fs.Verdict.S != "" && len(fs.Cases) > 0 {
			var cs []smt.Term
			for _, c := range fs.Cases {
				cs = append(cs, c.T)
				cl := *ls // the cases are independent claims: a failing one is not assumed by the next
				goal := smt.Implies(smt.And(fs.Scope, c.T), e.tm.icmp("eq", retT, fs.Verdict))
				if o := e.oblige(fr, &cl, ref.Kind, c.Name+" via "+lf.label, goal, "case "+c.Name+": return value equals the specified verdict ("+filepath.Base(fs.File)+")"); o != nil {
					o.probes = probes
				}
			}
			if !coverDone[ref.File] {
				coverDone[ref.File] = true
				cl := &State{pc: smt.True}
				e.oblige(fr, cl, ref.Kind, "cases cover the scope", smt.Implies(fs.Scope, smt.Or(cs...)), "the case split of "+filepath.Base(fs.File)+" is exhaustive")
			}
		}
		if !coverDone["math:"+ref.File] {
			coverDone["math:"+ref.File] = true
			e.mathObligations(fr, ref, fs, "")
		}
		for _, c := range fs.Contracts {
			goal := smt.Implies(fs.Scope, c.T)
			if o := e.oblige(fr, ls, ref.Kind, c.Name+" via "+lf.label, goal, "contract "+c.Name+" ("+filepath.Base(fs.File)+")"); o != nil {
				o.probes = probes
			}
		}
	}
	return nil
}

// storeWitnesses proposes refutations of "packet unmodified" that avoid the
// final memory term: "store i executes, the byte it writes differs from the
// initial packet byte at that address, the address is below the initial
// length, and no later store covers that address".  Each is sufficient for
// the exact goal to fail (final[a] is then the stored byte).
func (e *executor) storeWitnesses(w *factNode, pre smt.Term) []smt.Term {
	if e.pktOpaque || pre.IsFalse() {
		return nil
	}
	var idx []int
	seen := map[int]bool{}
	for _, t := range w.list() {
		i, err := strconv.Atoi(t.S)
		if err != nil || seen[i] || e.pktStores[i].val == nil {
			continue
		}
		seen[i] = true
		idx = append(idx, i)
	}
	sort.Ints(idx)
	var out []smt.Term
	for n, i := range idx {
		if !(n < 3 || n >= len(idx)-3) {
			continue
		}
		ev := e.pktStores[i]
		a := ev.off
		parts := []smt.Term{pre, ev.pc, e.tm.icmp("ult", a, e.pktLen0),
			smt.Not(smt.Eq(e.byteTerm(Byte{V: ev.val, Idx: 0}), smt.Select(e.res.pkt0, a)))}
		for j := i + 1; j < len(e.pktStores); j++ {
			l := e.pktStores[j]
			parts = append(parts, smt.Implies(l.pc, e.tm.icmp("uge", e.tm.sub(a, l.off), lit(uint64(l.n), 64))))
		}
		out = append(out, e.tm.named("store_witness", smt.And(parts...)))
	}
	return out
}

type retLeaf struct {
	label string
	pc    smt.Term
	snap  *edgeSnap
	reg   string // phi register of the edge target that carries the return value
	pure  bool   // no memory effects between the edge and the return
}

// retSources splits "the function returns" by the control-flow edges that
// feed the returned phi (expanded through forwarding blocks), so that
// pass_unmodified failures are reported per source-level return site.
func (e *executor) retSources(fr *frame) []retLeaf {
	f := fr.f
	var leaves []retLeaf
	seen := map[[2]int]bool{}
	// pureChain[b]: from the start of b every path reaches a return through
	// instructions without memory effects
	pureChain := map[int]bool{}
	var isPure func(b int, depth int) bool
	isPure = func(b int, depth int) bool {
		if v, ok := pureChain[b]; ok {
			return v
		}
		if depth > 16 || f.cfg.loopOf[b] != nil {
			return false
		}
		pureChain[b] = false
		for _, in := range f.Blocks[b].Instrs {
			switch in.Op {
			case "phi", "bitcast", "select", "icmp", "br", "ret", "zext", "sext", "trunc", "switch":
			case "call":
				if !strings.HasPrefix(in.Callee, "llvm.lifetime.") && !strings.HasPrefix(in.Callee, "llvm.dbg.") {
					return false
				}
			default:
				return false
			}
		}
		for _, sc := range f.cfg.succ[b] {
			if !isPure(sc, depth+1) {
				return false
			}
		}
		pureChain[b] = true
		return true
	}
	for i := range f.Blocks {
		isPure(i, 0)
	}
	phiIn := func(b *Block, reg string, from string) *Value {
		for _, in := range b.Instrs {
			if in.Op != "phi" {
				break
			}
			if in.Res == reg {
				for _, inc := range in.In {
					if inc.Block == from {
						return inc.Val
					}
				}
			}
		}
		return nil
	}
	var expand func(b *Block, reg string, depth int)
	expand = func(b *Block, reg string, depth int) {
		preds := append([]int(nil), f.cfg.pred[b.Index]...)
		sort.Ints(preds)
		for _, p := range preds {
			pc, ok := fr.edgePC[[2]int{p, b.Index}]
			if !ok {
				continue // edge never taken
			}
			pb := f.Blocks[p]
			if reg != "" && depth < 8 {
				if v := phiIn(b, reg, pb.Name); v != nil && v.Kind == VLocal {
					isPhiThere := false
					for _, in := range pb.Instrs {
						if in.Op == "phi" && in.Res == v.Name {
							isPhiThere = true
						}
					}
					if isPhiThere && f.cfg.loopOf[p] == nil && pureChain[p] {
						expand(pb, v.Name, depth+1)
						continue
					}
				}
			}
			key := [2]int{p, b.Index}
			if seen[key] {
				continue
			}
			seen[key] = true
			leaves = append(leaves, retLeaf{label: pb.Name + "->" + b.Name, pc: pc, snap: fr.snaps[key], reg: reg, pure: pureChain[b.Index]})
		}
	}
	rbs := map[int]bool{}
	for _, rb := range e.res.retBlocks {
		if rbs[rb] {
			continue
		}
		rbs[rb] = true
		b := f.Blocks[rb]
		t := b.Instrs[len(b.Instrs)-1]
		reg := ""
		if len(t.Args) > 0 && t.Args[0].Kind == VLocal {
			reg = t.Args[0].Name
		}
		if len(f.cfg.pred[rb]) == 0 {
			leaves = append(leaves, retLeaf{label: b.Name, pc: smt.True})
			continue
		}
		expand(b, reg, 0)
	}
	return leaves
}

// constBytes flattens a constant initializer.
func constBytes(v *Value, t *Type) ([]byte, error) {
	sz, err := SizeOf(t)
	if err != nil {
		return nil, err
	}
	out := make([]byte, sz)
	switch v.Kind {
	case VZero:
		return out, nil
	case VInt:
		for i := int64(0); i < sz; i++ {
			out[i] = byte(v.Int >> (8 * uint(i)))
		}
		return out, nil
	case VString:
		if int64(len(v.Str)) != sz {
			return nil, fmt.Errorf("string initializer length")
		}
		copy(out, v.Str)
		return out, nil
	case VAggregate:
		switch t.Kind {
		case TArray:
			es, _ := SizeOf(t.Elem)
			if int64(len(v.Elems)) != t.Len {
				return nil, fmt.Errorf("array initializer length")
			}
			for i, el := range v.Elems {
				b, err := constBytes(el, t.Elem)
				if err != nil {
					return nil, err
				}
				copy(out[int64(i)*es:], b)
			}
			return out, nil
		case TStruct:
			offs, _, err := structLayout(t)
			if err != nil {
				return nil, err
			}
			for i, el := range v.Elems {
				b, err := constBytes(el, t.Fields[i])
				if err != nil {
					return nil, err
				}
				copy(out[offs[i]:], b)
			}
			return out, nil
		}
	}
	return nil, fmt.Errorf("unsupported constant initializer")
}

// ---------------------------------------------------------------- solving

// Solved is the outcome of one obligation.
type Solved struct {
	O          *Obligation
	Status     string // unsat (proved) | sat (fails, see Model) | unknown | toolimit
	Solver     string
	TimeS      float64
	QueryBytes int
	Values     map[string]string
	Model      *Model // for sat
	Outputs    map[string]string
}

// Solve discharges obligations: queries are generated sequentially (the
// context memoises), solved in parallel by the solver portfolio.  In-bounds
// obligations are first tried with WeakQuery (short budget), consecutive
// ones that share the same set of known branch conditions as one conjunction;
// only what is not proved that way is decided by the exact Query.
func Solve(obligs []*Obligation, solver *smt.Solver, workers int) []Solved {
	if workers < 1 {
		workers = 1
	}
	quick := solver
	if solver.Timeout > 3*time.Second {
		quick = smt.NewSolver(3*time.Second, solver.CacheDir)
		quick.Confirm = solver.Confirm
	}
	// weak queries: first solver only, unless unsat answers must be confirmed
	// by a second solver (thorough tier)
	checkWeak := func(q string) smt.Result {
		if solver.Confirm {
			return quick.Check(q)
		}
		return quick.CheckQuick(q, quick.Timeout)
	}
	out := make([]Solved, len(obligs))
	type job struct {
		idx  []int
		weak string
		long bool // functional-spec obligation: the weak query gets the full budget, no grouping
	}
	jobs := make(chan job, workers)
	var wg sync.WaitGroup
	exact := func(i int, spent float64) {
		s := &out[i]
		s.TimeS = spent
		// counterexample search through sufficient refutations first (cheap
		// when they apply): sat carries over to the exact query, anything
		// else is inconclusive
		for hi := range s.O.hints {
			s.O.cex = &s.O.hints[hi]
			hq := s.O.Query()
			hr := quick.Check(hq)
			s.TimeS += hr.TimeS
			if hr.Status == "sat" {
				s.Status, s.Solver, s.Values, s.QueryBytes = "sat", hr.Solver+"+store-witness", hr.Values, len(hq)
				s.Model = s.O.extractModel(solver)
				return
			}
			s.O.cex = nil
		}
		q := s.O.Query()
		s.QueryBytes = len(q)
		if len(q) > MaxQueryBytes {
			s.Status, s.Solver = "toolimit", "none"
			return
		}
		if aq := abstractArith(q); aq != "" && s.O.raw == "" {
			// uninterpreted 64-bit multiply/divide: unsat carries over
			var ar smt.Result
			if solver.Confirm {
				ar = quick.Check(aq)
			} else {
				ar = quick.CheckQuick(aq, 10*time.Second)
			}
			s.TimeS += ar.TimeS
			if ar.Status == "unsat" {
				s.Status, s.Solver = "unsat", ar.Solver+"/uf-arith"
				return
			}
		}
		r := solver.Check(q)
		s.Status, s.Solver, s.Values, s.Outputs = r.Status, r.Solver, r.Values, r.Outputs
		s.TimeS += r.TimeS
		if s.Status == "sat" {
			s.Model = s.O.extractModel(solver)
		}
	}
	for w := 0; w < workers; w++ {
		wg.Add(1)
		go func() {
			defer wg.Done()
			for j := range jobs {
				if j.weak == "" {
					for _, i := range j.idx {
						exact(i, 0)
					}
					continue
				}
				var r smt.Result
				if j.long {
					// functional-spec obligation: the exact query (with its
					// uninterpreted-arithmetic tier) first; the weak query only if
					// that gives no answer
					i := j.idx[0]
					exact(i, 0)
					if out[i].Status != "unknown" {
						continue
					}
					if solver.Confirm {
						r = solver.Check(j.weak)
					} else {
						r = solver.CheckQuick(j.weak, solver.Timeout)
					}
					if r.Status == "unsat" {
						s := &out[i]
						s.Status, s.Solver, s.TimeS, s.QueryBytes = "unsat", r.Solver+"/guards", s.TimeS+r.TimeS, len(j.weak)
					}
					continue
				}
				r = checkWeak(j.weak)
				if r.Status == "unsat" {
					for _, i := range j.idx {
						s := &out[i]
						s.Status, s.TimeS, s.QueryBytes = "unsat", r.TimeS/float64(len(j.idx)), len(j.weak)
						s.Solver = r.Solver + "/guards"
						if len(j.idx) > 1 {
							s.Solver = fmt.Sprintf("%s/guards(group of %d)", r.Solver, len(j.idx))
						}
					}
					continue
				}
				spent := r.TimeS / float64(len(j.idx))
				for _, i := range j.idx {
					if len(j.idx) > 1 {
						w := weakGroup([]*Obligation{out[i].O})
						if w != "" {
							r := checkWeak(w)
							if r.Status == "unsat" {
								s := &out[i]
								s.Status, s.Solver, s.TimeS, s.QueryBytes = "unsat", r.Solver+"/guards", r.TimeS+spent, len(w)
								continue
							}
							exact(i, spent+r.TimeS)
							continue
						}
					}
					exact(i, spent)
				}
			}
		}()
	}
	var grp []int
	flush := func() {
		if len(grp) == 0 {
			return
		}
		var os []*Obligation
		for _, i := range grp {
			os = append(os, obligs[i])
		}
		w := weakGroup(os)
		if len(w) > MaxQueryBytes {
			w = ""
		}
		jobs <- job{append([]int(nil), grp...), w, false}
		grp = grp[:0]
	}
	for i, o := range obligs {
		out[i].O = o
		if o.Trivial {
			out[i].Status, out[i].Solver = "unsat", "syntactic"
			continue
		}
		weakable := o.raw == "" && !NoWeakQueries && (o.Kind == "inbounds" || o.Kind == "divzero" || o.Kind == "helperarg" || o.callReplay != nil || len(o.probes) > 0)
		if !weakable {
			flush()
			jobs <- job{[]int{i}, "", false}
			continue
		}
		if o.raw == "" && (o.callReplay != nil || len(o.probes) > 0) {
			flush()
			w := weakGroup([]*Obligation{o})
			if len(w) > MaxQueryBytes {
				w = ""
			}
			jobs <- job{[]int{i}, w, true}
			continue
		}
		if len(grp) >= WeakGroupSize {
			flush()
		}
		grp = append(grp, i)
	}
	flush()
	close(jobs)
	wg.Wait()
	return out
}

// WeakGroupSize bounds how many obligations are proved by one weak query.
var WeakGroupSize = 16

// weakGroup builds one weak query for several obligations: it is unsat iff
// each of them follows from its own (sliced) known branch conditions.
func weakGroup(os []*Obligation) string {
	if len(os) == 0 {
		return ""
	}
	res := os[0].res
	res.mu.Lock()
	defer res.mu.Unlock()
	var cases []weakCase
	for _, o := range os {
		c, ok := o.weakCase()
		if !ok {
			c = weakCase{goal: o.goal}
		}
		cases = append(cases, c)
	}
	return res.tm.weakQuery(cases)
}

// NoWeakQueries disables the guard-sliced first attempt (debugging).
var NoWeakQueries = false

// callReplay describes the inlined call a contract obligation talks about.
type callReplay struct {
	fn    string
	args  []callArg
	twice bool
	retW  int
}

type callArg struct {
	ptr  bool
	w    int
	size int // pointer arguments: bytes of the object that are replayed (0 = not replayable)
}

var debugNoMute = false

// mathObligations records the lemmas over mathematical integers of a
// specification file (they do not depend on the program state).
func (e *executor) mathObligations(fr *frame, ref FunctionalRef, fs *FuncSpec, tag string) {
	if e.mute > 0 {
		return
	}
	kind := ref.MathKind
	if kind == "" {
		kind = ref.Kind + "_math"
	}
	all := append([]MathLemma{}, fs.Math...)
	for _, l := range fs.Lemmas {
		all = append(all, MathLemma{"lemma:" + l.Name, l.Query})
	}
	for _, ml := range all {
		desc := tag + ml.Name
		kind := kind
		src := "lemma over mathematical integers about the definitions of " + filepath.Base(fs.File)
		if strings.HasPrefix(ml.Name, "lemma:") {
			kind = ref.Kind
			src = "bit-vector lemma of " + filepath.Base(fs.File) + " (no program state involved)"
		}
		id := fmt.Sprintf("%s.%s.%s.%s[%s]", e.opts.Property, e.mod.Base, e.fn.Name, kind, desc)
		if n := e.ids[id]; n > 0 {
			e.ids[id] = n + 1
			id = fmt.Sprintf("%s.%s.%s.%s[%s~%d]", e.opts.Property, e.mod.Base, e.fn.Name, kind, desc, n)
		} else {
			e.ids[id] = 1
		}
		e.res.Obligations = append(e.res.Obligations, &Obligation{ID: id, Kind: kind, Func: e.fn.Name, Desc: desc,
			Source: src, res: e.res, raw: ml.Query, goal: smt.False, pc: smt.True})
	}
}
