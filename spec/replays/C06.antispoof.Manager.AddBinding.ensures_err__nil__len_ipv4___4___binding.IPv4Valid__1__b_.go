package antispoof

import (
	"fmt"
	"net"
	"testing"

	"github.com/cilium/ebpf"
	"go.uber.org/zap"
)

// The control plane binds 10.0.1.100 to a MAC through AddBinding, writing into a
// real kernel hash map with the key/value sizes of subscriber_bindings. The
// kernel program compares the 32-bit word at value offset 0 with ip->saddr, i.e.
// with the four address bytes in the order they have in the frame. The value
// bytes written by the control plane must therefore be 0a 00 01 64.
func TestReplayVC(t *testing.T) {
	bm, err := ebpf.NewMap(&ebpf.MapSpec{Type: ebpf.Hash, KeySize: 8, ValueSize: 24, MaxEntries: 8})
	if err != nil {
		fmt.Println("REPLAY-SETUP-FAILED (cannot create a BPF map here):", err)
		return
	}
	defer bm.Close()
	m := &Manager{logger: zap.NewNop(), mode: ModeStrict, bindings: bm, subscribers: make(map[uint64]*Binding)}
	mac, _ := net.ParseMAC("02:00:00:00:00:01")
	ip := net.IPv4(10, 0, 1, 100).To4()
	if err := m.AddBinding(mac, ip); err != nil {
		fmt.Println("REPLAY-SETUP-FAILED", err)
		return
	}
	key := uint64(0x020000000001)
	var raw [24]byte
	if err := bm.Lookup(&key, &raw); err != nil {
		fmt.Println("REPLAY-VIOLATED: the binding is not stored under the key the kernel program computes:", err)
		return
	}
	if raw[0] != ip[0] || raw[1] != ip[1] || raw[2] != ip[2] || raw[3] != ip[3] {
		fmt.Printf("REPLAY-VIOLATED: binding for %s is stored as bytes % x; antispoof_ingress compares them with the frame's source bytes % x, so the bound address never matches (it accepts %d.%d.%d.%d instead)\n",
			ip, raw[0:4], []byte(ip), raw[0], raw[1], raw[2], raw[3])
		return
	}
	if raw[20] != 1 || raw[22] != uint8(ModeStrict) {
		fmt.Printf("REPLAY-VIOLATED: valid/mode bytes are %d/%d\n", raw[20], raw[22])
		return
	}
	fmt.Println("REPLAY-OK")
}
