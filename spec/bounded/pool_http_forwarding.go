package pool

// Bounded stand-in for the HTTP layer between peers (forwardAllocation / forwardRelease /
// handleAllocate / handleRelease are trusted frames for the verifier). Two nodes over loopback HTTP;
// for every identifier SHAPE below, the first identifiers of that shape owned by the remote node are
// allocated through the entry node, released through it, and allocated again: after the release the
// owner must hold nothing for them ("a released address can be handed out again", "served from
// exactly one node's pool" for every subscriber id).

import (
	"context"
	"fmt"
	"net/http"
	"net/http/httptest"
	"strings"
	"testing"
	"time"
)

func TestBoundedVC(t *testing.T) {
	ctx := context.Background()
	shapes := []struct{ name, format string }{
		{"plain", "sub-%04d"},
		{"mac", "02:00:5e:10:%02x:01"},
		{"line with slashes", "olt-7/1/3/%d"},
		{"space", "access node %d port 3"},
		{"percent", "cust%%41-%d"},
		{"question mark", "cpe?line=%d"},
		{"hash", "site#%d"},
		{"plus and ampersand", "a+b&c=%d"},
		{"double slash", "rack//%d"},
		{"dot segments", "pop/../%d"},
		{"trailing slash", "shelf-%d/"},
		{"utf-8", "kundé-%d"},
	}
	bad := 0
	for _, sh := range shapes {
		mux := http.NewServeMux()
		srv := httptest.NewServer(mux)
		addrB := strings.TrimPrefix(srv.URL, "http://")
		mk := func(id string) *PeerPool {
			p, err := NewPeerPool(PeerPoolConfig{NodeID: id, Peers: []string{"node-a", addrB}, Network: "10.30.0.0/29", Gateway: "10.30.0.1", LeaseTime: time.Hour})
			if err != nil {
				panic(err)
			}
			return p
		}
		nodeB, nodeA := mk(addrB), mk("node-a")
		nodeB.RegisterHandlers(mux)
		usable := nodeB.Stats().Total
		var ids []string
		for i := 0; len(ids) < usable && i < 4000; i++ {
			id := fmt.Sprintf(sh.format, i)
			if nodeA.GetOwner(id) == addrB {
				ids = append(ids, id)
			}
		}
		for round := 0; round < 2 && bad < 5; round++ {
			for _, id := range ids {
				resp, err := nodeA.Allocate(ctx, id, nil)
				if err != nil || resp == nil || resp.NodeID != addrB {
					fmt.Printf("BOUNDED-VIOLATED identifier shape %q: round %d: Allocate(%q) through node A: err=%v (owner node B reports %+v)\n", sh.name, round, id, err, nodeB.Stats())
					bad++
					break
				}
			}
			for _, id := range ids {
				if err := nodeA.Release(ctx, id); err != nil {
					fmt.Printf("BOUNDED-VIOLATED identifier shape %q: Release(%q) through node A: %v\n", sh.name, id, err)
					bad++
					break
				}
			}
			if st := nodeB.Stats(); st.Allocated != 0 || st.Available != usable {
				fmt.Printf("BOUNDED-VIOLATED identifier shape %q (e.g. %q): every subscriber released through node A, yet the owner reports %+v\n", sh.name, ids[0], st)
				bad++
				break
			}
		}
		srv.Close()
	}
	if bad != 0 {
		fmt.Printf("BOUNDED-VIOLATED %d deviations in total\n", bad)
		return
	}
	fmt.Printf("BOUNDED-OK %d identifier shapes, 5 subscribers each, two allocate/release rounds over loopback HTTP\n", len(shapes))
}
