package llvc

import (
	"fmt"
	"sort"
)

// loop is a natural loop (all back edges to one header merged).
type loop struct {
	header   int
	blocks   map[int]bool
	parent   *loop
	children []*loop
	ord      int // ordinal within function (by header block index)
	order    []item
}

// item is one element of a loop-level topological order: a plain block or a
// collapsed child loop.
type item struct {
	block int
	loop  *loop
}

type cfgInfo struct {
	succ    [][]int
	pred    [][]int
	idom    []int
	loops   []*loop
	loopOf  []*loop // innermost loop of each block
	top     []item  // top-level order
	reach   []bool
	retBlks []int
}

func (f *Function) succNames(b *Block) ([]string, error) {
	if len(b.Instrs) == 0 {
		return nil, fmt.Errorf("empty block %s", b.Name)
	}
	t := b.Instrs[len(b.Instrs)-1]
	switch t.Op {
	case "br":
		return t.Targets, nil
	case "switch":
		out := []string{t.Targets[0]}
		for _, c := range t.Cases {
			out = append(out, c.Block)
		}
		return out, nil
	case "ret", "unreachable":
		return nil, nil
	}
	return nil, fmt.Errorf("block %s does not end in a terminator (%s)", b.Name, t.Op)
}

func (f *Function) buildCFG() error {
	n := len(f.Blocks)
	c := &cfgInfo{succ: make([][]int, n), pred: make([][]int, n), idom: make([]int, n), loopOf: make([]*loop, n), reach: make([]bool, n)}
	f.cfg = c
	if n == 0 {
		return fmt.Errorf("function without blocks")
	}
	for i, b := range f.Blocks {
		for j, in := range b.Instrs {
			isTerm := in.Op == "br" || in.Op == "switch" || in.Op == "ret" || in.Op == "unreachable"
			if isTerm != (j == len(b.Instrs)-1) {
				return fmt.Errorf("block %s: terminator placement", b.Name)
			}
		}
		names, err := f.succNames(b)
		if err != nil {
			return err
		}
		seen := map[int]bool{}
		for _, s := range names {
			sb, ok := f.BlockBy[s]
			if !ok {
				return fmt.Errorf("block %s: unknown successor %s", b.Name, s)
			}
			if !seen[sb.Index] {
				seen[sb.Index] = true
				c.succ[i] = append(c.succ[i], sb.Index)
				c.pred[sb.Index] = append(c.pred[sb.Index], i)
			}
		}
		if b.Instrs[len(b.Instrs)-1].Op == "ret" {
			c.retBlks = append(c.retBlks, i)
		}
	}
	// reverse postorder
	var rpo []int
	state := make([]int, n)
	var dfs func(int)
	dfs = func(u int) {
		state[u] = 1
		c.reach[u] = true
		for _, v := range c.succ[u] {
			if state[v] == 0 {
				dfs(v)
			}
		}
		state[u] = 2
		rpo = append(rpo, u)
	}
	dfs(0)
	for i, j := 0, len(rpo)-1; i < j; i, j = i+1, j-1 {
		rpo[i], rpo[j] = rpo[j], rpo[i]
	}
	rpoIdx := make([]int, n)
	for i := range rpoIdx {
		rpoIdx[i] = -1
	}
	for i, b := range rpo {
		rpoIdx[b] = i
	}
	// dominators (Cooper-Harvey-Kennedy)
	for i := range c.idom {
		c.idom[i] = -1
	}
	c.idom[0] = 0
	intersect := func(a, b int) int {
		for a != b {
			for rpoIdx[a] > rpoIdx[b] {
				a = c.idom[a]
			}
			for rpoIdx[b] > rpoIdx[a] {
				b = c.idom[b]
			}
		}
		return a
	}
	for changed := true; changed; {
		changed = false
		for _, b := range rpo[1:] {
			nd := -1
			for _, p := range c.pred[b] {
				if !c.reach[p] || c.idom[p] == -1 {
					continue
				}
				if nd == -1 {
					nd = p
				} else {
					nd = intersect(p, nd)
				}
			}
			if nd != c.idom[b] {
				c.idom[b] = nd
				changed = true
			}
		}
	}
	dominates := func(a, b int) bool {
		for {
			if a == b {
				return true
			}
			if b == 0 || c.idom[b] == -1 {
				return false
			}
			b = c.idom[b]
		}
	}
	// back edges and natural loops
	byHeader := map[int]*loop{}
	for _, u := range rpo {
		for _, v := range c.succ[u] {
			if rpoIdx[v] <= rpoIdx[u] {
				// retreating edge: must be a back edge to a dominator (reducible)
				if !dominates(v, u) {
					return fmt.Errorf("irreducible control flow (edge %s -> %s)", f.Blocks[u].Name, f.Blocks[v].Name)
				}
				l := byHeader[v]
				if l == nil {
					l = &loop{header: v, blocks: map[int]bool{v: true}}
					byHeader[v] = l
				}
				// collect the natural loop of this back edge
				stack := []int{u}
				for len(stack) > 0 {
					x := stack[len(stack)-1]
					stack = stack[:len(stack)-1]
					if l.blocks[x] {
						continue
					}
					l.blocks[x] = true
					for _, p := range c.pred[x] {
						if c.reach[p] {
							stack = append(stack, p)
						}
					}
				}
			}
		}
	}
	for _, l := range byHeader {
		c.loops = append(c.loops, l)
	}
	sort.Slice(c.loops, func(i, j int) bool { return c.loops[i].header < c.loops[j].header })
	for i, l := range c.loops {
		l.ord = i
	}
	// nesting: parent = smallest strictly containing loop
	for _, l := range c.loops {
		for _, o := range c.loops {
			if o == l || !o.blocks[l.header] || len(o.blocks) <= len(l.blocks) {
				continue
			}
			if l.parent == nil || len(o.blocks) < len(l.parent.blocks) {
				l.parent = o
			}
		}
	}
	for _, l := range c.loops {
		if l.parent != nil {
			l.parent.children = append(l.parent.children, l)
		}
	}
	for b := 0; b < n; b++ {
		for _, l := range c.loops {
			if l.blocks[b] && (c.loopOf[b] == nil || len(l.blocks) < len(c.loopOf[b].blocks)) {
				c.loopOf[b] = l
			}
		}
	}
	// per-level topological orders
	var err error
	c.top, err = f.levelOrder(nil, rpo)
	if err != nil {
		return err
	}
	for _, l := range c.loops {
		l.order, err = f.levelOrder(l, rpo)
		if err != nil {
			return err
		}
	}
	return nil
}

// levelOrder orders the blocks directly inside loop l (nil = function top
// level) and the child loops of l (as collapsed nodes) topologically,
// ignoring back edges to l's header.
func (f *Function) levelOrder(l *loop, rpo []int) ([]item, error) {
	c := f.cfg
	// node id: block index for plain blocks, header index for child loops
	nodeOf := func(b int) (int, bool) {
		// returns the representative node of b at this level, false if b is
		// outside this level
		bl := c.loopOf[b]
		if l != nil && !l.blocks[b] {
			return 0, false
		}
		// climb until parent == l
		if bl == l {
			return b, true
		}
		for bl != nil && bl.parent != l {
			bl = bl.parent
		}
		if bl == nil {
			return 0, false
		}
		return bl.header, true
	}
	loopAt := map[int]*loop{}
	for _, ch := range c.loops {
		if ch.parent == l {
			loopAt[ch.header] = ch
		}
	}
	nodes := map[int]bool{}
	for _, b := range rpo {
		if nd, ok := nodeOf(b); ok {
			nodes[nd] = true
		}
	}
	indeg := map[int]int{}
	edges := map[int]map[int]bool{}
	for _, b := range rpo {
		u, ok := nodeOf(b)
		if !ok {
			continue
		}
		for _, s := range c.succ[b] {
			v, ok := nodeOf(s)
			if !ok || u == v {
				continue
			}
			if l != nil && s == l.header {
				continue // back edge of this level
			}
			if edges[u] == nil {
				edges[u] = map[int]bool{}
			}
			if !edges[u][v] {
				edges[u][v] = true
				indeg[v]++
			}
		}
	}
	rpoIdx := map[int]int{}
	for i, b := range rpo {
		rpoIdx[b] = i
	}
	var ready []int
	for nd := range nodes {
		if indeg[nd] == 0 {
			ready = append(ready, nd)
		}
	}
	var out []item
	for len(ready) > 0 {
		sort.Slice(ready, func(i, j int) bool { return rpoIdx[ready[i]] < rpoIdx[ready[j]] })
		u := ready[0]
		ready = ready[1:]
		if ch, ok := loopAt[u]; ok {
			out = append(out, item{block: u, loop: ch})
		} else {
			out = append(out, item{block: u})
		}
		for v := range edges[u] {
			indeg[v]--
			if indeg[v] == 0 {
				ready = append(ready, v)
			}
		}
	}
	if len(out) != len(nodes) {
		return nil, fmt.Errorf("cyclic control flow that is not a natural loop")
	}
	return out, nil
}
