package allocator

// Replay for
//   allocator.PoolAllocator.AllocateWithOptions.ensures[locked(opts.SubscriberID in p.allocator.allocated) ==> tables unchanged]  (C01/C05)
//   allocator.PoolAllocator.Release.ensures[err != nil ==> tables unchanged]                                                         (C05)
// AllocateWithOptions rolls back with Release() after a failed store write even when the
// subscriber already held the address (Allocate is idempotent): the existing holder loses its
// address, the store still records it, and the next subscriber is given the same address.
// Release frees the address locally before removing the store record: when the removal fails
// the record survives while the address is handed out again.

import (
	"context"
	"errors"
	"fmt"
	"testing"
)

type flakyAllocStore struct {
	*MemoryAllocationStore
	failSave, failRemove bool
}

func (f *flakyAllocStore) SaveAllocation(ctx context.Context, a AllocationRecord) error {
	if f.failSave {
		return errors.New("store unavailable")
	}
	return f.MemoryAllocationStore.SaveAllocation(ctx, a)
}

func (f *flakyAllocStore) RemoveAllocation(ctx context.Context, poolID, sub string) error {
	if f.failRemove {
		return errors.New("store unavailable")
	}
	return f.MemoryAllocationStore.RemoveAllocation(ctx, poolID, sub)
}

func TestReplayVC(t *testing.T) {
	defer func() {
		if r := recover(); r != nil {
			fmt.Printf("REPLAY-PANIC: %v\n", r)
		}
	}()
	ctx := context.Background()
	violated := false

	st := &flakyAllocStore{MemoryAllocationStore: NewMemoryAllocationStore()}
	p, err := NewPoolAllocator("pool", "10.3.0.0/29", 32, st)
	if err != nil {
		t.Fatal(err)
	}
	first, err := p.Allocate(ctx, "alice", "")
	if err != nil {
		t.Fatal(err)
	}
	// alice asks again (renewal) while the store is down
	st.failSave = true
	_, err = p.Allocate(ctx, "alice", "")
	st.failSave = false
	if err == nil {
		t.Fatal("expected the save to fail")
	}
	if p.Lookup("alice") == nil {
		fmt.Printf("REPLAY-VIOLATED: alice held %s; a repeated Allocate with a failing store took it away (store still records it)\n", first)
		violated = true
		if rec, _ := st.GetBySubscriber(ctx, "alice"); len(rec) == 1 {
			// the allocator now hands alice's address to bob, the store refuses (conflict), and so on
			second, err2 := p.Allocate(ctx, "bob", "")
			fmt.Printf("REPLAY-VIOLATED: store says alice holds %s; Allocate(bob) -> %v, %v\n", rec[0].Prefix, second, err2)
		}
	}

	// Release with a failing store
	st2 := &flakyAllocStore{MemoryAllocationStore: NewMemoryAllocationStore()}
	q, _ := NewPoolAllocator("pool", "10.4.0.0/29", 32, st2)
	addr, _ := q.Allocate(ctx, "carol", "")
	st2.failRemove = true
	err = q.Release(ctx, "carol")
	st2.failRemove = false
	if err != nil && q.Lookup("carol") == nil {
		fmt.Printf("REPLAY-VIOLATED: Release(carol) failed (%v) but %s is free locally while the store keeps the record; a retry returns: %v\n", err, addr, q.Release(ctx, "carol"))
		violated = true
	}
	if !violated {
		fmt.Println("REPLAY-OK")
	}
}
