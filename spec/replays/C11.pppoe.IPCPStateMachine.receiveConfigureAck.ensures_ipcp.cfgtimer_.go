package pppoe

import (
	"fmt"
	"net"
	"testing"
	"time"

	"go.uber.org/zap"
)

// Obligations: C11.pppoe.IPCPStateMachine.receiveConfigureAck.ensures[ipcp.cfgtimer],
// ...receiveTerminateAck.ensures[ipcp.cfgtimer], ...receiveConfigureNak/Reject.ensures[ipcp.cfgtimer]
// (inv cfgtimer: in Req-Sent/Ack-Rcvd/Ack-Sent a restart timer is pending; RFC 1661 4.4: the restart
// timer is running in these states)
//
// "Against a silent peer the automaton stops after the configured number of retransmissions":
//
//	(d) Req-Sent + Configure-Ack for the outstanding request -> Ack-Rcvd with the restart timer
//	    stopped: a peer that never sends its own Configure-Request leaves the automaton in Ack-Rcvd
//	    for ever (no retransmission, no TO-, Stopped is never reached).
//	(e) Req-Sent + a stray Terminate-Ack -> restart timer stopped, state stays Req-Sent for ever.
//	(f) Req-Sent + a malformed Configure-Nak/Reject with the matching identifier: the handler stops
//	    the timer, then fails to parse the options and returns with the state unchanged.
func TestReplayVC(t *testing.T) {
	mk := func() (*IPCPStateMachine, *[][]byte) {
		sent := &[][]byte{}
		m := NewIPCPStateMachine(IPCPConfig{LocalIP: net.ParseIP("10.0.0.1"), PeerIP: net.ParseIP("10.0.0.2"), MaxRetransmit: 3, RestartTimer: 20 * time.Millisecond}, "s1", func(proto uint16, data []byte) {
			*sent = append(*sent, append([]byte(nil), data...))
		}, zap.NewNop())
		m.Open()
		m.Up() // Req-Sent
		return m, sent
	}
	timerPending := func(m *IPCPStateMachine) bool {
		m.timerMu.Lock()
		defer m.timerMu.Unlock()
		return m.restartTimer != nil
	}
	countCR := func(ps [][]byte) int {
		n := 0
		for _, p := range ps {
			if p[0] == LCPCodeConfigRequest {
				n++
			}
		}
		return n
	}
	violated := false
	type ev struct {
		name string
		pkt  func(first []byte) []byte
	}
	events := []ev{
		{"(d) Configure-Ack for the outstanding request", func(first []byte) []byte {
			ack := append([]byte(nil), first...)
			ack[0] = LCPCodeConfigAck
			return ack
		}},
		{"(e) stray Terminate-Ack", func(first []byte) []byte { return []byte{LCPCodeTermAck, 5, 0, 4} }},
		{"(f) malformed Configure-Nak (option length exceeds data)", func(first []byte) []byte {
			return []byte{LCPCodeConfigNak, first[1], 0, 6, 1, 9}
		}},
		{"(f) malformed Configure-Reject (option length exceeds data)", func(first []byte) []byte {
			return []byte{LCPCodeConfigReject, first[1], 0, 6, 1, 9}
		}},
	}
	for _, e := range events {
		m, sent := mk()
		first := (*sent)[len(*sent)-1]
		n0 := len(*sent)
		m.ReceivePacket(e.pkt(first))
		st0 := m.GetState()
		pending := timerPending(m)
		time.Sleep(200 * time.Millisecond) // 10 restart periods of silence, at most 3 transmissions configured
		st := m.GetState()
		if st == IPCPStateReqSent || st == IPCPStateAckRcvd || st == IPCPStateAckSent {
			fmt.Printf("REPLAY-VIOLATED: Req-Sent + %s: state %s, restart timer pending=%v; after 10 restart periods of silence: %d Configure-Request retransmissions, still %s (never gives up)\n", e.name, st0, pending, countCR((*sent)[n0:]), st)
			violated = true
		}
		m.stopTimer()
	}
	if !violated {
		fmt.Println("REPLAY-OK")
	}
}
