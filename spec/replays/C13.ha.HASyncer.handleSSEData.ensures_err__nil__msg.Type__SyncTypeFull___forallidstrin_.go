package ha

// Replay for obligation
//   C13.ha.HASyncer.handleSSEData.ensures[err == nil && msg.Type == SyncTypeFull ==> forall id string :: id in mem(s.store).sessions <==> inMsg(msg, len(msg.Sessions), id)]
// A full-state message arriving on the stream must leave the standby's table equal to the
// snapshot it carries; a session the standby held before and that is absent from the
// snapshot has to disappear.

import (
	"fmt"
	"testing"
	"time"

	"go.uber.org/zap"
)

func TestReplayVC(t *testing.T) {
	defer func() {
		if r := recover(); r != nil {
			fmt.Printf("REPLAY-PANIC: %v\n", r)
		}
	}()
	standby := NewInMemorySessionStore()
	_ = standby.PutSession(&SessionState{SessionID: "stale", IP: "10.0.0.9"})
	cfg := DefaultSyncConfig()
	cfg.NodeID = "standby"
	cfg.Role = RoleStandby
	cfg.Partner = &PartnerInfo{NodeID: "active", Endpoint: "127.0.0.1:1"}
	s := NewHASyncer(cfg, standby, zap.NewNop())
	full := &SyncMessage{Type: SyncTypeFull, Sessions: []SessionState{{SessionID: "a", IP: "10.0.0.1"}}, Timestamp: time.Now(), NodeID: "active"}
	data, _ := full.Encode()
	if err := s.handleSSEData(data); err != nil {
		fmt.Printf("REPLAY-OK (message rejected: %v)\n", err)
		return
	}
	_, stale := standby.GetSession("stale")
	_, fresh := standby.GetSession("a")
	if stale || !fresh || standby.GetSessionCount() != 1 {
		fmt.Printf("REPLAY-VIOLATED: after handleSSEData(SyncTypeFull {a}) the standby store (count %d, holds \"stale\": %v, holds \"a\": %v) differs from the snapshot\n",
			standby.GetSessionCount(), stale, fresh)
		return
	}
	fmt.Println("REPLAY-OK")
}
