package govc

import (
	"sort"
	"fmt"
	"go/ast"
	"go/token"
	"go/types"
	"math/big"
	"strings"

	"bngvc/smt"
)

type sval struct {
	t   smt.Term
	typ types.Type // nil: mathematical / spec-only value
}

type specEnv struct {
	fv   *funcVerifier
	cur  *State
	old  *State
	vars map[string]sval
	pkg  *types.Package
	self *sval
	gst  *State // state whose ghost variables are visible (stays at the outer state inside old()/locked())
	lockedSt *State // at a call site: the callee's state right after its lock acquisition (simulated)
	// at a call site: lockedN(k, e) of the callee's contract. Every k gets its own simulated
	// post-acquisition state (nothing is known about how the k-th state relates to the others).
	mkLocked  func() *State
	lockedNSt map[int64]*State
}

func (env *specEnv) with(name string, v sval) *specEnv {
	n := *env
	n.vars = make(map[string]sval, len(env.vars)+1)
	for k, x := range env.vars {
		n.vars[k] = x
	}
	n.vars[name] = v
	return &n
}

func (env *specEnv) fail(e *SExpr, format string, args ...interface{}) {
	panic(unsupported(fmt.Sprintf("spec %q: %s", e.String(), fmt.Sprintf(format, args...))))
}

var basicTypes = map[string]types.Type{
	"int": types.Typ[types.Int], "int8": types.Typ[types.Int8], "int16": types.Typ[types.Int16], "int32": types.Typ[types.Int32], "int64": types.Typ[types.Int64],
	"uint": types.Typ[types.Uint], "uint8": types.Typ[types.Uint8], "uint16": types.Typ[types.Uint16], "uint32": types.Typ[types.Uint32], "uint64": types.Typ[types.Uint64],
	"byte": types.Typ[types.Uint8], "bool": types.Typ[types.Bool], "string": types.Typ[types.String], "error": types.Universe.Lookup("error").Type(),
	"float64": types.Typ[types.Float64], "rune": types.Typ[types.Int32], "uintptr": types.Typ[types.Uintptr],
}

// resolveType resolves a type name used in a spec; "mathint" is a spec-only integer.
func (env *specEnv) resolveType(name string) (types.Type, bool) {
	switch {
	case name == "mathint":
		return nil, true
	case strings.HasPrefix(name, "*"):
		t, ok := env.resolveType(name[1:])
		if !ok || t == nil {
			return nil, false
		}
		return types.NewPointer(t), true
	case strings.HasPrefix(name, "[]"):
		t, ok := env.resolveType(name[2:])
		if !ok || t == nil {
			return nil, false
		}
		return types.NewSlice(t), true
	}
	if t, ok := basicTypes[name]; ok {
		return t, true
	}
	if i := strings.Index(name, "."); i >= 0 {
		pn, tn := name[:i], name[i+1:]
		for _, imp := range env.pkg.Imports() {
			if imp.Name() == pn {
				if o, ok := imp.Scope().Lookup(tn).(*types.TypeName); ok {
					return o.Type(), true
				}
			}
		}
		return nil, false
	}
	if o, ok := env.pkg.Scope().Lookup(name).(*types.TypeName); ok {
		return o.Type(), true
	}
	return nil, false
}

func (env *specEnv) sortOfName(name string) (string, types.Type) {
	t, ok := env.resolveType(name)
	if !ok {
		panic(unsupported("spec: unknown type " + name))
	}
	if t == nil {
		return smt.Int, nil
	}
	return env.fv.so.sortOf(t), t
}

func (env *specEnv) evalBool(e *SExpr) smt.Term {
	v := env.eval(e)
	if v.t.Sort != smt.Bool {
		env.fail(e, "boolean expected, got sort %s", v.t.Sort)
	}
	return v.t
}

func boolVal(t smt.Term) sval { return sval{t, types.Typ[types.Bool]} }
func mathVal(t smt.Term) sval { return sval{t, nil} }

func (env *specEnv) eval(e *SExpr) sval {
	fv := env.fv
	switch e.Op {
	case "bool":
		return boolVal(smt.BoolLit(e.Name == "true"))
	case "nil":
		return sval{smt.IntLit(0), types.Typ[types.UntypedNil]}
	case "int":
		n, _ := new(big.Int).SetString(e.Name, 10)
		return mathVal(smt.BigLit(n))
	case "str":
		return sval{fv.so.strConst(e.Name), types.Typ[types.String]}
	case "ident":
		return env.evalIdent(e)
	case "not":
		return boolVal(smt.Not(env.evalBool(e.Args[0])))
	case "neg":
		return mathVal(smt.Neg(env.eval(e.Args[0]).t))
	case "and":
		return boolVal(smt.And(env.evalBool(e.Args[0]), env.evalBool(e.Args[1])))
	case "or":
		return boolVal(smt.Or(env.evalBool(e.Args[0]), env.evalBool(e.Args[1])))
	case "implies":
		return boolVal(smt.Implies(env.evalBool(e.Args[0]), env.evalBool(e.Args[1])))
	case "iff":
		return boolVal(smt.Eq(env.evalBool(e.Args[0]), env.evalBool(e.Args[1])))
	case "eq", "ne":
		l, r := env.eval(e.Args[0]), env.eval(e.Args[1])
		var eq smt.Term
		switch {
		case r.typ != nil && isNilType(r.typ):
			eq = env.isNil(l)
		case l.typ != nil && isNilType(l.typ):
			eq = env.isNil(r)
		default:
			if l.t.Sort != r.t.Sort {
				env.fail(e, "comparison of sorts %s and %s", l.t.Sort, r.t.Sort)
			}
			eq = smt.Eq(l.t, r.t)
		}
		if e.Op == "ne" {
			eq = smt.Not(eq)
		}
		return boolVal(eq)
	case "lt", "le", "gt", "ge":
		l, r := env.eval(e.Args[0]), env.eval(e.Args[1])
		if l.t.Sort != smt.Int || r.t.Sort != smt.Int {
			if l.t.Sort == StrSort && r.t.Sort == StrSort {
				// Go string comparison: the uninterpreted strict order str_lt (as in code)
				fv.declareStrLt()
				switch e.Op {
				case "lt":
					return boolVal(smt.App(smt.Bool, "str_lt", l.t, r.t))
				case "gt":
					return boolVal(smt.App(smt.Bool, "str_lt", r.t, l.t))
				case "le":
					return boolVal(smt.Not(smt.App(smt.Bool, "str_lt", r.t, l.t)))
				}
				return boolVal(smt.Not(smt.App(smt.Bool, "str_lt", l.t, r.t)))
			}
			if l.t.Sort == "Real" || r.t.Sort == "Real" {
				op := map[string]string{"lt": "<", "le": "<=", "gt": ">", "ge": ">="}[e.Op]
				return boolVal(smt.App(smt.Bool, op, l.t, r.t))
			}
			env.fail(e, "ordering on sorts %s, %s", l.t.Sort, r.t.Sort)
		}
		switch e.Op {
		case "lt":
			return boolVal(smt.Lt(l.t, r.t))
		case "le":
			return boolVal(smt.Le(l.t, r.t))
		case "gt":
			return boolVal(smt.Gt(l.t, r.t))
		}
		return boolVal(smt.Ge(l.t, r.t))
	case "add", "sub", "mul", "div", "mod":
		l, r := env.eval(e.Args[0]), env.eval(e.Args[1])
		if l.t.Sort != smt.Int || r.t.Sort != smt.Int {
			env.fail(e, "arithmetic on sorts %s, %s", l.t.Sort, r.t.Sort)
		}
		switch e.Op {
		case "add":
			return mathVal(smt.Add(l.t, r.t))
		case "sub":
			return mathVal(smt.Sub(l.t, r.t))
		case "mul":
			return mathVal(smt.Mul(l.t, r.t))
		case "div":
			return mathVal(smt.Div(l.t, r.t))
		}
		return mathVal(smt.Mod(l.t, r.t))
	case "in":
		k, m := env.eval(e.Args[0]), env.eval(e.Args[1])
		if m.typ != nil {
			if mt, ok := m.typ.Underlying().(*types.Map); ok {
				dom, _, _ := fv.mapKeys(mt)
				fv.instFrames(dom, m.t)
				return boolVal(smt.And(smt.Ne(m.t, smt.IntLit(0)), smt.Select(smt.Select(fv.heapGet(env.cur, dom), m.t), k.t)))
			}
		}
		if strings.HasPrefix(m.t.Sort, "(Array ") && smt.ElemSort(m.t.Sort) == smt.Bool {
			return boolVal(smt.Select(m.t, k.t))
		}
		env.fail(e, "'in' needs a map or set")
	case "field":
		return env.evalField(e)
	case "index":
		return env.evalIndex(e)
	case "update":
		a, i, v := env.eval(e.Args[0]), env.eval(e.Args[1]), env.eval(e.Args[2])
		if !strings.HasPrefix(a.t.Sort, "(Array ") {
			env.fail(e, "update needs an array view")
		}
		return sval{smt.Store(a.t, i.t, v.t), a.typ}
	case "deref":
		p := env.eval(e.Args[0])
		pt, ok := p.typ.Underlying().(*types.Pointer)
		if !ok {
			env.fail(e, "deref of non-pointer")
		}
		return sval{fv.derefLval(env.cur, p.t, pt.Elem()).load(), pt.Elem()}
	case "forall", "exists":
		inner := env
		var vars []smt.Term
		guard := smt.True
		for _, b := range e.Vars {
			so, ty := env.sortOfName(b.Type)
			name := "q_" + b.Name + "!" + fmt.Sprint(fv.nQuant)
			fv.nQuant++
			v := smt.Term{S: name, Sort: so}
			vars = append(vars, v)
			bound := v
			// Change of variable for a binder used as a slice index: if the body reads X[b] for a
			// slice X that does not depend on the binders, quantify over the absolute position
			// k = off(X)+b instead, so that the element read is select(row, k) with k a plain
			// variable (a usable E-matching trigger; "off+b" inside a select is not).
			// (only for universal binders: an existential needs a witness, and the relative index is
			// the one that survives reallocation of the slice)
			// a quantifier with explicit triggers keeps the relative index: its author chose the terms
			// that instantiate it (library models of sort / compact are stated over off + i)
			// (a quantifier whose explicit trigger IS an indexed read x[b] keeps the relative index)
			if so == smt.Int && e.Op == "forall" && !triggersOnIndex(e.Pats, b.Name) && !fv.opt.NoIndexCOV {
				names := map[string]bool{}
				for _, bb := range e.Vars {
					names[bb.Name] = true
				}
				if x := findIndexedSlice(e.Args[0], b.Name, names); x != nil {
					if xv, ok := env.tryEval(x); ok && xv.t.Sort == SliceSort {
						bound = smt.Sub(v, slOff(xv.t))
					}
				}
			}
			inner = inner.with(b.Name, sval{bound, ty})
			if ty != nil {
				guard = smt.And(guard, fv.so.validNoFrontier(bound, ty))
			}
		}
		body := inner.evalBool(e.Args[0])
		var pats []smt.Term
		for _, grp := range e.Pats {
			if len(grp) == 1 && grp[0] != nil && grp[0].Op == "ident" && grp[0].Name == "relidx" {
				continue // marker, not a term
			}
			var parts []string
			for _, pe := range grp {
				parts = append(parts, inner.eval(pe).t.S)
			}
			pats = append(pats, smt.Term{S: strings.Join(parts, " "), Sort: smt.Bool})
		}
		if e.Op == "forall" {
			return boolVal(smt.Forall(vars, smt.Implies(guard, body), pats...))
		}
		return boolVal(smt.Exists(vars, smt.And(guard, body), pats...))
	case "call":
		return env.evalCall(e)
	case "slice":
		env.fail(e, "slice expressions not supported in specs")
	}
	env.fail(e, "unsupported operator %s", e.Op)
	return sval{}
}

// findIndexedSlice returns the first sub-expression X of e such that e contains X[b]
// with X free of the bound names and not under a state-changing call.
func findIndexedSlice(e *SExpr, b string, bound map[string]bool) *SExpr {
	if e == nil {
		return nil
	}
	if e.Op == "call" && len(e.Args) > 0 && e.Args[0].Op == "ident" {
		switch e.Args[0].Name {
		case "old", "locked", "lockedN", "iter":
			return nil
		}
	}
	if e.Op == "forall" || e.Op == "exists" {
		for _, v := range e.Vars {
			if v.Name == b {
				return nil
			}
		}
	}
	if e.Op == "index" && len(e.Args) == 2 && e.Args[1].Op == "ident" && e.Args[1].Name == b && !mentionsAny(e.Args[0], bound) {
		return e.Args[0]
	}
	for _, a := range e.Args {
		if x := findIndexedSlice(a, b, bound); x != nil {
			return x
		}
	}
	return nil
}

// triggersOnIndex reports whether the quantifier carries the marker trigger {relidx}: its author
// wants slice reads x[b] to keep the relative index off+b (the library models of sort / compact
// are stated over relative indices, so their triggers match only that form).
func triggersOnIndex(pats [][]*SExpr, b string) bool {
	for _, grp := range pats {
		if len(grp) == 1 && grp[0] != nil && grp[0].Op == "ident" && grp[0].Name == "relidx" {
			return true
		}
	}
	return false
}

func mentionsAny(e *SExpr, names map[string]bool) bool {
	if e == nil {
		return false
	}
	if e.Op == "ident" && names[e.Name] {
		return true
	}
	for _, a := range e.Args {
		if mentionsAny(a, names) {
			return true
		}
	}
	return false
}

// evalClause evaluates a Boolean clause. With Options.LenientNames a clause that refers to an
// identifier the function does not (any longer) have is skipped: ok = false and a note is recorded.
func (env *specEnv) evalClause(e *SExpr) (t smt.Term, ok bool) {
	if !env.fv.opt.LenientNames {
		return env.evalBool(e), true
	}
	defer func() {
		if r := recover(); r != nil {
			if u, isU := r.(unsupported); isU && strings.Contains(string(u), "unknown identifier") {
				env.fv.note("clause skipped, it names an identifier the function no longer has: %s", e.String())
				ok = false
				return
			}
			panic(r)
		}
	}()
	return env.evalBool(e), true
}

// tryEval evaluates e, reporting false instead of failing the function when e is unsupported.
func (env *specEnv) tryEval(e *SExpr) (v sval, ok bool) {
	defer func() {
		if r := recover(); r != nil {
			ok = false
		}
	}()
	return env.eval(e), true
}

func (env *specEnv) isNil(v sval) smt.Term {
	if v.typ != nil {
		if _, ok := v.typ.Underlying().(*types.Slice); ok {
			return smt.Eq(slArr(v.t), smt.IntLit(0))
		}
	}
	if v.t.Sort == SliceSort {
		return smt.Eq(slArr(v.t), smt.IntLit(0))
	}
	return smt.Eq(v.t, smt.IntLit(0))
}

func (env *specEnv) evalIdent(e *SExpr) sval {
	if v, ok := env.vars[e.Name]; ok {
		return v
	}
	if env.self != nil && e.Name == "self" {
		return *env.self
	}
	fv := env.fv
	gs := env.gst
	if gs == nil {
		gs = env.cur
	}
	if g, ok := gs.ghost[e.Name]; ok {
		return sval{g, fv.ghostTypes[e.Name]}
	}
	if key, ok := fv.declaredGhost(env.pkg, e.Name); ok {
		return mathVal(fv.ghost0(env.cur, key))
	}
	if obj := env.pkg.Scope().Lookup(e.Name); obj != nil {
		switch o := obj.(type) {
		case *types.Const:
			if t, ok := constToTerm(fv, o.Val(), o.Type()); ok {
				return sval{t, o.Type()}
			}
		case *types.Var:
			return sval{fv.globalLval(env.cur, o).load(), o.Type()}
		}
	}
	env.fail(e, "unknown identifier %s", e.Name)
	return sval{}
}

func (env *specEnv) evalField(e *SExpr) sval {
	fv := env.fv
	// qualified constant pkg.Name
	if b := e.Args[0]; b.Op == "ident" {
		if _, isVar := env.vars[b.Name]; !isVar {
			for _, imp := range env.pkg.Imports() {
				if imp.Name() == b.Name {
					switch o := imp.Scope().Lookup(e.Name).(type) {
					case *types.Const:
						if t, ok := constToTerm(fv, o.Val(), o.Type()); ok {
							return sval{t, o.Type()}
						}
					case *types.Var:
						return sval{fv.globalLval(env.cur, o).load(), o.Type()}
					}
				}
			}
		}
	}
	base := env.eval(e.Args[0])
	if base.typ == nil {
		env.fail(e, "field of untyped value")
	}
	if key, so, ok := fv.ghostFieldKey(base.typ, e.Name); ok {
		fv.instFrames(key, base.t)
		var ty types.Type
		if so == smt.Bool {
			ty = types.Typ[types.Bool]
		}
		return sval{smt.Select(fv.heapGet(env.cur, key), base.t), ty}
	}
	st, isPtr := derefType(base.typ)
	// type invariant reference a.wf
	if n, ok := st.(*types.Named); ok {
		if ts := fv.prog.Specs.Types[ShortPkg(n.Obj().Pkg().Path())+"."+n.Obj().Name()]; ts != nil {
			for _, inv := range ts.Invs {
				if inv.Name == e.Name {
					return boolVal(env.evalInv(base, inv.E))
				}
			}
			if e.Name == "inv" {
				var all []smt.Term
				for _, inv := range ts.Invs {
					all = append(all, env.evalInv(base, inv.E))
				}
				return boolVal(smt.And(all...))
			}
		}
	}
	if _, opaque := opaqueNamed(st); opaque {
		env.fail(e, "field of opaque type")
	}
	stt, ok := st.Underlying().(*types.Struct)
	if !ok {
		env.fail(e, "field %s of non-struct %s", e.Name, st)
	}
	_ = stt
	obj, idx, _ := types.LookupFieldOrMethod(st, true, env.pkg, e.Name)
	fld, ok := obj.(*types.Var)
	if !ok || len(idx) != 1 {
		// search ignoring package (unexported fields of other packages)
		si := fv.so.structOf(st)
		_, f := si.field(e.Name)
		if f == nil {
			env.fail(e, "no field %s in %s", e.Name, st)
		}
		if isPtr {
			return sval{fv.fieldLval(env.cur, base.t, st, f).load(), f.typ}
		}
		return sval{smt.App(f.sort, f.sel, base.t), f.typ}
	}
	si := fv.so.structOf(st)
	_, f := si.field(fld.Name())
	if isPtr {
		return sval{fv.fieldLval(env.cur, base.t, st, f).load(), f.typ}
	}
	return sval{smt.App(f.sort, f.sel, base.t), f.typ}
}

// evalInv evaluates a type invariant with self bound.
func (env *specEnv) evalInv(self sval, e *SExpr) smt.Term {
	n := *env
	n.self = &self
	if nt, ok := derefNamed(self.typ); ok && nt.Obj().Pkg() != nil {
		n.pkg = nt.Obj().Pkg()
	}
	return n.evalBool(e)
}

func derefNamed(t types.Type) (*types.Named, bool) {
	if p, ok := t.Underlying().(*types.Pointer); ok {
		t = p.Elem()
	}
	n, ok := t.(*types.Named)
	return n, ok
}

func (env *specEnv) evalIndex(e *SExpr) sval {
	fv := env.fv
	a, i := env.eval(e.Args[0]), env.eval(e.Args[1])
	if a.typ != nil {
		switch u := a.typ.Underlying().(type) {
		case *types.Map:
			_, val, _ := fv.mapKeys(u)
			fv.instFrames(val, a.t)
			return sval{smt.Select(smt.Select(fv.heapGet(env.cur, val), a.t), i.t), u.Elem()}
		case *types.Slice:
			key := fv.memKey(u.Elem())
			fv.instFrames(key, slArr(a.t))
			return sval{smt.Select(smt.Select(fv.heapGet(env.cur, key), slArr(a.t)), smt.Add(slOff(a.t), i.t)), u.Elem()}
		case *types.Array:
			return sval{smt.Select(a.t, i.t), u.Elem()}
		case *types.Basic:
			if u.Info()&types.IsString != 0 {
				return sval{smt.App(smt.Int, "str_at", a.t, i.t), types.Typ[types.Uint8]}
			}
		}
	}
	if strings.HasPrefix(a.t.Sort, "(Array ") {
		return sval{smt.Select(a.t, i.t), nil}
	}
	env.fail(e, "index of sort %s", a.t.Sort)
	return sval{}
}

func (env *specEnv) evalCall(e *SExpr) sval {
	fv := env.fv
	fn := e.Args[0]
	args := e.Args[1:]
	if fn.Op == "field" {
		// method-style: x.inv(), or pkg.Func — only type invariants supported via field
		env.fail(e, "method calls are not supported in specs")
	}
	if fn.Op != "ident" {
		env.fail(e, "call of non-identifier")
	}
	name := fn.Name
	switch name {
	case "old":
		n := *env
		if n.gst == nil {
			n.gst = env.cur
		}
		n.cur = env.old
		return n.eval(args[0])
	case "locked":
		// state right after the (last) lock acquisition of this function: the
		// linearisation pre-state under the monitor model
		ls := env.lockedSt
		if ls == nil {
			ls = fv.lockSnap
		}
		if ls == nil {
			env.fail(e, "locked() used but no lock with declared ownership was acquired")
		}
		n := *env
		if n.gst == nil {
			n.gst = env.cur
		}
		n.cur = ls
		return n.eval(args[0])
	case "lockedN":
		// lockedN(n, e): e in the state right after the n-th lock acquisition (program order, 1-based)
		nv, ok := smt.IntVal(env.eval(args[0]).t)
		if ok && nv.Sign() > 0 && env.mkLocked != nil {
			ls := env.lockedNSt[nv.Int64()]
			if ls == nil {
				ls = env.mkLocked()
				env.lockedNSt[nv.Int64()] = ls
			}
			n := *env
			if n.gst == nil {
				n.gst = env.cur
			}
			n.cur = ls
			return n.eval(args[1])
		}
		if !ok || nv.Sign() <= 0 || int(nv.Int64()) > len(fv.lockSnaps) {
			env.fail(e, "lockedN: no such lock acquisition (have %d)", len(fv.lockSnaps))
		}
		n := *env
		n.cur = fv.lockSnaps[nv.Int64()-1]
		return n.eval(args[1])
	case "unlockedN":
		// unlockedN(n, e): e in the state right before the n-th release of an owned mutex (program order, 1-based)
		nv, ok := smt.IntVal(env.eval(args[0]).t)
		if !ok || nv.Sign() <= 0 || int(nv.Int64()) > len(fv.unlockSnaps) {
			env.fail(e, "unlockedN: no such release (have %d)", len(fv.unlockSnaps))
		}
		n := *env
		n.cur = fv.unlockSnaps[nv.Int64()-1]
		return n.eval(args[1])
	case "allocated":
		// allocated(p): reference within the current allocation frontier (exists in the described state)
		v := env.eval(args[0])
		t := v.t
		if v.t.Sort == SliceSort {
			t = slArr(v.t)
		}
		return boolVal(smt.And(smt.Ge(t, smt.IntLit(0)), smt.Le(t, env.cur.frontier)))
	case "iter":
		// state at the head of the innermost enclosing loop iteration (heap and
		// ghost reads only; local variables keep their current values)
		if len(fv.iterSnaps) == 0 {
			env.fail(e, "iter() used outside an iteration clause")
		}
		n := *env
		n.cur = fv.iterSnaps[len(fv.iterSnaps)-1]
		// function-level ghost variables are read at the loop head too (they are forgotten there
		// when a callee contract of the body sets them)
		n.gst = n.cur
		return n.eval(args[0])
	case "len", "cap":
		v := env.eval(args[0])
		if v.typ != nil {
			switch u := v.typ.Underlying().(type) {
			case *types.Slice:
				if name == "len" {
					return mathVal(slLen(v.t))
				}
				return mathVal(slCap(v.t))
			case *types.Map:
				_, _, ln := fv.mapKeys(u)
				fv.instFrames(ln, v.t)
				c := smt.Select(fv.heapGet(env.cur, ln), v.t)
				fv.assumeGlobal(smt.Ge(c, smt.IntLit(0)))
				return mathVal(smt.Ite(smt.Eq(v.t, smt.IntLit(0)), smt.IntLit(0), c))
			case *types.Array:
				return mathVal(smt.IntLit(u.Len()))
			case *types.Basic:
				return mathVal(smt.App(smt.Int, "str_len", v.t))
			}
		}
		if v.t.Sort == SliceSort {
			return mathVal(slLen(v.t))
		}
		env.fail(e, "len of sort %s", v.t.Sort)
	case "card":
		v := env.eval(args[0])
		mt := v.typ.Underlying().(*types.Map)
		_, _, ln := fv.mapKeys(mt)
		fv.instFrames(ln, v.t)
		c := smt.Select(fv.heapGet(env.cur, ln), v.t)
		fv.assumeGlobal(smt.Ge(c, smt.IntLit(0))) // a map never has a negative number of entries
		return mathVal(c)
	case "dom", "vals":
		v := env.eval(args[0])
		mt, ok := v.typ.Underlying().(*types.Map)
		if !ok {
			env.fail(e, "%s of non-map", name)
		}
		dom, val, _ := fv.mapKeys(mt)
		fv.instFrames(dom, v.t)
		fv.instFrames(val, v.t)
		if name == "dom" {
			return sval{smt.Select(fv.heapGet(env.cur, dom), v.t), nil}
		}
		return sval{smt.Select(fv.heapGet(env.cur, val), v.t), nil}
	case "elems":
		// elems(s): the backing array view of a slice (index relative to the array, use off(s)+i)
		v := env.eval(args[0])
		sl, ok := v.typ.Underlying().(*types.Slice)
		if !ok {
			env.fail(e, "elems of non-slice")
		}
		key := fv.memKey(sl.Elem())
		fv.instFrames(key, slArr(v.t))
		return sval{smt.Select(fv.heapGet(env.cur, key), slArr(v.t)), nil}
	case "off":
		return mathVal(slOff(env.eval(args[0]).t))
	case "arr":
		return mathVal(slArr(env.eval(args[0]).t))
	case "sameBytes":
		a, b := env.eval(args[0]), env.eval(args[1])
		return boolVal(fv.sameBytes(env.cur, a.t, b.t))
	case "ite":
		c, a, b := env.evalBool(args[0]), env.eval(args[1]), env.eval(args[2])
		return sval{smt.Ite(c, a.t, b.t), a.typ}
	case "bigval":
		v := env.eval(args[0])
		fv.instFrames(fv.bigKey("val"), v.t)
		return mathVal(smt.Select(fv.heapGet(env.cur, fv.bigKey("val")), v.t))
	case "bit":
		v, i := env.eval(args[0]), env.eval(args[1])
		fv.instFrames(fv.bigKey("bits"), v.t)
		return boolVal(smt.Select(smt.Select(fv.heapGet(env.cur, fv.bigKey("bits")), v.t), i.t))
	case "bits":
		v := env.eval(args[0])
		fv.instFrames(fv.bigKey("bits"), v.t)
		return sval{smt.Select(fv.heapGet(env.cur, fv.bigKey("bits")), v.t), nil}
	case "isErr":
		// isErr(err, Sentinel): errors.Is
		a, b := env.eval(args[0]), env.eval(args[1])
		fv.c.DeclareFun("err_is", []string{smt.Int}, smt.Int)
		return boolVal(smt.And(smt.Ne(a.t, smt.IntLit(0)), smt.Or(smt.Eq(a.t, b.t), smt.Eq(smt.App(smt.Int, "err_is", a.t), b.t))))
	case "fresh":
		// fresh(p): reference allocated during the call (greater than the entry frontier)
		v := env.eval(args[0])
		t := v.t
		if v.t.Sort == SliceSort {
			t = slArr(v.t)
		}
		return boolVal(smt.Gt(t, env.old.frontier))
	case "live":
		// live(p): p refers to an object that exists in the current state (nil counts as live);
		// objects allocated later are distinct from every live reference
		v := env.eval(args[0])
		t := v.t
		if v.t.Sort == SliceSort {
			t = slArr(v.t)
		}
		return boolVal(smt.And(smt.Ge(t, smt.IntLit(0)), smt.Le(t, env.cur.frontier)))
	case "macstr":
		// macstr(h): the string net.HardwareAddr(h).String() yields in the current state
		v := env.eval(args[0])
		if v.t.Sort != SliceSort {
			env.fail(e, "macstr needs a byte slice")
		}
		return sval{fv.hwaddrStr(env.cur, v.t), types.Typ[types.String]}
	case "holds":
		// holds(x.mu): this invocation holds the mutex field mu of object x (read or write) in the
		// current state -- the engine's own record of Lock/RLock/Unlock calls (see deadlock.go)
		if len(args) != 1 || args[0].Op != "field" {
			env.fail(e, "holds needs a mutex field x.mu")
		}
		ov := env.eval(args[0].Args[0])
		cur, have := env.cur.ghost[heldKey(ov.t, args[0].Name)]
		if !have {
			return boolVal(smt.False)
		}
		return boolVal(smt.Ne(cur, smt.IntLit(0)))
	case "strcat":
		// strcat(a, b): the Go string a + b (the engine's uninterpreted concatenation symbol)
		a, b := env.eval(args[0]), env.eval(args[1])
		if a.t.Sort != StrSort || b.t.Sort != StrSort {
			env.fail(e, "strcat needs two strings")
		}
		fv.declareStrCat()
		return sval{smt.App(StrSort, "str_cat", a.t, b.t), types.Typ[types.String]}
	case "netcontains":
		// netcontains(n, ip): what n.Contains(ip) yields in the current state (n a *net.IPNet)
		nv := env.eval(args[0])
		v := env.eval(args[1])
		if v.t.Sort != SliceSort || nv.typ == nil {
			env.fail(e, "netcontains needs a *net.IPNet and a byte slice")
		}
		return boolVal(fv.netContains(env.cur, nv.t, nv.typ, v.t))
	case "hexstr":
		// hexstr(b): the string encoding/hex.EncodeToString(b) yields in the current state
		v := env.eval(args[0])
		if v.t.Sort != SliceSort {
			env.fail(e, "hexstr needs a byte slice")
		}
		return sval{fv.hexStr(env.cur, v.t), types.Typ[types.String]}
	case "ipkey", "ipstr":
		// ipkey(x): identity of the net.IP.Equal class of x in the current state; ipstr(x) = x.String()
		v := env.eval(args[0])
		if v.t.Sort != SliceSort {
			env.fail(e, "ipkey needs a byte slice")
		}
		if name == "ipstr" {
			k := fv.ipKey(env.cur, v.t)
			return sval{smt.App(StrSort, "ip_str", k), types.Typ[types.String]}
		}
		return mathVal(fv.ipKey(env.cur, v.t))
	case "now":
		return mathVal(env.cur.now)
	case "fnv1a64":
		// fnv1a64(s, n): 64-bit FNV-1a (hash/fnv) of the first n bytes of the byte slice s in the
		// current state, defined by its recurrence over the engine's bit_xor symbol
		v := env.eval(args[0])
		n := env.eval(args[1])
		if v.t.Sort != SliceSort {
			env.fail(e, "fnv1a64 needs a byte slice")
		}
		key := fv.memKey(types.Typ[types.Uint8])
		fv.instFrames(key, slArr(v.t))
		fv.declareFNV()
		return mathVal(smt.App(smt.Int, "fnv1a64", smt.Select(fv.heapGet(env.cur, key), slArr(v.t)), slOff(v.t), n.t))
	case "pow2":
		v := env.eval(args[0])
		if n, ok := smt.IntVal(v.t); ok && n.Sign() >= 0 && n.Cmp(big.NewInt(256)) <= 0 {
			return mathVal(smt.BigLit(pow2(int(n.Int64()))))
		}
		fv.declarePow2()
		return mathVal(smt.App(smt.Int, "pow2", v.t))
	}
	if v, ok := env.specBuiltinGhost(name, e, args); ok {
		return v
	}
	if v, ok := env.specBuiltinRad(name, e, args); ok {
		return v
	}
	if v, ok := env.specBuiltinJSON(name, e, args); ok {
		return v
	}
	// conversions to integer types are identities on mathematical values
	if t, ok := basicTypes[name]; ok && len(args) == 1 {
		v := env.eval(args[0])
		if isInteger(t) {
			return sval{v.t, t}
		}
		return sval{v.t, t}
	}
	// user type conversion, e.g. net.IP(x)
	if t, ok := env.resolveType(name); ok && t != nil && len(args) == 1 {
		v := env.eval(args[0])
		return sval{v.t, t}
	}
	// type invariant wf(a)
	if len(args) == 1 {
		v := env.eval(args[0])
		if v.typ != nil {
			if n, ok := derefNamed(v.typ); ok && n.Obj().Pkg() != nil {
				if ts := fv.prog.Specs.Types[ShortPkg(n.Obj().Pkg().Path())+"."+n.Obj().Name()]; ts != nil {
					for _, inv := range ts.Invs {
						if inv.Name == name {
							return boolVal(env.evalInv(v, inv.E))
						}
					}
				}
			}
		}
	}
	// pure spec function
	pf := fv.prog.Specs.Pures[ShortPkg(env.pkg.Path())+"."+name]
	if pf == nil {
		pf = fv.prog.Specs.Pures[name]
	}
	if pf != nil {
		if len(args) != len(pf.Params) {
			env.fail(e, "pure %s expects %d args", name, len(pf.Params))
		}
		if pf.Uninterp {
			// ghost func: an uninterpreted function symbol over the argument sorts
			fname := "ghost_" + smt.Sanitize(pf.Pkg) + "_" + pf.Name
			retSort, retTy := env.sortOfName(pf.Ret)
			var sorts []string
			var as []smt.Term
			for i, p := range pf.Params {
				so, _ := env.sortOfName(p.Type)
				av := env.eval(args[i])
				if av.t.Sort != so {
					env.fail(e, "ghost %s: argument %d has sort %s, want %s", name, i, av.t.Sort, so)
				}
				sorts = append(sorts, so)
				as = append(as, av.t)
			}
			fv.c.DeclareFun(fname, sorts, retSort)
			return sval{smt.App(retSort, fname, as...), retTy}
		}
		if pf.Rec {
			return env.callRecPure(pf, args)
		}
		inner := &specEnv{fv: fv, cur: env.cur, old: env.old, vars: map[string]sval{}, pkg: env.pkg, self: env.self, lockedSt: env.lockedSt, mkLocked: env.mkLocked, lockedNSt: env.lockedNSt}
		for i, p := range pf.Params {
			av := env.eval(args[i])
			_, ty := env.sortOfName(p.Type)
			if ty != nil {
				av.typ = ty
			}
			inner.vars[p.Name] = av
		}
		r := inner.eval(pf.Body)
		if pf.Ret != "" && pf.Ret != "bool" {
			_, ty := env.sortOfName(pf.Ret)
			r.typ = ty
		}
		return r
	}
	env.fail(e, "unknown function %s", name)
	return sval{}
}

// callRecPure emits a define-fun-rec for a recursive heap-independent spec function.
func (env *specEnv) callRecPure(pf *PureFunc, args []*SExpr) sval {
	fv := env.fv
	fname := "spec_" + pf.Name
	retSort, retTy := env.sortOfName(pf.Ret)
	if !fv.c.Has(fname) {
		inner := &specEnv{fv: fv, cur: env.cur, old: env.old, vars: map[string]sval{}, pkg: env.pkg}
		var params []smt.Term
		var sorts []string
		for _, p := range pf.Params {
			so, ty := env.sortOfName(p.Type)
			v := smt.Term{S: "p_" + p.Name, Sort: so}
			params = append(params, v)
			sorts = append(sorts, so)
			inner.vars[p.Name] = sval{v, ty}
		}
		// declare first so that the body may refer to it
		fv.c.DeclareFun(fname, sorts, retSort)
		body := inner.eval(pf.Body)
		app := smt.App(retSort, fname, params...)
		fv.c.Axiom("def_"+fname, smt.Forall(params, smt.Eq(app, body.t), app), fname)
	}
	var as []smt.Term
	for _, a := range args {
		as = append(as, env.eval(a).t)
	}
	return sval{smt.App(retSort, fname, as...), retTy}
}

// declareFNV axiomatises fnv1a64(a, o, n): offset basis for n <= 0, otherwise
// ((fnv1a64(a, o, n-1) xor a[o+n-1]) * prime) mod 2^64.
func (fv *funcVerifier) declareFNV() {
	if fv.c.Has("fnv1a64") {
		return
	}
	fv.c.DeclareFun("bit_xor", []string{smt.Int, smt.Int}, smt.Int)
	fv.c.DeclareFun("fnv1a64", []string{smt.Arr(smt.Int, smt.Int), smt.Int, smt.Int}, smt.Int)
	a := smt.Term{S: "fn_a", Sort: smt.Arr(smt.Int, smt.Int)}
	o, n := smt.Term{S: "fn_o", Sort: smt.Int}, smt.Term{S: "fn_n", Sort: smt.Int}
	f := func(k smt.Term) smt.Term { return smt.App(smt.Int, "fnv1a64", a, o, k) }
	basis, _ := new(big.Int).SetString("14695981039346656037", 10)
	prime := big.NewInt(1099511628211)
	step := smt.Mod(smt.Mul(smt.App(smt.Int, "bit_xor", f(smt.Sub(n, smt.IntLit(1))), smt.Select(a, smt.Add(o, smt.Sub(n, smt.IntLit(1))))), smt.BigLit(prime)), smt.BigLit(pow2(64)))
	fv.c.Axiom("fnv1a64_def", smt.Forall([]smt.Term{a, o, n}, smt.Eq(f(n), smt.Ite(smt.Le(n, smt.IntLit(0)), smt.BigLit(basis), step)), f(n)), "fnv1a64")
}

func (fv *funcVerifier) declarePow2() {
	if fv.c.Has("pow2") {
		return
	}
	fv.c.DeclareFun("pow2", []string{smt.Int}, smt.Int)
	n := smt.Term{S: "n", Sort: smt.Int}
	p := func(x smt.Term) smt.Term { return smt.App(smt.Int, "pow2", x) }
	fv.c.Axiom("pow2_0", smt.Eq(p(smt.IntLit(0)), smt.IntLit(1)), "pow2")
	fv.c.Axiom("pow2_step", smt.Forall([]smt.Term{n}, smt.Implies(smt.Gt(n, smt.IntLit(0)), smt.Eq(p(n), smt.Mul(smt.IntLit(2), p(smt.Sub(n, smt.IntLit(1)))))), p(n)), "pow2")
	fv.c.Axiom("pow2_pos", smt.Forall([]smt.Term{n}, smt.Implies(smt.Ge(n, smt.IntLit(0)), smt.Ge(p(n), smt.IntLit(1))), p(n)), "pow2")
}

func (fv *funcVerifier) bigKey(which string) string {
	switch which {
	case "val":
		fv.regHeap("big:val", smt.Arr(smt.Int, smt.Int))
		return "big:val"
	default:
		fv.regHeap("big:bits", smt.Arr(smt.Int, smt.Arr(smt.Int, smt.Bool)))
		return "big:bits"
	}
}

// validNoFrontier is type validity without the allocation bound (for bound variables).
func (s *sorts) validNoFrontier(v smt.Term, t types.Type) smt.Term {
	if isRefLike(t) {
		return smt.Ge(v, smt.IntLit(0))
	}
	if _, ok := t.Underlying().(*types.Slice); ok {
		return smt.True
	}
	if _, ok := t.Underlying().(*types.Struct); ok {
		return smt.True
	}
	if isString(t) {
		return smt.True
	}
	return s.valid(v, t, smt.IntLit(0))
}

// ---- function-level spec plumbing ----

func resultNames(sig *types.Signature) []string {
	n := sig.Results().Len()
	names := make([]string, n)
	for i := 0; i < n; i++ {
		r := sig.Results().At(i)
		switch {
		case r.Name() != "" && r.Name() != "_":
			names[i] = r.Name()
		case n == 1 && r.Type().String() == "error":
			names[i] = "err"
		case n == 1:
			names[i] = "result"
		case i == n-1 && r.Type().String() == "error":
			names[i] = "err"
		case n == 2 && i == 0:
			names[i] = "result"
		default:
			names[i] = fmt.Sprintf("result%d", i)
		}
	}
	return names
}

func (fv *funcVerifier) newEnv(cur, old *State) *specEnv {
	return &specEnv{fv: fv, cur: cur, old: old, vars: map[string]sval{}, pkg: fv.pkg.Types}
}

// setupSpec binds the function's own contract.
func (fv *funcVerifier) setupSpec(st *State) {
	fv.spec = fv.prog.Specs.Funcs[fv.fi.Key]
	if fv.spec != nil && strings.Contains(fv.spec.Mode, "goinline") {
		fv.opt.GoInline = true
	}
	if fv.spec != nil && strings.Contains(fv.spec.Mode, "seq") {
		// "mode seq": the objects this function calls into are reachable only
		// through a lock this function holds (or it runs before any other thread
		// exists), so locked(e) in a callee's contract denotes the pre-call state.
		fv.opt.SeqCalls = true
	}
}

func (fv *funcVerifier) ownEnv(cur *State) *specEnv {
	env := fv.newEnv(cur, fv.entry)
	if fv.recv != nil && fv.recv.Name() != "" {
		env.vars[fv.recv.Name()] = sval{fv.entry.vars[fv.recv], fv.recv.Type()}
		if fv.boxed[fv.recv] {
			env.vars[fv.recv.Name()] = sval{fv.c.Const("in_"+smt.Sanitize(fv.recv.Name()), fv.so.sortOf(fv.recv.Type())), fv.recv.Type()}
		}
	}
	for _, p := range fv.params {
		if p.Name() == "" || p.Name() == "_" {
			continue
		}
		// parameters denote their entry values (Go parameters are mutable locals)
		env.vars[p.Name()] = sval{fv.c.Const("in_"+smt.Sanitize(p.Name()), fv.so.sortOf(p.Type())), p.Type()}
	}
	return env
}

// checkLemmas proves the "lemma" clauses of the function's contract block in the entry
// state, before the requires are assumed: a lemma is a closed first-order fact about the
// spec functions (it may quantify over slices, whose elements are read from the entry heap).
// Lemmas are not assumed afterwards.
func (fv *funcVerifier) checkLemmas(st *State) {
	if fv.spec == nil {
		return
	}
	env := fv.ownEnv(st)
	for _, l := range fv.spec.Lemmas {
		fv.assertNoAssume(st, "lemma", l.Name, fv.fi.Decl.Pos(), env.evalBool(l.E))
	}
}

// callSiteSpec applies the assumed contract of an external call site, if one is declared
// ("callsite Func callee#n").
func (fv *funcVerifier) callSiteSpec(st *State, call *ast.CallExpr, fn *types.Func) ([]smt.Term, bool) {
	if len(fv.prog.Specs.CallSites) == 0 {
		return nil, false
	}
	full := fn.FullName()
	if fv.callOrd == nil {
		fv.callOrd = map[string]int{}
	}
	fv.callOrd[full]++
	key := fmt.Sprintf("%s:%s#%d", fv.fi.Key, full, fv.callOrd[full])
	sp := fv.prog.Specs.CallSites[key]
	if sp == nil {
		return nil, false
	}
	sig := fn.Type().(*types.Signature)
	if sig.Recv() != nil {
		fv.evalRecv(st, call, fn)
	}
	fv.evalArgs(st, call, sig)
	pre := st.clone()
	envPre := fv.loopEnv(pre)
	envPre.old = pre
	for _, r := range sp.Requires {
		fv.assert(st, "requires", key+":"+r.String(), call.Pos(), envPre.evalBool(r))
	}
	fv.mut++
	for _, m := range sp.Modifies {
		if m.Op == "call" && m.Args[0].Op == "ident" && m.Args[0].Name == "elems" && len(m.Args) == 2 {
			v := envPre.eval(m.Args[1])
			sl, ok := v.typ.Underlying().(*types.Slice)
			if !ok {
				envPre.fail(m, "elems of non-slice")
			}
			k := fv.memKey(sl.Elem())
			h := fv.heapGet(st, k)
			fv.heapSet(st, k, smt.Store(h, slArr(v.t), fv.c.Fresh("hv", smt.ElemSort(h.Sort))))
			continue
		}
		envPre.fail(m, "callsite modifies target must be elems(s)")
	}
	nf := fv.c.Fresh("frontier", smt.Int)
	fv.assume(st, smt.Ge(nf, st.frontier))
	st.frontier = nf
	post := fv.loopEnv(st)
	post.old = pre
	results := fv.freshResults(st, call, fn.Name())
	names := resultNames(sig)
	for i, r := range results {
		post.vars[names[i]] = sval{r, sig.Results().At(i).Type()}
	}
	for _, e := range sp.Ensures {
		fv.assume(st, post.evalBool(e))
	}
	fv.note("external call %s: assumed call-site contract %s", full, key)
	return results, true
}

func (fv *funcVerifier) assumeRequires(st *State) {
	if fv.spec == nil {
		return
	}
	env := fv.ownEnv(st)
	for _, g := range fv.spec.Ghosts {
		v := env.eval(g.E)
		if g.Type != "" {
			so, ty := env.sortOfName(g.Type)
			v.typ = ty
			if v.t.Sort != so {
				env.fail(g.E, "ghost %s: initial value has sort %s, declared %s", g.Name, v.t.Sort, so)
			}
		}
		st.ghost[g.Name] = v.t
		fv.ghostTypes[g.Name] = v.typ
	}
	for _, r := range fv.spec.Requires {
		t := env.evalBool(r)
		fv.assume(st, t)
		fv.preconds = append(fv.preconds, t)
	}
}

// finishExits merges all return states and checks the postconditions.
func (fv *funcVerifier) finishExits() {
	if len(fv.exits) == 0 {
		return
	}
	// a function-level local that is not yet declared at some return has an arbitrary value
	// there, so that postconditions may mention it (guarded by the path, e.g. err == nil)
	if fv.spec != nil && fv.fi.Decl != nil && fv.fi.Decl.Type != nil {
		if top := fv.info.Scopes[fv.fi.Decl.Type]; top != nil {
			// locals of nested blocks count too when their name is declared once in the function
			// (a postcondition can then speak about the value computed in the iteration that returned)
			declCount := map[string]int{}
			for id, obj := range fv.info.Defs {
				if v, ok := obj.(*types.Var); ok && !v.IsField() && id.Pos() >= fv.fi.Decl.Pos() && id.Pos() <= fv.fi.Decl.End() {
					declCount[v.Name()]++
				}
			}
			all := map[*types.Var]bool{}
			for _, ex := range fv.exits {
				for v := range ex.vars {
					if v.Name() == "" || v.Name() == "_" {
						continue
					}
					if v.Parent() == top || (declCount[v.Name()] == 1 && v.Pos() >= fv.fi.Decl.Pos() && v.Pos() <= fv.fi.Decl.End()) {
						all[v] = true
					}
				}
			}
			var vs []*types.Var
			for v := range all {
				vs = append(vs, v)
			}
			sort.Slice(vs, func(i, j int) bool { return vs[i].Pos() < vs[j].Pos() })
			for _, v := range vs {
				for _, ex := range fv.exits {
					if _, ok := ex.vars[v]; !ok && !ex.dead() {
						if fv.boxed[v] {
							// address-taken local: an arbitrary box
							ex.vars[v] = fv.c.Fresh("undeclbox_"+v.Name(), smt.Int)
							continue
						}
						ex.vars[v] = fv.c.Fresh("undecl_"+v.Name(), fv.so.sortOf(v.Type()))
					}
				}
			}
		}
	}
	if fv.opt.Canary && fv.spec != nil && len(fv.exits) > 1 {
		// vacuity guard per return: a return that became unreachable under the assumed
		// invariants/contracts would make every postcondition hold trivially on that path
		for k, ex := range fv.exits {
			if ex.dead() {
				continue
			}
			o := fv.assertNoAssume(ex, "canary", fmt.Sprintf("return-reachable#%d", k+1), fv.fi.Decl.End(), smt.False)
			if o != nil {
				o.Canary = true
			}
		}
	}
	exit := fv.mergeAll(fv.exits[0], fv.exits[1:])
	fv.exit = exit
	if fv.opt.Canary {
		o := fv.assertNoAssume(exit, "canary", "exit-reachable", fv.fi.Decl.End(), smt.False)
		if o != nil {
			o.Canary = true
		}
	}
	if fv.spec == nil {
		return
	}
	env := fv.ownEnv(exit)
	// function-level locals that are live at every exit may be mentioned in postconditions
	// (parameters keep denoting their entry values)
	for v, t := range exit.vars {
		if v.Name() == "" || v.Name() == "_" || fv.isParam(v) || fv.volatile[v] {
			continue
		}
		if fv.boxed[v] {
			// address-taken local: its value lives in the box
			t = fv.loadAt(exit, t, v.Type())
		}
		if _, taken := env.vars[v.Name()]; !taken {
			env.vars[v.Name()] = sval{t, v.Type()}
		}
	}
	names := resultNames(fv.sig)
	for i, rv := range fv.results {
		var t smt.Term
		if fv.boxed[rv] {
			t = fv.loadAt(exit, exit.vars[rv], rv.Type())
		} else {
			t = exit.vars[rv]
		}
		env.vars[names[i]] = sval{t, rv.Type()}
	}
	fv.applyGhostExit(exit, env, fv.spec)
	if fv.spec.PerExit && len(fv.exits) > 1 && len(fv.spec.GhostExit) == 0 {
		// one obligation per return statement, with the assumptions of that path only: the
		// terms stay those of the path (no ite-merged heaps, which defeat quantifier triggers)
		for k, ex := range fv.exits {
			if ex.dead() {
				continue
			}
			envk := fv.ownEnv(ex)
			for v, t := range ex.vars {
				if v.Name() == "" || v.Name() == "_" || fv.isParam(v) || fv.boxed[v] || fv.volatile[v] {
					continue
				}
				if _, inAll := exit.vars[v]; !inAll {
					continue
				}
				if _, taken := envk.vars[v.Name()]; !taken {
					envk.vars[v.Name()] = sval{t, v.Type()}
				}
			}
			for i, rv := range fv.results {
				var t smt.Term
				if fv.boxed[rv] {
					t = fv.loadAt(ex, ex.vars[rv], rv.Type())
				} else {
					t = ex.vars[rv]
				}
				envk.vars[names[i]] = sval{t, rv.Type()}
			}
			start := len(fv.assumptions)
			for _, e := range fv.spec.Ensures {
				ct, cok := envk.evalClause(e)
				if !cok {
					continue
				}
				o := fv.assert(ex, "ensures", fmt.Sprintf("%s@return%d", e.String(), k+1), fv.fi.Decl.End(), ct)
				if o != nil && k < len(fv.exitAssume) && fv.exitAssume[k] < start {
					o.skipFrom, o.skipTo = fv.exitAssume[k], start
				}
			}
		}
	} else {
		for _, e := range fv.spec.Ensures {
			if ct, cok := env.evalClause(e); cok {
				fv.assert(exit, "ensures", e.String(), fv.fi.Decl.End(), ct)
			}
		}
	}

	if fv.spec.Modifies != nil && !fv.spec.ModAll {
		fv.checkFrame(exit, env)
	}
}

// modTarget is a location named in a modifies clause.
type modTarget struct {
	ref   smt.Term
	st    types.Type // struct type
	field *structField
	// slice contents target (modifies b where b is a slice): memKey/arr set, field nil
	memKey string
	arr    smt.Term
	// ghost field target
	ghostKey string
	inner bool // inner(x.f): the maps that are VALUES of the map x.f (nested map contents), not x.f itself
}

// innerMember is the condition "r is a value of map m (of type mt) in state st".
func (fv *funcVerifier) innerMember(st *State, m smt.Term, mt *types.Map, r smt.Term, kname string) smt.Term {
	dom, val, _ := fv.mapKeys(mt)
	k := smt.Term{S: kname, Sort: fv.so.sortOf(mt.Key())}
	return smt.And(smt.Ne(m, smt.IntLit(0)), smt.Exists([]smt.Term{k}, smt.And(smt.Select(smt.Select(fv.heapGet(st, dom), m), k),
		smt.Eq(smt.Select(smt.Select(fv.heapGet(st, val), m), k), r))))
}

// declaredGhost resolves a package-level ghost variable declared with "//@ ghostvar name".
func (fv *funcVerifier) declaredGhost(pkg *types.Package, name string) (string, bool) {
	if pkg == nil || !fv.prog.Specs.Ghosts[ShortPkg(pkg.Path())+"."+name] {
		return "", false
	}
	key := "gh:" + ShortPkg(pkg.Path()) + "." + name
	fv.regHeap(key, smt.Arr(smt.Int, smt.Int))
	return key, true
}

func (env *specEnv) modTargets(list []*SExpr) []modTarget {
	fv := env.fv
	var out []modTarget
	for _, e := range list {
		if e.Op == "ident" {
			if key, ok := fv.declaredGhost(env.pkg, e.Name); ok {
				out = append(out, modTarget{ghostKey: key, ref: smt.IntLit(0)})
				continue
			}
			if ks := fv.builtinGhostGroup(e.Name); ks != nil {
				for _, k := range ks {
					out = append(out, modTarget{ghostKey: k, ref: smt.IntLit(0)})
				}
				continue
			}
		}
		if e.Op == "call" && len(e.Args) == 2 && e.Args[0].Op == "ident" && e.Args[0].Name == "rad_attrs" {
			fv.radDecls()
			pkt := env.eval(e.Args[1]).t
			for _, k := range radAttrKeys {
				out = append(out, modTarget{ghostKey: k, ref: pkt})
			}
			continue
		}
		inner := false
		if e.Op == "call" && len(e.Args) == 2 && e.Args[0].Op == "ident" && e.Args[0].Name == "inner" {
			inner = true
			e = e.Args[1]
		}
		if e.Op != "field" {
			v := env.eval(e)
			if v.typ != nil {
				if sl, ok := v.typ.Underlying().(*types.Slice); ok {
					out = append(out, modTarget{memKey: fv.memKey(sl.Elem()), arr: slArr(v.t)})
					continue
				}
			}
			env.fail(e, "modifies target must be x.f, inner(x.f) or a slice (its elements)")
		}
		base := env.eval(e.Args[0])
		if gk, _, ok := fv.ghostFieldKey(base.typ, e.Name); ok {
			out = append(out, modTarget{ghostKey: gk, ref: base.t})
			continue
		}
		st, isPtr := derefType(base.typ)
		if !isPtr {
			env.fail(e, "modifies target base must be a pointer")
		}
		si := fv.so.structOf(st)
		_, f := si.field(e.Name)
		if f == nil {
			env.fail(e, "no field %s", e.Name)
		}
		if inner {
			mt, ok := f.typ.Underlying().(*types.Map)
			if ok {
				_, ok = mt.Elem().Underlying().(*types.Map)
			}
			if !ok {
				env.fail(e, "inner(x.f) needs a map-of-maps field")
			}
		}
		out = append(out, modTarget{ref: base.t, st: st, field: f, inner: inner})
	}
	return out
}

// applyModifies havocs the locations of a callee's modifies clause in st.
// Evaluated with env.cur = pre-call state.
func (fv *funcVerifier) applyModifies(st *State, env *specEnv, sp *FuncSpec) {
	if sp.Pure {
		return
	}
	if sp.Modifies == nil || sp.ModAll {
		fv.havocAll(st)
		return
	}
	tgts := env.modTargets(sp.Modifies)
	fv.mut++
	// inner(x.f): the contents of every map that is a value of x.f in the pre-call state may change
	for i, t := range tgts {
		if !t.inner {
			continue
		}
		pre := env.cur
		mt := t.field.typ.Underlying().(*types.Map)
		m := fv.fieldLval(pre, t.ref, t.st, t.field).load()
		idom, ival, iln := fv.mapKeys(mt.Elem().Underlying().(*types.Map))
		for _, k := range []string{idom, ival, iln} {
			h := fv.heapGet(st, k)
			nh := fv.c.Fresh("Hin_"+k, h.Sort)
			r := smt.Term{S: "fr_r", Sort: smt.Int}
			fv.assume(st, smt.Forall([]smt.Term{r}, smt.Implies(smt.Not(fv.innerMember(pre, m, mt, r, fmt.Sprintf("fr_k%d", i))),
				smt.Eq(smt.Select(nh, r), smt.Select(h, r)))))
			fv.heapSet(st, k, nh)
		}
	}
	for _, t := range tgts {
		if t.ghostKey != "" {
			h := fv.heapGet(st, t.ghostKey)
			fv.heapSet(st, t.ghostKey, smt.Store(h, t.ref, fv.c.Fresh("hv", smt.ElemSort(h.Sort))))
			continue
		}
		if t.field == nil {
			h := fv.heapGet(st, t.memKey)
			fv.heapSet(st, t.memKey, smt.Store(h, t.arr, fv.c.Fresh("hv", smt.ElemSort(h.Sort))))
			continue
		}
		if t.inner {
			continue
		}
		old := fv.fieldLval(st, t.ref, t.st, t.field).load()
		fv.havocReferent(st, old, t.field.typ)
		nv := fv.fresh(st, "mod_"+t.field.name, t.field.typ)
		key := fv.so.fieldKey(t.st, t.field.name)
		fv.heapSet(st, key, smt.Store(fv.heapGet(st, key), t.ref, nv))
	}
	nf := fv.c.Fresh("frontier", smt.Int)
	fv.assume(st, smt.Ge(nf, st.frontier))
	st.frontier = nf
}

// havocReferent forgets the contents of the object a field value refers to.
func (fv *funcVerifier) havocReferent(st *State, v smt.Term, t types.Type) {
	if full, ok := opaqueNamed(t); ok {
		_ = full
		return
	}
	switch u := t.Underlying().(type) {
	case *types.Map:
		dom, val, ln := fv.mapKeys(u)
		for _, k := range []string{dom, val, ln} {
			h := fv.heapGet(st, k)
			fv.heapSet(st, k, smt.Store(h, v, fv.c.Fresh("hv", smt.ElemSort(h.Sort))))
		}
		l := smt.Select(fv.heapGet(st, ln), v)
		fv.assume(st, smt.Ge(l, smt.IntLit(0)))
		if isRefLike(u.Elem()) {
			// the (unknown) values of the map are type-valid: references to objects that already exist
			qk := smt.Term{S: "hv_k", Sort: fv.so.sortOf(u.Key())}
			ev := smt.Select(smt.Select(fv.heapGet(st, val), v), qk)
			fv.assume(st, smt.Forall([]smt.Term{qk}, smt.Implies(smt.Select(smt.Select(fv.heapGet(st, dom), v), qk), fv.so.valid(ev, u.Elem(), st.frontier))))
		}
	case *types.Slice:
		key := fv.memKey(u.Elem())
		h := fv.heapGet(st, key)
		fv.heapSet(st, key, smt.Store(h, slArr(v), fv.c.Fresh("hv", smt.ElemSort(h.Sort))))
	case *types.Pointer:
		if full, ok := opaqueNamed(u.Elem()); ok && full == "math/big.Int" {
			for _, k := range []string{fv.bigKey("val"), fv.bigKey("bits")} {
				h := fv.heapGet(st, k)
				fv.heapSet(st, k, smt.Store(h, v, fv.c.Fresh("hv", smt.ElemSort(h.Sort))))
			}
		}
	}
}

// checkFrame asserts that nothing outside the modifies clause changed, for
// objects that existed at entry.
func (fv *funcVerifier) checkFrame(exit *State, env *specEnv) {
	if fv.wildHavoc {
		if o := fv.assert(exit, "frame", "heap-forgotten-by-uncontracted-callee-or-undeclared-lock", fv.fi.Decl.End(), smt.False); o != nil {
			o.ForceFail = true
		}
		return
	}
	entryEnv := *env
	entryEnv.cur = fv.entry
	tgts := entryEnv.modTargets(fv.spec.Modifies)
	r := smt.Term{S: "fr_r", Sort: smt.Int}
	var ks []string
	for k, so := range fv.heapSorts {
		if strings.HasPrefix(so, "(Array Int ") {
			ks = append(ks, k)
		}
	}
	sortStrings(ks)
	// referents that may change: maps/slices/bigs reachable from modified fields (entry values)
	type refKey struct {
		key string
		ref smt.Term
	}
	var refs []refKey
	type innerKey struct {
		key string
		m   smt.Term
		mt  *types.Map
	}
	var inners []innerKey
	snaps := append([]*State{fv.entry}, fv.lockSnaps...)
	for _, t := range tgts {
		if t.ghostKey != "" {
			refs = append(refs, refKey{t.ghostKey, t.ref})
			continue
		}
		if t.field == nil {
			refs = append(refs, refKey{t.memKey, t.arr})
			continue
		}
		for si, snap := range snaps {
			// referents as of entry and as of every lock acquisition (an owned field is re-read after Lock)
			oldv := fv.fieldLval(snap, t.ref, t.st, t.field).load()
			if si > 0 && t.inner {
				continue
			}
			if t.inner {
				mt := t.field.typ.Underlying().(*types.Map)
				idom, ival, iln := fv.mapKeys(mt.Elem().Underlying().(*types.Map))
				for _, k := range []string{idom, ival, iln} {
					inners = append(inners, innerKey{k, oldv, mt})
				}
				continue
			}
			switch u := t.field.typ.Underlying().(type) {
			case *types.Map:
				dom, val, ln := fv.mapKeys(u)
				refs = append(refs, refKey{dom, oldv}, refKey{val, oldv}, refKey{ln, oldv})
			case *types.Slice:
				refs = append(refs, refKey{fv.memKey(u.Elem()), slArr(oldv)})
			case *types.Pointer:
				if full, ok := opaqueNamed(u.Elem()); ok && full == "math/big.Int" {
					refs = append(refs, refKey{fv.bigKey("val"), oldv}, refKey{fv.bigKey("bits"), oldv})
				}
			}
		}
	}
	for _, g := range fv.spec.GhostExit {
		if g.Target.Op == "field" {
			base := entryEnv.eval(g.Target.Args[0])
			if gk, _, ok := fv.ghostFieldKey(base.typ, g.Target.Name); ok {
				refs = append(refs, refKey{gk, base.t})
			}
		}
	}
	for _, lh := range fv.lockHavocs {
		if lh.ghostKey != "" {
			refs = append(refs, refKey{lh.ghostKey, lh.owner})
			continue
		}
		for _, v := range []smt.Term{lh.old, lh.fresh} {
			switch u := lh.typ.Underlying().(type) {
			case *types.Map:
				dom, val, ln := fv.mapKeys(u)
				refs = append(refs, refKey{dom, v}, refKey{val, v}, refKey{ln, v})
			case *types.Slice:
				refs = append(refs, refKey{fv.memKey(u.Elem()), slArr(v)})
			case *types.Pointer:
				if full, ok := opaqueNamed(u.Elem()); ok && full == "math/big.Int" {
					refs = append(refs, refKey{fv.bigKey("val"), v}, refKey{fv.bigKey("bits"), v})
				}
			}
		}
		refs = append(refs, refKey{lh.fieldKey, lh.owner})
	}
	for _, k := range ks {
		if strings.HasPrefix(k, "g:") {
			continue
		}
		now := fv.heapGet(exit, k)
		was := fv.heapGet(fv.entry, k)
		if now.S == was.S {
			continue
		}
		allowed := smt.False
		for _, t := range tgts {
			if t.field != nil && !t.inner && fv.so.fieldKey(t.st, t.field.name) == k {
				allowed = smt.Or(allowed, smt.Eq(r, t.ref))
			}
		}
		for i, ik := range inners {
			if ik.key == k {
				allowed = smt.Or(allowed, fv.innerMember(fv.entry, ik.m, ik.mt, r, fmt.Sprintf("fr_k%d", i)))
			}
		}
		for _, rk := range refs {
			if rk.key == k {
				allowed = smt.Or(allowed, smt.Eq(r, rk.ref))
			}
		}
		// reference 0 is nil: it has no contents (a model may "forget" the referent of a nil slice/map)
		goal := smt.Forall([]smt.Term{r}, smt.Implies(smt.And(smt.Ge(r, smt.IntLit(1)), smt.Le(r, fv.entry.frontier), smt.Not(allowed)),
			smt.Eq(smt.Select(now, r), smt.Select(was, r))))
		fv.assert(exit, "frame", k, fv.fi.Decl.End(), goal)
	}
}

func sortStrings(s []string) {
	for i := 1; i < len(s); i++ {
		for j := i; j > 0 && s[j] < s[j-1]; j-- {
			s[j], s[j-1] = s[j-1], s[j]
		}
	}
}

// ---- loops ----

func (fv *funcVerifier) loopEnv(st *State) *specEnv {
	env := fv.ownEnv(st)
	// locals visible by name (innermost wins is not tracked: names are expected unique per function)
	// same-named variables: the one declared last (innermost / most recent scope) wins
	best := map[string]*types.Var{}
	for v := range st.vars {
		if v.Name() == "" || v.Name() == "_" {
			continue
		}
		if b, ok := best[v.Name()]; !ok || v.Pos() > b.Pos() {
			best[v.Name()] = v
		}
	}
	for name, v := range best {
		t := st.vars[v]
		val := t
		if fv.boxed[v] {
			val = fv.loadAt(st, t, v.Type())
		}
		env.vars[name] = sval{val, v.Type()}
	}
	// parameters inside loops denote their current values; entry values via old()
	return env
}

func (fv *funcVerifier) isParam(v *types.Var) bool {
	for _, p := range fv.params {
		if p == v {
			return true
		}
	}
	return v == fv.recv
}

func (fv *funcVerifier) assertLoopInvs(st *State, spec *LoopSpec, pre *State, kind, key string, pos token.Pos) {
	if spec == nil {
		return
	}
	env := fv.loopEnv(st)
	for _, inv := range spec.Invariants {
		if ct, cok := env.evalClause(inv); cok {
			fv.assert(st, kind, key+":"+inv.String(), pos, ct)
		}
	}
}

func (fv *funcVerifier) assumeLoopInvs(st *State, spec *LoopSpec, pre *State) {
	if spec == nil {
		return
	}
	env := fv.loopEnv(st)
	for _, inv := range spec.Invariants {
		if ct, cok := env.evalClause(inv); cok {
			fv.assume(st, ct)
		}
	}
}

func (fv *funcVerifier) evalSpecIn(st, pre *State, e *SExpr) smt.Term {
	return fv.loopEnv(st).eval(e).t
}

// ---- calls ----

func (fv *funcVerifier) callWithSpec(st *State, call *ast.CallExpr, fn *types.Func, sp *FuncSpec, recv smt.Term, hasRecv bool, args []smt.Term) []smt.Term {
	sig := fn.Type().(*types.Signature)
	var names []string
	for i := 0; i < sig.Params().Len(); i++ {
		names = append(names, sig.Params().At(i).Name())
	}
	recvName := ""
	var recvType types.Type
	if hasRecv && sig.Recv() != nil {
		recvName, recvType = sig.Recv().Name(), sig.Recv().Type()
	}
	return fv.callWithSpecSig(st, call, sig, names, FuncKey(fn), fn.Name(), fn.Pkg(), sp, recv, recvName, recvType, args)
}

// callWithSpecSig applies a contract at a call site given the callee signature and parameter names.
func (fv *funcVerifier) callWithSpecSig(st *State, call *ast.CallExpr, sig *types.Signature, pnames []string, key, short string, pkg *types.Package, sp *FuncSpec, recv smt.Term, recvName string, recvType types.Type, args []smt.Term) []smt.Term {
	pre := st.clone()
	env := &specEnv{fv: fv, cur: pre, old: pre, vars: map[string]sval{}, pkg: pkg}
	if recvName != "" && recvName != "_" {
		env.vars[recvName] = sval{recv, recvType}
	}
	for i := 0; i < sig.Params().Len() && i < len(args) && i < len(pnames); i++ {
		if pnames[i] != "" && pnames[i] != "_" {
			env.vars[pnames[i]] = sval{args[i], sig.Params().At(i).Type()}
		}
	}
	for _, r := range sp.Requires {
		fv.assert(st, "requires", key+":"+r.String(), call.Pos(), env.evalBool(r))
	}
	// locked(e) in the callee's postconditions refers to the state right after the callee acquired
	// its receiver's mutex: the pre-call state with the owned fields forgotten and the lock invariants
	// assumed (monitor model). In "mode seq" (the receiver is reachable only under a lock the caller
	// holds) it is the pre-call state itself, and the callee's lock invariants are proof obligations.
	var lockedSt *State
	var mkLocked func() *State
	if recvType != nil && specMentionsLocked(sp) {
		if fv.opt.SeqCalls {
			mkLocked = func() *State { return pre.clone() }
		} else {
			atCall := st.clone()
			mkLocked = func() *State { return fv.simulateLock(atCall, recv, recvType, sp) }
		}
		if fv.opt.SeqCalls {
			if n, ok := derefNamed(recvType); ok && n.Obj().Pkg() != nil {
				if ts := fv.prog.Specs.Types[ShortPkg(n.Obj().Pkg().Path())+"."+n.Obj().Name()]; ts != nil {
					ienv := &specEnv{fv: fv, cur: pre, old: pre, vars: map[string]sval{}, pkg: n.Obj().Pkg()}
					for _, inv := range ts.Invs {
						fv.assert(st, "requires", key+":lockinv."+inv.Name, call.Pos(), ienv.evalInv(sval{recv, recvType}, inv.E))
					}
				}
			}
			lockedSt = pre.clone()
		} else {
			lockedSt = fv.simulateLock(st, recv, recvType, sp)
		}
	}
	fv.applyModifies(st, env, sp)
	post := *env
	post.cur = st
	post.lockedSt = lockedSt
	post.mkLocked = mkLocked
	post.lockedNSt = map[int64]*State{}
	post.vars = map[string]sval{}
	for k, v := range env.vars {
		post.vars[k] = v
	}
	names := resultNames(sig)
	var results []smt.Term
	for i := 0; i < sig.Results().Len(); i++ {
		rt := sig.Results().At(i).Type()
		rv := fv.fresh(st, "res_"+short, rt)
		results = append(results, rv)
		post.vars[names[i]] = sval{rv, rt}
	}
	for _, g := range sp.Ghosts {
		// callee-private ghost variables mentioned in its postconditions: unknown to the caller
		if _, seen := post.vars[g.Name]; !seen {
			so, ty := smt.Int, types.Type(nil)
			if g.Type != "" {
				so, ty = env.sortOfName(g.Type)
			} else {
				so = env.eval(g.E).t.Sort
			}
			post.vars[g.Name] = sval{fv.c.Fresh("cg_"+g.Name, so), ty}
		}
	}
	fv.applyGhostExit(st, &post, sp)
	for _, e := range sp.Ensures {
		if src := e.String(); strings.Contains(src, "unlockedN(") {
			// clauses about the callee's individual critical sections mean nothing to a caller:
			// not assumed (assuming less is sound)
			continue
		}
		// a clause that mentions a local variable of the callee cannot be evaluated here: it is
		// not assumed (assuming less is sound; the callee's own verification rejects unknown names)
		if v, ok := post.tryEval(e); ok && v.t.Sort == smt.Bool {
			fv.assume(st, v.t)
		} else {
			fv.note("contract clause of " + sp.Key + " not usable at a call site (mentions a callee-local name): " + e.String())
		}
	}
	// "sets" right-hand sides read the CALLER's ghost variables (callee-private ghosts of the same name are hidden)
	setEnv := post
	setEnv.vars = map[string]sval{}
	for k, v := range post.vars {
		setEnv.vars[k] = v
	}
	for _, g := range sp.Ghosts {
		delete(setEnv.vars, g.Name)
	}
	for _, g := range sp.Sets {
		if _, declared := st.ghost[g.Name]; !declared && !fv.declaresGhost(g.Name) {
			continue // the calling function does not track this ghost variable
		}
		v := setEnv.eval(g.E)
		st.ghost[g.Name] = fv.c.Let("ghost_"+g.Name, v.t)
		if _, ok := fv.ghostTypes[g.Name]; !ok {
			fv.ghostTypes[g.Name] = v.typ
		}
		fv.mut++
	}
	return results
}

func (fv *funcVerifier) callIfaceSpec(st *State, call *ast.CallExpr, im *types.Func, recv smt.Term, args []smt.Term) ([]smt.Term, bool) {
	sig := im.Type().(*types.Signature)
	rt := sig.Recv().Type()
	n, ok := rt.(*types.Named)
	if !ok || n.Obj().Pkg() == nil {
		return nil, false
	}
	key := ShortPkg(n.Obj().Pkg().Path()) + "." + n.Obj().Name() + "." + im.Name()
	sp := fv.prog.Specs.Funcs[key]
	if sp == nil {
		return nil, false
	}
	// the receiver of an interface contract is "self"; parameters are named by the contract header
	// (falling back to the names in the interface declaration)
	var names []string
	for i := 0; i < sig.Params().Len(); i++ {
		nm := sig.Params().At(i).Name()
		if i < len(sp.Params) && sp.Params[i] != "" {
			nm = sp.Params[i]
		}
		names = append(names, nm)
	}
	return fv.callWithSpecSig(st, call, sig, names, key, im.Name(), n.Obj().Pkg(), sp, recv, "self", rt, args), true
}

// callFuncValueSpec handles x.f(args) where f is a function-typed field with a
// "functype T.f(params)" contract.
func (fv *funcVerifier) callFuncValueSpec(st *State, call *ast.CallExpr, args []smt.Term) ([]smt.Term, bool) {
	sel, ok := ast.Unparen(call.Fun).(*ast.SelectorExpr)
	if !ok {
		return fv.callNamedFuncTypeSpec(st, call, args)
	}
	s, ok := fv.info.Selections[sel]
	if !ok || s.Kind() != types.FieldVal {
		return fv.callNamedFuncTypeSpec(st, call, args)
	}
	n, ok := derefNamed(fv.typeOf(sel.X))
	if !ok || n.Obj().Pkg() == nil {
		return fv.callNamedFuncTypeSpec(st, call, args)
	}
	key := ShortPkg(n.Obj().Pkg().Path()) + "." + n.Obj().Name() + "." + sel.Sel.Name
	sp := fv.prog.Specs.Funcs[key]
	if sp == nil {
		return fv.callNamedFuncTypeSpec(st, call, args)
	}
	sig, ok := fv.typeOf(call.Fun).Underlying().(*types.Signature)
	if !ok {
		return nil, false
	}
	owner := fv.evalExpr(st, sel.X)
	return fv.callWithSpecSig(st, call, sig, sp.Params, key, sel.Sel.Name, n.Obj().Pkg(), sp, owner, "self", fv.typeOf(sel.X), args), true
}

// applyGhostExit performs the ghost field assignments of a contract in state st
// (callee post-state at a call site, or the merged exit state of the function itself).
func (fv *funcVerifier) applyGhostExit(st *State, env *specEnv, sp *FuncSpec) {
	if len(sp.GhostExit) == 0 {
		return
	}
	type upd struct {
		key string
		ref smt.Term
		val smt.Term
	}
	var ups []upd
	for _, g := range sp.GhostExit {
		if g.Target.Op != "field" {
			env.fail(g.Target, "ghost_exit target must be x.f")
		}
		base := env.eval(g.Target.Args[0])
		key, so, ok := fv.ghostFieldKey(base.typ, g.Target.Name)
		if !ok {
			env.fail(g.Target, "no ghost field %s", g.Target.Name)
		}
		v := env.eval(g.E)
		if v.t.Sort != so {
			env.fail(g.E, "ghost field %s has sort %s, value has %s", g.Target.Name, so, v.t.Sort)
		}
		ups = append(ups, upd{key, base.t, fv.c.Let("gx_"+g.Target.Name, v.t)})
	}
	fv.mut++
	for _, u := range ups { // simultaneous assignment: all values were evaluated first
		fv.heapSet(st, u.key, smt.Store(fv.heapGet(st, u.key), u.ref, u.val))
	}
}

// ghostFieldKey returns the heap key and sort of ghost field name of the (pointer to) named type t.
func (fv *funcVerifier) ghostFieldKey(t types.Type, name string) (string, string, bool) {
	if t == nil {
		return "", "", false
	}
	n, ok := derefNamed(t)
	if !ok || n.Obj().Pkg() == nil {
		return "", "", false
	}
	ts := fv.prog.Specs.Types[ShortPkg(n.Obj().Pkg().Path())+"."+n.Obj().Name()]
	if ts == nil {
		return "", "", false
	}
	tyName, ok := ts.GhostFields[name]
	if !ok {
		return "", "", false
	}
	env := &specEnv{fv: fv, pkg: n.Obj().Pkg()}
	so, _ := env.sortOfName(tyName)
	key := "ghost:" + ShortPkg(n.Obj().Pkg().Path()) + "." + n.Obj().Name() + "." + name
	fv.regHeap(key, smt.Arr(smt.Int, so))
	return key, so, true
}

// lockSpecOp applies the declared lock invariant; false when none is declared.
func (fv *funcVerifier) lockSpecOp(st *State, mu ast.Expr, acquire bool, call *ast.CallExpr) bool {
	sel, ok := ast.Unparen(mu).(*ast.SelectorExpr)
	if !ok {
		return false
	}
	ot := fv.typeOf(sel.X)
	n, ok := derefNamed(ot)
	if !ok || n.Obj().Pkg() == nil {
		return false
	}
	ts := fv.prog.Specs.Types[ShortPkg(n.Obj().Pkg().Path())+"."+n.Obj().Name()]
	if ts == nil {
		return false
	}
	owned, ok := ts.Owns[sel.Sel.Name]
	if !ok {
		return false
	}
	if _, isPtr := ot.Underlying().(*types.Pointer); !isPtr {
		return false
	}
	owner := fv.evalExpr(st, sel.X)
	self := sval{owner, ot}
	si := fv.so.structOf(n)
	if acquire {
		fv.mut++
		for _, fname := range owned {
			if gk, gso, ok := fv.ghostFieldKey(ot, fname); ok {
				h := fv.heapGet(st, gk)
				fv.heapSet(st, gk, smt.Store(h, owner, fv.c.Fresh("lkg_"+fname, gso)))
				fv.lockHavocs = append(fv.lockHavocs, lockHavoc{ghostKey: gk, owner: owner})
				continue
			}
			_, f := si.field(fname)
			if f == nil {
				fv.unsupported("owns: no field %s in %s", fname, n)
			}
			lv := fv.fieldLval(st, owner, n, f)
			old := lv.load()
			fv.havocReferent(st, old, f.typ)
			nv := fv.fresh(st, "lk_"+fname, f.typ)
			fv.lockHavocs = append(fv.lockHavocs, lockHavoc{fieldKey: fv.so.fieldKey(n, f.name), owner: owner, old: old, fresh: nv, typ: f.typ})
			lv.store(nv)
			// the object the field refers to NOW was under the control of other threads as well:
			// its contents are unknown but type-valid (stored references denote existing objects)
			fv.havocReferent(st, nv, f.typ)
		}
		env := &specEnv{fv: fv, cur: st, old: fv.entry, vars: map[string]sval{}, pkg: n.Obj().Pkg()}
		for _, inv := range ts.Invs {
			if invGuardedBy(fv.prog.Specs, ts, inv.E, sel.Sel.Name) {
				fv.assume(st, env.evalInv(self, inv.E))
			}
		}
		fv.lockSnap = st.clone()
		fv.lockSnaps = append(fv.lockSnaps, fv.lockSnap)
		if fv.lockSnapBy == nil {
			fv.lockSnapBy = map[string]*State{}
		}
		fv.lockSnapBy[n.Obj().Name()+"."+sel.Sel.Name+"@"+owner.S] = fv.lockSnap
		if fv.lockReadBy == nil {
			fv.lockReadBy = map[string]bool{}
		}
		isRead := false
		if cs, ok := ast.Unparen(call.Fun).(*ast.SelectorExpr); ok && cs.Sel.Name == "RLock" {
			isRead = true
		}
		fv.lockReadBy[n.Obj().Name()+"."+sel.Sel.Name+"@"+owner.S] = isRead
		return true
	}
	// a read lock protects readers only: a section entered with RLock must leave every field the mutex
	// owns, and the contents of the maps / slices they refer to, as it found them (two such sections
	// can run at the same time, so a write is a data race on state the monitor model treats as exclusive)
	if snap := fv.lockSnapBy[n.Obj().Name()+"."+sel.Sel.Name+"@"+owner.S]; snap != nil && fv.lockReadBy[n.Obj().Name()+"."+sel.Sel.Name+"@"+owner.S] {
		for _, fname := range owned {
			if _, _, ok := fv.ghostFieldKey(ot, fname); ok {
				continue
			}
			_, f := si.field(fname)
			if f == nil {
				continue
			}
			cur := fv.fieldLval(st, owner, n, f).load()
			was := fv.fieldLval(snap, owner, n, f).load()
			var same []smt.Term
			if cur.S != was.S {
				same = append(same, smt.Eq(cur, was))
			}
			var keys []string
			var ref smt.Term
			switch u := f.typ.Underlying().(type) {
			case *types.Map:
				dom, val, ln := fv.mapKeys(u)
				keys, ref = []string{dom, val, ln}, was
			case *types.Slice:
				keys, ref = []string{fv.memKey(u.Elem())}, slArr(was)
			}
			for _, k := range keys {
				hn, hw := fv.heapGet(st, k), fv.heapGet(snap, k)
				if hn.S != hw.S {
					same = append(same, smt.Eq(smt.Select(hn, ref), smt.Select(hw, ref)))
				}
			}
			if len(same) > 0 {
				fv.assert(st, "frame", "readlock:"+n.Obj().Name()+"."+fname+" written in a section that holds only the read lock", call.Pos(), smt.And(same...))
			}
		}
	}
	// per-section frame: an owned field the modifies clause does not name has, at the release, the
	// value it had at the acquisition (the exit frame cannot see owned fields: other threads may
	// change them between sections)
	if snap := fv.lockSnapBy[n.Obj().Name()+"."+sel.Sel.Name+"@"+owner.S]; snap != nil && fv.spec != nil && fv.spec.Modifies != nil && !fv.spec.ModAll && !fv.wildHavoc {
		named := map[string]bool{}
		var walk func(x *SExpr)
		walk = func(x *SExpr) {
			if x == nil {
				return
			}
			if x.Op == "field" {
				named[x.Name] = true
			}
			for _, a := range x.Args {
				walk(a)
			}
		}
		for _, e := range fv.spec.Modifies {
			walk(e)
		}
		for _, fname := range owned {
			if named[fname] {
				continue
			}
			if _, _, ok := fv.ghostFieldKey(ot, fname); ok {
				continue
			}
			_, f := si.field(fname)
			if f == nil {
				continue
			}
			cur := fv.fieldLval(st, owner, n, f).load()
			was := fv.fieldLval(snap, owner, n, f).load()
			if cur.S == was.S {
				continue
			}
			fv.assert(st, "frame", "section:"+n.Obj().Name()+"."+fname+"@unlock", call.Pos(), smt.Eq(cur, was))
		}
	}
	env := &specEnv{fv: fv, cur: st, old: fv.entry, vars: map[string]sval{}, pkg: n.Obj().Pkg()}
	for _, inv := range ts.Invs {
		if invGuardedBy(fv.prog.Specs, ts, inv.E, sel.Sel.Name) {
			fv.assert(st, "lockinv", n.Obj().Name()+"."+inv.Name+"@unlock", call.Pos(), env.evalInv(self, inv.E))
		}
	}
	fv.unlockSnaps = append(fv.unlockSnaps, st.clone())
	return true
}

// invGuardedBy reports whether a type invariant belongs to mutex mu: it mentions a field
// owned by mu, or it mentions no owned field at all (immutable configuration; assumed and
// asserted with every mutex). With a single mutex every invariant belongs to it. Calls of
// pure spec functions are expanded; anything else that hides field accesses counts for every mutex.
func invGuardedBy(ss *SpecSet, ts *TypeSpec, e *SExpr, mu string) bool {
	if len(ts.Owns) <= 1 {
		return true
	}
	ownerOf := map[string]string{}
	for m, fs := range ts.Owns {
		for _, f := range fs {
			ownerOf[f] = m
		}
	}
	mine, other, opaque := false, false, false
	seen := map[string]bool{}
	var walk func(x *SExpr)
	walk = func(x *SExpr) {
		if x == nil {
			return
		}
		if x.Op == "field" {
			if o, ok := ownerOf[x.Name]; ok {
				if o == mu {
					mine = true
				} else {
					other = true
				}
			} else {
				for _, inv := range ts.Invs {
					if inv.Name == x.Name && !seen["inv:"+x.Name] {
						seen["inv:"+x.Name] = true
						walk(inv.E)
					}
				}
			}
		}
		if x.Op == "call" && len(x.Args) > 0 && x.Args[0].Op == "ident" {
			if pf := ss.Pures[x.Args[0].Name]; pf != nil {
				if !seen[x.Args[0].Name] {
					seen[x.Args[0].Name] = true
					walk(pf.Body)
				}
			}
		}
		for _, a := range x.Args {
			walk(a)
		}
	}
	walk(e)
	_ = opaque
	return mine || !other
}

func specMentionsLocked(sp *FuncSpec) bool {
	for _, e := range sp.Ensures {
		if strings.Contains(e.String(), "locked(") || strings.Contains(e.String(), "lockedN(") {
			return true
		}
	}
	return false
}

// simulateLock returns a copy of st in which every field of owner that is
// owned by a mutex of its type has an unknown value satisfying the type's lock
// invariants (what a callee sees right after taking the lock). The facts are
// assumed under st's liveness.
// specFieldNames collects the field names a contract mentions (ensures, requires, modifies).
func specFieldNames(sp *FuncSpec) map[string]bool {
	out := map[string]bool{}
	var walk func(x *SExpr)
	walk = func(x *SExpr) {
		if x == nil {
			return
		}
		if x.Op == "field" {
			out[x.Name] = true
		}
		for _, a := range x.Args {
			walk(a)
		}
	}
	for _, e := range sp.Ensures {
		walk(e)
	}
	for _, e := range sp.Requires {
		walk(e)
	}
	for _, e := range sp.Modifies {
		walk(e)
	}
	return out
}

func (fv *funcVerifier) simulateLock(st *State, owner smt.Term, ot types.Type, sp *FuncSpec) *State {
	n, ok := derefNamed(ot)
	if !ok || n.Obj().Pkg() == nil {
		return nil
	}
	ts := fv.prog.Specs.Types[ShortPkg(n.Obj().Pkg().Path())+"."+n.Obj().Name()]
	if ts == nil || len(ts.Owns) == 0 {
		return nil
	}
	if _, isPtr := ot.Underlying().(*types.Pointer); !isPtr {
		return nil
	}
	snap := st.clone()
	si := fv.so.structOf(n)
	var mus []string
	for mu := range ts.Owns {
		mus = append(mus, mu)
	}
	sortStrings(mus)
	// a type with several mutexes: only the mutexes guarding a field the callee's contract mentions
	// can be the ones it acquires for its locked() state (all of them when that cannot be told)
	if len(mus) > 1 && sp != nil {
		mentioned := specFieldNames(sp)
		var rel []string
		for _, mu := range mus {
			for _, fname := range ts.Owns[mu] {
				if mentioned[fname] {
					rel = append(rel, mu)
					break
				}
			}
		}
		if len(rel) > 0 {
			mus = rel
		}
	}
	for _, mu := range mus {
		for _, fname := range ts.Owns[mu] {
			if gk, gso, ok := fv.ghostFieldKey(ot, fname); ok {
				h := fv.heapGet(snap, gk)
				fv.heapSet(snap, gk, smt.Store(h, owner, fv.c.Fresh("slg_"+fname, gso)))
				continue
			}
			_, f := si.field(fname)
			if f == nil {
				continue
			}
			lv := fv.fieldLval(snap, owner, n, f)
			old := lv.load()
			fv.havocReferent(snap, old, f.typ)
			lv.store(fv.fresh(snap, "sl_"+fname, f.typ))
		}
	}
	env := &specEnv{fv: fv, cur: snap, old: snap, vars: map[string]sval{}, pkg: n.Obj().Pkg()}
	self := sval{owner, ot}
	for _, inv := range ts.Invs {
		for _, mu := range mus {
			if invGuardedBy(fv.prog.Specs, ts, inv.E, mu) {
				fv.assume(snap, env.evalInv(self, inv.E))
				break
			}
		}
	}
	return snap
}

func (fv *funcVerifier) declaresGhost(name string) bool {
	if fv.spec == nil {
		return false
	}
	for _, g := range fv.spec.Ghosts {
		if g.Name == name {
			return true
		}
	}
	return false
}

// callNamedFuncTypeSpec applies a "functype T(params)" contract to a call through
// a value whose static type is the named function type T.
func (fv *funcVerifier) callNamedFuncTypeSpec(st *State, call *ast.CallExpr, args []smt.Term) ([]smt.Term, bool) {
	t := fv.typeOf(call.Fun)
	if a, ok := t.(*types.Alias); ok {
		t = types.Unalias(a)
	}
	n, ok := t.(*types.Named)
	if !ok || n.Obj().Pkg() == nil {
		return nil, false
	}
	sig, ok := n.Underlying().(*types.Signature)
	if !ok {
		return nil, false
	}
	key := ShortPkg(n.Obj().Pkg().Path()) + "." + n.Obj().Name()
	sp := fv.prog.Specs.Funcs[key]
	if sp == nil || !sp.Trusted {
		return nil, false
	}
	names := sp.Params
	if len(names) == 0 {
		for i := 0; i < sig.Params().Len(); i++ {
			names = append(names, sig.Params().At(i).Name())
		}
	}
	return fv.callWithSpecSig(st, call, sig, names, key, n.Obj().Name(), n.Obj().Pkg(), sp, smt.Term{}, "", nil, args), true
}
