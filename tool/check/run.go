// Package check drives per-property verification: it runs the VC generator on
// the functions a property puts under contract, discharges the obligations
// with the solver portfolio, and reports results.
package check

import (
	"fmt"
	"os"
	"sort"
	"sync"
	"time"

	"bngvc/govc"
	"bngvc/smt"
)

// OblResult is a solved obligation.
type OblResult struct {
	O     *govc.Oblig
	R     smt.Result
	Query string
}

// FuncOutcome is the result of verifying one function.
type FuncOutcome struct {
	Key        string
	Reject     string
	Notes      []string
	Results    []*OblResult
	Dropped    []string // Houdini candidates dropped
	seedFailed bool
	Kept       []string
	Iter       int
}

// Runner solves obligations in parallel.
type Runner struct {
	Solver       *smt.Solver
	Workers      int
	Skip         func(o *govc.Oblig) bool // obligations not attempted (recorded as undecided / not selected)
	candBudget   time.Duration
	CanaryRLimit int64 // resource limit of vacuity canaries (ten times larger when a baseline is recorded, so that
	// every return a later run can prove dead was already recorded as dead)
	Cheap func(o *govc.Oblig) bool // obligations solved with a tenth of the budget (recorded known findings in the quick tier)
}

func (r *Runner) solveAll(obs []*govc.Oblig) []*OblResult {
	out := make([]*OblResult, len(obs))
	queries := make([]string, len(obs))
	for i, o := range obs {
		queries[i] = o.Query() // sequential: the context memoises closures
	}
	var wg sync.WaitGroup
	sem := make(chan struct{}, r.Workers)
	for i, o := range obs {
		i, o := i, o
		wg.Add(1)
		sem <- struct{}{}
		go func() {
			defer wg.Done()
			defer func() { <-sem }()
			q := queries[i]
			if r.Skip != nil && !o.Canary && o.Cand < 0 && r.Skip(o) {
				out[i] = &OblResult{O: o, R: smt.Result{Status: "skipped"}, Query: q}
				return
			}
			if o.Canary {
				rl := r.CanaryRLimit
				if rl == 0 {
					rl = 3_000_000
				}
				out[i] = &OblResult{O: o, R: r.Solver.CheckQuickR(q, rl), Query: q}
				return
			}
			if o.ForceFail {
				out[i] = &OblResult{O: o, R: smt.Result{Status: "unknown", Solver: "static", Outputs: map[string]string{"static": "fails by construction: " + o.Desc}}, Query: q}
				return
			}
			if o.Cand >= 0 {
				b := 20 * time.Second // wall; the candidate rlimit decides
				if r.candBudget > 0 {
					b = 30 * time.Second
				}
				out[i] = &OblResult{O: o, R: r.Solver.CheckBudget(q, b), Query: q}
				return
			}
			if r.Cheap != nil && r.Cheap(o) {
				cs := &smt.Solver{Timeout: 20 * time.Second, RLimit: r.Solver.RLimit / 10, Stats: map[string]int{}}
				out[i] = &OblResult{O: o, R: cs.Check(q), Query: q}
				return
			}
			out[i] = &OblResult{O: o, R: r.Solver.Check(q), Query: q}
		}()
	}
	wg.Wait()
	return out
}

// VerifyFunctionSeeded starts Houdini from a recorded set of surviving
// candidates ("loopkey: desc"): everything else is disabled up front. If a
// seeded candidate no longer proves (the code changed), the full search is run.
func (r *Runner) VerifyFunctionSeeded(p *govc.Program, fi *govc.FuncInfo, opt govc.Options, kept []string) *FuncOutcome {
	if len(kept) == 0 {
		return r.VerifyFunction(p, fi, opt)
	}
	keep := map[string]bool{}
	for _, k := range kept {
		keep[k] = true
	}
	probe := opt
	probe.Disabled = map[string]map[string]bool{}
	res := p.VerifyFunc(fi, probe)
	if res.Reject != "" {
		return r.VerifyFunction(p, fi, opt)
	}
	if len(res.HeapKeys) > 0 {
		probe.HeapKeys = res.HeapKeys
		res = p.VerifyFunc(fi, probe)
		for extra := 0; extra < 3 && res.Reject == "" && len(res.HeapKeys) > len(probe.HeapKeys); extra++ {
			probe.HeapKeys = res.HeapKeys
			res = p.VerifyFunc(fi, probe)
		}
	}
	seeded := opt
	seeded.HeapKeys = probe.HeapKeys
	seeded.Disabled = map[string]map[string]bool{}
	for key, descs := range res.Candidates {
		for _, d := range descs {
			if !keep[key+": "+d] {
				if seeded.Disabled[key] == nil {
					seeded.Disabled[key] = map[string]bool{}
				}
				seeded.Disabled[key][d] = true
			}
		}
	}
	rr := *r // per-call copy: units are verified concurrently
	rr.candBudget = 8 * time.Second
	out := rr.verifyFrom(p, fi, seeded)
	if out.seedFailed {
		return r.VerifyFunction(p, fi, opt)
	}
	return out
}

// VerifyFunction runs Houdini over the auto-candidates, then solves the rest.
func (r *Runner) VerifyFunction(p *govc.Program, fi *govc.FuncInfo, opt govc.Options) *FuncOutcome {
	opt.Disabled = map[string]map[string]bool{}
	return r.verifyFrom(p, fi, opt)
}

func (r *Runner) verifyFrom(p *govc.Program, fi *govc.FuncInfo, opt govc.Options) *FuncOutcome {
	out := &FuncOutcome{Key: fi.Key}
	seededRun := r.candBudget > 0
	var res *govc.FuncResult
	for iter := 0; iter < 60; iter++ {
		out.Iter = iter + 1
		res = p.VerifyFunc(fi, opt)
		if res.Reject != "" {
			out.Reject = res.Reject
			return out
		}
		if iter == 0 && (opt.Sweep || opt.AutoInv) && len(res.HeapKeys) > 0 && opt.HeapKeys == nil {
			// second pass with all heap keys known up front (loop frame candidates)
			opt.HeapKeys = res.HeapKeys
			res = p.VerifyFunc(fi, opt)
			if res.Reject != "" {
				out.Reject = res.Reject
				return out
			}
			// candidate generation itself can register further keys (e.g. map fields of structs
			// reached through a pointer variable in scope): repeat until the key set is stable
			for extra := 0; extra < 3 && len(res.HeapKeys) > len(opt.HeapKeys); extra++ {
				opt.HeapKeys = res.HeapKeys
				res = p.VerifyFunc(fi, opt)
				if res.Reject != "" {
					out.Reject = res.Reject
					return out
				}
			}
		}
		var cands []*govc.Oblig
		for _, o := range res.Obligs {
			if o.Cand >= 0 {
				cands = append(cands, o)
			}
		}
		if len(cands) == 0 {
			break
		}
		rs := r.solveAll(cands)
		changed := false
		for _, cr := range rs {
			if cr.R.Status != "unsat" {
				if os.Getenv("BNGVC_DEBUG_CAND") != "" {
					fmt.Printf("    cand-fail iter %d %s %s: %s %v\n", iter, cr.O.Kind, cr.O.CandDesc, cr.R.Status, cr.R.Outputs)
					if d := os.Getenv("BNGVC_DEBUG_CAND"); d != "1" {
						os.MkdirAll(d, 0o755)
						os.WriteFile(d+"/"+smt.Sanitize(fmt.Sprintf("%d_%s_%s", iter, cr.O.Kind, cr.O.CandDesc))+".smt2", []byte(cr.Query), 0o644)
					}
				}
				key := cr.O.CandLoop
				if opt.Disabled[key] == nil {
					opt.Disabled[key] = map[string]bool{}
				}
				if !opt.Disabled[key][cr.O.CandDesc] {
					opt.Disabled[key][cr.O.CandDesc] = true
					changed = true
					if seededRun {
						out.seedFailed = true
					}
				}
			}
		}
		if !changed || out.seedFailed {
			break
		}
	}
	if out.seedFailed {
		return out
	}
	for key, descs := range res.Candidates {
		for _, d := range descs {
			if opt.Disabled[key][d] {
				out.Dropped = append(out.Dropped, key+": "+d)
			} else {
				out.Kept = append(out.Kept, key+": "+d)
			}
		}
	}
	sort.Strings(out.Dropped)
	sort.Strings(out.Kept)
	var rest []*govc.Oblig
	for _, o := range res.Obligs {
		if o.Cand < 0 {
			rest = append(rest, o)
		}
	}
	out.Results = r.solveAll(rest)
	out.Notes = res.Notes
	return out
}

func (f *FuncOutcome) Summary() string {
	if f.Reject != "" {
		return fmt.Sprintf("%-50s REJECTED: %s", f.Key, f.Reject)
	}
	n, ok := 0, 0
	for _, r := range f.Results {
		if r.O.Canary {
			continue
		}
		n++
		if r.R.Status == "unsat" {
			ok++
		}
	}
	return fmt.Sprintf("%-50s %d/%d discharged (houdini iters %d, kept %d cand)", f.Key, ok, n, f.Iter, len(f.Kept))
}
