package check

import (
	"bytes"
	"context"
	"encoding/json"
	"fmt"
	"os"
	"os/exec"
	"path/filepath"
	"strings"
	"time"

	"bngvc/govc"
	"bngvc/smt"
)

// ReplayResult is the verdict of running a counterexample on the real code.
type ReplayResult struct {
	Reproduced bool              `json:"reproduced"`
	Outcome    string            `json:"outcome"`
	Path       string            `json:"path"`
	Inputs     map[string]string `json:"inputs,omitempty"`
	Test       string            `json:"test_source,omitempty"`
	Output     string            `json:"output,omitempty"`
}

// simpleParam reports whether the generic replay can construct a value of the type.
func simpleParam(t string) bool {
	switch t {
	case "[]byte", "[]uint8", "string", "bool", "int", "int8", "int16", "int32", "int64", "uint", "uint8", "uint16", "uint32", "uint64", "byte",
		"net.IP", "net.HardwareAddr":
		return true
	}
	return false
}

func sliceParts(v string) (arr, off, ln, cp int64, ok bool) {
	v = strings.TrimSpace(v)
	if !strings.HasPrefix(v, "(mk_slice ") {
		return
	}
	body := strings.TrimSuffix(strings.TrimPrefix(v, "(mk_slice "), ")")
	// values may be "(- n)"
	var parts []string
	d := 0
	cur := ""
	for _, c := range body {
		switch {
		case c == '(':
			d++
			cur += string(c)
		case c == ')':
			d--
			cur += string(c)
		case c == ' ' && d == 0:
			if cur != "" {
				parts = append(parts, cur)
				cur = ""
			}
		default:
			cur += string(c)
		}
	}
	if cur != "" {
		parts = append(parts, cur)
	}
	if len(parts) != 4 {
		return
	}
	var vals [4]int64
	for i, p := range parts {
		n, good := smt.ParseIntValue(p)
		if !good {
			return
		}
		vals[i] = n
	}
	return vals[0], vals[1], vals[2], vals[3], true
}

// tryReplay concretises the solver model and runs the real function.
func (r *propRun) tryReplay(u Unit, fo *FuncOutcome, res *OblResult) *ReplayResult {
	o := res.O
	if rr := r.manualReplay(res); rr != nil {
		return rr
	}
	if !r.isRoot(u.Func) {
		return nil
	}
	if o.Kind != "nopanic" && o.Kind != "variant" {
		return nil
	}
	params := o.Params()
	for _, p := range params {
		if p.Recv || !simpleParam(p.GoType) {
			return nil
		}
	}
	solver := smt.NewSolver(8*time.Second, "")
	vals := res.R.Values
	// prefer a compact counterexample: bound slice lengths first
	{
		var syms []string
		var small []smt.Term
		for _, p := range params {
			syms = append(syms, p.Symbol)
			switch p.GoType {
			case "[]byte", "[]uint8", "net.IP", "net.HardwareAddr":
				small = append(small, smt.Term{S: fmt.Sprintf("(<= (s_len %s) 48)", p.Symbol), Sort: smt.Bool})
			}
		}
		if len(small) > 0 {
			if mr := solver.Check(o.QueryWith(small, syms, true)); mr.Status == "sat" {
				vals = mr.Values
			}
		}
	}
	if len(vals) == 0 {
		// search for a model without the quantified assumptions
		var syms []string
		for _, p := range params {
			syms = append(syms, p.Symbol)
		}
		mr := solver.Check(o.QueryWith(nil, syms, true))
		if mr.Status != "sat" {
			return nil
		}
		vals = mr.Values
	}
	// fix scalars and slice headers, then ask for contents
	var fix []smt.Term
	var want []string
	type sl struct {
		name         string
		arr, off, ln int64
		cp           int64
	}
	slices := map[string]sl{}
	mem := o.InitMem(smt.Int)
	for _, p := range params {
		v, ok := vals[p.Symbol]
		if !ok {
			continue
		}
		switch p.GoType {
		case "[]byte", "[]uint8", "net.IP", "net.HardwareAddr":
			arr, off, ln, cp, ok := sliceParts(v)
			if !ok {
				return nil
			}
			if ln > 1<<16 {
				return &ReplayResult{Outcome: "model needs a slice longer than 65536 bytes; not replayed"}
			}
			slices[p.Symbol] = sl{p.Name, arr, off, ln, cp}
			fix = append(fix, smt.Term{S: fmt.Sprintf("(= %s %s)", p.Symbol, v), Sort: smt.Bool})
			for i := int64(0); i < ln; i++ {
				want = append(want, fmt.Sprintf("(select (select %s %d) %d)", mem, arr, off+i))
			}
		case "string":
			return nil
		default:
			fix = append(fix, smt.Term{S: fmt.Sprintf("(= %s %s)", p.Symbol, v), Sort: smt.Bool})
		}
	}
	contents := map[string]string{}
	if len(want) > 0 {
		mr := solver.Check(o.QueryWith(fix, want, true))
		if mr.Status != "sat" {
			return nil
		}
		contents = mr.Values
	}
	// build the test
	name, _ := o.FuncName()
	var b strings.Builder
	pkgShort := govc.ShortPkg(o.PkgPath())
	fmt.Fprintf(&b, "package %s\n\nimport (\n\t\"fmt\"\n\t\"testing\"\n\t\"time\"\n)\n\n", pkgShort)
	fmt.Fprintf(&b, "func TestReplayVC(t *testing.T) {\n\tdone := make(chan string, 1)\n\tgo func() {\n\t\tdefer func() {\n\t\t\tif r := recover(); r != nil {\n\t\t\t\tdone <- fmt.Sprint(\"REPLAY-PANIC: \", r)\n\t\t\t}\n\t\t}()\n")
	inputs := map[string]string{}
	var argNames []string
	for i, p := range params {
		an := fmt.Sprintf("a%d", i)
		argNames = append(argNames, an)
		v := vals[p.Symbol]
		switch p.GoType {
		case "[]byte", "[]uint8", "net.IP", "net.HardwareAddr":
			s := slices[p.Symbol]
			var bs []string
			for j := int64(0); j < s.ln; j++ {
				k := fmt.Sprintf("(select (select %s %d) %d)", mem, s.arr, s.off+j)
				n, _ := smt.ParseIntValue(contents[k])
				bs = append(bs, fmt.Sprintf("%d", n&0xff))
			}
			if s.arr == 0 {
				fmt.Fprintf(&b, "\t\tvar %s []byte\n", an)
				inputs[p.Name] = "nil"
			} else {
				cp := s.cp
				if cp > s.ln+64 {
					cp = s.ln + 64 // capacity beyond the length only matters for re-slicing; keep it small
				}
				fmt.Fprintf(&b, "\t\t%s := make([]byte, %d, %d)\n\t\tcopy(%s, []byte{%s})\n", an, s.ln, cp, an, strings.Join(bs, ", "))
				inputs[p.Name] = fmt.Sprintf("len=%d cap=%d bytes=[%s]", s.ln, cp, strings.Join(bs, " "))
			}
		case "bool":
			fmt.Fprintf(&b, "\t\t%s := %s\n", an, v)
			inputs[p.Name] = v
		default:
			n, _ := smt.ParseIntValue(v)
			fmt.Fprintf(&b, "\t\t%s := %s(%d)\n", an, p.GoType, n)
			inputs[p.Name] = fmt.Sprint(n)
		}
	}
	for i, p := range params {
		if p.GoType == "net.IP" || p.GoType == "net.HardwareAddr" {
			argNames[i] = p.GoType + "(" + argNames[i] + ")"
		}
	}
	needNet := false
	for _, p := range params {
		if strings.HasPrefix(p.GoType, "net.") {
			needNet = true
		}
	}
	fmt.Fprintf(&b, "\t\t%s(%s)\n\t\tdone <- \"REPLAY-RETURNED\"\n\t}()\n", name, strings.Join(argNames, ", "))
	fmt.Fprintf(&b, "\tselect {\n\tcase m := <-done:\n\t\tfmt.Println(m)\n\tcase <-time.After(20 * time.Second):\n\t\tfmt.Println(\"REPLAY-TIMEOUT\")\n\t}\n}\n")
	src := b.String()
	if needNet {
		src = strings.Replace(src, "\t\"fmt\"\n", "\t\"fmt\"\n\t\"net\"\n", 1)
	}
	out, err := RunOverlayTest(r.repo, o.PkgPath(), src, "TestReplayVC")
	rr := &ReplayResult{Inputs: inputs, Test: src, Output: truncate(out, 4000)}
	switch {
	case strings.Contains(out, "REPLAY-PANIC"):
		rr.Outcome = "panic"
		rr.Reproduced = o.Kind == "nopanic"
		for _, ln := range strings.Split(out, "\n") {
			if strings.Contains(ln, "REPLAY-PANIC") {
				rr.Outcome = strings.TrimSpace(ln)
			}
		}
	case strings.Contains(out, "REPLAY-TIMEOUT"):
		rr.Outcome = "timeout (no return within 20s)"
		rr.Reproduced = o.Kind == "variant"
	case strings.Contains(out, "REPLAY-RETURNED"):
		rr.Outcome = "returned normally"
	default:
		rr.Outcome = "replay did not run: " + fmt.Sprint(err)
	}
	rr.Path = r.writeReplayFile(res, rr, "counterexample replayed on the real code")
	return rr
}

// RunOverlayTest injects an in-package test through -overlay and runs it.
func RunOverlayTest(repo, pkgPath, src, testName string) (string, error) {
	scratch, err := os.MkdirTemp("", "bngvc-replay")
	if err != nil {
		return "", err
	}
	defer os.RemoveAll(scratch)
	for _, f := range []string{"go.mod", "go.sum"} {
		b, err := os.ReadFile(filepath.Join(repo, f))
		if err != nil {
			return "", err
		}
		os.WriteFile(filepath.Join(scratch, f), b, 0o644)
	}
	testFile := filepath.Join(scratch, "zz_replay_test.go")
	if err := os.WriteFile(testFile, []byte(src), 0o644); err != nil {
		return "", err
	}
	// package dir from import path
	rel := pkgPath
	if i := strings.Index(pkgPath, "/pkg/"); i >= 0 {
		rel = pkgPath[i+1:]
	} else if i := strings.Index(pkgPath, "/cmd/"); i >= 0 {
		rel = pkgPath[i+1:]
	}
	ov := map[string]map[string]string{"Replace": {filepath.Join(repo, rel, "zz_replay_test.go"): testFile}}
	ob, _ := json.Marshal(ov)
	ovFile := filepath.Join(scratch, "ov.json")
	os.WriteFile(ovFile, ob, 0o644)
	ctx, cancel := context.WithTimeout(context.Background(), 240*time.Second)
	defer cancel()
	cmd := exec.CommandContext(ctx, "go", "test", "-modfile="+filepath.Join(scratch, "go.mod"), "-overlay", ovFile, "-vet=off", "-timeout", "60s", "-count=1", "-run", "^"+testName+"$", "-v", "./"+rel)
	cmd.Dir = repo
	env := []string{}
	for _, e := range os.Environ() {
		if strings.HasPrefix(e, "GOFLAGS=") || strings.HasPrefix(e, "GOSUMDB=") || strings.HasPrefix(e, "GOTOOLCHAIN=") {
			continue
		}
		env = append(env, e)
	}
	cmd.Env = append(env, "GOFLAGS=-mod=mod", "GOPROXY=off")
	var out bytes.Buffer
	cmd.Stdout = &out
	cmd.Stderr = &out
	err = cmd.Run()
	return out.String(), err
}

// ReplayCmd re-runs the test stored in a replay file.
func ReplayCmd(args []string) int {
	if len(args) < 1 {
		fmt.Fprintln(os.Stderr, "usage: bngvc replay <file>")
		return 2
	}
	b, err := os.ReadFile(args[0])
	if err != nil {
		fmt.Fprintln(os.Stderr, err)
		return 2
	}
	var m struct {
		Func   string `json:"func"`
		Replay *struct {
			Test string `json:"test_source"`
		} `json:"replay"`
		Obligation string `json:"obligation"`
		PkgPath    string `json:"pkg_path"`
	}
	if err := json.Unmarshal(b, &m); err != nil {
		fmt.Fprintln(os.Stderr, err)
		return 2
	}
	if m.Replay == nil || m.Replay.Test == "" {
		fmt.Println("replay file carries no executable input (no-failing-input-found); obligation:", m.Obligation)
		return 0
	}
	pkg := m.PkgPath
	if pkg == "" {
		// derive from func key "pkg.Name"
		short := m.Func
		if i := strings.Index(short, "."); i >= 0 {
			short = short[:i]
		}
		pkg = "github.com/codelaboratoryltd/bng/pkg/" + short
	}
	out, _ := RunOverlayTest("/repo", pkg, m.Replay.Test, "TestReplayVC")
	fmt.Println(out)
	return 0
}

func (r *propRun) isRoot(f string) bool {
	if len(r.def.Roots) == 0 {
		return true
	}
	for _, x := range r.def.Roots {
		if x == f {
			return true
		}
	}
	return false
}

// manualReplay runs a hand-written in-package test stored under
// /verif/spec/replays/<sanitised obligation id>.go, if there is one. The test
// must print REPLAY-PANIC / REPLAY-VIOLATED when the real code misbehaves and
// REPLAY-OK otherwise.
func (r *propRun) manualReplay(res *OblResult) *ReplayResult {
	o := res.O
	p := filepath.Join(verifDir, "spec", "replays", smt.Sanitize(o.ID)+".go")
	b, err := os.ReadFile(p)
	if err != nil {
		return nil
	}
	src := string(b)
	out, rerr := RunOverlayTest(r.repo, o.PkgPath(), src, "TestReplayVC")
	rr := &ReplayResult{Test: src, Output: truncate(out, 4000), Inputs: map[string]string{"manual_replay": p}}
	switch {
	case strings.Contains(out, "REPLAY-PANIC"), strings.Contains(out, "REPLAY-VIOLATED"):
		rr.Reproduced = true
		for _, ln := range strings.Split(out, "\n") {
			if strings.Contains(ln, "REPLAY-PANIC") || strings.Contains(ln, "REPLAY-VIOLATED") {
				rr.Outcome = strings.TrimSpace(ln)
			}
		}
	case strings.Contains(out, "REPLAY-OK"):
		rr.Outcome = "hand-written replay ran: real code behaves correctly on this input"
	default:
		rr.Outcome = "replay did not run: " + fmt.Sprint(rerr)
	}
	rr.Path = r.writeReplayFile(res, rr, "hand-written history replayed on the real code")
	return rr
}
