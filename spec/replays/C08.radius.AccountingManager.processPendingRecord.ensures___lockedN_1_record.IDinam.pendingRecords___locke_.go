package radius

// Replay for the undischarged obligation
//   radius.AccountingManager.processPendingRecord.ensures[old(record.ID !in am.pendingRecords) ==>
//       rad_sent_count() == old(rad_sent_count()) && acctStops == 0 && acctStarts == 0]
// queuePendingRecord files a record in the map pendingRecords AND puts the same record on the channel
// pendingQueue. pendingRecordProcessor serves both: the ticker case (retryPendingRecords, which walks
// the map) and the channel case (processPendingRecord on what the channel delivers). Neither path
// tells the other: when the ticker path gets a record acknowledged (and deletes it from the map) the
// copy still sitting in the channel is processed afterwards without looking at the map, and the
// Accounting-Stop the server has already acknowledged is sent a second time. The channel backlog that
// makes the ticker overtake the channel builds up exactly during an outage (every attempt blocks for
// the client timeout), i.e. in the situation the queue exists for.
// The two select cases of pendingRecordProcessor are driven by hand here, ticker first.

import (
	"fmt"
	"net"
	"os"
	"sync/atomic"
	"testing"
	"time"

	"go.uber.org/zap"
	lradius "layeh.com/radius"
	"layeh.com/radius/rfc2866"
)

func TestReplayVC(t *testing.T) {
	secret := "s3cret"
	srvConn, err := net.ListenUDP("udp", &net.UDPAddr{IP: net.IPv4(127, 0, 0, 1), Port: 0})
	if err != nil {
		fmt.Println("REPLAY-SKIP: cannot open UDP socket:", err)
		return
	}
	defer srvConn.Close()
	port := srvConn.LocalAddr().(*net.UDPAddr).Port
	var stops int32
	go func() {
		buf := make([]byte, 4096)
		for {
			n, from, err := srvConn.ReadFromUDP(buf)
			if err != nil {
				return
			}
			p, err := lradius.Parse(buf[:n], []byte(secret))
			if err != nil {
				continue
			}
			if rfc2866.AcctStatusType_Get(p) == rfc2866.AcctStatusType_Value_Stop {
				atomic.AddInt32(&stops, 1)
			}
			b, _ := p.Response(lradius.CodeAccountingResponse).Encode()
			srvConn.WriteToUDP(b, from)
		}
	}()

	c, err := NewClient(ClientConfig{Servers: []ServerConfig{{Host: "127.0.0.1", Port: port - 1, Secret: secret}}, NASID: "bng1", Timeout: 2 * time.Second}, zap.NewNop())
	if err != nil {
		t.Fatal(err)
	}
	dir, _ := os.MkdirTemp("", "replay-c08")
	defer os.RemoveAll(dir)
	cfg := DefaultAccountingConfig()
	cfg.PersistPath = dir
	cfg.RetryBaseDelay = time.Millisecond
	am, err := NewAccountingManager(c, cfg, zap.NewNop())
	if err != nil {
		t.Fatal(err)
	}
	// a Stop that could not be delivered during an outage: queued (map + channel)
	am.queuePendingRecord(&AcctRequest{SessionID: "sess-1", Username: "alice", StatusType: AcctStatusStop, TerminateCause: TerminateCauseUserRequest})
	time.Sleep(5 * time.Millisecond) // NextRetry passes while the record waits in the channel

	// select case <-retryTicker.C
	am.retryPendingRecords()
	am.pendingMu.RLock()
	left := len(am.pendingRecords)
	am.pendingMu.RUnlock()
	afterSweep := atomic.LoadInt32(&stops)

	// select case record := <-am.pendingQueue
	select {
	case record := <-am.pendingQueue:
		am.processPendingRecord(record)
	default:
		fmt.Println("REPLAY-SKIP: nothing in the channel")
		return
	}
	time.Sleep(50 * time.Millisecond)
	fmt.Printf("after the ticker sweep: %d Stop acknowledged, %d records still queued; after the channel delivery: %d Stop acknowledged\n", afterSweep, left, atomic.LoadInt32(&stops))
	if afterSweep == 1 && left == 0 && atomic.LoadInt32(&stops) == 2 {
		fmt.Println("REPLAY-VIOLATED: the Accounting-Stop of sess-1 was acknowledged by the server and removed from the pending queue, then sent (and accepted) a second time from the channel copy, without any crash")
		return
	}
	fmt.Println("REPLAY-OK")
}
