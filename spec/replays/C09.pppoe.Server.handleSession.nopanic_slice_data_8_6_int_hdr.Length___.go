package pppoe

import (
	"fmt"
	"net"
	"testing"

	"go.uber.org/zap"
)

var _ = net.IPv4len
var _ = zap.NewNop

func replayGuard(f func()) {
	defer func() {
		if r := recover(); r != nil {
			fmt.Println("REPLAY-PANIC:", r)
		}
	}()
	f()
	fmt.Println("REPLAY-OK")
}

// Session frame for an existing session whose PPPoE length field is 0 (< 2): data[8:6].
func TestReplayVC(t *testing.T) {
	s := &Server{logger: zap.NewNop(), sessions: NewSessionManager()}
	mac := net.HardwareAddr{2, 0, 0, 0, 0, 1}
	sess, err := s.sessions.CreateSession(mac, net.HardwareAddr{2, 0, 0, 0, 0, 2})
	if err != nil {
		fmt.Println("REPLAY-SETUP-FAILED", err)
		return
	}
	replayGuard(func() {
		s.handleSession(mac, []byte{0x11, 0x00, byte(sess.ID >> 8), byte(sess.ID), 0x00, 0x00, 0xc0, 0x21})
	})
}
