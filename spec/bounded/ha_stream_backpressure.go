package ha

// Bounded stand-in for the delivery layer between PushChange and the standby (Go channels and the
// SSE writer are not modelled by the verifier). A connected standby whose writer is stalled (nobody
// drains its channel, capacity as in handleSessionStream) while the active pushes 1..400 changes:
// every change PushChange accepted must either be queued for that standby, in push order, or the
// standby's stream must have been ended (channel closed and unregistered) so that it resynchronises
// -- never a silent hole in the sequence ("every change pushed while the stream is connected is
// applied on the standby in push order").

import (
	"fmt"
	"testing"

	"go.uber.org/zap"
)

func TestBoundedVC(t *testing.T) {
	bad := 0
	for _, n := range []int{1, 50, 99, 100, 101, 150, 400} {
		cfg := DefaultSyncConfig()
		cfg.NodeID = "active"
		cfg.Role = RoleActive
		s := NewHASyncer(cfg, NewInMemorySessionStore(), zap.NewNop())
		client := make(chan *SyncMessage, 100)
		s.sseClientsMu.Lock()
		s.sseClients["standby"] = client
		s.sseClientsMu.Unlock()
		var accepted []uint64
		for i := 0; i < n; i++ {
			if err := s.PushChange(SyncTypeAdd, &SessionState{SessionID: fmt.Sprintf("s%d", i)}); err == nil {
				accepted = append(accepted, uint64(i+1))
			}
			// what broadcastLoop does for every pending change
			for len(s.pendingChanges) > 0 {
				s.broadcastToClients(<-s.pendingChanges)
			}
		}
		s.sseClientsMu.RLock()
		_, connected := s.sseClients["standby"]
		s.sseClientsMu.RUnlock()
		var got []uint64
		closed := false
	drain:
		for {
			select {
			case m, ok := <-client:
				if !ok {
					closed = true
					break drain
				}
				got = append(got, m.SequenceNum)
			default:
				break drain
			}
		}
		if connected {
			// still connected: nothing may be missing or out of order
			okSeq := len(got) == len(accepted)
			for i := 0; okSeq && i < len(got); i++ {
				okSeq = got[i] == accepted[i]
			}
			if !okSeq {
				fmt.Printf("BOUNDED-VIOLATED %d changes pushed to a stalled standby: %d accepted, %d queued for it, stream still connected (changes dropped silently)\n", n, len(accepted), len(got))
				bad++
			}
		} else if !closed {
			fmt.Printf("BOUNDED-VIOLATED %d changes: standby unregistered but its stream was not ended\n", n)
			bad++
		} else {
			for i := 0; i < len(got); i++ {
				if got[i] != accepted[i] {
					fmt.Printf("BOUNDED-VIOLATED %d changes: queued prefix out of order at %d\n", n, i)
					bad++
					break
				}
			}
		}
	}
	if bad != 0 {
		fmt.Printf("BOUNDED-VIOLATED %d deviations in total\n", bad)
		return
	}
	fmt.Println("BOUNDED-OK 7 burst sizes (1..400) against a stalled standby")
}
