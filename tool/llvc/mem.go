package llvc

import (
	"fmt"
	"sort"
	"strings"

	"bngvc/smt"
)

// Region kinds.
const (
	rkNull    = "null"
	rkInvalid = "invalid"
	rkPacket  = "packet"
	rkCtx     = "ctx"
	rkStack   = "stack"
	rkMapVal  = "mapvalue"
	rkGlobal  = "global"
	rkMapDef  = "mapdef"
	rkRingbuf = "ringbuf"
)

const (
	ridNull    = 0
	ridInvalid = 1
	ridPacket  = 2
	ridCtx     = 3
)

var arrSort = smt.Arr(smt.BV(64), smt.BV(8))

// Region is one memory object.  Pointers never move between regions.
type Region struct {
	ID       int
	Kind     string
	Name     string
	Size     int64 // bytes; for the packet the size is the state's current length
	ReadOnly bool
	Map      string // rkMapVal / rkMapDef: map name
	init     *RegMem
	base     smt.Term // symbolic numeric base address (BV64)
}

// Byte is byte Idx (little endian) of value V.
type Byte struct {
	V   *Val
	Idx int
}

// RegMem is the content of one region: a base array overlaid with bytes
// written at concrete offsets.  Immutable once shared (copy on write).
type RegMem struct {
	Base smt.Term
	Ov   map[int64]Byte
}

func (e *executor) newRegion(kind, name string, size int64) *Region {
	r := &Region{ID: len(e.regions), Kind: kind, Name: name, Size: size}
	e.regions = append(e.regions, r)
	switch kind {
	case rkNull:
		r.base = lit(0, 64)
	case rkInvalid:
		r.base = lit(0, 64)
	default:
		r.base = e.tm.declConst(fmt.Sprintf("base_r%d_%s", r.ID, smt.Sanitize(name)), smt.BV(64))
		lo, hi := uint64(1)<<16, uint64(1)<<47
		if kind == rkPacket {
			hi = uint64(1) << 31
		}
		e.tm.axiom("base:"+r.base.S, smt.And(smt.App(smt.Bool, "bvuge", r.base, lit(lo, 64)), smt.App(smt.Bool, "bvult", r.base, lit(hi, 64))), r.base.S)
	}
	arr := e.tm.declConst(fmt.Sprintf("mem0_r%d_%s", r.ID, smt.Sanitize(name)), arrSort)
	r.init = &RegMem{Base: arr, Ov: map[int64]Byte{}}
	return r
}

func regLit(id int) smt.Term { return lit(uint64(id), 16) }

func (st *State) regMem(e *executor, id int) *RegMem {
	if m, ok := st.mem[id]; ok {
		return m
	}
	return e.regions[id].init
}

// bitsOf returns the integer bit pattern of a value (numeric address for
// pointers).
func (e *executor) bitsOf(v *Val) smt.Term {
	if !v.IsPtr {
		return v.T
	}
	if v.T.S != "" {
		return v.T
	}
	v.T = e.tm.let("addr", e.tm.add(e.baseOf(v.P), v.P.Off))
	return v.T
}

func (e *executor) baseOf(p *Ptr) smt.Term {
	if len(p.Cands) == 1 {
		return e.regions[p.Cands[0]].base
	}
	t := e.regions[p.Cands[len(p.Cands)-1]].base
	for i := len(p.Cands) - 2; i >= 0; i-- {
		t = smt.Ite(smt.Eq(p.Reg, regLit(p.Cands[i])), e.regions[p.Cands[i]].base, t)
	}
	return t
}

func (e *executor) byteTerm(b Byte) smt.Term {
	t := e.bitsOf(b.V)
	if b.V.W == 8 {
		return t
	}
	return e.tm.extract(t, 8*b.Idx+7, 8*b.Idx)
}

// flush turns the overlay into array stores.
func (e *executor) flush(m *RegMem) *RegMem {
	if len(m.Ov) == 0 {
		return m
	}
	keys := make([]int64, 0, len(m.Ov))
	for k := range m.Ov {
		keys = append(keys, k)
	}
	sort.Slice(keys, func(i, j int) bool { return keys[i] < keys[j] })
	arr := m.Base
	for i, k := range keys {
		arr = smt.Store(arr, lit(uint64(k), 64), e.byteTerm(m.Ov[k]))
		if i%16 == 15 {
			arr = e.tm.named("mem", arr)
		}
	}
	return &RegMem{Base: e.tm.named("mem", arr), Ov: map[int64]Byte{}}
}

// loadRegion reads n bytes at off from region id.
func (e *executor) loadRegion(st *State, id int, off smt.Term, n int) *Val {
	m := st.regMem(e, id)
	bs := make([]Byte, n)
	if c, ok := bvConst(off); ok {
		o := int64(c)
		for i := 0; i < n; i++ {
			if b, ok := m.Ov[o+int64(i)]; ok {
				bs[i] = b
			} else {
				bs[i] = Byte{V: intVal(smt.Select(m.Base, lit(uint64(o+int64(i)), 64)), 8)}
			}
		}
	} else if cs, ok := e.offCases[off.S]; ok {
		// the offset is one of a few constants: ite over reads at concrete offsets
		var res *Val
		for i := len(cs) - 1; i >= 0; i-- {
			v := e.loadRegion(st, id, lit(uint64(cs[i].off), 64), n)
			if res == nil {
				res = v
			} else {
				res = e.mergeVal(cs[i].cond, v, res)
			}
		}
		return res
	} else {
		fm := e.flush(m)
		if fm != m {
			st.mem[id] = fm
		}
		for i := 0; i < n; i++ {
			bs[i] = Byte{V: intVal(smt.Select(fm.Base, e.tm.addConst(off, uint64(i))), 8)}
		}
	}
	return e.assemble(bs)
}

// assemble builds the value of a little-endian byte sequence.  Runs of
// consecutive bytes of one stored value are re-joined into that value (or one
// extract of it), so that store/load round trips stay small and stored
// pointers keep their provenance.
func (e *executor) assemble(bs []Byte) *Val {
	n := len(bs)
	whole := bs[0].V != nil && bs[0].V.W == 8*n
	for i := 0; whole && i < n; i++ {
		if bs[i].V != bs[0].V || bs[i].Idx != i {
			whole = false
		}
	}
	if whole {
		v := bs[0].V
		if n == 1 && !v.IsPtr && strings.HasPrefix(v.T.S, "(select ") {
			return intVal(e.tm.named("ld", v.T), 8)
		}
		return v
	}
	var parts []smt.Term // least significant first
	for i := 0; i < n; {
		j := i + 1
		for j < n && bs[j].V == bs[i].V && bs[j].Idx == bs[i].Idx+(j-i) {
			j++
		}
		if j-i > 1 {
			parts = append(parts, e.tm.extract(e.bitsOf(bs[i].V), 8*bs[j-1].Idx+7, 8*bs[i].Idx))
		} else {
			parts = append(parts, e.byteTerm(bs[i]))
		}
		i = j
	}
	for i, j := 0, len(parts)-1; i < j; i, j = i+1, j-1 {
		parts[i], parts[j] = parts[j], parts[i]
	}
	return intVal(e.tm.let("ld", e.tm.concat(parts)), 8*n)
}

// storeRegion writes the bytes of v at off into region id.
func (e *executor) storeRegion(st *State, id int, off smt.Term, v *Val) {
	n := v.W / 8
	m := st.regMem(e, id)
	if c, ok := bvConst(off); ok {
		o := int64(c)
		nm := &RegMem{Base: m.Base, Ov: make(map[int64]Byte, len(m.Ov)+n)}
		for k, b := range m.Ov {
			nm.Ov[k] = b
		}
		for i := 0; i < n; i++ {
			nm.Ov[o+int64(i)] = Byte{V: v, Idx: i}
		}
		st.mem[id] = nm
		return
	}
	if cs, ok := e.offCases[off.S]; ok {
		// the offset is one of a few constants: conditional update of the overlay
		nm := &RegMem{Base: m.Base, Ov: make(map[int64]Byte, len(m.Ov)+n*len(cs))}
		for k, b := range m.Ov {
			nm.Ov[k] = b
		}
		for _, c := range cs {
			for i := 0; i < n; i++ {
				k := c.off + int64(i)
				old, ok := nm.Ov[k]
				if !ok {
					old = Byte{V: intVal(smt.Select(m.Base, lit(uint64(k), 64)), 8)}
				}
				nm.Ov[k] = e.mergeByte(c.cond, Byte{V: v, Idx: i}, old)
			}
		}
		st.mem[id] = nm
		return
	}
	fm := e.flush(m)
	arr := fm.Base
	for i := 0; i < n; i++ {
		arr = smt.Store(arr, e.tm.addConst(off, uint64(i)), e.byteTerm(Byte{V: v, Idx: i}))
	}
	st.mem[id] = &RegMem{Base: e.tm.named("mem", arr), Ov: map[int64]Byte{}}
}

type mergeKey struct {
	c    string
	a, b *Val
}

// mergeVal builds ite(c, a, b).
func (e *executor) mergeVal(c smt.Term, a, b *Val) *Val {
	if a == b {
		return a
	}
	if c.IsTrue() {
		return a
	}
	if c.IsFalse() {
		return b
	}
	// an undef pointer may take any value, in particular the one of the other path (the
	// refinement LLVM itself is entitled to make): used on its own path it is still invalid
	if a.IsPtr && b.IsPtr && a.Undef != b.Undef {
		if a.Undef {
			return b
		}
		return a
	}
	k := mergeKey{c.S, a, b}
	if v, ok := e.mergeMemo[k]; ok {
		return v
	}
	var out *Val
	switch {
	case a.IsPtr && b.IsPtr:
		out = &Val{W: 64, IsPtr: true, P: e.mergePtr(c, a.P, b.P)}
	case a.IsPtr != b.IsPtr:
		// pointer merged with an integer view: keep the integer bits
		out = intVal(e.tm.let("m", smt.Ite(c, e.bitsOf(a), e.bitsOf(b))), a.W)
	default:
		if a.T.S == b.T.S && a.P == nil && b.P == nil {
			e.mergeMemo[k] = a
			return a
		}
		out = &Val{W: a.W, T: e.tm.let("m", smt.Ite(c, a.T, b.T)), UB: a.UB}
		if b.UB > out.UB {
			out.UB = b.UB
		}
		if a.P != nil && b.P != nil {
			out.P = e.mergePtr(c, a.P, b.P)
		}
	}
	out.Ite = &iteRec{C: c, A: a, B: b}
	e.mergeMemo[k] = out
	return out
}

func (e *executor) mergePtr(c smt.Term, a, b *Ptr) *Ptr {
	if a == b {
		return a
	}
	p := &Ptr{Reg: smt.Ite(c, a.Reg, b.Reg), Off: e.tm.let("off", smt.Ite(c, a.Off, b.Off)), OffUB: a.OffUB}
	if b.OffUB > p.OffUB {
		p.OffUB = b.OffUB
	}
	if len(p.Reg.S) > 40 {
		p.Reg = e.tm.named("reg", p.Reg)
	}
	seen := map[int]bool{}
	for _, x := range a.Cands {
		seen[x] = true
	}
	for _, x := range b.Cands {
		seen[x] = true
	}
	for x := range seen {
		p.Cands = append(p.Cands, x)
	}
	sort.Ints(p.Cands)
	return p
}

func (e *executor) mergeByte(c smt.Term, a, b Byte) Byte {
	if a.V == b.V && a.Idx == b.Idx {
		return a
	}
	if a.Idx == b.Idx && a.V.W == b.V.W && a.V.W > 8 {
		return Byte{V: e.mergeVal(c, a.V, b.V), Idx: a.Idx}
	}
	ta, tb := e.byteTerm(a), e.byteTerm(b)
	if ta.S == tb.S {
		return Byte{V: intVal(ta, 8)}
	}
	k := mergeKey{c.S + "|" + ta.S + "|" + tb.S, nil, nil}
	if v, ok := e.mergeMemo[k]; ok {
		return Byte{V: v}
	}
	v := intVal(e.tm.let("mb", smt.Ite(c, ta, tb)), 8)
	e.mergeMemo[k] = v
	return Byte{V: v}
}

// mergeMem builds ite(c, a, b) for region contents.
func (e *executor) mergeMem(c smt.Term, a, b *RegMem) *RegMem {
	if a == b {
		return a
	}
	if a.Base.S == b.Base.S {
		out := &RegMem{Base: a.Base, Ov: map[int64]Byte{}}
		get := func(m *RegMem, k int64) Byte {
			if x, ok := m.Ov[k]; ok {
				return x
			}
			return Byte{V: intVal(smt.Select(m.Base, lit(uint64(k), 64)), 8)}
		}
		keys := make([]int64, 0, len(a.Ov)+len(b.Ov))
		for k := range a.Ov {
			keys = append(keys, k)
		}
		for k := range b.Ov {
			if _, ok := a.Ov[k]; !ok {
				keys = append(keys, k)
			}
		}
		sort.Slice(keys, func(i, j int) bool { return keys[i] < keys[j] })
		// value-level merge: where one side holds a whole multi-byte value,
		// merge it with the other side's bytes assembled to the same width
		// (keeps stored pointers intact across joins, e.g. a pointer field
		// that is still zero on the other path)
		done := map[int64]bool{}
		whole := func(m *RegMem, k int64) (*Val, int) {
			x, ok := m.Ov[k]
			if !ok || x.Idx != 0 || x.V.W <= 8 {
				return nil, 0
			}
			n := x.V.W / 8
			for i := 1; i < n; i++ {
				y, ok := m.Ov[k+int64(i)]
				if !ok || y.V != x.V || y.Idx != i {
					return nil, 0
				}
			}
			return x.V, n
		}
		for _, k := range keys {
			if done[k] {
				continue
			}
			va, na := whole(a, k)
			vb, nb := whole(b, k)
			n := na
			if va == nil || (vb != nil && nb > na) {
				n = nb
			}
			if n == 0 {
				continue
			}
			busy := false
			for i := 0; i < n; i++ {
				if done[k+int64(i)] {
					busy = true
				}
			}
			if busy {
				continue
			}
			if va == nil || na != n {
				bs := make([]Byte, n)
				for i := range bs {
					bs[i] = get(a, k+int64(i))
				}
				va = e.assemble(bs)
			}
			if vb == nil || nb != n {
				bs := make([]Byte, n)
				for i := range bs {
					bs[i] = get(b, k+int64(i))
				}
				vb = e.assemble(bs)
			}
			if va.IsPtr != vb.IsPtr {
				// a null pointer written as zero bytes; a stack slot that only one path has
				// initialised (the other path's bytes are the alloca's undef initial contents)
				uninit := func(m *RegMem) bool {
					if e.mergingStackInit == "" || m.Base.S != e.mergingStackInit {
						return false
					}
					for i := 0; i < n; i++ {
						if _, written := m.Ov[k+int64(i)]; written {
							return false
						}
					}
					return true
				}
				if va.IsPtr && uninit(b) {
					u := e.invalidPtr(smt.Term{})
					u.Undef = true
					vb = u
				} else if vb.IsPtr && uninit(a) {
					u := e.invalidPtr(smt.Term{})
					u.Undef = true
					va = u
				}
				fix := func(v *Val) *Val {
					if v.IsPtr {
						return v
					}
					if v.P != nil {
						return &Val{W: 64, IsPtr: true, P: v.P}
					}
					if c, ok := bvConst(v.T); ok && c == 0 {
						return e.nullPtr()
					}
					return nil
				}
				va, vb = fix(va), fix(vb)
				if va == nil || vb == nil {
					continue
				}
			}
			mv := e.mergeVal(c, va, vb)
			for i := 0; i < n; i++ {
				out.Ov[k+int64(i)] = Byte{V: mv, Idx: i}
				done[k+int64(i)] = true
			}
		}
		for _, k := range keys {
			if done[k] {
				continue
			}
			x, y := get(a, k), get(b, k)
			if x.V == y.V && x.Idx == y.Idx {
				out.Ov[k] = x
				continue
			}
			out.Ov[k] = e.mergeByte(c, x, y)
		}
		return out
	}
	fa, fb := e.flush(a), e.flush(b)
	return &RegMem{Base: e.tm.named("mem", smt.Ite(c, fa.Base, fb.Base)), Ov: map[int64]Byte{}}
}
