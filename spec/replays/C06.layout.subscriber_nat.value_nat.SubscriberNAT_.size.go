package nat

import (
	"fmt"
	"net"
	"testing"

	"github.com/cilium/ebpf"
	"go.uber.org/zap"
)

// subscriber_nat is created with the key/value sizes of the C declaration
// (4 / 64 bytes: struct subscriber_nat with struct port_block whose next_port and
// ports_in_use are __u32). AllocateNAT must be able to store its SubscriberNAT in it.
func TestReplayVC(t *testing.T) {
	sn, err := ebpf.NewMap(&ebpf.MapSpec{Type: ebpf.Hash, KeySize: 4, ValueSize: 64, MaxEntries: 8})
	if err != nil {
		fmt.Println("REPLAY-SETUP-FAILED (cannot create a BPF map here):", err)
		return
	}
	defer sn.Close()
	m, err := NewManager(ManagerConfig{Interface: "lo"}, zap.NewNop())
	if err != nil {
		fmt.Println("REPLAY-SETUP-FAILED", err)
		return
	}
	m.subscriberNAT = sn
	if err := m.AddPublicIP(net.IPv4(203, 0, 113, 1)); err != nil {
		fmt.Println("REPLAY-SETUP-FAILED", err)
		return
	}
	if _, err := m.AllocateNAT(net.IPv4(10, 0, 1, 100)); err != nil {
		fmt.Printf("REPLAY-VIOLATED: AllocateNAT cannot write the kernel map: %v\n", err)
		return
	}
	fmt.Println("REPLAY-OK")
}
