package llvc

import (
	"fmt"
	"os"
	"path/filepath"
	"strconv"
	"strings"

	"bngvc/smt"
)

// vspec: a small typed s-expression language in which functional
// specifications of BPF programs are written (files *.vspec next to
// programs.json).  A specification talks about the INPUTS of a program run
// only -- the received frame, the context, the contents of the maps at entry
// (ghost maps: presence and value bytes as functions of the key bytes, the
// same uninterpreted functions the helper contract of bpf_map_lookup_elem
// uses), helper results by call ordinal -- never about program variables.
//
//   file    := form*
//   form    := (define NAME expr) | (scope expr) | (verdict expr) | (case NAME expr)
//            | (contract NAME expr)            ; extra named obligations
//   expr    := NAME | literal | (op expr*) | (let ((NAME expr)*) expr) | (if c a b)
//   literal := #xHH.. | #bBB.. | (bv VALUE WIDTH) | true | false
//   frame   := len                                   ; initial length, 64 bit
//            | (pkt OFF) | (pkt-be N OFF)            ; byte / N bytes big-endian at OFF (OFF: integer or 64-bit expr)
//   ctx     := (ctx-le N OFF)                        ; N bytes little-endian of the context struct at entry
//   maps    := (map-has MAP KEY)                     ; entry present at program entry
//            | (map-byte MAP KEY OFF) | (map-be N MAP KEY OFF) | (map-le N MAP KEY OFF)
//            | (key-struct e1 ... en)                ; key from fields in memory order (each a little-endian value)
//   ops     := and or not => = distinct bvult bvule bvugt bvuge bvslt bvsle bvsgt bvsge
//              bvadd bvsub bvmul bvudiv bvurem bvand bvor bvxor bvshl bvlshr bvnot
//              concat (extract HI LO e) (zext W e) (bswap e)
//
// Integers in OFF/N/W/HI/LO positions are decimal literals.

type vsVal struct {
	t smt.Term
	w int // 0 = Bool
}

type sx struct {
	atom string
	list []*sx
	isL  bool
	line int
}

func parseSx(text string) ([]*sx, error) {
	var out []*sx
	var stack []*sx
	line := 1
	i, n := 0, len(text)
	push := func(x *sx) {
		if len(stack) == 0 {
			out = append(out, x)
		} else {
			top := stack[len(stack)-1]
			top.list = append(top.list, x)
		}
	}
	for i < n {
		c := text[i]
		switch {
		case c == '\n':
			line++
			i++
		case c == ' ' || c == '\t' || c == '\r':
			i++
		case c == ';':
			for i < n && text[i] != '\n' {
				i++
			}
		case c == '(':
			x := &sx{isL: true, line: line}
			push(x)
			stack = append(stack, x)
			i++
		case c == ')':
			if len(stack) == 0 {
				return nil, fmt.Errorf("line %d: unbalanced ')'", line)
			}
			stack = stack[:len(stack)-1]
			i++
		default:
			j := i
			for j < n && !strings.ContainsRune(" \t\r\n();", rune(text[j])) {
				j++
			}
			push(&sx{atom: text[i:j], line: line})
			i = j
		}
	}
	if len(stack) != 0 {
		return nil, fmt.Errorf("line %d: unbalanced '('", stack[len(stack)-1].line)
	}
	return out, nil
}

// FuncSpec is a compiled functional specification.
type FuncSpec struct {
	File      string
	Scope     smt.Term // Bool; True if absent
	Verdict   smt.Term // BV32; empty if absent
	Contracts []NamedTerm
	Cases     []NamedTerm // optional case split of the verdict obligation (each: scope and case => ret == verdict)
	Defines   []NamedTerm // in file order (for models)
}

type NamedTerm struct {
	Name string
	T    smt.Term
	W    int
}

type vsEnv struct {
	e    *executor
	vars map[string]vsVal
	file string
	hook *hookCtx
}

// hookCtx is what a specification may observe besides the inputs.
//
//	exit hook (default): ret (32 bit), outlen (64 bit), (out OFF), (out-be N OFF): the
//	  frame as the program leaves it
//	call hook "call:<function>": arg0..argN (integer arguments), ret (if any),
//	  (pre-le N ARG OFF) / (post-le N ARG OFF): N bytes little-endian at pointer
//	  argument ARG + OFF before / after the call, (helper-ret NAME K): result of
//	  the K-th call of helper NAME made inside the call
type hookCtx struct {
	outArr    smt.Term
	outMem    *RegMem // exit hooks: the packet memory (overlay of bytes at concrete offsets over a base array)
	pre, post *State
	post2     *State // call2 hooks: state after the second call
	args      []*Val
	calls     []callProbe
}

func (v *vsEnv) errf(x *sx, format string, a ...interface{}) error {
	return fmt.Errorf("%s:%d: %s", v.file, x.line, fmt.Sprintf(format, a...))
}

func (v *vsEnv) intLit(x *sx) (int64, error) {
	if x.isL {
		return 0, v.errf(x, "integer literal expected")
	}
	n, err := strconv.ParseInt(x.atom, 0, 64)
	if err != nil {
		return 0, v.errf(x, "integer literal expected, got %q", x.atom)
	}
	return n, nil
}

// off evaluates an offset operand: integer literal or 64-bit expression.
func (v *vsEnv) off(x *sx) (smt.Term, error) {
	if !x.isL {
		if n, err := strconv.ParseInt(x.atom, 0, 64); err == nil {
			return lit(uint64(n), 64), nil
		}
	}
	o, err := v.eval(x)
	if err != nil {
		return smt.Term{}, err
	}
	if o.w != 64 {
		return smt.Term{}, v.errf(x, "offset must be an integer literal or a 64-bit value (got width %d)", o.w)
	}
	return o.t, nil
}

func (v *vsEnv) mapOf(x *sx) (*MapInfo, error) {
	if x.isL {
		return nil, v.errf(x, "map name expected")
	}
	mi, ok := v.e.mod.Maps[x.atom]
	if !ok || mi.KeySize < 0 {
		return nil, v.errf(x, "no map %q with key/value types in %s", x.atom, v.e.mod.CFile)
	}
	return mi, nil
}

// mapFuns declares the entry-state (version 0) ghost functions of a map.
func (v *vsEnv) mapFuns(mi *MapInfo) (string, string) {
	pres := fmt.Sprintf("map_%s_v0_present", smt.Sanitize(mi.Name))
	vals := fmt.Sprintf("map_%s_v0_value", smt.Sanitize(mi.Name))
	ks := smt.BV(int(8 * mi.KeySize))
	v.e.tm.declFun(pres, []string{ks}, smt.Bool)
	v.e.tm.declFun(vals, []string{ks}, arrSort)
	return pres, vals
}

func (v *vsEnv) mapKey(mi *MapInfo, x *sx) (smt.Term, error) {
	k, err := v.eval(x)
	if err != nil {
		return smt.Term{}, err
	}
	if k.w != int(8*mi.KeySize) {
		return smt.Term{}, v.errf(x, "key of map %s must be %d bits wide, got %d", mi.Name, 8*mi.KeySize, k.w)
	}
	return k.t, nil
}

func (v *vsEnv) bytesBE(parts []smt.Term) vsVal {
	return vsVal{v.e.tm.concat(parts), 8 * len(parts)}
}

func (v *vsEnv) eval(x *sx) (vsVal, error) {
	tm := v.e.tm
	if !x.isL {
		a := x.atom
		switch {
		case a == "true":
			return vsVal{smt.True, 0}, nil
		case a == "false":
			return vsVal{smt.False, 0}, nil
		case a == "len":
			return vsVal{v.e.pktLen0, 64}, nil
		case strings.HasPrefix(a, "#x"):
			w := 4 * (len(a) - 2)
			if w == 0 || w > 64 {
				return vsVal{}, v.errf(x, "hex literal must have 1..16 digits")
			}
			n, err := strconv.ParseUint(a[2:], 16, 64)
			if err != nil {
				return vsVal{}, v.errf(x, "bad literal %s", a)
			}
			return vsVal{lit(n, w), w}, nil
		case strings.HasPrefix(a, "#b"):
			w := len(a) - 2
			n, err := strconv.ParseUint(a[2:], 2, 64)
			if err != nil || w == 0 {
				return vsVal{}, v.errf(x, "bad literal %s", a)
			}
			return vsVal{lit(n, w), w}, nil
		}
		if val, ok := v.vars[a]; ok {
			return val, nil
		}
		return vsVal{}, v.errf(x, "unknown name %q", a)
	}
	if len(x.list) == 0 || x.list[0].isL {
		return vsVal{}, v.errf(x, "operator expected")
	}
	op := x.list[0].atom
	args := x.list[1:]
	need := func(n int) error {
		if len(args) != n {
			return v.errf(x, "%s takes %d arguments", op, n)
		}
		return nil
	}
	evalAll := func() ([]vsVal, error) {
		var out []vsVal
		for _, a := range args {
			r, err := v.eval(a)
			if err != nil {
				return nil, err
			}
			out = append(out, r)
		}
		return out, nil
	}
	switch op {
	case "bv":
		if err := need(2); err != nil {
			return vsVal{}, err
		}
		n, err := v.intLit(args[0])
		if err != nil {
			return vsVal{}, err
		}
		w, err := v.intLit(args[1])
		if err != nil {
			return vsVal{}, err
		}
		if w < 1 || w > 64 {
			return vsVal{}, v.errf(x, "width 1..64")
		}
		return vsVal{lit(uint64(n), int(w)), int(w)}, nil
	case "let":
		if err := need(2); err != nil {
			return vsVal{}, err
		}
		saved := map[string]*vsVal{}
		for _, b := range args[0].list {
			if !b.isL || len(b.list) != 2 || b.list[0].isL {
				return vsVal{}, v.errf(b, "binding (name expr) expected")
			}
			r, err := v.eval(b.list[1])
			if err != nil {
				return vsVal{}, err
			}
			name := b.list[0].atom
			if old, ok := v.vars[name]; ok {
				o := old
				saved[name] = &o
			} else {
				saved[name] = nil
			}
			v.vars[name] = r
		}
		r, err := v.eval(args[1])
		for name, old := range saved {
			if old == nil {
				delete(v.vars, name)
			} else {
				v.vars[name] = *old
			}
		}
		return r, err
	case "if", "ite":
		if err := need(3); err != nil {
			return vsVal{}, err
		}
		rs, err := evalAll()
		if err != nil {
			return vsVal{}, err
		}
		if rs[0].w != 0 || rs[1].w != rs[2].w {
			return vsVal{}, v.errf(x, "if: Bool condition and equally typed branches expected")
		}
		return vsVal{smt.Ite(rs[0].t, rs[1].t, rs[2].t), rs[1].w}, nil
	case "pkt":
		if err := need(1); err != nil {
			return vsVal{}, err
		}
		o, err := v.off(args[0])
		if err != nil {
			return vsVal{}, err
		}
		return vsVal{smt.Select(v.e.res.pkt0, o), 8}, nil
	case "pkt-be":
		if err := need(2); err != nil {
			return vsVal{}, err
		}
		n, err := v.intLit(args[0])
		if err != nil {
			return vsVal{}, err
		}
		o, err := v.off(args[1])
		if err != nil {
			return vsVal{}, err
		}
		var parts []smt.Term
		for i := int64(0); i < n; i++ {
			parts = append(parts, smt.Select(v.e.res.pkt0, tm.addConst(o, uint64(i))))
		}
		return v.bytesBE(parts), nil
	case "ctx-le":
		if err := need(2); err != nil {
			return vsVal{}, err
		}
		n, err := v.intLit(args[0])
		if err != nil {
			return vsVal{}, err
		}
		o, err := v.intLit(args[1])
		if err != nil {
			return vsVal{}, err
		}
		var parts []smt.Term
		for i := n - 1; i >= 0; i-- {
			parts = append(parts, smt.Select(v.e.res.ctx0, lit(uint64(o+i), 64)))
		}
		return v.bytesBE(parts), nil
	case "map-has":
		if err := need(2); err != nil {
			return vsVal{}, err
		}
		mi, err := v.mapOf(args[0])
		if err != nil {
			return vsVal{}, err
		}
		k, err := v.mapKey(mi, args[1])
		if err != nil {
			return vsVal{}, err
		}
		pres, _ := v.mapFuns(mi)
		return vsVal{smt.App(smt.Bool, pres, k), 0}, nil
	case "map-byte", "map-be", "map-le":
		idx := 0
		n := int64(1)
		if op != "map-byte" {
			if len(args) != 4 {
				return vsVal{}, v.errf(x, "%s takes N MAP KEY OFF", op)
			}
			var err error
			if n, err = v.intLit(args[0]); err != nil {
				return vsVal{}, err
			}
			idx = 1
		} else if err := need(3); err != nil {
			return vsVal{}, err
		}
		mi, err := v.mapOf(args[idx])
		if err != nil {
			return vsVal{}, err
		}
		k, err := v.mapKey(mi, args[idx+1])
		if err != nil {
			return vsVal{}, err
		}
		o, err := v.intLit(args[idx+2])
		if err != nil {
			return vsVal{}, err
		}
		if o < 0 || o+n > mi.ValueSize {
			return vsVal{}, v.errf(x, "bytes %d..%d outside the %d-byte value of map %s", o, o+n, mi.ValueSize, mi.Name)
		}
		_, vals := v.mapFuns(mi)
		arr := tm.named("spec_"+mi.Name, smt.App(arrSort, vals, k))
		var parts []smt.Term
		for i := int64(0); i < n; i++ {
			b := smt.Select(arr, lit(uint64(o+i), 64))
			if op == "map-le" {
				parts = append([]smt.Term{b}, parts...)
			} else {
				parts = append(parts, b)
			}
		}
		return v.bytesBE(parts), nil
	case "key-struct":
		rs, err := evalAll()
		if err != nil {
			return vsVal{}, err
		}
		var parts []smt.Term
		w := 0
		for i := len(rs) - 1; i >= 0; i-- {
			if rs[i].w == 0 || rs[i].w%8 != 0 {
				return vsVal{}, v.errf(x, "key-struct fields must be whole bytes")
			}
			parts = append(parts, rs[i].t)
			w += rs[i].w
		}
		return vsVal{tm.concat(parts), w}, nil
	case "concat":
		rs, err := evalAll()
		if err != nil {
			return vsVal{}, err
		}
		var parts []smt.Term
		w := 0
		for _, r := range rs {
			if r.w == 0 {
				return vsVal{}, v.errf(x, "concat of Bool")
			}
			parts = append(parts, r.t)
			w += r.w
		}
		return vsVal{tm.concat(parts), w}, nil
	case "extract":
		if err := need(3); err != nil {
			return vsVal{}, err
		}
		hi, err := v.intLit(args[0])
		if err != nil {
			return vsVal{}, err
		}
		lo, err := v.intLit(args[1])
		if err != nil {
			return vsVal{}, err
		}
		r, err := v.eval(args[2])
		if err != nil {
			return vsVal{}, err
		}
		if lo < 0 || hi < lo || int(hi) >= r.w {
			return vsVal{}, v.errf(x, "extract range")
		}
		return vsVal{tm.extract(r.t, int(hi), int(lo)), int(hi - lo + 1)}, nil
	case "zext":
		if err := need(2); err != nil {
			return vsVal{}, err
		}
		w, err := v.intLit(args[0])
		if err != nil {
			return vsVal{}, err
		}
		r, err := v.eval(args[1])
		if err != nil {
			return vsVal{}, err
		}
		if r.w == 0 || int(w) < r.w {
			return vsVal{}, v.errf(x, "zext to a smaller width")
		}
		return vsVal{tm.zext(r.t, r.w, int(w)), int(w)}, nil
	case "out", "out-be":
		if v.hook == nil || v.hook.outArr.S == "" {
			return vsVal{}, v.errf(x, "%s is only available in exit specifications", op)
		}
		n := int64(1)
		oi := 0
		if op == "out-be" {
			if err := need(2); err != nil {
				return vsVal{}, err
			}
			var err error
			if n, err = v.intLit(args[0]); err != nil {
				return vsVal{}, err
			}
			oi = 1
		} else if err := need(1); err != nil {
			return vsVal{}, err
		}
		o, err := v.off(args[oi])
		if err != nil {
			return vsVal{}, err
		}
		var parts []smt.Term
		for i := int64(0); i < n; i++ {
			oi := tm.addConst(o, uint64(i))
			if c, ok := bvConst(oi); ok && v.hook.outMem != nil {
				// a byte at a concrete offset: straight from the overlay (or the
				// untouched base array), not through the store chain
				if b, ok := v.hook.outMem.Ov[int64(c)]; ok {
					parts = append(parts, v.e.byteTerm(b))
				} else {
					parts = append(parts, smt.Select(v.hook.outMem.Base, oi))
				}
				continue
			}
			parts = append(parts, smt.Select(v.hook.outArr, oi))
		}
		return v.bytesBE(parts), nil
	case "pre-le", "post-le", "post2-le":
		if v.hook == nil || v.hook.pre == nil {
			return vsVal{}, v.errf(x, "%s is only available in call specifications", op)
		}
		if err := need(3); err != nil {
			return vsVal{}, err
		}
		n, err := v.intLit(args[0])
		if err != nil {
			return vsVal{}, err
		}
		ai, err := v.intLit(args[1])
		if err != nil {
			return vsVal{}, err
		}
		o, err := v.intLit(args[2])
		if err != nil {
			return vsVal{}, err
		}
		if ai < 0 || int(ai) >= len(v.hook.args) || !v.hook.args[ai].IsPtr {
			return vsVal{}, v.errf(x, "argument %d is not a pointer argument", ai)
		}
		st := v.hook.pre
		if op == "post-le" {
			st = v.hook.post
		}
		if op == "post2-le" {
			if v.hook.post2 == nil {
				return vsVal{}, v.errf(x, "post2-le is only available in call2 specifications")
			}
			st = v.hook.post2
		}
		base := v.hook.args[ai].P
		p := &Ptr{Reg: base.Reg, Off: tm.addConst(base.Off, uint64(o)), OffUB: satAdd(base.OffUB, uint64(o)), Cands: base.Cands}
		val, err := v.e.loadMem(st, p, int(n))
		if err != nil {
			return vsVal{}, v.errf(x, "%v", err)
		}
		return vsVal{v.e.bitsOf(val), int(8 * n)}, nil
	case "helper-ret":
		if v.hook == nil {
			return vsVal{}, v.errf(x, "helper-ret is only available in call specifications")
		}
		if err := need(2); err != nil {
			return vsVal{}, err
		}
		k, err := v.intLit(args[1])
		if err != nil {
			return vsVal{}, err
		}
		cnt := int64(0)
		for _, c := range v.hook.calls {
			if c.kind == args[0].atom && c.ret.S != "" {
				if cnt == k {
					return vsVal{c.ret, widthOf(c.ret)}, nil
				}
				cnt++
			}
		}
		return vsVal{}, v.errf(x, "no call #%d of helper %s inside the call", k, args[0].atom)
	case "bswap":
		if err := need(1); err != nil {
			return vsVal{}, err
		}
		r, err := v.eval(args[0])
		if err != nil {
			return vsVal{}, err
		}
		if r.w == 0 || r.w%8 != 0 {
			return vsVal{}, v.errf(x, "bswap of a non-byte width")
		}
		var parts []smt.Term
		for i := 0; i < r.w/8; i++ {
			parts = append(parts, tm.extract(r.t, 8*i+7, 8*i))
		}
		return vsVal{tm.concat(parts), r.w}, nil
	}
	rs, err := evalAll()
	if err != nil {
		return vsVal{}, err
	}
	allBool := func() bool {
		for _, r := range rs {
			if r.w != 0 {
				return false
			}
		}
		return true
	}
	sameBV := func() bool {
		if len(rs) == 0 || rs[0].w == 0 {
			return false
		}
		for _, r := range rs {
			if r.w != rs[0].w {
				return false
			}
		}
		return true
	}
	terms := func() []smt.Term {
		var ts []smt.Term
		for _, r := range rs {
			ts = append(ts, r.t)
		}
		return ts
	}
	switch op {
	case "and", "or":
		if !allBool() {
			return vsVal{}, v.errf(x, "%s of non-Bool", op)
		}
		if op == "and" {
			return vsVal{smt.And(terms()...), 0}, nil
		}
		return vsVal{smt.Or(terms()...), 0}, nil
	case "not":
		if len(rs) != 1 || !allBool() {
			return vsVal{}, v.errf(x, "not takes one Bool")
		}
		return vsVal{smt.Not(rs[0].t), 0}, nil
	case "=>":
		if len(rs) != 2 || !allBool() {
			return vsVal{}, v.errf(x, "=> takes two Bools")
		}
		return vsVal{smt.Implies(rs[0].t, rs[1].t), 0}, nil
	case "=", "distinct":
		if len(rs) != 2 || rs[0].w != rs[1].w {
			return vsVal{}, v.errf(x, "%s takes two equally typed arguments (widths %v)", op, widths(rs))
		}
		var t smt.Term
		if rs[0].w == 0 {
			t = smt.Eq(rs[0].t, rs[1].t)
		} else {
			t = tm.icmp("eq", rs[0].t, rs[1].t)
		}
		if op == "distinct" {
			t = smt.Not(t)
		}
		return vsVal{t, 0}, nil
	case "bvult", "bvule", "bvugt", "bvuge", "bvslt", "bvsle", "bvsgt", "bvsge":
		if len(rs) != 2 || !sameBV() {
			return vsVal{}, v.errf(x, "%s takes two bit-vectors of one width (widths %v)", op, widths(rs))
		}
		return vsVal{tm.icmp(op[2:], rs[0].t, rs[1].t), 0}, nil
	case "bvadd", "bvsub", "bvmul", "bvudiv", "bvurem", "bvand", "bvor", "bvxor", "bvshl", "bvlshr":
		if len(rs) < 2 || !sameBV() {
			return vsVal{}, v.errf(x, "%s takes bit-vectors of one width (widths %v)", op, widths(rs))
		}
		if rs[0].w > 64 {
			// wide arithmetic (reference values): no constant folding
			t := rs[0].t
			for _, r := range rs[1:] {
				t = smt.App(t.Sort, op, t, r.t)
			}
			return vsVal{t, rs[0].w}, nil
		}
		irOp := map[string]string{"bvadd": "add", "bvsub": "sub", "bvmul": "mul", "bvudiv": "udiv", "bvurem": "urem", "bvand": "and", "bvor": "or", "bvxor": "xor", "bvshl": "shl", "bvlshr": "lshr"}[op]
		t := rs[0].t
		for _, r := range rs[1:] {
			t = tm.binop(irOp, t, r.t)
		}
		return vsVal{t, rs[0].w}, nil
	case "bvnot":
		if len(rs) != 1 || rs[0].w == 0 {
			return vsVal{}, v.errf(x, "bvnot takes one bit-vector")
		}
		return vsVal{smt.App(rs[0].t.Sort, "bvnot", rs[0].t), rs[0].w}, nil
	}
	return vsVal{}, v.errf(x, "unknown operator %q", op)
}

func widths(rs []vsVal) []int {
	var w []int
	for _, r := range rs {
		w = append(w, r.w)
	}
	return w
}

// loadFuncSpec compiles a vspec file in the context of the current run.
// extra pre-binds names (program observation points offered by the
// obligation generator, e.g. helper results).
func (e *executor) loadFuncSpec(path string, extra map[string]vsVal, hook *hookCtx) (*FuncSpec, error) {
	if !filepath.IsAbs(path) {
		path = filepath.Join(filepath.Dir(SpecFile), path)
	}
	b, err := os.ReadFile(path)
	if err != nil {
		return nil, err
	}
	forms, err := parseSx(string(b))
	if err != nil {
		return nil, fmt.Errorf("%s: %v", path, err)
	}
	env := &vsEnv{e: e, vars: map[string]vsVal{}, file: path, hook: hook}
	for k, v := range extra {
		env.vars[k] = v
	}
	fs := &FuncSpec{File: path, Scope: smt.True}
	for _, f := range forms {
		if !f.isL || len(f.list) == 0 || f.list[0].isL {
			return nil, env.errf(f, "top-level form expected")
		}
		switch f.list[0].atom {
		case "define":
			if len(f.list) != 3 || f.list[1].isL {
				return nil, env.errf(f, "(define NAME expr)")
			}
			r, err := env.eval(f.list[2])
			if err != nil {
				return nil, err
			}
			name := f.list[1].atom
			r.t = e.tm.named("spec_"+name, r.t)
			env.vars[name] = r
			fs.Defines = append(fs.Defines, NamedTerm{name, r.t, r.w})
		case "scope":
			r, err := env.eval(f.list[1])
			if err != nil {
				return nil, err
			}
			if r.w != 0 {
				return nil, env.errf(f, "scope must be Bool")
			}
			fs.Scope = e.tm.named("spec_scope", r.t)
		case "verdict":
			r, err := env.eval(f.list[1])
			if err != nil {
				return nil, err
			}
			if r.w != 32 {
				return nil, env.errf(f, "verdict must be 32 bits wide")
			}
			fs.Verdict = e.tm.named("spec_verdict", r.t)
		case "case":
			if len(f.list) != 3 || f.list[1].isL {
				return nil, env.errf(f, "(case NAME expr)")
			}
			r, err := env.eval(f.list[2])
			if err != nil {
				return nil, err
			}
			if r.w != 0 {
				return nil, env.errf(f, "case must be Bool")
			}
			fs.Cases = append(fs.Cases, NamedTerm{f.list[1].atom, e.tm.named("spec_case_"+f.list[1].atom, r.t), 0})
		case "contract":
			if len(f.list) != 3 || f.list[1].isL {
				return nil, env.errf(f, "(contract NAME expr)")
			}
			r, err := env.eval(f.list[2])
			if err != nil {
				return nil, err
			}
			if r.w != 0 {
				return nil, env.errf(f, "contract must be Bool")
			}
			fs.Contracts = append(fs.Contracts, NamedTerm{f.list[1].atom, r.t, 0})
		default:
			return nil, env.errf(f, "unknown form %q", f.list[0].atom)
		}
	}
	return fs, nil
}
