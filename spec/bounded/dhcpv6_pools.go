package dhcpv6

// Bounded stand-in for the constructors of the DHCPv6 pools (bit and byte arithmetic the verifier
// does not model). NewPrefixPool: pool prefix lengths {0,8,16,29,32,40,44,47,48,49,56,57,60,63,64,
// 96,112,120}, 1..12 index bits each (delegation length = pool length + index bits <= 128): the free
// list has min(2^bits, 1000) entries, pairwise different as prefixes, each inside the pool prefix,
// with the delegation length as mask and no bit set beyond it, and entry i carries index i in the
// index bits. NewAddressPool: prefix lengths 118..128 and 64: min(2^(128-n)-1, 1000) pairwise
// different addresses, all inside the network, none the network address itself.

import (
	"fmt"
	"math/big"
	"net"
	"testing"
)

func TestBoundedVC(t *testing.T) {
	bad, n := 0, 0
	report := func(format string, a ...any) {
		if bad < 5 {
			fmt.Printf("BOUNDED-VIOLATED "+format+"\n", a...)
		}
		bad++
	}
	const full = "2001:db8:aaaa:bbbb:cccc:dddd:eeee:ffff"
	for _, ones := range []int{0, 8, 16, 29, 32, 40, 44, 47, 48, 49, 56, 57, 60, 63, 64, 96, 112, 120} {
		for bits := 1; bits <= 12 && ones+bits <= 128; bits++ {
			n++
			dl := ones + bits
			cidr := fmt.Sprintf("%s/%d", full, ones)
			_, base, _ := net.ParseCIDR(cidr)
			p, err := NewPrefixPool(cidr, uint8(dl), 3600, 7200)
			if err != nil {
				report("NewPrefixPool(%s, /%d): %v", cidr, dl, err)
				continue
			}
			want := 1 << bits
			if want > 1000 {
				want = 1000
			}
			if len(p.available) != want {
				report("NewPrefixPool(%s, /%d): %d prefixes, want %d", cidr, dl, len(p.available), want)
			}
			seen := map[string]int{}
			baseInt := new(big.Int).SetBytes(base.IP.To16())
			for i, pf := range p.available {
				if pf == nil || len(pf.IP) != 16 {
					report("NewPrefixPool(%s, /%d): entry %d nil / not 16 bytes", cidr, dl, i)
					continue
				}
				if o, b := pf.Mask.Size(); o != dl || b != 128 {
					report("NewPrefixPool(%s, /%d): entry %d has mask /%d", cidr, dl, i, o)
				}
				if j, dup := seen[pf.IP.String()]; dup {
					report("NewPrefixPool(%s, /%d): prefix %d equals prefix %d (%s)", cidr, dl, i, j, pf.IP)
				}
				seen[pf.IP.String()] = i
				if !base.Contains(pf.IP) {
					report("NewPrefixPool(%s, /%d): prefix %d (%s) outside the pool", cidr, dl, i, pf.IP)
				}
				// value = base + i << (128 - dl): index i in the index bits, nothing beyond the delegation length
				wantInt := new(big.Int).Add(baseInt, new(big.Int).Lsh(big.NewInt(int64(i)), uint(128-dl)))
				if new(big.Int).SetBytes(pf.IP).Cmp(wantInt) != 0 {
					report("NewPrefixPool(%s, /%d): prefix %d is %s, want pool base + %d<<%d", cidr, dl, i, pf.IP, i, 128-dl)
				}
			}
			if p.allocated == nil || len(p.allocated) != 0 {
				report("NewPrefixPool(%s): allocated table not empty / nil", cidr)
			}
		}
	}
	for _, plen := range []int{118, 119, 120, 121, 122, 123, 124, 125, 126, 127, 128, 64} {
		n++
		cidr := fmt.Sprintf("%s/%d", full, plen)
		_, base, _ := net.ParseCIDR(cidr)
		p, err := NewAddressPool(cidr, 3600, 7200)
		if err != nil {
			report("NewAddressPool(%s): %v", cidr, err)
			continue
		}
		want := 1000
		if 128-plen < 10 {
			want = (1 << (128 - plen)) - 1
		}
		if len(p.available) != want {
			report("NewAddressPool(%s): %d addresses, want %d", cidr, len(p.available), want)
		}
		seen := map[string]bool{}
		for i, ip := range p.available {
			switch {
			case ip == nil || len(ip) != 16:
				report("NewAddressPool(%s): entry %d nil / not 16 bytes", cidr, i)
			case seen[ip.String()]:
				report("NewAddressPool(%s): %s twice", cidr, ip)
			case !base.Contains(ip):
				report("NewAddressPool(%s): %s outside the network", cidr, ip)
			case ip.Equal(base.IP):
				report("NewAddressPool(%s): the network address itself is on the free list", cidr)
			}
			if ip != nil {
				seen[ip.String()] = true
			}
		}
	}
	if bad != 0 {
		fmt.Printf("BOUNDED-VIOLATED %d deviations in total\n", bad)
		return
	}
	fmt.Printf("BOUNDED-OK %d pool geometries\n", n)
}
