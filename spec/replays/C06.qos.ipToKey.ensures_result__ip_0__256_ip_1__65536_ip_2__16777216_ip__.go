package qos

import (
	"fmt"
	"net"
	"testing"

	"github.com/cilium/ebpf"
	"go.uber.org/zap"
)

// The control plane sets a rate limit for 10.0.1.100 through SetSubscriberQoS,
// writing into real kernel hash maps with the key/value sizes of qos_egress /
// qos_ingress. bpf/qos_ratelimit.c looks the bucket up with ip->daddr as loaded
// from the frame, i.e. with the key bytes 0a 00 01 64. The entry must be stored
// under exactly those key bytes, otherwise the policy is never enforced.
func TestReplayVC(t *testing.T) {
	mk := func() *ebpf.Map {
		m, err := ebpf.NewMap(&ebpf.MapSpec{Type: ebpf.Hash, KeySize: 4, ValueSize: 32, MaxEntries: 8})
		if err != nil {
			return nil
		}
		return m
	}
	eg, in := mk(), mk()
	if eg == nil || in == nil {
		fmt.Println("REPLAY-SETUP-FAILED (cannot create a BPF map here)")
		return
	}
	defer eg.Close()
	defer in.Close()
	m := &Manager{logger: zap.NewNop(), qosEgress: eg, qosIngress: in, subscribers: make(map[uint32]*SubscriberQoS)}
	ip := net.IPv4(10, 0, 1, 100).To4()
	if err := m.SetSubscriberQoS(&SubscriberQoS{IP: ip, DownloadBPS: 10_000_000, UploadBPS: 1_000_000}); err != nil {
		fmt.Println("REPLAY-SETUP-FAILED", err)
		return
	}
	frameKey := [4]byte{ip[0], ip[1], ip[2], ip[3]} // what the kernel program passes to bpf_map_lookup_elem
	var val [32]byte
	if err := eg.Lookup(&frameKey, &val); err != nil {
		var k [4]byte
		it := eg.Iterate()
		it.Next(&k, &val)
		fmt.Printf("REPLAY-VIOLATED: policy for %s is stored under key bytes % x; qos_egress_prog looks up % x and finds nothing (%v), so the subscriber is not rate limited\n", ip, k[:], frameKey[:], err)
		return
	}
	fmt.Println("REPLAY-OK")
}
