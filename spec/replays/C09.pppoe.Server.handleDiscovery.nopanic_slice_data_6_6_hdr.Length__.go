package pppoe

import (
	"fmt"
	"net"
	"testing"

	"go.uber.org/zap"
)

var _ = net.IPv4len
var _ = zap.NewNop

func replayGuard(f func()) {
	defer func() {
		if r := recover(); r != nil {
			fmt.Println("REPLAY-PANIC:", r)
		}
	}()
	f()
	fmt.Println("REPLAY-OK")
}

// PADI frame whose PPPoE length field (100) exceeds the 6 bytes actually present.
func TestReplayVC(t *testing.T) {
	s := &Server{logger: zap.NewNop(), sessions: NewSessionManager()}
	replayGuard(func() {
		s.handleDiscovery(net.HardwareAddr{2, 0, 0, 0, 0, 1}, []byte{0x11, 0x09, 0x00, 0x00, 0x00, 100})
	})
}
