package govc

import (
	"go/ast"
	"go/token"
	"go/types"
	"sync"
)

// autoPure reports whether a repository function can be shown, by a syntactic
// check of its body, to write nothing but its own local variables (so a call
// to it leaves the caller's heap unchanged). Used only for callees WITHOUT a
// contract; results stay unconstrained. The check is conservative.
func (p *Program) autoPure(key string) bool {
	pureMu.Lock()
	defer pureMu.Unlock()
	return p.autoPureLocked(key)
}

var pureMu sync.Mutex

func (p *Program) autoPureLocked(key string) bool {
	if p.pureMemo == nil {
		p.pureMemo = map[string]int{}
	}
	switch p.pureMemo[key] {
	case 1:
		return true
	case 2, 3:
		return false // 3 = in progress (recursion): not pure
	}
	p.pureMemo[key] = 3
	fi := p.Funcs[key]
	ok := fi != nil && p.bodyPure(fi)
	if ok {
		p.pureMemo[key] = 1
	} else {
		p.pureMemo[key] = 2
	}
	return ok
}

func (p *Program) bodyPure(fi *FuncInfo) bool {
	info := fi.Pkg.TypesInfo
	body := fi.Decl.Body
	local := func(e ast.Expr) bool {
		id, ok := ast.Unparen(e).(*ast.Ident)
		if !ok {
			return false
		}
		if id.Name == "_" {
			return true
		}
		obj := info.Uses[id]
		if obj == nil {
			obj = info.Defs[id]
		}
		v, ok := obj.(*types.Var)
		if !ok || v.IsField() {
			return false
		}
		return v.Pos() >= fi.Decl.Pos() && v.Pos() <= fi.Decl.End()
	}
	pure := true
	ast.Inspect(body, func(n ast.Node) bool {
		if !pure {
			return false
		}
		switch x := n.(type) {
		case *ast.AssignStmt:
			for _, l := range x.Lhs {
				if !local(l) {
					pure = false
				}
			}
		case *ast.IncDecStmt:
			if !local(x.X) {
				pure = false
			}
		case *ast.RangeStmt:
			if x.Tok == token.ASSIGN {
				if (x.Key != nil && !local(x.Key)) || (x.Value != nil && !local(x.Value)) {
					pure = false
				}
			}
		case *ast.GoStmt, *ast.DeferStmt, *ast.SendStmt, *ast.SelectStmt, *ast.FuncLit:
			pure = false
		case *ast.UnaryExpr:
			if x.Op == token.ARROW || x.Op == token.AND {
				pure = false
			}
		case *ast.CallExpr:
			if tv, ok := info.Types[x.Fun]; ok && tv.IsType() {
				return true
			}
			if id, ok := ast.Unparen(x.Fun).(*ast.Ident); ok {
				if b, ok := info.Uses[id].(*types.Builtin); ok {
					switch b.Name() {
					case "len", "cap", "min", "max", "make", "new", "panic":
						return true
					}
					pure = false
					return false
				}
			}
			var fn *types.Func
			switch f := ast.Unparen(x.Fun).(type) {
			case *ast.Ident:
				fn, _ = info.Uses[f].(*types.Func)
			case *ast.SelectorExpr:
				if sel, ok := info.Selections[f]; ok {
					if sel.Kind() == types.MethodVal {
						if _, isIface := sel.Recv().Underlying().(*types.Interface); !isIface {
							fn, _ = sel.Obj().(*types.Func)
						}
					}
				} else {
					fn, _ = info.Uses[f.Sel].(*types.Func)
				}
			}
			if fn == nil {
				pure = false
				return false
			}
			if isNoEffect(fn.FullName(), fn) || isPureLib(fn.FullName()) {
				return true
			}
			if p.InRepo(fn.Pkg()) {
				k := FuncKey(fn)
				if sp := p.Specs.Funcs[k]; sp != nil && (sp.Pure || (sp.Modifies != nil && len(sp.Modifies) == 0 && !sp.ModAll)) {
					return true
				}
				if p.autoPureLocked(k) {
					return true
				}
			}
			pure = false
			return false
		}
		return true
	})
	return pure
}
