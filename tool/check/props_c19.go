package check

func init() {
	register(&PropDef{
		ID:    "C19",
		Title: "The per-subscriber token bucket admits exactly the configured rate",
		// control plane (Go): the writer of the buckets the kernel programs enforce
		Pkgs:  []string{"./pkg/qos", "./pkg/radius"},
		Funcs: []string{"qos.Manager.SetSubscriberQoS", "qos.Manager.SetSubscriberPolicy", "qos.Manager.RemoveSubscriberQoS", "qos.ipToKey", "radius.PolicyManager.AddPolicy"},
		BPF: []BPFUnit{
			{"qos_ratelimit.c", "qos_egress_prog"}, {"qos_ratelimit.c", "qos_ingress_prog"},
		},
		// tb_contract: the compiled call implements the specified token-bucket step, one
		// contract per case (/verif/spec/bpf/token_bucket.vspec); tb_math: lemmas over
		// mathematical integers about that step, including "no intermediate product or sum
		// exceeds 64 bits" for every operation of the specification (generated, exact#k);
		// tb_two_packets(+_math): two consecutive calls on the same bucket
		// (/verif/spec/bpf/token_bucket_two_packets.vspec)
		BPFKinds: "tb_contract,tb_math,tb_two_packets,tb_two_packets_math",
		Undecided: []string{
			"window statements ('admitted bytes in any window W <= burst + rate*W', 'a backlogged subscriber gets >= rate*W - burst - one maximum packet'): they follow from the per-call lemmas by summing over the calls in the window (consumed intervals [last_update, last_update') are disjoint and lie inside the window; credited*1e9 <= consumed*rate; unconsumed time earns < 1 token; consumed time over-pays < 1 ns of rate per refill unless the bucket is full); the summation itself is an argument on paper, not an obligation",
			"two CPUs updating one bucket concurrently (the bucket is read-modify-written without atomics); the control-plane writer (pkg/qos SetSubscriberQoS / SetSubscriberPolicy) is under contract for what it hands to the kernel maps (one Put per loaded map, requested rates, full bucket, zero clock), but the kernel map contents themselves are outside the Go heap model: that a later Put for the same key replaces the earlier bucket, is not decided; RemoveSubscriberQoS is proved to delete the address's entry from every loaded map",
			"clock going backwards relative to last_update (scope assumes now >= last_update; the code then treats the wrapped difference as a long idle period and refills the bucket)",
			"rates of 1..7 bit/s earn no whole byte per second and are never refilled (documented behaviour of the repaired code: contract sub_byte_rate_never_refills)",
		},
		Assumptions: []string{
			"bucket invariant tokens <= burst_bytes at call entry (shown to be preserved by every call)",
			"bpf_ktime_get_ns returns an arbitrary 64-bit value; two-packet model: the second call runs on the bucket bytes the first call left, nothing else writes the bucket in between, 1 Mbit/s..10 Gbit/s in whole bytes/s, 64..1514-byte packets, burst >= 1514, at most 1 s between last_update and the second packet",
		},
		Explanation: "token_bucket_check is inlined into both TC programs; at each inlined call the specification (token_bucket.vspec) defines the token-bucket step as a function of the 32 bucket bytes before the call, the clock value read inside the call and the packet length: R = rate_bps/8; an idle time longer than burst*1e9/R fills the bucket and sets last_update = now; otherwise floor(elapsed*R/1e9) tokens are credited (capped at burst) and last_update advances by ceil(tokens*1e9/R), nothing happens when no whole token was earned; the packet is admitted iff tokens >= len. Bit-vector obligations on the compiled code (tb_contract): the call leaves exactly that state and verdict in each case (rate 0 untouched, sub-byte rates, idle refill, no whole token, credit), tokens' <= burst, configuration bytes unchanged. Lemmas over mathematical integers about the step (tb_math), generated from the same definitions: every +,*,-,div of the specification stays within 64 bits (so the bit-vector and the integer readings agree), tokens <= burst is preserved, last_update <= last_update' <= now, credited tokens * 1e9 <= consumed time * R (upper bound of the property), unconsumed time earns less than one token and consumed time over-pays less than one nanosecond of rate unless the bucket is full (lower bound / no starvation), and the two-packet instance. tb_two_packets executes the callee a second time on the state the first call left: if the first call credited nothing, no time was consumed and the second packet is admitted whenever everything earned since the last credited instant covers it. Failing bit-vector contracts are replayed by calling the real token_bucket_check natively on the model's bucket bytes and clock values.",
	})
}
