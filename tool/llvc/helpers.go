package llvc

import (
	"fmt"
	"path/filepath"
	"sort"
	"strings"

	"bngvc/smt"
)

// AssumedHelpers lists the contracts of the BPF helpers and compiler
// intrinsics that llvc ASSUMES (they are kernel code, not part of the
// verified text).  Evidence records should quote this list.
var AssumedHelpers = []string{
	"undef / poison pointer operands: invalid when used on their own path; where a phi merges one with a defined pointer the merged value is the defined one (a refinement LLVM is entitled to)",
	"bpf_map_lookup_elem(map, key): reads key_size bytes at key (in-bounds obligation on the caller); returns NULL or a pointer to a fresh region of exactly value_size bytes (sizes from the map definition's __type(key/value)); presence and contents are functions of (map version, key bytes); the map version is havocked by every update/delete on the map and by every store through a value pointer of the map; two successful lookups never alias (each returns its own region)",
	"bpf_map_update_elem(map, key, value, flags): reads key_size bytes at key and value_size bytes at value (obligations); arbitrary return value; contents of the map afterwards unconstrained; no effect on packet, stack or other map values already looked up",
	"bpf_map_delete_elem(map, key): reads key_size bytes at key (obligation); arbitrary return value; map contents afterwards unconstrained",
	"bpf_ktime_get_ns(): arbitrary u64 (no monotonicity assumed)",
	"bpf_ktime_get_boot_ns(), bpf_get_prandom_u32(), bpf_get_smp_processor_id(): arbitrary value",
	"bpf_xdp_adjust_tail(ctx, delta): returns 0 and data_end moves by delta with 0 <= new length <= 65535, bytes below min(old,new) length unchanged; or returns non-zero and nothing changes",
	"bpf_perf_event_output(ctx, map, flags, data, size): reads size bytes at data (obligation); arbitrary return value; no effect on packet or maps",
	"bpf_ringbuf_reserve(rb, size, flags): size must be a constant; returns NULL or a pointer to a fresh region of size bytes with arbitrary contents",
	"bpf_ringbuf_submit/discard(ptr, flags): no effect on packet, stack or maps",
	"bpf_ringbuf_output(rb, data, size, flags): reads size bytes at data (obligation); arbitrary return value",
	"bpf_skb_store_bytes(skb, off, from, len, flags): len constant; reads len bytes at from (obligation); returns 0 and packet bytes [off, off+len) become the bytes at from with off+len <= packet length, or returns non-zero and nothing changes",
	"bpf_l3_csum_replace / bpf_l4_csum_replace(skb, off, ...): returns 0 and the two packet bytes [off, off+2) take arbitrary values with off+2 <= packet length, or returns non-zero and nothing changes",
	"bpf_csum_diff(from, from_size, to, to_size, seed): reads from_size bytes at from and to_size bytes at to (obligations); arbitrary return value",
	"bpf_redirect / bpf_redirect_map / bpf_clone_redirect: arbitrary return value, no memory effect",
	"bpf_trace_printk(fmt, fmt_size, ...): reads fmt_size bytes at fmt (obligation); arbitrary return value",
	"llvm.memset/memcpy/memmove with constant length: byte-wise semantics with one in-bounds obligation per operand range; llvm.bswap/fshl/fshr/umin/umax/smin/smax/abs: bit-precise; llvm.lifetime.*, llvm.dbg.*, llvm.assume, llvm.expect: no effect (assume is NOT used as an assumption)",
	"context struct (struct xdp_md / struct __sk_buff): the 32-bit loads of ctx->data and ctx->data_end yield pointers to offset 0 and offset len of the packet region (BPF verifier rewrites them to the real 64-bit pointers); zero-extension keeps the provenance; other context fields are arbitrary values that persist until overwritten; stores to data/data_end and loads of data_meta are rejected",
	"packet: one region [data, data_end) of symbolic length 0..65535 with arbitrary initial bytes; regions (packet, ctx, each alloca, each map value, each ringbuf record, each global) are pairwise disjoint; numeric base addresses are arbitrary in [2^16, 2^47) (packet: [2^16, 2^31))",
}

func (e *executor) mapOfPtr(v *Val) (*MapInfo, error) {
	if !v.IsPtr || len(v.P.Cands) != 1 {
		return nil, unsupported("map argument is not a unique map definition")
	}
	r := e.regions[v.P.Cands[0]]
	if r.Kind != rkMapDef {
		return nil, unsupported("map argument does not point to a .maps global")
	}
	if c, ok := bvConst(v.P.Off); !ok || c != 0 {
		return nil, unsupported("map argument with offset")
	}
	return e.mod.Maps[r.Map], nil
}

// readBytes emits the in-bounds obligation for an n-byte read through p and
// returns the bytes as one bit-vector (little endian: byte 0 in the low bits).
func (e *executor) readBytes(fr *frame, st *State, in *Instr, what string, pv *Val, n int64) (smt.Term, []smt.Term, error) {
	if !pv.IsPtr {
		pv = e.intToPtr(pv)
	}
	e.oblige(fr, st, "inbounds", tagOf(in)+"."+what, e.boundsGoal(st, pv.P, n, false), in.Raw)
	var bytes []smt.Term
	var all smt.Term
	if n == 0 {
		return all, nil, nil
	}
	v, err := e.loadMem(st, pv.P, int(n))
	if err != nil {
		return smt.Term{}, nil, err
	}
	all = e.tm.let(what, e.bitsOf(v))
	for i := 0; i < int(n); i++ {
		bytes = append(bytes, e.tm.extract(all, 8*i+7, 8*i))
	}
	return all, bytes, nil
}

func (e *executor) execCall(fr *frame, st *State, in *Instr) error {
	name := in.Callee
	set := func(v *Val) {
		if in.Res != "" {
			st.regs[in.Res] = v
		}
	}
	var args []*Val
	evalArgs := func() error {
		for _, a := range in.Args {
			if a.Kind == VMeta {
				args = append(args, nil)
				continue
			}
			v, err := e.operand(st, a)
			if err != nil {
				return err
			}
			args = append(args, v)
		}
		return nil
	}
	retW := 0
	if in.Ty.Kind == TInt {
		retW = in.Ty.Bits
	}
	symRet := func(prefix string) *Val {
		if in.Ty.Kind == TVoid {
			return nil
		}
		v := e.fresh(prefix, retW)
		return v
	}
	if strings.HasPrefix(name, "llvm.") {
		switch {
		case strings.HasPrefix(name, "llvm.lifetime."), strings.HasPrefix(name, "llvm.dbg."), name == "llvm.assume",
			strings.HasPrefix(name, "llvm.experimental.noalias"), strings.HasPrefix(name, "llvm.invariant."):
			return nil
		}
		if err := evalArgs(); err != nil {
			return err
		}
		switch {
		case strings.HasPrefix(name, "llvm.expect."):
			set(args[0])
			return nil
		case strings.HasPrefix(name, "llvm.bswap."):
			a := args[0]
			n := a.W / 8
			parts := make([]smt.Term, n)
			for i := 0; i < n; i++ {
				parts[i] = e.tm.extract(a.T, 8*i+7, 8*i) // byte 0 becomes most significant
			}
			r := intVal(e.tm.let(in.Res, e.tm.concat(parts)), a.W)
			set(r)
			return nil
		case strings.HasPrefix(name, "llvm.fshl."), strings.HasPrefix(name, "llvm.fshr."):
			a, b, c := args[0], args[1], args[2]
			w := a.W
			sh := e.tm.binop("urem", c.T, lit(uint64(w), w))
			inv := e.tm.binop("sub", lit(uint64(w), w), sh)
			var t smt.Term
			if strings.HasPrefix(name, "llvm.fshl.") {
				t = smt.Ite(e.tm.icmp("eq", sh, lit(0, w)), a.T, e.tm.binop("or", e.tm.binop("shl", a.T, sh), e.tm.binop("lshr", b.T, inv)))
			} else {
				t = smt.Ite(e.tm.icmp("eq", sh, lit(0, w)), b.T, e.tm.binop("or", e.tm.binop("shl", a.T, inv), e.tm.binop("lshr", b.T, sh)))
			}
			set(intVal(e.tm.let(in.Res, t), w))
			return nil
		case strings.HasPrefix(name, "llvm.umin."), strings.HasPrefix(name, "llvm.umax."), strings.HasPrefix(name, "llvm.smin."), strings.HasPrefix(name, "llvm.smax."):
			a, b := args[0], args[1]
			pred := map[string]string{"umin": "ult", "umax": "ugt", "smin": "slt", "smax": "sgt"}[name[5:9]]
			set(intVal(e.tm.let(in.Res, smt.Ite(e.tm.icmp(pred, a.T, b.T), a.T, b.T)), a.W))
			return nil
		case strings.HasPrefix(name, "llvm.abs."):
			a := args[0]
			set(intVal(e.tm.let(in.Res, smt.Ite(e.tm.icmp("slt", a.T, lit(0, a.W)), e.tm.binop("sub", lit(0, a.W), a.T), a.T)), a.W))
			return nil
		case strings.HasPrefix(name, "llvm.memset."):
			dst, val, ln := args[0], args[1], args[2]
			n, ok := bvConst(ln.T)
			if !ok {
				return unsupported("memset with variable length")
			}
			if n > 4096 {
				return unsupported("memset of %d bytes", n)
			}
			if v, ok := bvConst(args[3].T); ok && v != 0 {
				e.note("volatile memset treated as ordinary memset")
			}
			if n == 0 {
				return nil
			}
			if !dst.IsPtr {
				dst = e.intToPtr(dst)
			}
			e.oblige(fr, st, "inbounds", tagOf(in), e.boundsGoal(st, dst.P, int64(n), true), in.Raw)
			bv := intVal(val.T, 8)
			e.rangeEvent(st, dst.P, int(n))
			e.noStoreEvents = true
			defer func() { e.noStoreEvents = false }()
			for i := uint64(0); i < n; i++ {
				p := &Ptr{Reg: dst.P.Reg, Off: e.tm.addConst(dst.P.Off, i), OffUB: satAdd(dst.P.OffUB, i), Cands: dst.P.Cands}
				if err := e.storeMem(st, p, bv); err != nil {
					return err
				}
			}
			return nil
		case strings.HasPrefix(name, "llvm.memcpy."), strings.HasPrefix(name, "llvm.memmove."):
			dst, src, ln := args[0], args[1], args[2]
			n, ok := bvConst(ln.T)
			if !ok {
				return unsupported("memcpy with variable length")
			}
			if n > 4096 {
				return unsupported("memcpy of %d bytes", n)
			}
			if n == 0 {
				return nil
			}
			if !dst.IsPtr {
				dst = e.intToPtr(dst)
			}
			if !src.IsPtr {
				src = e.intToPtr(src)
			}
			e.oblige(fr, st, "inbounds", tagOf(in)+".src", e.boundsGoal(st, src.P, int64(n), false), in.Raw)
			e.oblige(fr, st, "inbounds", tagOf(in)+".dst", e.boundsGoal(st, dst.P, int64(n), true), in.Raw)
			// copy in the widest chunks that keep stored pointers intact
			var vals []*Val
			var offs []uint64
			for i := uint64(0); i < n; {
				ch := uint64(1)
				if n-i >= 8 {
					ch = 8
				}
				p := &Ptr{Reg: src.P.Reg, Off: e.tm.addConst(src.P.Off, i), OffUB: satAdd(src.P.OffUB, i), Cands: src.P.Cands}
				v, err := e.loadMem(st, p, int(ch))
				if err != nil {
					return err
				}
				vals = append(vals, v)
				offs = append(offs, i)
				i += ch
			}
			e.rangeEvent(st, dst.P, int(n))
			e.noStoreEvents = true
			defer func() { e.noStoreEvents = false }()
			for k, v := range vals {
				p := &Ptr{Reg: dst.P.Reg, Off: e.tm.addConst(dst.P.Off, offs[k]), OffUB: satAdd(dst.P.OffUB, offs[k]), Cands: dst.P.Cands}
				if err := e.storeMem(st, p, v); err != nil {
					return err
				}
			}
			return nil
		}
		return unsupported("intrinsic %s", name)
	}
	if err := evalArgs(); err != nil {
		return err
	}
	// defined function: inline at the call site
	if f, ok := e.mod.Funcs[name]; ok && !f.Decl {
		ord := e.siteOrdOf(fr.f, in)
		path := fmt.Sprintf("%s%s#%d/", fr.path, name, ord)
		savedCur, savedIters := fr.cur, fr.iters
		if len(fr.iters) > 0 {
			var s []string
			for _, i := range fr.iters {
				s = append(s, fmt.Sprint(i))
			}
			path = fmt.Sprintf("%s%s#%d@it%s/", fr.path, name, ord, strings.Join(s, "."))
		}
		hooks := e.callHooks(name)
		var pre *State
		callsStart := len(e.probes.calls)
		if len(hooks) > 0 && e.mute == 0 {
			pre = st.clone()
		}
		rv, out, err := e.execFunc(f, args, st, path, false)
		if err != nil {
			return err
		}
		fr.cur, fr.iters = savedCur, savedIters
		*st = *out
		if in.Res != "" {
			if rv == nil {
				if !st.pc.IsFalse() {
					return fmt.Errorf("call of %s produced no value", name)
				}
				rv = constVal(0, maxInt(retW, 1))
			}
			st.regs[in.Res] = rv
		}
		if pre != nil && !st.pc.IsFalse() {
			for _, ref := range hooks {
				if err := e.callSpec(fr, f, st, pre, args, rv, callsStart, ref, path, fmt.Sprintf("%s#%d", name, ord)); err != nil {
					return err
				}
			}
		}
		return nil
	}
	e.res.HelpersUsed[name] = true
	cp := callProbe{kind: name, pc: st.pc, desc: e.descr(fr, tagOf(in)), ghost: e.ghost > 0}
	switch name {
	case "bpf_map_lookup_elem":
		mi, err := e.mapOfPtr(args[0])
		if err != nil {
			return err
		}
		if mi.KeySize < 0 {
			return unsupported("lookup in map %s without key/value types", mi.Name)
		}
		key, _, err := e.readBytes(fr, st, in, "key", args[1], mi.KeySize)
		if err != nil {
			return err
		}
		ver := st.mapVer[mi.Name]
		inst := e.mapInstance(mi, ver, key)
		found := inst.present
		r := e.newRegion(rkMapVal, fmt.Sprintf("%s_%d", mi.Name, len(e.probes.calls)), mi.ValueSize)
		r.Map = mi.Name
		// contents: byte k of the value is byte k of the instance's value constant;
		// the base array only backs accesses at variable offsets, and every
		// in-bounds offset is covered by the byte overlay
		r.init = &RegMem{Base: r.init.Base, Ov: make(map[int64]Byte, mi.ValueSize)}
		for i := int64(0); i < mi.ValueSize; i++ {
			r.init.Ov[i] = Byte{V: intVal(inst.bytes[i], 8)}
		}
		set(e.mergeVal(found, e.ptrTo(r, 0), e.nullPtr()))
		old, ok := st.found[mi.Name]
		if !ok {
			old = smt.False
		}
		st.found[mi.Name] = e.tm.named("everfound_"+mi.Name, smt.Or(old, found))
		cp.mapName, cp.key, cp.keySize, cp.found, cp.valSize = mi.Name, key, int(mi.KeySize), found, int(mi.ValueSize)
		for i := int64(0); i < mi.ValueSize; i++ {
			cp.valBytes = append(cp.valBytes, r.init.Ov[i].V.T)
		}
	case "bpf_map_update_elem":
		mi, err := e.mapOfPtr(args[0])
		if err != nil {
			return err
		}
		if mi.KeySize < 0 {
			return unsupported("update of map %s without key/value types", mi.Name)
		}
		key, _, err := e.readBytes(fr, st, in, "key", args[1], mi.KeySize)
		if err != nil {
			return err
		}
		if _, _, err := e.readBytes(fr, st, in, "value", args[2], mi.ValueSize); err != nil {
			return err
		}
		e.bumpMap(st, mi.Name)
		rv := symRet("map_update_ret")
		set(rv)
		cp.mapName, cp.key, cp.keySize, cp.ret = mi.Name, key, int(mi.KeySize), rv.T
	case "bpf_map_delete_elem":
		mi, err := e.mapOfPtr(args[0])
		if err != nil {
			return err
		}
		if mi.KeySize < 0 {
			return unsupported("delete in map %s without key/value types", mi.Name)
		}
		key, _, err := e.readBytes(fr, st, in, "key", args[1], mi.KeySize)
		if err != nil {
			return err
		}
		e.bumpMap(st, mi.Name)
		rv := symRet("map_delete_ret")
		set(rv)
		cp.mapName, cp.key, cp.keySize, cp.ret = mi.Name, key, int(mi.KeySize), rv.T
	case "bpf_ktime_get_ns", "bpf_ktime_get_boot_ns", "bpf_get_prandom_u32", "bpf_get_smp_processor_id":
		rv := symRet(strings.TrimPrefix(name, "bpf_"))
		set(rv)
		cp.ret = rv.T
	case "bpf_redirect", "bpf_redirect_map", "bpf_clone_redirect":
		rv := symRet(strings.TrimPrefix(name, "bpf_") + "_ret")
		set(rv)
		cp.ret = rv.T
	case "bpf_xdp_adjust_tail":
		if e.ctxStruct != "xdp_md" {
			return unsupported("bpf_xdp_adjust_tail in a non-XDP program")
		}
		if !args[0].IsPtr || len(args[0].P.Cands) != 1 || args[0].P.Cands[0] != ridCtx {
			return unsupported("bpf_xdp_adjust_tail: first argument is not the context")
		}
		rv := symRet("adjust_tail_ret")
		ok := e.tm.icmp("eq", rv.T, lit(0, rv.W))
		delta := e.tm.sext(args[1].T, args[1].W, 64)
		nl := e.tm.let("newlen", e.tm.add(st.pktLen, delta))
		e.tm.axiom("adjust_tail:"+rv.T.S, smt.Implies(ok, smt.And(e.tm.icmp("sge", nl, lit(0, 64)), e.tm.icmp("sle", nl, lit(65535, 64)))), rv.T.S)
		st.pktLen = e.tm.named("pktlen", smt.Ite(ok, nl, st.pktLen))
		set(rv)
		cp.ret = rv.T
		cp.aux = args[1].T
	case "bpf_xdp_adjust_head":
		return unsupported("bpf_xdp_adjust_head is not modelled")
	case "bpf_perf_event_output", "bpf_ringbuf_output":
		di, si := 3, 4
		if name == "bpf_ringbuf_output" {
			di, si = 1, 2
		}
		data, size := args[di], args[si]
		if !data.IsPtr {
			data = e.intToPtr(data)
		}
		if n, ok := bvConst(size.T); ok {
			e.oblige(fr, st, "inbounds", tagOf(in)+".data", e.boundsGoal(st, data.P, int64(n), false), in.Raw)
		} else {
			e.oblige(fr, st, "inbounds", tagOf(in)+".data", e.boundsGoalSym(st, data.P, e.tm.zext(size.T, size.W, 64)), in.Raw)
		}
		rv := symRet(strings.TrimPrefix(name, "bpf_") + "_ret")
		set(rv)
		cp.ret = rv.T
	case "bpf_ringbuf_reserve":
		n, ok := bvConst(args[1].T)
		if !ok {
			return unsupported("bpf_ringbuf_reserve with variable size")
		}
		got := e.tm.freshConst("ringbuf_reserved", smt.Bool)
		r := e.newRegion(rkRingbuf, fmt.Sprintf("ringbuf_%d", len(e.probes.calls)), int64(n))
		set(e.mergeVal(got, e.ptrTo(r, 0), e.nullPtr()))
		cp.found = got
	case "bpf_ringbuf_submit", "bpf_ringbuf_discard":
		// the record must come from bpf_ringbuf_reserve (and not be NULL)
		a := args[0]
		if !a.IsPtr {
			a = e.intToPtr(a)
		}
		var alts []smt.Term
		for _, id := range a.P.Cands {
			if e.regions[id].Kind == rkRingbuf {
				if len(a.P.Cands) == 1 {
					alts = append(alts, smt.True)
				} else {
					alts = append(alts, smt.Eq(a.P.Reg, regLit(id)))
				}
			}
		}
		e.oblige(fr, st, "helperarg", tagOf(in), smt.And(smt.Or(alts...), e.tm.icmp("eq", a.P.Off, lit(0, 64))), in.Raw)
	case "bpf_skb_store_bytes":
		n, ok := bvConst(args[3].T)
		if !ok || n > 256 {
			return unsupported("bpf_skb_store_bytes with variable or large length")
		}
		_, bytes, err := e.readBytes(fr, st, in, "from", args[2], int64(n))
		if err != nil {
			return err
		}
		rv := symRet("skb_store_bytes_ret")
		ok0 := e.tm.icmp("eq", rv.T, lit(0, rv.W))
		off := e.tm.zext(args[1].T, args[1].W, 64)
		e.tm.axiom("store_bytes:"+rv.T.S, smt.Implies(ok0, e.tm.icmp("ule", e.tm.addConst(off, n), st.pktLen)), rv.T.S)
		e.pktOpaque = true
		old := e.flush(st.regMem(e, ridPacket))
		arr := old.Base
		for i, b := range bytes {
			arr = smt.Store(arr, e.tm.addConst(off, uint64(i)), b)
		}
		st.mem[ridPacket] = &RegMem{Base: e.tm.named("mem", smt.Ite(ok0, arr, old.Base)), Ov: map[int64]Byte{}}
		set(rv)
		cp.ret = rv.T
	case "bpf_l3_csum_replace", "bpf_l4_csum_replace":
		rv := symRet("csum_replace_ret")
		ok0 := e.tm.icmp("eq", rv.T, lit(0, rv.W))
		off := e.tm.zext(args[1].T, args[1].W, 64)
		e.tm.axiom("csum_replace:"+rv.T.S, smt.Implies(ok0, e.tm.icmp("ule", e.tm.addConst(off, 2), st.pktLen)), rv.T.S)
		e.pktOpaque = true
		old := e.flush(st.regMem(e, ridPacket))
		arr := smt.Store(smt.Store(old.Base, off, e.fresh("csum_b0", 8).T), e.tm.addConst(off, 1), e.fresh("csum_b1", 8).T)
		st.mem[ridPacket] = &RegMem{Base: e.tm.named("mem", smt.Ite(ok0, arr, old.Base)), Ov: map[int64]Byte{}}
		set(rv)
		cp.ret = rv.T
	case "bpf_csum_diff":
		for _, pr := range [][2]int{{0, 1}, {2, 3}} {
			pv, sz := args[pr[0]], args[pr[1]]
			if !pv.IsPtr {
				pv = e.intToPtr(pv)
			}
			if c, ok := bvConst(sz.T); ok && c == 0 {
				continue
			}
			e.oblige(fr, st, "inbounds", fmt.Sprintf("%s.arg%d", tagOf(in), pr[0]), e.boundsGoalSym(st, pv.P, e.tm.zext(sz.T, sz.W, 64)), in.Raw)
		}
		rv := symRet("csum_diff")
		set(rv)
		cp.ret = rv.T
	case "bpf_trace_printk":
		if n, ok := bvConst(args[1].T); ok {
			pv := args[0]
			if !pv.IsPtr {
				pv = e.intToPtr(pv)
			}
			e.oblige(fr, st, "inbounds", tagOf(in)+".fmt", e.boundsGoal(st, pv.P, int64(n), false), in.Raw)
		} else {
			return unsupported("bpf_trace_printk with variable format size")
		}
		rv := symRet("trace_printk_ret")
		set(rv)
		cp.ret = rv.T
	default:
		return unsupported("call of external function %s without a helper contract", name)
	}
	e.probes.calls = append(e.probes.calls, cp)
	return nil
}

func maxInt(a, b int) int {
	if a > b {
		return a
	}
	return b
}

// siteOrdOf returns the ordinal of call instruction in among the calls to
// the same callee in f (static order).
func (e *executor) siteOrdOf(f *Function, in *Instr) int {
	if n, ok := e.siteOrd[in]; ok {
		return n
	}
	cnt := map[string]int{}
	for _, b := range f.Blocks {
		for _, x := range b.Instrs {
			if x.Op == "call" {
				e.siteOrd[x] = cnt[x.Callee]
				cnt[x.Callee]++
			}
		}
	}
	return e.siteOrd[in]
}

// rangeEvent records a multi-byte packet write (memset/memcpy) as one store
// event without tracked value.
func (e *executor) rangeEvent(st *State, p *Ptr, n int) {
	for _, id := range p.Cands {
		if id == ridPacket {
			pc := st.pc
			if len(p.Cands) > 1 {
				pc = smt.And(pc, smt.Eq(p.Reg, regLit(id)))
			}
			e.recordPktStore(st, pc, p.Off, n, nil)
		}
	}
}

// callHooks returns the functional specifications attached to calls of fn
// that belong to this run.
func (e *executor) callHooks(fn string) []FunctionalRef {
	var out []FunctionalRef
	for _, ref := range e.res.Spec.Functional {
		if ref.Hook != "call:"+fn && ref.Hook != "call2:"+fn {
			continue
		}
		if e.opts.AllFunctional || ref.Property == e.opts.Property {
			out = append(out, ref)
		}
	}
	return out
}

// callSpec generates the contract obligations of one inlined call.  For a
// "call2:" hook the callee is executed a second time on the state the first
// call left (same pointer arguments, fresh integer arguments arg<i>b, fresh
// helper results), without recording obligations of its own: the
// specification then relates two consecutive calls on the same memory.
func (e *executor) callSpec(fr *frame, f *Function, post, pre *State, args []*Val, rv *Val, callsStart int, ref FunctionalRef, path, tag string) error {
	extra := map[string]vsVal{}
	probes := []NamedTerm{}
	for i, a := range args {
		if !a.IsPtr && a.W > 1 {
			extra[fmt.Sprintf("arg%d", i)] = mkv(a.T, a.W)
		}
	}
	if rv != nil && !rv.IsPtr && rv.W > 1 {
		extra["ret"] = mkv(rv.T, rv.W)
	}
	hook := &hookCtx{pre: pre, post: post, args: args}
	obligeAt := post
	if strings.HasPrefix(ref.Hook, "call2:") {
		st2 := post.clone()
		args2 := make([]*Val, len(args))
		for i, a := range args {
			args2[i] = a
			if !a.IsPtr && a.W > 1 {
				args2[i] = e.fresh(fmt.Sprintf("%s_arg%db", smt.Sanitize(f.Name), i), a.W)
				extra[fmt.Sprintf("arg%db", i)] = mkv(args2[i].T, a.W)
			}
		}
		e.mute++
		e.ghost++
		savedCur, savedIters := fr.cur, fr.iters
		rv2, out2, err := e.execFunc(f, args2, st2, path+"second/", false)
		fr.cur, fr.iters = savedCur, savedIters
		e.mute--
		e.ghost--
		if err != nil {
			return err
		}
		if out2.pc.IsFalse() {
			return nil
		}
		if rv2 != nil && !rv2.IsPtr && rv2.W > 1 {
			extra["ret2"] = mkv(rv2.T, rv2.W)
		}
		hook.post2 = out2
		out2.facts = post.facts
		obligeAt = out2
	}
	hook.calls = e.probes.calls[callsStart:]
	fs, err := e.loadFuncSpec(ref.File, extra, hook)
	if err != nil {
		return err
	}
	for k, v := range extra {
		probes = append(probes, NamedTerm{k, v.t, v.w})
	}
	sort.Slice(probes, func(i, j int) bool { return probes[i].Name < probes[j].Name })
	probes = append(probes, NamedTerm{"spec_scope", fs.Scope, 0})
	probes = append(probes, fs.Defines...)
	// bytes of the objects behind pointer arguments before/after the call(s), for the native replay
	cr := &callReplay{fn: f.Name, twice: hook.post2 != nil}
	for i, a := range args {
		ca := callArg{w: a.W}
		if a.IsPtr {
			ca.ptr = true
			us := e.usableCands(a.P)
			off, isConst := bvConst(a.P.Off)
			if len(us) == 1 && isConst && e.regions[us[0]].Kind != rkPacket && e.regions[us[0]].Size <= 512 && int64(off) <= e.regions[us[0]].Size {
				ca.size = int(e.regions[us[0]].Size - int64(off))
				for _, ph := range []struct {
					tag string
					st  *State
				}{{"pre", pre}, {"post", post}, {"post2", hook.post2}} {
					if ph.st == nil {
						continue
					}
					for k := 0; k < ca.size; k++ {
						p := &Ptr{Reg: a.P.Reg, Off: e.tm.addConst(a.P.Off, uint64(k)), OffUB: satAdd(a.P.OffUB, uint64(k)), Cands: a.P.Cands}
						bv, err := e.loadMem(ph.st, p, 1)
						if err != nil {
							return err
						}
						probes = append(probes, NamedTerm{fmt.Sprintf("__%s_arg%d_%d", ph.tag, i, k), e.bitsOf(bv), 8})
					}
				}
			}
		}
		cr.args = append(cr.args, ca)
	}
	if rv != nil {
		cr.retW = rv.W
	}
	// ids of call-hook obligations: call path + callee#ordinal (source order) + contract
	// name; no LLVM block label, so that editing the function does not rename them
	savedCur := fr.cur
	fr.cur = nil
	defer func() { fr.cur = savedCur }()
	e.mathObligations(fr, ref, fs, fr.path+tag+":")
	for _, c := range fs.Contracts {
		cl := *obligeAt // contracts are independent claims
		if o := e.oblige(fr, &cl, ref.Kind, tag+":"+c.Name, smt.Implies(fs.Scope, c.T), "contract "+c.Name+" of "+f.Name+" ("+filepath.Base(fs.File)+")"); o != nil {
			o.probes = probes
			o.callReplay = cr
		}
	}
	return nil
}

// mapInst is one (map version, key) pair whose entry the run talks about:
// presence and value bytes are fresh constants, and instances of the same map
// version are tied together by "equal keys, equal entry" (Ackermann's
// reduction of the ghost functions present(key) / value(key), done explicitly
// so that the queries contain no uninterpreted functions).
type mapInst struct {
	key     smt.Term
	present smt.Term
	value   smt.Term   // BV(8*value_size), byte 0 in the low bits
	bytes   []smt.Term // named byte terms
}

func (e *executor) mapInstance(mi *MapInfo, ver int, key smt.Term) *mapInst {
	mk := fmt.Sprintf("%s#%d", mi.Name, ver)
	for _, in := range e.mapInsts[mk] {
		if in.key.S == key.S {
			return in
		}
	}
	n := len(e.mapInsts[mk])
	base := fmt.Sprintf("map_%s_v%d_k%d", smt.Sanitize(mi.Name), ver, n)
	in := &mapInst{key: key,
		present: e.tm.declConst(base+"_present", smt.Bool),
		value:   e.tm.declConst(base+"_value", smt.BV(int(8*mi.ValueSize)))}
	for i := int64(0); i < mi.ValueSize; i++ {
		in.bytes = append(in.bytes, e.tm.named("ld", e.tm.extract(in.value, int(8*i+7), int(8*i))))
	}
	for j, old := range e.mapInsts[mk] {
		ax := smt.Implies(smt.Eq(key, old.key), smt.And(smt.Eq(in.present, old.present), smt.Eq(in.value, old.value)))
		for _, k := range []string{in.present.S, in.value.S} {
			e.tm.axiom(fmt.Sprintf("mapinst:%s:%d:%d:%s", mk, n, j, k), ax, k)
		}
	}
	e.mapInsts[mk] = append(e.mapInsts[mk], in)
	return in
}
