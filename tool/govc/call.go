package govc

import (
	"go/ast"
	"go/token"
	"go/types"
	"strings"

	"bngvc/smt"
)

// staticCallee returns the statically known callee of a call, or nil.
func (fv *funcVerifier) staticCallee(call *ast.CallExpr) *types.Func {
	switch f := ast.Unparen(call.Fun).(type) {
	case *ast.Ident:
		if fn, ok := fv.info.Uses[f].(*types.Func); ok {
			return fn
		}
	case *ast.SelectorExpr:
		if sel, ok := fv.info.Selections[f]; ok {
			if sel.Kind() == types.MethodVal {
				if fn, ok := sel.Obj().(*types.Func); ok {
					if _, isIface := sel.Recv().Underlying().(*types.Interface); isIface {
						return nil
					}
					return fn
				}
			}
			if sel.Kind() == types.MethodExpr {
				if fn, ok := sel.Obj().(*types.Func); ok {
					return fn
				}
			}
			return nil
		}
		if fn, ok := fv.info.Uses[f.Sel].(*types.Func); ok {
			return fn
		}
	case *ast.IndexExpr:
		if id, ok := f.X.(*ast.Ident); ok {
			if fn, ok := fv.info.Uses[id].(*types.Func); ok {
				return fn
			}
		}
	}
	return nil
}

// ifaceMethod returns the interface method called, if any.
func (fv *funcVerifier) ifaceMethod(call *ast.CallExpr) *types.Func {
	if f, ok := ast.Unparen(call.Fun).(*ast.SelectorExpr); ok {
		if sel, ok := fv.info.Selections[f]; ok && sel.Kind() == types.MethodVal {
			if _, isIface := sel.Recv().Underlying().(*types.Interface); isIface {
				fn, _ := sel.Obj().(*types.Func)
				return fn
			}
		}
	}
	return nil
}

func (fv *funcVerifier) resultTypes(call *ast.CallExpr) []types.Type {
	t := fv.typeOf(call)
	if tup, ok := t.(*types.Tuple); ok {
		var ts []types.Type
		for i := 0; i < tup.Len(); i++ {
			ts = append(ts, tup.At(i).Type())
		}
		return ts
	}
	if t == nil || t == types.Typ[types.Invalid] {
		return nil
	}
	if b, ok := t.(*types.Basic); ok && b.Kind() == types.Invalid {
		return nil
	}
	if tup, ok := t.(*types.Tuple); ok && tup.Len() == 0 {
		return nil
	}
	return []types.Type{t}
}

func (fv *funcVerifier) freshResults(st *State, call *ast.CallExpr, hint string) []smt.Term {
	var out []smt.Term
	for _, t := range fv.resultTypes(call) {
		out = append(out, fv.fresh(st, "res_"+hint, t))
	}
	return out
}

// evalArgs evaluates call arguments, coercing them to the parameter types.
func (fv *funcVerifier) evalArgs(st *State, call *ast.CallExpr, sig *types.Signature) []smt.Term {
	var out []smt.Term
	if len(call.Args) == 1 && sig != nil && sig.Params().Len() > 1 {
		if _, isCall := ast.Unparen(call.Args[0]).(*ast.CallExpr); isCall {
			vals, _ := fv.evalTuple(st, call.Args[0], sig.Params().Len())
			return vals
		}
	}
	np := 0
	if sig != nil {
		np = sig.Params().Len()
	}
	for i, a := range call.Args {
		v := fv.evalExpr(st, a)
		if sig != nil {
			var pt types.Type
			if sig.Variadic() && i >= np-1 {
				if call.Ellipsis.IsValid() {
					pt = sig.Params().At(np - 1).Type()
				} else {
					pt = sig.Params().At(np - 1).Type().(*types.Slice).Elem()
				}
			} else if i < np {
				pt = sig.Params().At(i).Type()
			}
			if pt != nil {
				if _, isTP := pt.(*types.TypeParam); !isTP {
					v = fv.coerce(st, v, fv.typeOf(a), pt)
				}
			}
		}
		out = append(out, v)
	}
	return out
}

// evalRecv evaluates the receiver operand of a method call; returns the
// receiver value matching the method's receiver type.
func (fv *funcVerifier) evalRecv(st *State, call *ast.CallExpr, fn *types.Func) (smt.Term, bool) {
	sel, ok := ast.Unparen(call.Fun).(*ast.SelectorExpr)
	if !ok {
		return smt.Term{}, false
	}
	s, ok := fv.info.Selections[sel]
	if !ok {
		return smt.Term{}, false
	}
	sig := fn.Type().(*types.Signature)
	if sig.Recv() == nil {
		return smt.Term{}, false
	}
	_, wantPtr := sig.Recv().Type().Underlying().(*types.Pointer)
	// walk embedded path except the last (method) index
	xt := fv.typeOf(sel.X)
	path := s.Index()
	if len(path) > 1 {
		// promoted method through embedded fields: abstract the receiver
		fv.evalExpr(st, sel.X)
		fv.note("method %s promoted through embedding: receiver abstracted", fn.Name())
		return fv.freshNonNilIfPtr(st, "embrecv", sig.Recv().Type()), true
	}
	_, havePtr := xt.Underlying().(*types.Pointer)
	switch {
	case wantPtr && havePtr, !wantPtr && !havePtr:
		return fv.evalExpr(st, sel.X), true
	case !wantPtr && havePtr:
		p := fv.evalExpr(st, sel.X)
		fv.nilCheck(st, p, sel.X, sel.Pos())
		return fv.loadAt(st, p, xt.Underlying().(*types.Pointer).Elem()), true
	default: // wantPtr && !havePtr: address of addressable operand
		inner := ast.Unparen(sel.X)
		if id, ok := inner.(*ast.Ident); ok {
			if v, ok := fv.info.Uses[id].(*types.Var); ok && fv.boxed[v] {
				if r, ok := st.vars[v]; ok {
					return r, true
				}
			}
		}
		// field of a struct reached through a pointer (e.g. s.mu.Lock()): the
		// address is identified by (owner ref, field); callers of lock models use
		// lockIdent instead. Generic case: abstract pointer.
		if isel, ok := inner.(*ast.SelectorExpr); ok {
			if _, isField := fv.info.Selections[isel]; isField {
				fv.selectLval(st, isel) // nil checks
			}
		}
		return fv.freshNonNil(st, "recvaddr", sig.Recv().Type()), true
	}
}

func (fv *funcVerifier) evalCall(st *State, call *ast.CallExpr) []smt.Term {
	if st.dead() {
		return fv.freshResults(st, call, "dead")
	}
	// conversion
	if tv, ok := fv.info.Types[call.Fun]; ok && tv.IsType() {
		return []smt.Term{fv.evalConversion(st, call, tv.Type)}
	}
	// builtin
	if id, ok := ast.Unparen(call.Fun).(*ast.Ident); ok {
		if b, ok := fv.info.Uses[id].(*types.Builtin); ok {
			return fv.evalBuiltin(st, call, b.Name())
		}
	}
	// immediately invoked function literal
	if lit, ok := ast.Unparen(call.Fun).(*ast.FuncLit); ok {
		_ = lit
		for _, a := range call.Args {
			fv.evalExpr(st, a)
		}
		fv.note("immediately-invoked function literal: effects havocked")
		fv.havocAll(st)
		return fv.freshResults(st, call, "iife")
	}
	fn := fv.staticCallee(call)
	if fn != nil && fv.isMethodExpr(call) {
		// T.Method(recv, args...): evaluated generically
		for _, a := range call.Args {
			fv.evalExpr(st, a)
		}
		if !isNoEffect(fn.FullName(), fn) {
			fv.note("method expression call %s: heap havocked", fn.FullName())
			fv.havocAll(st)
		}
		return fv.freshResults(st, call, fn.Name())
	}
	if fn != nil {
		full := fn.FullName()
		if h, ok := libModels[full]; ok {
			return h(fv, st, call, fn)
		}
		if h := layehModel(fn); h != nil {
			return h(fv, st, call, fn)
		}
		sig := fn.Type().(*types.Signature)
		if isNoEffect(full, fn) {
			fv.evalCallee(st, call.Fun)
			fv.evalArgs(st, call, sig)
			return fv.freshResults(st, call, fn.Name())
		}
		if fv.prog.InRepo(fn.Pkg()) {
			return fv.callRepo(st, call, fn)
		}
		if res, ok := fv.callSiteSpec(st, call, fn); ok {
			return res
		}
		// external function without a model
		var recvT smt.Term
		_ = recvT
		if sig.Recv() != nil {
			fv.evalRecv(st, call, fn)
		}
		fv.evalArgs(st, call, sig)
		fv.note("external call %s: assumed not to panic; slice memory and pointees havocked", full)
		fv.havocExternal(st, call, sig)
		return fv.freshResults(st, call, fn.Name())
	}
	if im := fv.ifaceMethod(call); im != nil {
		sel := ast.Unparen(call.Fun).(*ast.SelectorExpr)
		rv := fv.evalExpr(st, sel.X)
		if fv.opt.NoPanic {
			// calling a method on a nil interface panics
			fv.assert(st, "nopanic", "niliface:"+fv.exprStr(sel.X), sel.Pos(), smt.Ne(rv, smt.IntLit(0)))
		}
		sig := im.Type().(*types.Signature)
		args := fv.evalArgs(st, call, sig)
		if h, ok := ifaceModels[im.FullName()]; ok {
			return h(fv, st, call, im, rv, args)
		}
		if isNoEffect(im.FullName(), im) {
			return fv.freshResults(st, call, im.Name())
		}
		if res, ok := fv.callIfaceSpec(st, call, im, rv, args); ok {
			return res
		}
		fv.note("interface call %s: assumed not to panic; heap havocked", im.FullName())
		fv.havocAll(st)
		return fv.freshResults(st, call, im.Name())
	}
	// function value
	if n, ok := fv.typeOf(call.Fun).(*types.Named); ok && n.Obj().Pkg() != nil && n.Obj().Pkg().Path() == "context" && n.Obj().Name() == "CancelFunc" {
		fv.evalExpr(st, call.Fun)
		return nil // context.CancelFunc: no effect on modelled state, never nil when obtained from context.With*
	}
	fvv := fv.evalExpr(st, call.Fun)
	if fv.opt.NoPanic {
		fv.assert(st, "nopanic", "nilfunc:"+fv.exprStr(call.Fun), call.Pos(), smt.Ne(fvv, smt.IntLit(0)))
	}
	var sig *types.Signature
	if s, ok := fv.typeOf(call.Fun).Underlying().(*types.Signature); ok {
		sig = s
	}
	args := fv.evalArgs(st, call, sig)
	if res, ok := fv.callFuncValueSpec(st, call, args); ok {
		return res
	}
	if n, ok := fv.typeOf(call.Fun).(*types.Named); ok && n.Obj().Pkg() != nil && n.Obj().Pkg().Path() == "context" && n.Obj().Name() == "CancelFunc" {
		return fv.freshResults(st, call, "cancel")
	}
	fv.note("call through function value %s: assumed not to panic; heap havocked", fv.exprStr(call.Fun))
	fv.havocAll(st)
	return fv.freshResults(st, call, "fval")
}

// havocExternal forgets memory an external callee could write.
func (fv *funcVerifier) havocExternal(st *State, call *ast.CallExpr, sig *types.Signature) {
	all := false
	for _, a := range call.Args {
		t := fv.typeOf(a)
		switch u := t.Underlying().(type) {
		case *types.Signature, *types.Interface:
			_ = u
			if !isNilType(t) {
				all = true
			}
		case *types.Pointer:
			if n, ok := u.Elem().(*types.Named); ok && fv.prog.InRepo(n.Obj().Pkg()) {
				all = true
			}
		}
	}
	if all {
		fv.havocAll(st)
		return
	}
	var keys []string
	for k := range fv.heapSorts {
		if strings.HasPrefix(k, "mem:") || strings.HasPrefix(k, "ptr:") {
			keys = append(keys, k)
		}
	}
	fv.mut++
	fv.havocKeys(st, keys)
}

func (fv *funcVerifier) evalConversion(st *State, call *ast.CallExpr, to types.Type) smt.Term {
	arg := call.Args[0]
	from := fv.typeOf(arg)
	v := fv.evalExpr(st, arg)
	switch {
	case isInteger(to) && isInteger(from):
		flo, fhi, ok1 := intRange(from)
		tlo, thi, ok2 := intRange(to)
		if ok1 && ok2 && flo.Cmp(tlo) >= 0 && fhi.Cmp(thi) <= 0 {
			return v
		}
		return fv.wrap(v, to)
	case isInteger(to) && isFloat(from):
		fv.note("float to integer conversion: result unconstrained within the type")
		return fv.fresh(st, "f2i", to)
	case isFloat(to) && isInteger(from):
		return smt.App("Real", "to_real", v)
	case isFloat(to) && isFloat(from):
		return v
	case isString(to):
		if isString(from) {
			return v
		}
		if sl, ok := from.Underlying().(*types.Slice); ok {
			_ = sl
			fv.c.DeclareFun("str_of", []string{smt.Arr(smt.Int, smt.Int), smt.Int, smt.Int}, StrSort)
			key := fv.memKey(sl.Elem())
			r := fv.c.Let("str", smt.App(StrSort, "str_of", smt.Select(fv.heapGet(st, key), slArr(v)), slOff(v), slLen(v)))
			fv.assume(st, smt.Eq(smt.App(smt.Int, "str_len", r), slLen(v)))
			return r
		}
		if isInteger(from) {
			r := fv.fresh(st, "runestr", to)
			fv.assume(st, smt.Le(smt.App(smt.Int, "str_len", r), smt.IntLit(4)))
			return r
		}
	}
	if sl, ok := to.Underlying().(*types.Slice); ok {
		if isString(from) {
			arr := fv.alloc(st, "bytes")
			key := fv.memKey(sl.Elem())
			n := smt.App(smt.Int, "str_len", v)
			if fv.so.sortOf(sl.Elem()) == smt.Int && isInteger(sl.Elem()) {
				if b, ok := sl.Elem().Underlying().(*types.Basic); ok && b.Kind() == types.Uint8 {
					// fresh array holding exactly the bytes of the string
					fv.mut++
					fv.heapSet(st, key, smt.Store(fv.heapGet(st, key), arr, fv.strBytes(v)))
					return fv.c.Let("bs", mkSlice(arr, smt.IntLit(0), n, n))
				}
			}
			fv.note("[]rune(string): contents not related to the string")
			return fv.c.Let("bs", mkSlice(arr, smt.IntLit(0), n, n))
		}
		return v
	}
	if fv.so.sortOf(from) == fv.so.sortOf(to) {
		return v
	}
	return fv.coerce(st, v, from, to)
}

func (fv *funcVerifier) evalBuiltin(st *State, call *ast.CallExpr, name string) []smt.Term {
	switch name {
	case "len", "cap":
		a := call.Args[0]
		t := fv.typeOf(a)
		switch u := t.Underlying().(type) {
		case *types.Slice:
			v := fv.evalExpr(st, a)
			if name == "len" {
				return []smt.Term{slLen(v)}
			}
			return []smt.Term{slCap(v)}
		case *types.Array:
			return []smt.Term{smt.IntLit(u.Len())}
		case *types.Pointer:
			if at, ok := u.Elem().Underlying().(*types.Array); ok {
				return []smt.Term{smt.IntLit(at.Len())}
			}
		case *types.Map:
			return []smt.Term{fv.mapLen(st, fv.evalExpr(st, a), u)}
		case *types.Basic:
			return []smt.Term{smt.App(smt.Int, "str_len", fv.evalExpr(st, a))}
		case *types.Chan:
			fv.evalExpr(st, a)
			r := fv.c.Fresh("chanlen", smt.Int)
			fv.assume(st, smt.Ge(r, smt.IntLit(0)))
			return []smt.Term{r}
		}
		fv.unsupported("len of %s", t)
	case "make":
		t := fv.typeOf(call)
		switch u := t.Underlying().(type) {
		case *types.Slice:
			n := fv.evalExpr(st, call.Args[1])
			c := n
			if len(call.Args) > 2 {
				c = fv.evalExpr(st, call.Args[2])
			}
			g := smt.And(smt.Ge(n, smt.IntLit(0)), smt.Le(n, c), smt.Le(c, smt.IntLit(maxAlloc)))
			if fv.opt.NoPanic {
				fv.assert(st, "nopanic", "make:"+fv.exprStr(call), call.Pos(), g)
			} else {
				fv.assume(st, g)
			}
			arr := fv.alloc(st, "make")
			key := fv.memKey(u.Elem())
			es := fv.so.sortOf(u.Elem())
			zero := smt.Term{S: "((as const " + smt.Arr(smt.Int, es) + ") " + fv.so.zero(u.Elem()).S + ")", Sort: smt.Arr(smt.Int, es)}
			fv.mut++
			fv.heapSet(st, key, smt.Store(fv.heapGet(st, key), arr, zero))
			return []smt.Term{fv.c.Let("mk", mkSlice(arr, smt.IntLit(0), n, c))}
		case *types.Map:
			for _, a := range call.Args[1:] {
				fv.evalExpr(st, a)
			}
			return []smt.Term{fv.newMap(st, u)}
		case *types.Chan:
			for _, a := range call.Args[1:] {
				fv.evalExpr(st, a)
			}
			return []smt.Term{fv.alloc(st, "chan")}
		}
		fv.unsupported("make of %s", t)
	case "new":
		pt := fv.typeOf(call).Underlying().(*types.Pointer)
		if full, ok := opaqueNamed(pt.Elem()); ok && full == "math/big.Int" {
			return []smt.Term{fv.bigNew(st, smt.IntLit(0), true)}
		}
		r := fv.alloc(st, "new")
		fv.storeAt(st, r, pt.Elem(), fv.so.zero(pt.Elem()))
		return []smt.Term{r}
	case "append":
		return []smt.Term{fv.evalAppend(st, call)}
	case "copy":
		return []smt.Term{fv.evalCopy(st, call)}
	case "delete":
		mt := fv.typeOf(call.Args[0]).Underlying().(*types.Map)
		m := fv.evalExpr(st, call.Args[0])
		k := fv.coerce(st, fv.evalExpr(st, call.Args[1]), fv.typeOf(call.Args[1]), mt.Key())
		fv.mapDelete(st, m, k, mt)
		return nil
	case "panic":
		for _, a := range call.Args {
			fv.evalExpr(st, a)
		}
		if fv.opt.NoPanic {
			fv.assert(st, "nopanic", "explicit-panic", call.Pos(), smt.False)
		}
		st.live = smt.False
		return nil
	case "min", "max":
		v := fv.evalExpr(st, call.Args[0])
		for _, a := range call.Args[1:] {
			w := fv.evalExpr(st, a)
			if name == "min" {
				v = smt.Ite(smt.Le(v, w), v, w)
			} else {
				v = smt.Ite(smt.Ge(v, w), v, w)
			}
		}
		return []smt.Term{fv.c.Let(name, v)}
	case "close":
		fv.evalExpr(st, call.Args[0])
		fv.note("close(chan): double-close panic not modelled")
		return nil
	case "recover":
		return []smt.Term{fv.fresh(st, "recover", fv.typeOf(call))}
	case "print", "println":
		for _, a := range call.Args {
			fv.evalExpr(st, a)
		}
		return nil
	case "clear":
		fv.evalExpr(st, call.Args[0])
		fv.havocAll(st)
		return nil
	}
	fv.unsupported("builtin %s", name)
	return nil
}

// evalAppend models append per the Go spec: in place when capacity allows,
// otherwise a fresh backing array.
func (fv *funcVerifier) evalAppend(st *State, call *ast.CallExpr) smt.Term {
	st0 := fv.typeOf(call.Args[0])
	slt, _ := fv.typeOf(call).Underlying().(*types.Slice)
	if slt == nil {
		fv.unsupported("append result %s", fv.typeOf(call))
	}
	s := fv.coerce(st, fv.evalExpr(st, call.Args[0]), st0, fv.typeOf(call))
	key := fv.memKey(slt.Elem())
	es := fv.so.sortOf(slt.Elem())
	var k smt.Term // number of appended elements
	var elemAt func(j smt.Term) smt.Term
	var single []smt.Term
	if call.Ellipsis.IsValid() {
		src := fv.evalExpr(st, call.Args[1])
		if isString(fv.typeOf(call.Args[1])) {
			k = smt.App(smt.Int, "str_len", src)
			elemAt = func(j smt.Term) smt.Term { return smt.App(smt.Int, "str_at", src, j) }
		} else {
			k = slLen(src)
			fv.instFrames(key, slArr(src))
			m0 := fv.heapGet(st, key)
			elemAt = func(j smt.Term) smt.Term {
				return smt.Select(smt.Select(m0, slArr(src)), smt.Add(slOff(src), j))
			}
		}
	} else {
		for _, a := range call.Args[1:] {
			single = append(single, fv.coerce(st, fv.evalExpr(st, a), fv.typeOf(a), slt.Elem()))
		}
		k = smt.IntLit(int64(len(single)))
	}
	newLen := fv.c.Let("alen", smt.Add(slLen(s), k))
	fits := fv.c.Let("fits", smt.Le(newLen, slCap(s)))
	fresh := fv.alloc(st, "append")
	newCap := fv.c.Fresh("acap", smt.Int)
	fv.assume(st, smt.And(smt.Ge(newCap, newLen), smt.Le(newCap, smt.IntLit(maxLen))))
	if fv.opt.NoPanic {
		// growth beyond the assumed maximum length is outside the model
		fv.assume(st, smt.Le(newLen, smt.IntLit(maxLen)))
	}
	fv.instFrames(key, slArr(s))
	m := fv.heapGet(st, key)
	fv.mut++
	// in-place contents
	inPlace := smt.Select(m, slArr(s))
	// fresh contents: copy of old elements at offset 0
	freshArr := fv.c.Fresh("appendmem", smt.Arr(smt.Int, es))
	j := smt.Term{S: "j", Sort: smt.Int}
	fv.assumeGlobal(smt.Forall([]smt.Term{j},
		smt.Implies(smt.And(smt.Ge(j, smt.IntLit(0)), smt.Lt(j, slLen(s))),
			smt.Eq(smt.Select(freshArr, j), smt.Select(smt.Select(m, slArr(s)), smt.Add(slOff(s), j)))),
		smt.Select(freshArr, j)))
	if single != nil {
		for i, v := range single {
			inPlace = smt.Store(inPlace, smt.Add(smt.Add(slOff(s), slLen(s)), smt.IntLit(int64(i))), v)
			// freshArr elements at len+i
			fv.assumeGlobal(smt.Eq(smt.Select(freshArr, smt.Add(slLen(s), smt.IntLit(int64(i)))), v))
		}
	} else {
		ip := fv.c.Fresh("appendinplace", smt.Arr(smt.Int, es))
		base := smt.Add(slOff(s), slLen(s))
		old := smt.Select(m, slArr(s))
		fv.assumeGlobal(smt.Forall([]smt.Term{j},
			smt.Eq(smt.Select(ip, j), smt.Ite(smt.And(smt.Ge(j, base), smt.Lt(j, smt.Add(base, k))), elemAt(smt.Sub(j, base)), smt.Select(old, j))),
			smt.Select(ip, j)))
		fv.assumeGlobal(smt.Forall([]smt.Term{j},
			smt.Implies(smt.And(smt.Ge(j, slLen(s)), smt.Lt(j, newLen)), smt.Eq(smt.Select(freshArr, j), elemAt(smt.Sub(j, slLen(s))))),
			smt.Select(freshArr, j)))
		inPlace = ip
	}
	m1 := smt.Ite(fits, smt.Store(m, slArr(s), inPlace), smt.Store(m, fresh, freshArr))
	fv.heapSet(st, key, m1)
	res := smt.Ite(fits, mkSlice(slArr(s), slOff(s), newLen, slCap(s)), mkSlice(fresh, smt.IntLit(0), newLen, newCap))
	return fv.c.Let("app", res)
}

func (fv *funcVerifier) evalCopy(st *State, call *ast.CallExpr) smt.Term {
	if se, ok := ast.Unparen(call.Args[0]).(*ast.SliceExpr); ok && fv.copyArr[se] != nil && !fv.boxed[fv.copyArr[se]] && !fv.volatile[fv.copyArr[se]] {
		v := fv.copyArr[se]
		at := v.Type().Underlying().(*types.Array)
		es := fv.so.sortOf(at.Elem())
		src := fv.evalExpr(st, call.Args[1])
		var srcLen smt.Term
		var elemAt func(j smt.Term) smt.Term
		if isString(fv.typeOf(call.Args[1])) {
			srcLen = smt.App(smt.Int, "str_len", src)
			elemAt = func(j smt.Term) smt.Term { return smt.App(smt.Int, "str_at", src, j) }
		} else {
			key := fv.memKey(at.Elem())
			fv.instFrames(key, slArr(src))
			m := fv.heapGet(st, key)
			srcLen = slLen(src)
			elemAt = func(j smt.Term) smt.Term { return smt.Select(smt.Select(m, slArr(src)), smt.Add(slOff(src), j)) }
		}
		n := fv.c.Let("ncopy", smt.Ite(smt.Le(smt.IntLit(at.Len()), srcLen), smt.IntLit(at.Len()), srcLen))
		na := fv.c.Fresh("copyarr", smt.Arr(smt.Int, es))
		j := smt.Term{S: "j", Sort: smt.Int}
		old := st.vars[v]
		fv.assumeGlobal(smt.Forall([]smt.Term{j},
			smt.Eq(smt.Select(na, j), smt.Ite(smt.And(smt.Ge(j, smt.IntLit(0)), smt.Lt(j, n)), elemAt(j), smt.Select(old, j))),
			smt.Select(na, j)))
		st.vars[v] = na
		return n
	}
	dt := fv.typeOf(call.Args[0]).Underlying().(*types.Slice)
	dst := fv.evalExpr(st, call.Args[0])
	src := fv.evalExpr(st, call.Args[1])
	key := fv.memKey(dt.Elem())
	es := fv.so.sortOf(dt.Elem())
	var srcLen smt.Term
	var elemAt func(j smt.Term) smt.Term
	fv.instFrames(key, slArr(dst))
	if !isString(fv.typeOf(call.Args[1])) {
		fv.instFrames(key, slArr(src))
	}
	m := fv.heapGet(st, key)
	if isString(fv.typeOf(call.Args[1])) {
		srcLen = smt.App(smt.Int, "str_len", src)
		elemAt = func(j smt.Term) smt.Term { return smt.App(smt.Int, "str_at", src, j) }
	} else {
		srcLen = slLen(src)
		elemAt = func(j smt.Term) smt.Term { return smt.Select(smt.Select(m, slArr(src)), smt.Add(slOff(src), j)) }
	}
	n := fv.c.Let("ncopy", smt.Ite(smt.Le(slLen(dst), srcLen), slLen(dst), srcLen))
	na := fv.c.Fresh("copymem", smt.Arr(smt.Int, es))
	j := smt.Term{S: "j", Sort: smt.Int}
	old := smt.Select(m, slArr(dst))
	fv.assumeGlobal(smt.Forall([]smt.Term{j},
		smt.Eq(smt.Select(na, j), smt.Ite(smt.And(smt.Ge(j, slOff(dst)), smt.Lt(j, smt.Add(slOff(dst), n))), elemAt(smt.Sub(j, slOff(dst))), smt.Select(old, j))),
		smt.Select(na, j)))
	fv.mut++
	fv.heapSet(st, key, smt.Store(m, slArr(dst), na))
	return n
}

// callRepo handles a call to a function of the repository.
func (fv *funcVerifier) callRepo(st *State, call *ast.CallExpr, fn *types.Func) []smt.Term {
	sig := fn.Type().(*types.Signature)
	var recv smt.Term
	hasRecv := false
	if sig.Recv() != nil {
		recv, hasRecv = fv.evalRecv(st, call, fn)
		if hasRecv {
			if _, isPtr := sig.Recv().Type().Underlying().(*types.Pointer); isPtr && fv.opt.NoPanic {
				// a nil receiver only panics when dereferenced inside the callee;
				// the callee's own verification assumes a type-valid receiver.
			}
		}
	}
	if hasRecv && fv.opt.NoPanic {
		if _, isPtr := sig.Recv().Type().Underlying().(*types.Pointer); isPtr {
			fv.assert(st, "nopanic", "nilrecv:"+fv.exprStr(call.Fun), call.Pos(), smt.Ne(recv, smt.IntLit(0)))
		}
	}
	args := fv.evalArgs(st, call, sig)
	key := FuncKey(fn)
	if hasRecv {
		fv.checkCalleeLocks(st, call, fn, recv)
	}
	if sp := fv.prog.Specs.Funcs[key]; sp != nil && (len(sp.Requires) > 0 || len(sp.Ensures) > 0 || sp.Modifies != nil || sp.Pure || len(sp.Sets) > 0 || len(sp.GhostExit) > 0) {
		return fv.callWithSpec(st, call, fn, sp, recv, hasRecv, args)
	}
	// no contract: a callee that syntactically writes nothing but its own locals leaves the heap alone
	if fv.prog.autoPure(key) {
		fv.note("repo callee %s without contract: body writes only its own locals (syntactic check), heap kept; results unconstrained", key)
		return fv.freshResults(st, call, fn.Name())
	}
	// default contract
	if fv.opt.Sweep {
		fv.note("repo callee %s without contract: heap havocked, results unconstrained; its own safety is a separate obligation set", key)
	} else {
		fv.note("repo callee %s without contract: heap havocked, results unconstrained", key)
	}
	fv.havocAll(st)
	return fv.freshResults(st, call, fn.Name())
}

var _ = token.NoPos

func (fv *funcVerifier) isMethodExpr(call *ast.CallExpr) bool {
	if f, ok := ast.Unparen(call.Fun).(*ast.SelectorExpr); ok {
		if sel, ok := fv.info.Selections[f]; ok && sel.Kind() == types.MethodExpr {
			return true
		}
	}
	return false
}
