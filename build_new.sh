#!/bin/bash
# builds bin/bngvc-new from the working tree, but with tool/llvc taken from the last commit (the llvc agent edits it concurrently)
set -e
B=/tmp/bt_build; rm -rf $B; mkdir -p $B
rsync -a --exclude llvc /verif/tool/ $B/tool/
git -C /verif archive HEAD tool/llvc | tar -x -C $B
cd $B/tool && GOFLAGS=-mod=vendor GOPROXY=off go build -o /verif/bin/bngvc-new ./cmd/bngvc
rm -rf $B
