package check

import (
	"go/ast"
	"sort"
	"strings"

	"bngvc/govc"
)

// Unit is one function under contract for a property.
type Unit struct {
	Func  string
	Sweep bool // safety sweep (nopanic/variant, auto-invariants) instead of functional contract
}

// BoundedCheck is one bounded stand-in: spec/bounded/<File> holds an in-package test TestBoundedVC that
// enumerates every input up to the stated bound on the real code and prints BOUNDED-OK or
// BOUNDED-VIOLATED <failing input>.
type BoundedCheck struct {
	ID    string // e.g. "dhcp.NewPool"
	Pkg   string // import-path suffix, e.g. "github.com/codelaboratoryltd/bng/pkg/dhcp"
	File  string
	Bound string // what is enumerated
	Claim string // what is checked on every enumerated input
}

// PropDef describes how a property is decided.
type PropDef struct {
	ID             string
	Title          string
	Pkgs           []string
	Roots          []string // sweep: everything reachable from these (within Pkgs)
	Funcs          []string // functions verified against their contracts
	SweepExclude   []string // prefixes of function keys not swept
	BaselineClaims bool     // claim = obligations recorded in spec/<id>.baseline.json
	Trusted        []string
	Undecided      []string
	Bounded        []string
	// BoundedChecks: bounded stand-ins for functions outside the verifier's reach (exhaustive runs of
	// the real function up to a stated bound through go test -overlay); labelled bounded in the
	// evidence, never counted among the discharged obligations
	BoundedChecks []BoundedCheck
	Assumptions    []string
	Explanation    string
	Extra          func(r *propRun)
	ServiceLoops   []string // loop keys that are intentionally unbounded service loops
	Select         func(o *govc.Oblig) bool // which obligations of the units belong to this property (nil = all)
	BPF            []BPFUnit                // eBPF entry points verified through the LLVM-IR front end
	BPFKinds       string                   // obligation kinds claimed for the BPF units ("" = all)
}

func (d *PropDef) units(p *govc.Program) []Unit {
	var us []Unit
	seen := map[string]bool{}
	for _, f := range d.Funcs {
		if !seen[f] {
			seen[f] = true
			us = append(us, Unit{Func: f})
		}
	}
	if len(d.Roots) > 0 {
		var missing []string
		for _, r := range d.Roots {
			if _, ok := p.Funcs[r]; !ok {
				missing = append(missing, r)
			}
		}
		reach := p.Reachable(d.Roots)
		for _, f := range reach {
			skip := false
			for _, ex := range d.SweepExclude {
				if strings.HasPrefix(f, ex) {
					skip = true
				}
			}
			if !skip && !seen[f] {
				seen[f] = true
				us = append(us, Unit{Func: f, Sweep: true})
			}
		}
		for _, m := range missing {
			us = append(us, Unit{Func: m, Sweep: true}) // reported as missing by the driver
		}
	}
	// every method of a type under lock invariants that takes the owning mutex is under verification
	// (its unlocks assert the invariants), whether or not it is listed: a method added later cannot
	// bypass the invariants of a type one of whose methods the property already verifies
	if len(d.Funcs) > 0 {
		typed := map[string]bool{} // "pkg.Type" of the listed methods
		for _, f := range d.Funcs {
			if i := strings.LastIndex(f, "."); i > 0 && strings.Count(f, ".") == 2 {
				typed[f[:i]] = true
			}
		}
		var keys []string
		for k := range p.Funcs {
			keys = append(keys, k)
		}
		sort.Strings(keys)
		for _, k := range keys {
			if seen[k] || strings.Count(k, ".") != 2 {
				continue
			}
			tn := k[:strings.LastIndex(k, ".")]
			ts := p.Specs.Types[tn]
			if !typed[tn] || ts == nil || len(ts.Invs) == 0 || len(ts.Owns) == 0 {
				continue
			}
			if sp := p.Specs.Funcs[k]; sp != nil && sp.Trusted {
				continue
			}
			if takesOwnedLock(p.Funcs[k], ts) {
				seen[k] = true
				us = append(us, Unit{Func: k})
			}
		}
	}
	sort.SliceStable(us, func(i, j int) bool { return us[i].Func < us[j].Func })
	return us
}

// takesOwnedLock reports whether the method body calls recv.<mu>.Lock / RLock for a mutex of the type spec.
func takesOwnedLock(fi *govc.FuncInfo, ts *govc.TypeSpec) bool {
	if fi == nil || fi.Decl == nil || fi.Decl.Body == nil || fi.Decl.Recv == nil || len(fi.Decl.Recv.List) == 0 || len(fi.Decl.Recv.List[0].Names) == 0 {
		return false
	}
	recv := fi.Decl.Recv.List[0].Names[0].Name
	found := false
	ast.Inspect(fi.Decl.Body, func(n ast.Node) bool {
		call, ok := n.(*ast.CallExpr)
		if !ok || found {
			return !found
		}
		sel, ok := call.Fun.(*ast.SelectorExpr)
		if !ok || (sel.Sel.Name != "Lock" && sel.Sel.Name != "RLock") {
			return true
		}
		inner, ok := sel.X.(*ast.SelectorExpr)
		if !ok {
			return true
		}
		if id, ok := inner.X.(*ast.Ident); ok && id.Name == recv {
			if _, owned := ts.Owns[inner.Sel.Name]; owned {
				found = true
			}
		}
		return true
	})
	return found
}

// Props is the table of properties with checks.
var Props = map[string]*PropDef{}

func register(d *PropDef) { Props[d.ID] = d }
