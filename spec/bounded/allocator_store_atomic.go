package allocator

// Bounded stand-in for "a store write failure leaves memory and store in agreement" at the store
// itself: the contracts of PoolAllocator / DistributedAllocator ASSUME that a store call that returns
// an error had no effect (interface contract of AllocationStore); MemoryAllocationStore keeps three
// indexes in nested maps the verifier does not model. Every history of up to 3 operations out of
// {SaveAllocation(sub, pool, address) for 2 subscribers x 2 pools x 2 addresses, RemoveAllocation(pool,
// sub)} is played on a real store; whenever an operation returns an error every query answer
// (GetByPool, GetBySubscriber, GetByIP, GetPoolUtilization, ListPools, Count, the JSON snapshot) must
// be what it was before the call. Accepted saves must be visible through all of GetByPool /
// GetBySubscriber / GetByIP with the address they carried.

import (
	"context"
	"encoding/json"
	"fmt"
	"net"
	"sort"
	"strings"
	"testing"
	"time"
)

type storeOp struct {
	save          bool
	sub, pool, ip string
}

func (o storeOp) String() string {
	if o.save {
		return fmt.Sprintf("Save(%s,%s,%s)", o.sub, o.pool, o.ip)
	}
	return fmt.Sprintf("Remove(%s,%s)", o.pool, o.sub)
}

func TestBoundedVC(t *testing.T) {
	ctx := context.Background()
	subs, pools, ips := []string{"sub-a", "sub-b"}, []string{"p1", "p2"}, []string{"10.3.0.1", "10.3.0.2"}
	var ops []storeOp
	for _, s := range subs {
		for _, p := range pools {
			for _, i := range ips {
				ops = append(ops, storeOp{true, s, p, i})
			}
			ops = append(ops, storeOp{false, s, p, ""})
		}
	}
	at := time.Unix(1700000000, 0)
	snapshot := func(s *MemoryAllocationStore) string {
		var b strings.Builder
		line := func(recs []AllocationRecord) {
			var l []string
			for _, r := range recs {
				l = append(l, r.SubscriberID+"/"+r.PoolID+"/"+r.Prefix.String())
			}
			sort.Strings(l)
			b.WriteString(strings.Join(l, ",") + ";")
		}
		for _, p := range pools {
			r, _ := s.GetByPool(ctx, p)
			line(r)
			a, tot, _ := s.GetPoolUtilization(ctx, p)
			fmt.Fprintf(&b, "%d/%d;", a, tot)
		}
		for _, x := range subs {
			r, _ := s.GetBySubscriber(ctx, x)
			line(r)
		}
		for _, i := range ips {
			if r, err := s.GetByIP(ctx, net.ParseIP(i)); err == nil && r != nil {
				b.WriteString(r.SubscriberID + "/" + r.PoolID + "/" + r.Prefix.String() + ";")
			} else {
				b.WriteString("-;")
			}
		}
		lp, _ := s.ListPools(ctx)
		sort.Strings(lp)
		fmt.Fprintf(&b, "%v;%d;", lp, s.Count())
		if doc, err := json.Marshal(s); err == nil {
			// canonical form: object keys sorted by encoding/json, arrays (built in map order) sorted
			var v map[string]any
			json.Unmarshal(doc, &v)
			for k, x := range v {
				if arr, ok := x.([]any); ok {
					var items []string
					for _, it := range arr {
						c, _ := json.Marshal(it)
						items = append(items, string(c))
					}
					sort.Strings(items)
					v[k] = items
				}
			}
			canon, _ := json.Marshal(v)
			b.Write(canon)
		}
		return b.String()
	}
	bad, histories, refused := 0, 0, 0
	report := func(format string, a ...any) {
		if bad < 5 {
			fmt.Printf("BOUNDED-VIOLATED "+format+"\n", a...)
		}
		bad++
	}
	var play func(prefix []storeOp, depth int)
	play = func(prefix []storeOp, depth int) {
		if len(prefix) > 0 {
			histories++
			s := NewMemoryAllocationStore()
			for k, o := range prefix {
				before := snapshot(s)
				var err error
				if o.save {
					_, n, _ := net.ParseCIDR(o.ip + "/32")
					err = s.SaveAllocation(ctx, AllocationRecord{SubscriberID: o.sub, PoolID: o.pool, PoolType: PoolTypeIPv4Address, Prefix: n, AllocatedAt: at})
				} else {
					err = s.RemoveAllocation(ctx, o.pool, o.sub)
				}
				if k < len(prefix)-1 {
					continue // judged when this prefix was the whole history
				}
				if err != nil {
					refused++
					if after := snapshot(s); after != before {
						report("history %v: %v returned %q but changed the store\n   before: %s\n   after:  %s", prefix, o, err, before, after)
					}
				} else if o.save {
					want := o.sub + "/" + o.pool + "/" + o.ip + "/32"
					inPool, inSub := false, false
					rp, _ := s.GetByPool(ctx, o.pool)
					for _, r := range rp {
						inPool = inPool || r.SubscriberID+"/"+r.PoolID+"/"+r.Prefix.String() == want
					}
					rs, _ := s.GetBySubscriber(ctx, o.sub)
					for _, r := range rs {
						inSub = inSub || r.SubscriberID+"/"+r.PoolID+"/"+r.Prefix.String() == want
					}
					r, gerr := s.GetByIP(ctx, net.ParseIP(o.ip))
					if !inPool || !inSub || gerr != nil || r == nil || r.SubscriberID != o.sub || r.PoolID != o.pool {
						report("history %v: accepted %v is not visible through every index (pool %v, subscriber %v, address %v)", prefix, o, inPool, inSub, r)
					}
				}
			}
		}
		if depth == 0 {
			return
		}
		for _, o := range ops {
			play(append(append([]storeOp{}, prefix...), o), depth-1)
		}
	}
	play(nil, 3)
	if bad > 0 {
		t.Fatalf("%d violations in %d histories", bad, histories)
	}
	if refused == 0 {
		t.Fatalf("vacuous: no operation was refused in %d histories", histories)
	}
	fmt.Printf("BOUNDED-OK %d histories, %d refused operations left the store unchanged\n", histories, refused)
}
