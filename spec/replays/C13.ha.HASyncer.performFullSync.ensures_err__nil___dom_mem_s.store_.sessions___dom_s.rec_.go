package ha

// Replay for obligation
//   C13.ha.HASyncer.performFullSync.ensures[err == nil ==> dom(mem(s.store).sessions) == dom(s.receivedSessions)]
// A standby that already holds session "stale" (deleted on the active while the stream was
// down) performs a full sync against an active whose snapshot is {"a"}. Property C13:
// immediately after a completed full synchronisation the standby's table equals the snapshot.

import (
	"encoding/json"
	"fmt"
	"net/http"
	"net/http/httptest"
	"strings"
	"testing"
	"time"

	"go.uber.org/zap"
)

func TestReplayVC(t *testing.T) {
	defer func() {
		if r := recover(); r != nil {
			fmt.Printf("REPLAY-PANIC: %v\n", r)
		}
	}()
	active := NewInMemorySessionStore()
	_ = active.PutSession(&SessionState{SessionID: "a", IP: "10.0.0.1"})
	srv := httptest.NewServer(http.HandlerFunc(func(w http.ResponseWriter, r *http.Request) {
		msg := &SyncMessage{Type: SyncTypeFull, Sessions: active.GetAllSessions(), Timestamp: time.Now(), NodeID: "active"}
		w.Header().Set("Content-Type", "application/json")
		_ = json.NewEncoder(w).Encode(msg)
	}))
	defer srv.Close()

	standby := NewInMemorySessionStore()
	_ = standby.PutSession(&SessionState{SessionID: "stale", IP: "10.0.0.9"}) // left over from before the disconnection
	cfg := DefaultSyncConfig()
	cfg.NodeID = "standby"
	cfg.Role = RoleStandby
	cfg.Partner = &PartnerInfo{NodeID: "active", Endpoint: strings.TrimPrefix(srv.URL, "http://")}
	s := NewHASyncer(cfg, standby, zap.NewNop())
	if err := s.performFullSync(); err != nil {
		fmt.Printf("REPLAY-OK (full sync did not complete: %v)\n", err)
		return
	}
	_, stale := standby.GetSession("stale")
	_, fresh := standby.GetSession("a")
	if stale || !fresh || standby.GetSessionCount() != active.GetSessionCount() {
		fmt.Printf("REPLAY-VIOLATED: after a completed performFullSync the standby store (count %d, holds \"stale\": %v, holds \"a\": %v) differs from the active's snapshot {a}\n",
			standby.GetSessionCount(), stale, fresh)
		return
	}
	fmt.Println("REPLAY-OK")
}
