package govc

import (
	"fmt"
	"go/types"
	"sort"

	"bngvc/smt"
)

// heapBase names the not-yet-materialised part of a heap.
type heapBase struct {
	id   int
	cond smt.Term
	a, b *heapBase
}

// State is a symbolic program state guarded by a liveness condition.
type State struct {
	live     smt.Term
	vars     map[*types.Var]smt.Term
	heap     map[string]smt.Term
	base     *heapBase
	frontier smt.Term
	now      smt.Term
	ghost    map[string]smt.Term
}

func (s *State) clone() *State {
	n := &State{live: s.live, base: s.base, frontier: s.frontier, now: s.now,
		vars: make(map[*types.Var]smt.Term, len(s.vars)), heap: make(map[string]smt.Term, len(s.heap)),
		ghost: make(map[string]smt.Term, len(s.ghost))}
	for k, v := range s.vars {
		n.vars[k] = v
	}
	for k, v := range s.heap {
		n.heap[k] = v
	}
	for k, v := range s.ghost {
		n.ghost[k] = v
	}
	return n
}

func (s *State) dead() bool { return s.live.IsFalse() }

// heapSort returns the array sort stored under a heap key.
func (fv *funcVerifier) heapSortOf(key string) string {
	so, ok := fv.heapSorts[key]
	if !ok {
		panic("unknown heap key " + key)
	}
	return so
}

func (fv *funcVerifier) regHeap(key, sort string) {
	if old, ok := fv.heapSorts[key]; ok && old != sort {
		panic(fmt.Sprintf("heap key %s registered with sorts %s and %s", key, old, sort))
	}
	fv.heapSorts[key] = sort
}

func (fv *funcVerifier) baseLookup(b *heapBase, key string) smt.Term {
	if b.a == nil {
		return fv.c.Const(fmt.Sprintf("H%d_%s", b.id, smt.Sanitize(key)), fv.heapSortOf(key))
	}
	ck := fmt.Sprintf("%d/%s", b.id, key)
	if t, ok := fv.baseCache[ck]; ok {
		return t
	}
	t := fv.c.Let("Hm_"+key, smt.Ite(b.cond, fv.baseLookup(b.a, key), fv.baseLookup(b.b, key)))
	fv.baseCache[ck] = t
	return t
}

func (fv *funcVerifier) heapGet(st *State, key string) smt.Term {
	if t, ok := st.heap[key]; ok {
		return t
	}
	t := fv.baseLookup(st.base, key)
	st.heap[key] = t
	return t
}

func (fv *funcVerifier) heapSet(st *State, key string, t smt.Term) {
	st.heap[key] = fv.c.Let("H_"+key, t)
}

func (fv *funcVerifier) newBase() *heapBase {
	fv.nBase++
	return &heapBase{id: fv.nBase}
}

// havocAll forgets the whole heap (unknown callee, lock acquisition).
func (fv *funcVerifier) havocAll(st *State) {
	if st.dead() {
		return
	}
	if !fv.inLoopHavoc {
		fv.wildHavoc = true
	}
	st.heap = map[string]smt.Term{}
	st.base = fv.newBase()
	nf := fv.c.Fresh("frontier", smt.Int)
	fv.assume(st, smt.Ge(nf, st.frontier))
	st.frontier = nf
}

// havocKeys forgets the given heap arrays.
func (fv *funcVerifier) havocKeys(st *State, keys []string) {
	for _, k := range keys {
		st.heap[k] = fv.c.Fresh("Hh_"+k, fv.heapSortOf(k))
	}
}

// merge joins two states whose liveness conditions are disjoint.
func (fv *funcVerifier) merge(a, b *State) *State {
	if a == nil || a.dead() {
		if b == nil {
			return a
		}
		return b
	}
	if b == nil || b.dead() {
		return a
	}
	cond := a.live
	n := &State{vars: map[*types.Var]smt.Term{}, heap: map[string]smt.Term{}, ghost: map[string]smt.Term{}}
	n.live = fv.c.Let("pc", smt.Or(a.live, b.live))
	for k, va := range a.vars {
		if vb, ok := b.vars[k]; ok {
			if va.S == vb.S {
				n.vars[k] = va
			} else {
				n.vars[k] = fv.c.Let("m_"+k.Name(), smt.Ite(cond, va, vb))
			}
		}
	}
	keys := map[string]bool{}
	for k := range a.heap {
		keys[k] = true
	}
	for k := range b.heap {
		keys[k] = true
	}
	ks := make([]string, 0, len(keys))
	for k := range keys {
		ks = append(ks, k)
	}
	sort.Strings(ks)
	for _, k := range ks {
		va := fv.heapGet(a, k)
		vb := fv.heapGet(b, k)
		if va.S == vb.S {
			n.heap[k] = va
		} else {
			n.heap[k] = fv.c.Let("Hm_"+k, smt.Ite(cond, va, vb))
		}
	}
	if a.base == b.base {
		n.base = a.base
	} else {
		nb := fv.newBase()
		nb.cond, nb.a, nb.b = cond, a.base, b.base
		n.base = nb
	}
	if a.frontier.S == b.frontier.S {
		n.frontier = a.frontier
	} else {
		n.frontier = fv.c.Let("frontier", smt.Ite(cond, a.frontier, b.frontier))
	}
	if a.now.S == b.now.S {
		n.now = a.now
	} else {
		n.now = fv.c.Let("now", smt.Ite(cond, a.now, b.now))
	}
	for k, va := range a.ghost {
		if vb, ok := b.ghost[k]; ok {
			if va.S == vb.S {
				n.ghost[k] = va
			} else {
				n.ghost[k] = fv.c.Let("g_"+k, smt.Ite(cond, va, vb))
			}
		}
	}
	return n
}

// assume records a fact holding whenever st is live.
func (fv *funcVerifier) assume(st *State, f smt.Term) {
	if f.IsTrue() || st.dead() {
		return
	}
	fv.assumptions = append(fv.assumptions, smt.Implies(st.live, f))
}

// assumeGlobal records an unconditional fact (definitional).
func (fv *funcVerifier) assumeGlobal(f smt.Term) {
	if f.IsTrue() {
		return
	}
	fv.assumptions = append(fv.assumptions, f)
}

// restrict conjoins a condition to the liveness of st.
func (fv *funcVerifier) restrict(st *State, cond smt.Term) {
	st.live = fv.c.Let("pc", smt.And(st.live, cond))
}

// alloc returns a fresh reference.
func (fv *funcVerifier) alloc(st *State, hint string) smt.Term {
	r := fv.c.Fresh("ref_"+hint, smt.Int)
	fv.assumeGlobal(smt.Eq(r, smt.Add(st.frontier, smt.IntLit(1))))
	st.frontier = r
	return r
}
