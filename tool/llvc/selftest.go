package llvc

import (
	"flag"
	"fmt"
	"os"
	"path/filepath"
	"runtime"
	"strings"
	"time"

	"bngvc/smt"
)

// mutation is one deliberate defect seeded into a scratch copy of a program.
type mutation struct {
	name   string
	file   string // base name in RepoBPFDir
	fn     string
	edits  [][2]string // (old, new) replaced once each, in order
	expect string      // obligation kind that must fail
	where  string      // substring the failing obligation's id must contain ("" = any)
	replay bool        // the counterexample must reproduce on the native code
}

var selfMutations = []mutation{
	{
		name: "qos: IP header bounds check deleted", file: "qos_ratelimit.c", fn: "qos_egress_prog",
		edits:  [][2]string{{"\tstruct iphdr *ip = data + sizeof(*eth);\n\tif ((void *)(ip + 1) > data_end)\n\t\treturn TC_ACT_OK;\n", "\tstruct iphdr *ip = data + sizeof(*eth);\n"}},
		expect: "inbounds", where: "if.end", replay: true,
	},
	{
		name: "antispoof: Ethernet header bounds check deleted", file: "antispoof.c", fn: "antispoof_ingress",
		edits:  [][2]string{{"\tstruct ethhdr *eth = data;\n\tif ((void *)(eth + 1) > data_end)\n\t\treturn TC_ACT_OK;\n", "\tstruct ethhdr *eth = data;\n"}},
		expect: "inbounds", where: "", replay: true,
	},
	{
		name: "dhcp: option scan window check weakened (12 -> 6 bytes)", file: "dhcp_fastpath.c", fn: "dhcp_fastpath_prog",
		edits:  [][2]string{{"if ((void *)(opts + 12) > data_end)", "if ((void *)(opts + 6) > data_end)"}},
		expect: "inbounds", where: "get_dhcp_msg_type", replay: true,
	},
	{
		name: "dhcp: circuit-id copy loop runs past the 32-byte key (stack overflow)", file: "dhcp_fastpath.c", fn: "dhcp_fastpath_prog",
		edits: [][2]string{
			{"if (cid_len > 0 && cid_len <= CIRCUIT_ID_KEY_LEN &&\n\t\t\t\t    (void *)(opts + 7 + cid_len) <= data_end) {\n\t\t\t\t\t#pragma unroll\n\t\t\t\t\tfor (int i = 0; i < CIRCUIT_ID_KEY_LEN; i++) {",
				"if (cid_len > 0 && cid_len <= 40 &&\n\t\t\t\t    (void *)(opts + 7 + cid_len) <= data_end) {\n\t\t\t\t\t#pragma unroll\n\t\t\t\t\tfor (int i = 0; i < 40; i++) {"},
		},
		expect: "inbounds", where: "extract_circuit_id_fixed", replay: false,
	},
	{
		name: "qos: verdict outside the TC action set", file: "qos_ratelimit.c", fn: "qos_ingress_prog",
		edits:  [][2]string{{"\t/* Drop packet - rate limit exceeded */\n\treturn TC_ACT_SHOT;\n}\n\nchar _license", "\treturn 42;\n}\n\nchar _license"}},
		expect: "verdict", where: "", replay: true,
	},
	{
		name: "qos: frame rewritten before TC_ACT_OK", file: "qos_ratelimit.c", fn: "qos_egress_prog",
		edits:  [][2]string{{"\t/* Only process IPv4 */\n\tif (eth->h_proto != bpf_htons(ETH_P_IP))\n\t\treturn TC_ACT_OK;\n\n\t/* Parse IP header */\n\tstruct iphdr *ip = data + sizeof(*eth);\n\tif ((void *)(ip + 1) > data_end)\n\t\treturn TC_ACT_OK;\n\n\t/* Get destination IP", "\teth->h_dest[0] ^= 1;\n\t/* Only process IPv4 */\n\tif (eth->h_proto != bpf_htons(ETH_P_IP))\n\t\treturn TC_ACT_OK;\n\n\t/* Parse IP header */\n\tstruct iphdr *ip = data + sizeof(*eth);\n\tif ((void *)(ip + 1) > data_end)\n\t\treturn TC_ACT_OK;\n\n\t/* Get destination IP"}},
		expect: "pass_unmodified", where: "", replay: true,
	},
}

// SelfTestMain implements `bngvc llvc-selftest`: (1) the unmodified programs
// have all inbounds/unwind/verdict obligations discharged, (2) seeded defects
// in scratch copies (never inside the repository) make the expected
// obligation fail with a model that replays on the native code.
func SelfTestMain(args []string) int {
	fs := flag.NewFlagSet("llvc-selftest", flag.ExitOnError)
	timeout := fs.Duration("timeout", 10*time.Second, "per-obligation solver timeout")
	workers := fs.Int("j", runtime.NumCPU(), "parallel solver processes")
	quick := fs.Bool("quick", false, "baseline only for qos_ratelimit.c and antispoof.c")
	fs.Parse(args)
	solver := smt.NewSolver(*timeout, "")
	fail := 0
	t0 := time.Now()
	check := func(ok bool, format string, a ...interface{}) {
		tag := "ok  "
		if !ok {
			tag = "FAIL"
			fail++
		}
		fmt.Printf("  [%s] %s\n", tag, fmt.Sprintf(format, a...))
	}
	// ---- baseline
	files := []string{"qos_ratelimit.c", "antispoof.c", "dhcp_fastpath.c", "nat44.c"}
	if *quick {
		files = files[:2]
	}
	fmt.Println("baseline: unmodified programs")
	for _, f := range files {
		mod, err := Compile(filepath.Join(RepoBPFDir, f))
		if err != nil {
			check(false, "%s: %v", f, err)
			continue
		}
		for _, ep := range mod.EntryPoints() {
			sp, err := LoadSpec(SpecFile, mod.CFile, ep.Name, ProgTypeOfSection(ep.Section))
			if err != nil {
				check(false, "%s: %v", f, err)
				continue
			}
			rep, err := Check(mod, ep.Name, Options{Property: "SELFTEST", Spec: sp}, solver, *workers, CheckOptions{Kinds: "inbounds,unwind,verdict,divzero,helperarg,unreachable"})
			if err != nil {
				check(false, "%s/%s: %v", f, ep.Name, err)
				continue
			}
			if rep.Result.Rejected != "" {
				check(false, "%s/%s: out of reach: %s", f, ep.Name, rep.Result.Rejected)
				continue
			}
			bad := 0
			for _, s := range rep.Solved {
				if s.Status != "unsat" {
					bad++
					fmt.Printf("         %s %s\n", s.Status, s.O.ID)
				}
			}
			check(bad == 0, "%s/%s: %d inbounds/unwind/verdict obligations, %d not discharged (%.1fs)", f, ep.Name, len(rep.Solved), bad, rep.TimeS)
		}
	}
	// ---- mutations
	fmt.Println("seeded defects (scratch copies under the temp dir)")
	for _, mu := range selfMutations {
		dir, err := os.MkdirTemp("", "llvc-selftest-")
		if err != nil {
			check(false, "%v", err)
			continue
		}
		func() {
			defer os.RemoveAll(dir)
			abs, _ := filepath.Abs(dir)
			if strings.HasPrefix(abs, "/repo") || strings.HasPrefix(abs, "/verif") {
				check(false, "scratch directory %s is inside a protected tree", abs)
				return
			}
			src, err := os.ReadFile(filepath.Join(RepoBPFDir, mu.file))
			if err != nil {
				check(false, "%s: %v", mu.name, err)
				return
			}
			text := string(src)
			for _, ed := range mu.edits {
				if !strings.Contains(text, ed[0]) {
					check(false, "%s: edit anchor not found in %s (source changed?)", mu.name, mu.file)
					return
				}
				text = strings.Replace(text, ed[0], ed[1], 1)
			}
			cf := filepath.Join(dir, mu.file)
			if err := os.WriteFile(cf, []byte(text), 0o644); err != nil {
				check(false, "%s: %v", mu.name, err)
				return
			}
			mod, err := Compile(cf)
			if err != nil {
				check(false, "%s: %v", mu.name, err)
				return
			}
			f := mod.Funcs[mu.fn]
			if f == nil {
				check(false, "%s: no function %s", mu.name, mu.fn)
				return
			}
			sp, err := LoadSpec(SpecFile, mod.CFile, mu.fn, ProgTypeOfSection(f.Section))
			if err != nil {
				check(false, "%s: %v", mu.name, err)
				return
			}
			rep, err := Check(mod, mu.fn, Options{Property: "SELFTEST", Spec: sp}, solver, *workers, CheckOptions{Replay: true, Kinds: mu.expect})
			if err != nil {
				check(false, "%s: %v", mu.name, err)
				return
			}
			if rep.Result.Rejected != "" {
				check(false, "%s: out of reach: %s", mu.name, rep.Result.Rejected)
				return
			}
			var hit *Solved
			nfail := 0
			for i := range rep.Solved {
				s := &rep.Solved[i]
				if s.Status == "sat" && s.O.Kind == mu.expect {
					nfail++
					if hit == nil && strings.Contains(s.O.ID, mu.where) {
						hit = s
					}
				}
			}
			if hit == nil {
				check(false, "%s: no failing %s obligation", mu.name, mu.expect)
				return
			}
			check(hit.Model != nil, "%s: %s fails with a model (%d failing %s obligations; first: %s)", mu.name, mu.expect, nfail, mu.expect, hit.O.ID)
			if hit.Model != nil {
				fmt.Printf("         model: frame_len=%d ret=%d, %d helper calls on the path\n", hit.Model.Len, hit.Model.Ret, len(hit.Model.Calls))
			}
			if mu.replay {
				rr := rep.Replays[hit.O.ID]
				check(rr != nil && rr.Status == "reproduced", "%s: replay on native code: %s", mu.name, replayText(rr))
			}
		}()
	}
	fmt.Printf("llvc selftest: %d failures, %.1fs\n", fail, time.Since(t0).Seconds())
	if fail > 0 {
		return 1
	}
	return 0
}

func replayText(rr *ReplayResult) string {
	if rr == nil {
		return "no replay"
	}
	return rr.Status + " — " + rr.Detail
}
