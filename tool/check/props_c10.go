package check

func init() {
	register(&PropDef{
		ID:    "C10",
		Title: "CGNAT port blocks never overlap and are always attributable",
		Pkgs:  []string{"./pkg/nat"},
		Funcs: []string{
			"nat.NewManager", "nat.Manager.getOrCreateSubscriberID", "nat.Manager.AddPublicIP", "nat.Manager.AllocateNAT",
			"nat.Manager.DeallocateNAT", "nat.Manager.GetAllocation", "nat.ipToKey", "nat.log2", "nat.Manager.buildFlags",
			// the compliance log: one record per event, every buffered record written once, no aliasing of flushed storage
			"nat.Logger.LogAllocation", "nat.Logger.LogDeallocation", "nat.Logger.addEntry", "nat.Logger.addPortBlockEntry",
			"nat.Logger.Flush", "nat.Logger.FlushPortBlocks",
		},
		// the file / rotation layer of the compliance log is a trusted frame for the verifier: bounded stand-in
		BoundedChecks: []BoundedCheck{
			{ID: "nat.log_rotation", Pkg: "github.com/codelaboratoryltd/bng/pkg/nat", File: "nat_log_rotation.go",
				Bound: "120 allocations and 120 releases logged in bulk mode through a file with a 2 KB rotation limit (about twenty rotations, most within one second)",
				Claim: "every record handed to the logger is found exactly once in the current or a rotated file"},
		},
		Undecided: []string{
			"log/attribution clause, PARTLY decided: AllocateNAT logs exactly once on the path that creates a block and never otherwise, DeallocateNAT exactly once in the call that removed the allocation (ghost call counters); LogAllocation / LogDeallocation put exactly one record into the live buffer when logging is enabled; Flush / FlushPortBlocks hand every buffered record to the writer exactly once and restart the live buffer on storage the flush does not share (records being written cannot be overwritten by later log calls). NOT decided: the content of the records (by reading: non-bulk records carry only PortStart, release records carry no subscriber id and no PortEnd, so attribution relies on the fixed block size and on the preceding allocate record), no record when natLogger == nil or Logger.enabled == false, the formatting and file/rotation layer (trusted), records lost when the process stops before a flush",
			"'same public address' is approximated by 'same pool index'; two pool entries with the same address are not excluded by any invariant (AddPublicIP does not deduplicate: refuted by replay)",
			"kernel-side state (subscriber_nat map contents) is outside the Go heap model",
			"invariant pcnt (0 <= Subscribers <= MaxSubscribers) at DeallocateNAT's poolMu.Unlock is locally provable only with the optional guard `Subscribers > 0` (fix_6); without it it needs a counting argument across allocationMu and poolMu (ghost state) and stays undecided",
			"subscriber id uniqueness beyond 2^32-2 distinct private addresses (uint32 counter wrap)",
		},
		Assumptions: []string{
			"monitor model per mutex: invariants over `allocations` are assumed/asserted with allocationMu, over `pool` with poolMu, over the id table with subscriberIDMu; configuration fields (portsPerSubscriber, portRangeStart, portRangeEnd) are immutable after NewManager",
			"*Allocation objects handed out by AllocateNAT/GetAllocation are not mutated by callers",
			"the pool slice and the maps are reachable only through the Manager",
		},
		Select: notDerivedKeyEnsures,
		Trusted: []string{
			"cilium/ebpf (*Map).Put/Update/Delete only read their arguments and have no effect on Go state (error result unconstrained)",
			"nat.Logger.formatEntry / formatPortBlockEntry (no effect) and writeWithRotation (touches only currentFile/currentSize; one line per call): trusted frames, bodies not verified",
			"zap logger calls, net.IP.To4/String, time.Now/Since: no effect on modelled state",
		},
		Explanation: "Lock invariants over `allocations`: every block lies inside [portRangeStart, portRangeEnd] with exactly portsPerSubscriber ports (ablk, uint16 conversions exact), two different keys with the same pool index hold disjoint ranges (adisj); over `pool`: MaxSubscribers*portsPerSubscriber fits the range (pmax), 0 <= Subscribers <= MaxSubscribers (pcnt); over the id table: ids are pairwise different and below the counter. Postconditions of AllocateNAT: stable path returns the stored allocation; allocating path adds a key that was absent at the insertion point and leaves every other entry unchanged. Proved: range/size of every block for every configuration satisfying natCfgOK, capacity bookkeeping in AddPublicIP/AllocateNAT, id stability and uniqueness below the wrap. NewManager validates the configuration (fix_5), AddPublicIP rejects duplicate addresses. Failing (genuine, with replays, need a redesign): adisj cannot be preserved by AllocateNAT (block start derived from the subscriber COUNT: release from the middle then allocate overlaps a live block), check-then-act between the RLock'ed existence check and the insertion (a concurrent AllocateNAT for the same address overwrites the entry: the first caller's block is no longer recorded and stays counted).",
	})
}
