package nexus

// Replay for nexus.Client.allocateFromPool.ensures[err == nil ==> no other subscriber holds result]
// (C01, hash-based central allocation). The address is FNV(subscriberID) mod pool size with no
// collision check: by the pigeonhole principle 7 subscribers in a /29 pool (6 usable addresses)
// must share an address, and no exhaustion is reported either.

import (
	"context"
	"fmt"
	"testing"

	"go.uber.org/zap"
)

func TestReplayVC(t *testing.T) {
	defer func() {
		if r := recover(); r != nil {
			fmt.Printf("REPLAY-PANIC: %v\n", r)
		}
	}()
	ctx := context.Background()
	store := NewMemoryStore()
	c := NewClient(DefaultClientConfig(), store, zap.NewNop())
	if err := c.Pools.Put(ctx, "pool-1", &IPPool{ID: "pool-1", CIDR: "10.9.0.0/29"}); err != nil {
		t.Fatal(err)
	}
	n := 7
	for i := 0; i < n; i++ {
		id := fmt.Sprintf("sub-%d", i)
		c.subscriberCache[id] = &Subscriber{ID: id, IPv4Pool: "pool-1"} // what loadInitialState / the watcher put into the cache
	}
	holder := map[string]string{}
	violated := false
	for i := 0; i < n; i++ {
		id := fmt.Sprintf("sub-%d", i)
		ip, err := c.AllocateIPForSubscriber(ctx, id)
		if err != nil {
			fmt.Printf("(allocation for %s refused: %v)\n", id, err)
			continue
		}
		if other, dup := holder[ip]; dup {
			fmt.Printf("REPLAY-VIOLATED: %s assigned to both %s and %s\n", ip, other, id)
			violated = true
		}
		holder[ip] = id
	}
	if !violated {
		fmt.Println("REPLAY-OK")
	}
}
