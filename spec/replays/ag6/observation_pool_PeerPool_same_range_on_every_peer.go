package pool

// Observation (outside the decided part of C01: "uniqueness across several BNG processes" is
// listed as undecided). Every peer builds its LocalPool from the WHOLE configured network
// (newLocalPool(network, gateway)); rendezvous hashing only decides which peer serves a
// subscriber, not which part of the range a peer may use. Two peers that each own one
// subscriber hand out the same first address.

import (
	"fmt"
	"testing"
)

func TestReplayVC(t *testing.T) {
	mk := func(id string) *PeerPool {
		p, err := NewPeerPool(PeerPoolConfig{NodeID: id, Peers: []string{"bng-a", "bng-b"}, Network: "10.7.0.0/24", Gateway: "10.7.0.1"})
		if err != nil {
			t.Fatal(err)
		}
		return p
	}
	a, b := mk("bng-a"), mk("bng-b")
	var subA, subB string
	for i := 0; i < 1000 && (subA == "" || subB == ""); i++ {
		s := fmt.Sprintf("sub-%d", i)
		if a.GetOwner(s) == "bng-a" && subA == "" {
			subA = s
		}
		if b.GetOwner(s) == "bng-b" && subB == "" {
			subB = s
		}
	}
	ra, err1 := a.allocateLocal(subA)
	rb, err2 := b.allocateLocal(subB)
	if err1 != nil || err2 != nil {
		t.Fatal(err1, err2)
	}
	if ra.IP == rb.IP {
		fmt.Printf("REPLAY-VIOLATED: peer bng-a gives %s to %s, peer bng-b gives %s to %s (same pool network, disjoint owners)\n", ra.IP, subA, rb.IP, subB)
		return
	}
	fmt.Println("REPLAY-OK")
}
