package govc

import (
	"fmt"
	"go/ast"
	"go/token"
	"go/types"
	"regexp"
	"sort"
	"strings"

	"bngvc/smt"
)

// modInfo summarises what a loop body may modify.
type modInfo struct {
	vars    map[*types.Var]bool
	heapAll bool
	keys    map[string]bool
	ghosts  map[string]bool // function-level ghost variables that contracts of callees in the body set
}

// contractOfCall returns the contract that would be applied to this call, if any
// (static repo callee, interface method, function-typed struct field).
func (fv *funcVerifier) contractOfCall(call *ast.CallExpr) *FuncSpec {
	if fn := fv.staticCallee(call); fn != nil {
		if fv.prog.InRepo(fn.Pkg()) {
			return fv.prog.Specs.Funcs[FuncKey(fn)]
		}
		return nil
	}
	if im := fv.ifaceMethod(call); im != nil {
		if sig, ok := im.Type().(*types.Signature); ok && sig.Recv() != nil {
			if n, ok := sig.Recv().Type().(*types.Named); ok && n.Obj().Pkg() != nil {
				return fv.prog.Specs.Funcs[ShortPkg(n.Obj().Pkg().Path())+"."+n.Obj().Name()+"."+im.Name()]
			}
		}
		return nil
	}
	if sel, ok := ast.Unparen(call.Fun).(*ast.SelectorExpr); ok {
		if s, ok := fv.info.Selections[sel]; ok && s.Kind() == types.FieldVal {
			if n, ok := derefNamed(fv.typeOf(sel.X)); ok && n.Obj().Pkg() != nil {
				if sp := fv.prog.Specs.Funcs[ShortPkg(n.Obj().Pkg().Path())+"."+n.Obj().Name()+"."+sel.Sel.Name]; sp != nil {
					return sp
				}
			}
		}
	}
	if n, ok := fv.typeOf(call.Fun).(*types.Named); ok && n.Obj().Pkg() != nil {
		return fv.prog.Specs.Funcs[ShortPkg(n.Obj().Pkg().Path())+"."+n.Obj().Name()]
	}
	return nil
}

func (fv *funcVerifier) pureCall(call *ast.CallExpr) bool {
	if tv, ok := fv.info.Types[call.Fun]; ok && tv.IsType() {
		return true
	}
	switch f := ast.Unparen(call.Fun).(type) {
	case *ast.Ident:
		if b, ok := fv.info.Uses[f].(*types.Builtin); ok {
			switch b.Name() {
			case "len", "cap", "min", "max", "panic":
				return true
			}
			return false
		}
	}
	if fn := fv.staticCallee(call); fn != nil {
		if isPureLib(fn.FullName()) {
			return true
		}
		if fv.prog.InRepo(fn.Pkg()) {
			if sp := fv.prog.Specs.Funcs[FuncKey(fn)]; sp != nil && sp.Pure {
				return true
			}
			if fv.prog.Specs.Funcs[FuncKey(fn)] == nil && fv.prog.autoPure(FuncKey(fn)) {
				return true
			}
		}
	}
	return false
}

// deleteOnlyBody reports whether a loop body syntactically cannot create a map entry: no
// assignment / inc-dec to a map element, every call is pure (spec "pure", pure library function,
// conversion) or the builtin delete, and there is no go statement, channel operation or closure.
func (fv *funcVerifier) deleteOnlyBody(b *ast.BlockStmt) bool {
	ok := true
	isMapElem := func(e ast.Expr) bool {
		if ix, isIx := ast.Unparen(e).(*ast.IndexExpr); isIx {
			if _, isMap := fv.typeOf(ix.X).Underlying().(*types.Map); isMap {
				return true
			}
		}
		return false
	}
	ast.Inspect(b, func(m ast.Node) bool {
		switch y := m.(type) {
		case *ast.AssignStmt:
			for _, l := range y.Lhs {
				if isMapElem(l) {
					ok = false
				}
			}
		case *ast.IncDecStmt:
			if isMapElem(y.X) {
				ok = false
			}
		case *ast.CallExpr:
			if id, isId := ast.Unparen(y.Fun).(*ast.Ident); isId {
				if bi, isB := fv.info.Uses[id].(*types.Builtin); isB && bi.Name() == "delete" {
					return true
				}
			}
			if !fv.pureCall(y) {
				ok = false
			}
		case *ast.GoStmt, *ast.SendStmt, *ast.FuncLit, *ast.DeferStmt:
			ok = false
		case *ast.UnaryExpr:
			if y.Op == token.ARROW {
				ok = false
			}
		}
		return ok
	})
	return ok
}

func (fv *funcVerifier) computeMod(nodes ...ast.Node) *modInfo {
	mi := &modInfo{vars: map[*types.Var]bool{}, keys: map[string]bool{}, ghosts: map[string]bool{}}
	// ghost variables set by callee contracts, also inside function literals (go/defer closures run inline in mode goinline)
	for _, n := range nodes {
		if n == nil {
			continue
		}
		ast.Inspect(n, func(m ast.Node) bool {
			if call, ok := m.(*ast.CallExpr); ok {
				if tv, isT := fv.info.Types[call.Fun]; isT && tv.IsType() {
					return true
				}
				if sp := fv.contractOfCall(call); sp != nil {
					for _, g := range sp.Sets {
						mi.ghosts[g.Name] = true
					}
				}
			}
			return true
		})
	}
	markLHS := func(e ast.Expr) {
		e = ast.Unparen(e)
		if id, ok := e.(*ast.Ident); ok {
			if v, ok := fv.info.Uses[id].(*types.Var); ok {
				if fv.boxed[v] || (v.Pkg() != nil && v.Parent() == v.Pkg().Scope()) {
					mi.heapAll = true
				} else {
					mi.vars[v] = true
				}
			}
			return
		}
		// store through field / index / deref: find root local struct/array var
		root := e
		for {
			switch r := root.(type) {
			case *ast.SelectorExpr:
				root = ast.Unparen(r.X)
				continue
			case *ast.IndexExpr:
				if _, isArr := fv.typeOf(r.X).Underlying().(*types.Array); isArr {
					root = ast.Unparen(r.X)
					continue
				}
			}
			break
		}
		if id, ok := root.(*ast.Ident); ok && root != e {
			if v, ok := fv.info.Uses[id].(*types.Var); ok && !fv.boxed[v] {
				if _, isPtr := v.Type().Underlying().(*types.Pointer); !isPtr {
					if _, isSl := v.Type().Underlying().(*types.Slice); !isSl {
						if _, isMap := v.Type().Underlying().(*types.Map); !isMap {
							mi.vars[v] = true
							return
						}
					}
				}
			}
		}
		mi.heapAll = true
	}
	for _, n := range nodes {
		if n == nil {
			continue
		}
		ast.Inspect(n, func(m ast.Node) bool {
			switch y := m.(type) {
			case *ast.AssignStmt:
				for _, l := range y.Lhs {
					if id, ok := l.(*ast.Ident); ok && y.Tok == token.DEFINE {
						if _, isDef := fv.info.Defs[id]; isDef && fv.info.Defs[id] != nil {
							continue
						}
					}
					markLHS(l)
				}
			case *ast.IncDecStmt:
				markLHS(y.X)
			case *ast.RangeStmt:
				if y.Tok == token.ASSIGN {
					if y.Key != nil {
						markLHS(y.Key)
					}
					if y.Value != nil {
						markLHS(y.Value)
					}
				}
			case *ast.CallExpr:
				if !fv.pureCall(y) {
					mi.heapAll = true
				}
			case *ast.GoStmt, *ast.SendStmt:
				mi.heapAll = true
			case *ast.UnaryExpr:
				if y.Op == token.ARROW {
					mi.heapAll = true
				}
				if y.Op == token.AND {
					if _, isLit := ast.Unparen(y.X).(*ast.CompositeLit); isLit {
						mi.heapAll = true
					}
				}
			case *ast.CompositeLit:
				switch fv.typeOf(y).Underlying().(type) {
				case *types.Slice, *types.Map:
					mi.heapAll = true
				}
			case *ast.FuncLit:
				return false
			}
			return true
		})
	}
	return mi
}

func (fv *funcVerifier) havocLoop(st *State, mi *modInfo) {
	// Earlier iterations may have allocated objects: the allocation frontier (and, when the body
	// can write the heap, the heap) is forgotten BEFORE the loop variables get their arbitrary
	// values, so that those values may refer to objects created inside the loop.
	if mi.heapAll {
		fv.inLoopHavoc = true
		fv.havocAll(st)
		fv.inLoopHavoc = false
	} else {
		nf := fv.c.Fresh("frontier", smt.Int)
		fv.assume(st, smt.Ge(nf, st.frontier))
		st.frontier = nf
	}
	var vs []*types.Var
	for v := range mi.vars {
		if _, ok := st.vars[v]; ok {
			vs = append(vs, v)
		}
	}
	sort.Slice(vs, func(i, j int) bool { return vs[i].Pos() < vs[j].Pos() })
	for _, v := range vs {
		st.vars[v] = fv.fresh(st, "lh_"+v.Name(), v.Type())
	}
	// function-level ghost variables are updated by the contracts of callees ("sets"): earlier
	// iterations may have changed the ones a callee of the body sets
	var gs []string
	for g := range mi.ghosts {
		if _, have := st.ghost[g]; have {
			gs = append(gs, g)
		}
	}
	sort.Strings(gs)
	for _, g := range gs {
		st.ghost[g] = fv.c.Fresh("lhg_"+g, st.ghost[g].Sort)
	}
	// time may pass
	n := fv.c.Fresh("now", smt.Int)
	fv.assume(st, smt.Ge(n, st.now))
	st.now = n
}

type candidate struct {
	desc     string
	eval     func(st *State) smt.Term
	assumeAt func(st *State) // optional: how to assume the candidate at the loop head
	frame    bool
}

// frameFact records that array fresh agrees with array old on refs 0..f0 whenever guard holds.
type frameFact struct {
	key        string
	fresh, old smt.Term
	f0, guard  smt.Term
	except     smt.Term   // optional: reference whose contents may change
	excepts    []smt.Term // optional: further references whose contents may change (modifies targets of the function)
}

var boundVarRe = regexp.MustCompile(`(^|[ (])q_[A-Za-z0-9_]+![0-9]+`)

// hasBoundVar reports whether a term mentions a quantifier-bound variable of a spec (named q_<name>!<n>).
func hasBoundVar(t smt.Term) bool { return strings.Contains(t.S, "q_") && boundVarRe.MatchString(t.S) }

// instFrames adds the ground instances of the recorded frame facts for a read
// of heap key at reference r.
func (fv *funcVerifier) instFrames(key string, r smt.Term) {
	if len(fv.frameFacts) == 0 {
		return
	}
	if hasBoundVar(r) {
		// the reference mentions a quantifier-bound variable of a spec: a ground
		// instance would capture it; add the (already established) quantified fact instead
		mk := key + "@<quantified>"
		start := fv.frameInst[mk]
		if start >= len(fv.frameFacts) {
			return
		}
		fv.frameInst[mk] = len(fv.frameFacts)
		for _, f := range fv.frameFacts[start:] {
			if f.key != key {
				continue
			}
			q := smt.Term{S: "fr_q", Sort: smt.Int}
			gq := smt.And(smt.Ge(q, smt.IntLit(0)), smt.Le(q, f.f0))
			if f.except.S != "" {
				gq = smt.And(gq, smt.Ne(q, f.except)) // (was omitted: the quantified form must keep the exception)
			}
			for _, e := range f.excepts {
				gq = smt.And(gq, smt.Ne(q, e))
			}
			fv.assumeGlobal(smt.Implies(f.guard, smt.Forall([]smt.Term{q}, smt.Implies(gq,
				smt.Eq(smt.Select(f.fresh, q), smt.Select(f.old, q))))))
		}
		return
	}
	mk := key + "@" + r.S
	if fv.frameInst[mk] >= len(fv.frameFacts) {
		return
	}
	start := fv.frameInst[mk]
	fv.frameInst[mk] = len(fv.frameFacts)
	for _, f := range fv.frameFacts[start:] {
		if f.key != key {
			continue
		}
		g := smt.And(f.guard, smt.Ge(r, smt.IntLit(0)), smt.Le(r, f.f0))
		if f.except.S != "" {
			g = smt.And(g, smt.Ne(r, f.except))
		}
		for _, e := range f.excepts {
			g = smt.And(g, smt.Ne(r, e))
		}
		fv.assumeGlobal(smt.Implies(g, smt.Eq(smt.Select(f.fresh, r), smt.Select(f.old, r))))
	}
}

// modifiesRefs returns, per heap key, the references named by the function's modifies clause:
// the fields themselves and the maps / backing arrays they refer to at function entry and in
// state pre (loop entry).
func (fv *funcVerifier) modifiesRefs(pre *State) map[string][]smt.Term {
	out := map[string][]smt.Term{}
	if fv.spec == nil || fv.spec.Modifies == nil || fv.spec.ModAll || fv.entry == nil {
		return out
	}
	env := fv.ownEnv(fv.entry)
	for _, t := range env.modTargets(fv.spec.Modifies) {
		if t.field == nil || t.ghostKey != "" || t.inner {
			continue
		}
		fk := fv.so.fieldKey(t.st, t.field.name)
		out[fk] = append(out[fk], t.ref)
		for _, snap := range []*State{fv.entry, pre} {
			v := fv.fieldLval(snap, t.ref, t.st, t.field).load()
			switch u := t.field.typ.Underlying().(type) {
			case *types.Map:
				d, vv, l := fv.mapKeys(u)
				for _, mk := range []string{d, vv, l} {
					out[mk] = append(out[mk], v)
				}
			case *types.Slice:
				mk := fv.memKey(u.Elem())
				out[mk] = append(out[mk], slArr(v))
			}
		}
	}
	return out
}

// loopCandidates proposes auto-invariants for the safety sweep.
func (fv *funcVerifier) loopCandidates(st *State, mi *modInfo) []candidate {
	var cands []candidate
	var ints []*types.Var
	for v := range mi.vars {
		if _, ok := st.vars[v]; ok && isInteger(v.Type()) && !fv.boxed[v] && !fv.volatile[v] {
			ints = append(ints, v)
		}
	}
	sort.Slice(ints, func(i, j int) bool { return ints[i].Pos() < ints[j].Pos() })
	var others []*types.Var
	for v := range st.vars {
		if !mi.vars[v] && !fv.boxed[v] && !fv.volatile[v] {
			others = append(others, v)
		}
	}
	sort.Slice(others, func(i, j int) bool { return others[i].Pos() < others[j].Pos() })
	for _, v := range ints {
		v := v
		entry := st.vars[v]
		cands = append(cands, candidate{desc: v.Name() + " >= 0", eval: func(s *State) smt.Term { return smt.Ge(s.vars[v], smt.IntLit(0)) }})
		cands = append(cands, candidate{desc: v.Name() + " >= entry(" + v.Name() + ")", eval: func(s *State) smt.Term { return smt.Ge(s.vars[v], entry) }})
		cands = append(cands, candidate{desc: v.Name() + " <= entry(" + v.Name() + ")", eval: func(s *State) smt.Term { return smt.Le(s.vars[v], entry) }})
		for _, o := range others {
			o := o
			ot := st.vars[o]
			switch o.Type().Underlying().(type) {
			case *types.Slice:
				cands = append(cands, candidate{desc: v.Name() + " <= len(" + o.Name() + ")", eval: func(s *State) smt.Term { return smt.Le(s.vars[v], slLen(ot)) }})
			case *types.Basic:
				if isString(o.Type()) {
					cands = append(cands, candidate{desc: v.Name() + " <= len(" + o.Name() + ")", eval: func(s *State) smt.Term { return smt.Le(s.vars[v], smt.App(smt.Int, "str_len", ot)) }})
				} else if isInteger(o.Type()) {
					cands = append(cands, candidate{desc: v.Name() + " <= " + o.Name(), eval: func(s *State) smt.Term { return smt.Le(s.vars[v], ot) }})
				}
			}
		}
	}
	// modified slices: length relations
	for v := range mi.vars {
		v := v
		if _, ok := st.vars[v]; !ok || fv.boxed[v] || fv.volatile[v] {
			continue
		}
		if _, isSl := v.Type().Underlying().(*types.Slice); isSl {
			entry := st.vars[v]
			cands = append(cands, candidate{desc: "len(" + v.Name() + ") <= entry", eval: func(s *State) smt.Term { return smt.Le(slLen(s.vars[v]), slLen(entry)) }})
			cands = append(cands, candidate{desc: "len(" + v.Name() + ") >= entry", eval: func(s *State) smt.Term { return smt.Ge(slLen(s.vars[v]), slLen(entry)) }})
		}
	}
	sort.SliceStable(cands, func(i, j int) bool { return cands[i].desc < cands[j].desc })
	if len(cands) > 40 {
		cands = cands[:40]
	}
	// frame candidates: objects that existed at loop entry keep their contents
	if mi.heapAll {
		pre := st.clone()
		f0 := pre.frontier
		var keys []string
		for k := range fv.heapSorts {
			keys = append(keys, k)
		}
		sort.Strings(keys)
		modEx := fv.modifiesRefs(pre)
		for _, k := range keys {
			k := k
			if !strings.HasPrefix(fv.heapSorts[k], "(Array Int ") {
				continue
			}
			// weaker variant for functions with a modifies clause: everything except the locations
			// (and the maps / backing arrays they refer to at function entry and at loop entry) that
			// the function's own modifies clause names; needed when a loop updates several of them
			if ex := modEx[k]; len(ex) > 0 {
				ex := ex
				goalM := func(s *State) smt.Term {
					r := smt.Term{S: "fr_r", Sort: smt.Int}
					g := smt.And(smt.Ge(r, smt.IntLit(0)), smt.Le(r, f0))
					for _, e := range ex {
						g = smt.And(g, smt.Ne(r, e))
					}
					return smt.Forall([]smt.Term{r}, smt.Implies(g,
						smt.Eq(smt.Select(fv.heapGet(s, k), r), smt.Select(fv.heapGet(pre, k), r))))
				}
				cands = append(cands, candidate{desc: "frame " + k + " except modifies", eval: goalM, frame: true, assumeAt: func(s *State) {
					fresh := fv.heapGet(s, k)
					old := fv.heapGet(pre, k)
					fv.frameFacts = append(fv.frameFacts, frameFact{key: k, fresh: fresh, old: old, f0: f0, guard: s.live, excepts: ex})
					fv.frameAxioms = append(fv.frameAxioms, smt.Implies(s.live, goalM(s)))
				}})
			}
			goal := func(s *State) smt.Term {
				r := smt.Term{S: "fr_r", Sort: smt.Int}
				return smt.Forall([]smt.Term{r}, smt.Implies(smt.And(smt.Ge(r, smt.IntLit(0)), smt.Le(r, f0)),
					smt.Eq(smt.Select(fv.heapGet(s, k), r), smt.Select(fv.heapGet(pre, k), r))))
			}
			cands = append(cands, candidate{desc: "frame " + k, eval: goal, frame: true, assumeAt: func(s *State) {
				fresh := fv.heapGet(s, k)
				old := fv.heapGet(pre, k)
				fv.frameFacts = append(fv.frameFacts, frameFact{key: k, fresh: fresh, old: old, f0: f0, guard: s.live})
				fv.frameAxioms = append(fv.frameAxioms, smt.Implies(s.live, goal(s)))
			}})
			// weaker variants for struct fields: everything except the object one pointer variable in scope refers to
			if strings.HasPrefix(k, "T_") {
				for _, o := range others {
					o := o
					pt, isPtr := o.Type().Underlying().(*types.Pointer)
					if !isPtr {
						continue
					}
					if _, isSt := pt.Elem().Underlying().(*types.Struct); !isSt {
						continue
					}
					if !strings.HasPrefix(k, fv.so.structName(pt.Elem())+".") {
						continue
					}
					ex := st.vars[o]
					goalX := func(s *State) smt.Term {
						r := smt.Term{S: "fr_r", Sort: smt.Int}
						return smt.Forall([]smt.Term{r}, smt.Implies(smt.And(smt.Ge(r, smt.IntLit(0)), smt.Le(r, f0), smt.Ne(r, ex)),
							smt.Eq(smt.Select(fv.heapGet(s, k), r), smt.Select(fv.heapGet(pre, k), r))))
					}
					cands = append(cands, candidate{desc: "frame " + k + " except " + o.Name(), eval: goalX, frame: true, assumeAt: func(s *State) {
						fresh := fv.heapGet(s, k)
						old := fv.heapGet(pre, k)
						fv.frameFacts = append(fv.frameFacts, frameFact{key: k, fresh: fresh, old: old, f0: f0, guard: s.live, except: ex})
						fv.frameAxioms = append(fv.frameAxioms, smt.Implies(s.live, goalX(s)))
					}})
				}
			}
			// weaker variant: objects that existed at FUNCTION entry keep their contents
			// (survives when the loop writes only to objects allocated by this function)
			if fe := fv.entry.frontier; fe.S != f0.S {
				goalE := func(s *State) smt.Term {
					r := smt.Term{S: "fr_r", Sort: smt.Int}
					return smt.Forall([]smt.Term{r}, smt.Implies(smt.And(smt.Ge(r, smt.IntLit(0)), smt.Le(r, fe)),
						smt.Eq(smt.Select(fv.heapGet(s, k), r), smt.Select(fv.heapGet(pre, k), r))))
				}
				cands = append(cands, candidate{desc: "entryframe " + k, eval: goalE, frame: true, assumeAt: func(s *State) {
					fresh := fv.heapGet(s, k)
					old := fv.heapGet(pre, k)
					fv.frameFacts = append(fv.frameFacts, frameFact{key: k, fresh: fresh, old: old, f0: fe, guard: s.live})
					fv.frameAxioms = append(fv.frameAxioms, smt.Implies(s.live, goalE(s)))
				}})
			}
			// weaker variants for map contents: everything except the map one field of a pointer variable in scope refers to
			if strings.HasPrefix(k, "mapdom:") || strings.HasPrefix(k, "mapval:") || strings.HasPrefix(k, "maplen:") {
				for _, o := range others {
					o := o
					pt, isPtr := o.Type().Underlying().(*types.Pointer)
					if !isPtr {
						continue
					}
					stt, isSt := pt.Elem().Underlying().(*types.Struct)
					if !isSt {
						continue
					}
					if _, opaque := opaqueNamed(pt.Elem()); opaque {
						continue
					}
					si := fv.so.structOf(pt.Elem())
					for fi := 0; fi < stt.NumFields(); fi++ {
						mt, isMap := stt.Field(fi).Type().Underlying().(*types.Map)
						if !isMap {
							continue
						}
						d, v, l := fv.mapKeys(mt)
						if k != d && k != v && k != l {
							continue
						}
						_, sf := si.field(stt.Field(fi).Name())
						if sf == nil {
							continue
						}
						fkey := fv.so.fieldKey(pt.Elem(), sf.name)
						fv.regHeap(fkey, smt.Arr(smt.Int, sf.sort))
						ex := fv.c.Let("exmap", smt.Select(fv.heapGet(pre, fkey), st.vars[o]))
						desc := "frame " + k + " except " + o.Name() + "." + sf.name
						goalX := func(s *State) smt.Term {
							r := smt.Term{S: "fr_r", Sort: smt.Int}
							return smt.Forall([]smt.Term{r}, smt.Implies(smt.And(smt.Ge(r, smt.IntLit(0)), smt.Le(r, f0), smt.Ne(r, ex)),
								smt.Eq(smt.Select(fv.heapGet(s, k), r), smt.Select(fv.heapGet(pre, k), r))))
						}
						cands = append(cands, candidate{desc: desc, eval: goalX, frame: true, assumeAt: func(s *State) {
							fresh := fv.heapGet(s, k)
							old := fv.heapGet(pre, k)
							fv.frameFacts = append(fv.frameFacts, frameFact{key: k, fresh: fresh, old: old, f0: f0, guard: s.live, except: ex})
							fv.frameAxioms = append(fv.frameAxioms, smt.Implies(s.live, goalX(s)))
						}})
					}
				}
			}
			// weaker variants: everything except the backing array of one slice variable in scope
			if strings.HasPrefix(k, "mem:") {
				for _, o := range others {
					o := o
					sl, isSl := o.Type().Underlying().(*types.Slice)
					if !isSl || fv.memKey(sl.Elem()) != k {
						continue
					}
					ex := slArr(st.vars[o])
					goalX := func(s *State) smt.Term {
						r := smt.Term{S: "fr_r", Sort: smt.Int}
						return smt.Forall([]smt.Term{r}, smt.Implies(smt.And(smt.Ge(r, smt.IntLit(0)), smt.Le(r, f0), smt.Ne(r, ex)),
							smt.Eq(smt.Select(fv.heapGet(s, k), r), smt.Select(fv.heapGet(pre, k), r))))
					}
					cands = append(cands, candidate{desc: "frame " + k + " except " + o.Name(), eval: goalX, frame: true, assumeAt: func(s *State) {
						fresh := fv.heapGet(s, k)
						old := fv.heapGet(pre, k)
						fv.frameFacts = append(fv.frameFacts, frameFact{key: k, fresh: fresh, old: old, f0: f0, guard: s.live, except: ex})
						fv.frameAxioms = append(fv.frameAxioms, smt.Implies(s.live, goalX(s)))
					}})
				}
			}
		}
		var sls []*types.Var
		for v := range mi.vars {
			if _, ok := st.vars[v]; ok && !fv.boxed[v] && !fv.volatile[v] {
				if _, isSl := v.Type().Underlying().(*types.Slice); isSl {
					sls = append(sls, v)
				}
			}
		}
		sort.Slice(sls, func(i, j int) bool { return sls[i].Pos() < sls[j].Pos() })
		for _, v := range sls {
			v := v
			entry := st.vars[v]
			cands = append(cands, candidate{desc: "fresh-or-entry " + v.Name(), eval: func(s *State) smt.Term {
				return smt.Or(smt.Eq(slArr(s.vars[v]), smt.IntLit(0)), smt.Gt(slArr(s.vars[v]), f0), smt.Eq(slArr(s.vars[v]), slArr(entry)))
			}})
			cands = append(cands, candidate{desc: "fresh-or-nil " + v.Name(), eval: func(s *State) smt.Term {
				return smt.Or(smt.Eq(slArr(s.vars[v]), smt.IntLit(0)), smt.Gt(slArr(s.vars[v]), f0))
			}})
		}
	}
	return cands
}

func (fv *funcVerifier) candEnabled(key string, c candidate) bool {
	return !fv.opt.Disabled[key][c.desc]
}

// autoVariant derives a termination measure from the loop condition.
func (fv *funcVerifier) autoVariant(cond ast.Expr) func(st *State) smt.Term {
	if cond == nil {
		return nil
	}
	b, ok := ast.Unparen(cond).(*ast.BinaryExpr)
	if !ok {
		return nil
	}
	if b.Op == token.LAND {
		if f := fv.autoVariant(b.X); f != nil {
			return f
		}
		return fv.autoVariant(b.Y)
	}
	if !isInteger(fv.typeOf(b.X)) {
		return nil
	}
	pure := func(e ast.Expr) bool {
		ok := true
		ast.Inspect(e, func(n ast.Node) bool {
			if c, isCall := n.(*ast.CallExpr); isCall && !fv.pureCall(c) {
				ok = false
			}
			return true
		})
		return ok
	}
	if !pure(b.X) || !pure(b.Y) {
		return nil
	}
	quiet := func(st *State, e ast.Expr) smt.Term {
		save := fv.opt.NoPanic
		fv.opt.NoPanic = false
		n := len(fv.assumptions)
		v := fv.evalExpr(st, e)
		fv.assumptions = fv.assumptions[:n] // do not keep bounds assumed by quiet evaluation
		fv.opt.NoPanic = save
		return v
	}
	switch b.Op {
	case token.LSS, token.LEQ, token.NEQ:
		return func(st *State) smt.Term { return smt.Sub(quiet(st, b.Y), quiet(st, b.X)) }
	case token.GTR, token.GEQ:
		return func(st *State) smt.Term { return smt.Sub(quiet(st, b.X), quiet(st, b.Y)) }
	}
	return nil
}

func (fv *funcVerifier) loopKey() string {
	fv.loopOrd++
	return fmt.Sprintf("%s#%d", fv.fi.Key, fv.loopOrd)
}

func (fv *funcVerifier) execFor(st *State, x *ast.ForStmt, label string) {
	if x.Init != nil {
		fv.execStmt(st, x.Init, "")
	}
	key := fv.loopKey()
	mi := fv.computeMod(x.Body, x.Post, x.Cond)
	spec := fv.prog.Specs.Loops[key]
	pre := st.clone()

	cands := []candidate{}
	if fv.opt.Sweep || fv.opt.AutoInv {
		cands = fv.loopCandidates(st, mi)
		var descs []string
		for _, c := range cands {
			descs = append(descs, c.desc)
		}
		fv.candLog[key] = descs
	}
	// init obligations
	fv.assertLoopInvs(st, spec, pre, "loopinv.init", key, x.Pos())
	for i, c := range cands {
		if fv.candEnabled(key, c) {
			o := fv.assertNoAssume(st, "cand.init", key+":"+c.desc, x.Pos(), c.eval(st))
			if o != nil {
				o.Cand, o.CandLoop, o.CandDesc, o.Frame = i, key, c.desc, c.frame
			}
		}
	}
	// arbitrary iteration
	fv.havocLoop(st, mi)
	fv.assumeLoopInvs(st, spec, pre)
	for _, c := range cands {
		if fv.candEnabled(key, c) {
			if c.assumeAt != nil {
				c.assumeAt(st)
			} else {
				fv.assume(st, c.eval(st))
			}
		}
	}
	var variant func(*State) smt.Term
	if spec != nil && spec.Decreases != nil {
		variant = func(s *State) smt.Term { return fv.evalSpecIn(s, pre, spec.Decreases) }
	} else if fv.opt.Variants {
		variant = fv.autoVariant(x.Cond)
	}
	fv.iterSnaps = append(fv.iterSnaps, st.clone())
	defer func() { fv.iterSnaps = fv.iterSnaps[:len(fv.iterSnaps)-1] }()
	cond := smt.True
	if x.Cond != nil {
		cond = fv.evalExpr(st, x.Cond)
	}
	exit := st.clone()
	fv.restrict(exit, smt.Not(cond))
	fv.restrict(st, cond)
	var v0 smt.Term
	if variant != nil && !st.dead() {
		v0 = fv.c.Let("variant0", variant(st))
	}
	frame := &loopFrame{label: label, isLoop: true}
	fv.loops = append(fv.loops, frame)
	fv.execBlock(st, x.Body.List)
	fv.loops = fv.loops[:len(fv.loops)-1]
	body := fv.mergeAll(st, frame.continues)
	if x.Post != nil && !body.dead() {
		fv.execStmt(body, x.Post, "")
	}
	if !body.dead() {
		fv.assertIteration(body, spec, key, x.Pos())
		fv.assertLoopInvs(body, spec, pre, "loopinv.step", key, x.Pos())
		for i, c := range cands {
			if fv.candEnabled(key, c) {
				o := fv.assertNoAssume(body, "cand.step", key+":"+c.desc, x.Pos(), c.eval(body))
				if o != nil {
					o.Cand, o.CandLoop, o.CandDesc, o.Frame = i, key, c.desc, c.frame
				}
			}
		}
		if (fv.opt.Variants && !fv.opt.ServiceLoops[key]) || (spec != nil && spec.Decreases != nil) {
			if variant == nil {
				if x.Cond == nil && len(frame.breaks) == 0 && !fv.hasReturn(x.Body) {
					// for {} with no exit is an intentional service loop; not a packet handler
				}
				fv.assertNoAssume(body, "variant", key+":no-measure-found", x.Pos(), smt.False)
			} else {
				v1 := variant(body)
				fv.assertNoAssume(body, "variant", key, x.Pos(), smt.And(smt.Ge(v0, smt.IntLit(0)), smt.Lt(v1, v0)))
			}
		}
	}
	res := fv.mergeAll(exit, frame.breaks)
	*st = *res
}

func (fv *funcVerifier) hasReturn(b *ast.BlockStmt) bool {
	found := false
	ast.Inspect(b, func(n ast.Node) bool {
		switch n.(type) {
		case *ast.ReturnStmt:
			found = true
		case *ast.FuncLit:
			return false
		}
		return true
	})
	return found
}

// assertNoAssume records an obligation without adding it to the assumptions
// (used for Houdini candidates and variants).
func (fv *funcVerifier) assertNoAssume(st *State, kind, desc string, pos token.Pos, goal smt.Term) *Oblig {
	if st.dead() || goal.IsTrue() {
		return nil
	}
	o := &Oblig{ID: fv.oblID(kind, desc), Kind: kind, Func: fv.fi.Key, Desc: desc, nAssume: len(fv.assumptions),
		pc: st.live, goal: goal, fv: fv, Inputs: fv.inputs, Cand: -1, nFrameAx: len(fv.frameAxioms)}
	if pos.IsValid() {
		o.Pos = fv.prog.Pos(pos)
	}
	fv.obligs = append(fv.obligs, o)
	return o
}

func (fv *funcVerifier) execRange(st *State, x *ast.RangeStmt, label string) {
	key := fv.loopKey()
	rt := fv.typeOf(x.X)
	mi := fv.computeMod(x.Body)
	spec := fv.prog.Specs.Loops[key]

	var keyVar, valVar *types.Var
	defVar := func(e ast.Expr) *types.Var {
		if e == nil {
			return nil
		}
		id, ok := e.(*ast.Ident)
		if !ok || id.Name == "_" {
			if ok {
				return nil
			}
			fv.unsupported("range with non-identifier targets")
		}
		if x.Tok == token.DEFINE {
			v, _ := fv.info.Defs[id].(*types.Var)
			return v
		}
		v, _ := fv.info.Uses[id].(*types.Var)
		return v
	}
	keyVar, valVar = defVar(x.Key), defVar(x.Value)

	var n smt.Term // iteration count for indexable ranges
	var elemAt func(s *State, i smt.Term) smt.Term
	var elemT types.Type
	kind := ""
	switch u := rt.Underlying().(type) {
	case *types.Slice:
		sv := fv.evalExpr(st, x.X)
		n = slLen(sv)
		elemT = u.Elem()
		elemAt = func(s *State, i smt.Term) smt.Term { return fv.sliceElemLval(s, sv, i, u.Elem()).load() }
		kind = "index"
	case *types.Array:
		av := fv.evalExpr(st, x.X)
		n = smt.IntLit(u.Len())
		elemT = u.Elem()
		elemAt = func(s *State, i smt.Term) smt.Term {
			v := fv.c.Let("ael", smt.Select(av, i))
			fv.assume(s, fv.so.valid(v, u.Elem(), s.frontier))
			return v
		}
		kind = "index"
	case *types.Pointer:
		at, ok := u.Elem().Underlying().(*types.Array)
		if !ok {
			fv.unsupported("range over %s", rt)
		}
		pv := fv.evalExpr(st, x.X)
		fv.nilCheck(st, pv, x.X, x.Pos())
		n = smt.IntLit(at.Len())
		elemT = at.Elem()
		elemAt = func(s *State, i smt.Term) smt.Term {
			v := fv.c.Let("ael", smt.Select(fv.loadAt(s, pv, u.Elem()), i))
			fv.assume(s, fv.so.valid(v, at.Elem(), s.frontier))
			return v
		}
		kind = "index"
	case *types.Basic:
		if u.Info()&types.IsString != 0 {
			sv := fv.evalExpr(st, x.X)
			n = smt.App(smt.Int, "str_len", sv)
			elemT = types.Typ[types.Rune]
			elemAt = func(s *State, i smt.Term) smt.Term {
				r := fv.c.Fresh("rune", smt.Int)
				fv.assume(s, smt.And(smt.Ge(r, smt.IntLit(0)), smt.Le(r, smt.IntLit(0x10FFFF))))
				return r
			}
			kind = "string"
		} else if u.Info()&types.IsInteger != 0 {
			n = fv.evalExpr(st, x.X)
			kind = "int"
		} else {
			fv.unsupported("range over %s", rt)
		}
	case *types.Map:
		kind = "map"
	case *types.Chan:
		kind = "chan"
	default:
		fv.unsupported("range over %s", rt)
	}
	var mapRef smt.Term
	var mt *types.Map
	if kind == "map" {
		mt = rt.Underlying().(*types.Map)
		mapRef = fv.evalExpr(st, x.X)
	}
	if kind == "chan" {
		fv.evalExpr(st, x.X)
	}

	var visitedKey smt.Term
	savedVisited, hadVisited := st.ghost["visited"]
	if kind == "map" {
		ks := fv.so.sortOf(mt.Key())
		st.ghost["visited"] = smt.Term{S: "((as const " + smt.Arr(ks, smt.Bool) + ") false)", Sort: smt.Arr(ks, smt.Bool)}
	}
	pre := st.clone()
	if keyVar != nil {
		mi.vars[keyVar] = false
		delete(mi.vars, keyVar)
	}
	if valVar != nil {
		delete(mi.vars, valVar)
	}
	cands := []candidate{}
	if fv.opt.Sweep || fv.opt.AutoInv {
		cands = fv.loopCandidates(st, mi)
		var descs []string
		for _, c := range cands {
			descs = append(descs, c.desc)
		}
		fv.candLog[key] = descs
	}
	idxName := "range_idx"
	bindIdx := func(s *State, idx smt.Term) {
		s.ghost[idxName+key] = idx
		s.ghost["ridx"] = idx // index of the innermost enclosing range loop, for invariants over blank-identifier ranges
		if keyVar != nil && (kind == "index" || kind == "int" || kind == "string") {
			s.vars[keyVar] = idx
		}
	}
	// init: index 0
	if kind != "map" && kind != "chan" {
		bindIdx(st, smt.IntLit(0))
	} else if keyVar != nil {
		st.vars[keyVar] = fv.so.zero(keyVar.Type())
	}
	if valVar != nil {
		st.vars[valVar] = fv.so.zero(valVar.Type())
	}
	fv.assertLoopInvs(st, spec, pre, "loopinv.init", key, x.Pos())
	for i, c := range cands {
		if fv.candEnabled(key, c) {
			if o := fv.assertNoAssume(st, "cand.init", key+":"+c.desc, x.Pos(), c.eval(st)); o != nil {
				o.Cand, o.CandLoop, o.CandDesc, o.Frame = i, key, c.desc, c.frame
			}
		}
	}
	fv.havocLoop(st, mi)
	if kind == "map" {
		st.ghost["visited"] = fv.c.Fresh("visited", st.ghost["visited"].Sort)
	}
	var idx smt.Term
	if kind != "map" && kind != "chan" {
		idx = fv.c.Fresh("ridx", smt.Int)
		fv.assume(st, smt.And(smt.Ge(idx, smt.IntLit(0)), smt.Le(idx, n)))
		if kind == "int" {
			fv.assume(st, smt.Ge(n, smt.IntLit(0)))
		}
		bindIdx(st, idx)
	}
	fv.assumeLoopInvs(st, spec, pre)
	for _, c := range cands {
		if fv.candEnabled(key, c) {
			if c.assumeAt != nil {
				c.assumeAt(st)
			} else {
				fv.assume(st, c.eval(st))
			}
		}
	}
	fv.iterSnaps = append(fv.iterSnaps, st.clone())
	defer func() { fv.iterSnaps = fv.iterSnaps[:len(fv.iterSnaps)-1] }()
	exit := st.clone()
	switch kind {
	case "index", "int", "string":
		fv.restrict(exit, smt.Eq(idx, n))
		fv.restrict(st, smt.Lt(idx, n))
		if valVar != nil && elemAt != nil {
			st.vars[valVar] = fv.c.Let("rv_"+valVar.Name(), fv.coerce(st, elemAt(st, idx), elemT, valVar.Type()))
		}
	case "map":
		more := fv.c.Fresh("more", smt.Bool)
		fv.restrict(exit, smt.Not(more))
		fv.restrict(st, more)
		k := fv.fresh(st, "mk", mt.Key())
		v, present := fv.mapLookup(st, mapRef, k, mt)
		fv.assume(st, present)
		// each key is visited at most once: ghost set "visited"
		fv.assume(st, smt.Not(smt.Select(st.ghost["visited"], k)))
		visitedKey = k
		if keyVar != nil {
			st.vars[keyVar] = k
		}
		if valVar != nil {
			st.vars[valVar] = v
		}
	case "chan":
		more := fv.c.Fresh("more", smt.Bool)
		fv.restrict(exit, smt.Not(more))
		fv.restrict(st, more)
		ct := rt.Underlying().(*types.Chan)
		if keyVar != nil {
			st.vars[keyVar] = fv.fresh(st, "recv", ct.Elem())
		}
	}
	frame := &loopFrame{label: label, isLoop: true}
	fv.loops = append(fv.loops, frame)
	fv.execBlock(st, x.Body.List)
	fv.loops = fv.loops[:len(fv.loops)-1]
	body := fv.mergeAll(st, frame.continues)
	if !body.dead() {
		if idx.S != "" {
			bindIdx(body, smt.Add(idx, smt.IntLit(1)))
		}
		if kind == "map" && visitedKey.S != "" {
			body.ghost["visited"] = fv.c.Let("visited", smt.Store(body.ghost["visited"], visitedKey, smt.True))
		}
		fv.assertIteration(body, spec, key, x.Pos())
		fv.assertLoopInvs(body, spec, pre, "loopinv.step", key, x.Pos())
		for i, c := range cands {
			if fv.candEnabled(key, c) {
				if o := fv.assertNoAssume(body, "cand.step", key+":"+c.desc, x.Pos(), c.eval(body)); o != nil {
					o.Cand, o.CandLoop, o.CandDesc, o.Frame = i, key, c.desc, c.frame
				}
			}
		}
	}
	if kind == "map" && !exit.dead() {
		// normal termination of a range over a map that the body did not modify: every key was visited
		dom, _, _ := fv.mapKeys(mt)
		fv.instFrames(dom, mapRef)
		d0 := smt.Select(fv.heapGet(pre, dom), mapRef)
		d1 := smt.Select(fv.heapGet(exit, dom), mapRef)
		fv.nQuant++
		k := smt.Term{S: fmt.Sprintf("vk!%d", fv.nQuant), Sort: fv.so.sortOf(mt.Key())}
		fv.assume(exit, smt.Implies(smt.Eq(d0, d1), smt.Forall([]smt.Term{k}, smt.Implies(smt.Select(d0, k), smt.Select(exit.ghost["visited"], k)))))
		if fv.deleteOnlyBody(x.Body) {
			// the body creates no map entry (it only deletes): every entry still present at normal
			// termination was produced (Go spec, "For statements with range clause": entries removed
			// before being reached are not produced, only created entries may be skipped)
			fv.nQuant++
			k2 := smt.Term{S: fmt.Sprintf("vk!%d", fv.nQuant), Sort: fv.so.sortOf(mt.Key())}
			fv.assume(exit, smt.Forall([]smt.Term{k2}, smt.Implies(smt.Select(d1, k2), smt.Select(exit.ghost["visited"], k2))))
		}
	}
	res := fv.mergeAll(exit, frame.breaks)
	if kind == "map" {
		if hadVisited {
			res.ghost["visited"] = savedVisited
		} else {
			delete(res.ghost, "visited")
		}
	}
	*st = *res
}

// assertIteration checks the "iteration" clauses of a loop at the end of an
// arbitrary iteration (normal end of the body and every continue).
func (fv *funcVerifier) assertIteration(body *State, spec *LoopSpec, key string, pos token.Pos) {
	if spec == nil || len(spec.Iteration) == 0 {
		return
	}
	env := fv.loopEnv(body)
	for _, e := range spec.Iteration {
		if ct, cok := env.evalClause(e); cok {
			fv.assertNoAssume(body, "iteration", key+":"+e.String(), pos, ct)
		}
	}
}
