package allocator

// Bounded stand-in for "serialising then restoring any allocator yields an allocator that answers
// every query identically" for the lease-mode allocator (EpochBitmapAllocator.MarshalJSON builds the
// document with fmt formatting the verifier does not model; UnmarshalJSON's filter is under contract
// only as far as the invariants go). Geometries: base networks /16, /22, /24, /28 x prefix lengths
// {24, 28, 30, 32} where legal x grace periods {1, 2}; histories: 6 subscribers allocated, epochs
// advanced 0..3 times with subscribers 0..2 renewed each epoch, one released. After marshal +
// unmarshal into a fresh value: same epoch, same Lookup / LookupByIP answer for every subscriber and
// address, same Stats, and the next Allocate of a new subscriber returns the same address.

import (
	"context"
	"encoding/json"
	"fmt"
	"testing"
)

func TestBoundedVC(t *testing.T) {
	ctx := context.Background()
	bad, cases := 0, 0
	report := func(format string, a ...any) {
		if bad < 5 {
			fmt.Printf("BOUNDED-VIOLATED "+format+"\n", a...)
		}
		bad++
	}
	for _, base := range []string{"10.8.0.0/16", "10.8.4.0/22", "10.8.7.0/24", "10.8.7.16/28"} {
		for _, plen := range []int{24, 28, 30, 32} {
			for _, grace := range []uint64{1, 2} {
				for adv := 0; adv <= 3; adv++ {
					cfg := EpochBitmapConfig{BaseNetwork: base, PrefixLength: plen, GracePeriod: grace}
					a, err := NewEpochBitmapAllocator(cfg)
					if err != nil {
						continue // geometry not legal for this base
					}
					cases++
					name := fmt.Sprintf("%s plen=%d grace=%d advances=%d", base, plen, grace, adv)
					var subs []string
					for i := 0; i < 6; i++ {
						s := fmt.Sprintf("sub-%d", i)
						if _, err := a.Allocate(ctx, s); err == nil {
							subs = append(subs, s)
						}
					}
					for e := 0; e < adv; e++ {
						a.AdvanceEpoch()
						for i := 0; i < 3 && i < len(subs); i++ {
							a.Renew(ctx, subs[i])
						}
					}
					if len(subs) > 4 {
						a.Release(ctx, subs[4])
					}
					doc, err := json.Marshal(a)
					if err != nil {
						report("%s: MarshalJSON: %v", name, err)
						continue
					}
					b, _ := NewEpochBitmapAllocator(EpochBitmapConfig{BaseNetwork: "192.0.2.0/24", PrefixLength: 32})
					if err := json.Unmarshal(doc, b); err != nil {
						report("%s: the allocator's own snapshot cannot be restored: %v", name, err)
						continue
					}
					if a.GetCurrentEpoch() != b.GetCurrentEpoch() {
						report("%s: epoch %d restored as %d", name, a.GetCurrentEpoch(), b.GetCurrentEpoch())
					}
					for _, s := range subs {
						x, y := a.Lookup(s), b.Lookup(s)
						if (x == nil) != (y == nil) || (x != nil && !x.Equal(y)) {
							report("%s: Lookup(%s) = %v before, %v after restore", name, s, x, y)
						}
						if x != nil && a.LookupByIP(x) != b.LookupByIP(x) {
							report("%s: LookupByIP(%v) = %q before, %q after restore", name, x, a.LookupByIP(x), b.LookupByIP(x))
						}
					}
					aa, at, _ := a.Stats()
					ba, bt, _ := b.Stats()
					if aa != ba || at != bt {
						report("%s: Stats %d/%d before, %d/%d after restore", name, aa, at, ba, bt)
					}
					x, ex := a.Allocate(ctx, "newcomer")
					y, ey := b.Allocate(ctx, "newcomer")
					if (ex == nil) != (ey == nil) || (ex == nil && !x.Equal(y)) {
						report("%s: next Allocate gives %v (%v) before, %v (%v) after restore", name, x, ex, y, ey)
					}
				}
			}
		}
	}
	if bad != 0 {
		fmt.Printf("BOUNDED-VIOLATED %d deviations in total over %d cases\n", bad, cases)
		return
	}
	fmt.Printf("BOUNDED-OK %d allocator states restored from their own snapshot\n", cases)
}
