package ha

// Bounded stand-in for "once the link is up and the active goes quiet, the standby holds exactly the
// active's sessions" end to end over loopback HTTP (full-sync GET + SSE stream, reconnects: layers the
// verifier does not model). An active and a standby syncer; three histories over 40 session ids (adds,
// updates, deletes; 200 / 300 / 300 changes), the second with all client connections cut twice in the
// middle, the third with a burst of 300 changes pushed without pause, and a fourth (200 changes) over
// a half-dead link: a TCP relay between the two drops the standby's side of every connection while
// the active's side stays open for another 1.5 s, so the standby has reconnected and resynchronised
// long before the active notices that the old stream is gone; changes keep flowing throughout.
// After the active goes quiet the standby's table must equal the active's store (ids and the IP /
// State fields) within 10 s.

import (
	"fmt"
	"io"
	"math/rand"
	"net"
	"net/http"
	"net/http/httptest"
	"sync"
	"testing"
	"time"

	"go.uber.org/zap"
)

func TestBoundedVC(t *testing.T) {
	bad := 0
	for scenario := 0; scenario < 4; scenario++ {
		rng := rand.New(rand.NewSource(int64(1000 + scenario)))
		activeStore := NewInMemorySessionStore()
		acfg := DefaultSyncConfig()
		acfg.NodeID, acfg.Role = "active", RoleActive
		acfg.HeartbeatInterval = 200 * time.Millisecond
		active := NewHASyncer(acfg, activeStore, zap.NewNop())
		mux := http.NewServeMux()
		mux.HandleFunc("/ha/sessions", active.handleGetSessions)
		mux.HandleFunc("/ha/sessions/stream", active.handleSessionStream)
		mux.HandleFunc("/ha/health", active.handleHealth)
		ts := httptest.NewServer(mux)
		active.wg.Add(1)
		go active.broadcastLoop()

		scfg := DefaultSyncConfig()
		scfg.NodeID, scfg.Role = "standby", RoleStandby
		scfg.Partner = &PartnerInfo{NodeID: "active", Endpoint: ts.Listener.Addr().String()}
		var relay *halfDeadRelay
		if scenario == 3 {
			relay = newHalfDeadRelay(ts.Listener.Addr().String())
			scfg.Partner.Endpoint = relay.addr()
		}
		scfg.ReconnectInterval = 50 * time.Millisecond
		scfg.FullSyncInterval = 0
		standby := NewHASyncer(scfg, NewInMemorySessionStore(), zap.NewNop())
		if err := standby.Start(); err != nil {
			fmt.Println("BOUNDED-SETUP-FAILED", err)
			return
		}
		time.Sleep(300 * time.Millisecond) // let the standby connect

		n := []int{200, 300, 300, 200}[scenario]
		burstUntil := -1
		for i := 0; i < n; i++ {
			id := fmt.Sprintf("sess-%02d", rng.Intn(40))
			_, exists := activeStore.GetSession(id)
			switch {
			case !exists:
				st := &SessionState{SessionID: id, IP: fmt.Sprintf("10.3.%d.%d", rng.Intn(250), i%250), State: "active"}
				activeStore.PutSession(st)
				active.PushChange(SyncTypeAdd, st)
			case rng.Intn(3) == 0:
				activeStore.DeleteSession(id)
				active.PushChange(SyncTypeDelete, &SessionState{SessionID: id})
			default:
				st := &SessionState{SessionID: id, IP: fmt.Sprintf("10.4.%d.%d", rng.Intn(250), i%250), State: "renewed"}
				activeStore.PutSession(st)
				active.PushChange(SyncTypeUpdate, st)
			}
			if scenario == 1 && (i == n/3 || i == 2*n/3) {
				// cut, push ten changes at once while the standby is certainly disconnected (it waits
				// at least ReconnectInterval before its full-sync GET), then stay quiet while it
				// reconnects (see the note on the reconnect window below)
				ts.CloseClientConnections()
				burstUntil = i + 10
			}
			if scenario == 3 && i == n/4 {
				relay.cutStandbySide(1500 * time.Millisecond)
				// no change is pushed while the standby reconnects: a change that falls between its
				// full-sync GET and the registration of its new stream is healed only by the next
				// change to that session or the periodic full sync (switched off here), and that
				// window is not what this history is about
				time.Sleep(400 * time.Millisecond)
			}
			switch {
			case scenario == 1 && i < burstUntil:
			case scenario == 1 && i == burstUntil:
				time.Sleep(400 * time.Millisecond)
			case scenario == 3 && i >= n/4:
				time.Sleep(20 * time.Millisecond) // keep changes flowing for 3 s after the cut
			case scenario != 2:
				time.Sleep(time.Millisecond)
			}
		}
		// the active goes quiet: wait for convergence
		deadline := time.Now().Add(10 * time.Second)
		diff := ""
		for {
			diff = ""
			want := activeStore.GetAllSessions()
			got := standby.GetAllReceivedSessions()
			gm := map[string]*SessionState{}
			for _, s := range got {
				gm[s.SessionID] = s
			}
			if len(got) != len(want) {
				diff = fmt.Sprintf("standby holds %d sessions, active %d", len(got), len(want))
			}
			for _, w := range want {
				g, ok := gm[w.SessionID]
				if !ok {
					diff = fmt.Sprintf("session %s of the active is missing on the standby", w.SessionID)
				} else if g.IP != w.IP || g.State != w.State {
					diff = fmt.Sprintf("session %s: active has %s/%s, standby %s/%s", w.SessionID, w.IP, w.State, g.IP, g.State)
				}
			}
			if diff == "" || time.Now().After(deadline) {
				break
			}
			time.Sleep(100 * time.Millisecond)
		}
		if diff != "" {
			fmt.Printf("BOUNDED-VIOLATED scenario %d (%d changes%s): 10 s after the active went quiet: %s\n", scenario, n, []string{"", ", connections cut twice", ", pushed in one burst", ", half-dead link"}[scenario], diff)
			bad++
		}
		standby.Stop()
		active.cancel()
		if relay != nil {
			relay.close()
		}
		ts.CloseClientConnections()
		ts.Close()
	}
	if bad != 0 {
		fmt.Printf("BOUNDED-VIOLATED %d scenarios did not converge\n", bad)
		return
	}
	fmt.Println("BOUNDED-OK 4 histories (200 / 300 with two connection cuts / 300 in one burst / 200 over a half-dead link) over 40 session ids converge")
}

// halfDeadRelay forwards TCP connections to target. cutStandbySide closes the accepting side of
// every open connection at once and the target side only after the given delay (what a dying link
// looks like from the two ends).
type halfDeadRelay struct {
	ln     net.Listener
	target string
	mu     sync.Mutex
	pairs  [][2]net.Conn // accepted side, target side
}

func newHalfDeadRelay(target string) *halfDeadRelay {
	ln, err := net.Listen("tcp", "127.0.0.1:0")
	if err != nil {
		panic(err)
	}
	r := &halfDeadRelay{ln: ln, target: target}
	go func() {
		for {
			c, err := ln.Accept()
			if err != nil {
				return
			}
			up, err := net.Dial("tcp", target)
			if err != nil {
				c.Close()
				continue
			}
			r.mu.Lock()
			r.pairs = append(r.pairs, [2]net.Conn{c, up})
			r.mu.Unlock()
			go func() { io.Copy(up, c) }()
			go func() {
				io.Copy(c, up)          // ends when the standby's side is closed ...
				io.Copy(io.Discard, up) // ... keep draining so that the active's writes do not block
			}()
		}
	}()
	return r
}

func (r *halfDeadRelay) addr() string { return r.ln.Addr().String() }

func (r *halfDeadRelay) cutStandbySide(targetSideAfter time.Duration) {
	r.mu.Lock()
	pairs := r.pairs
	r.pairs = nil
	r.mu.Unlock()
	for _, p := range pairs {
		p[0].Close()
	}
	time.AfterFunc(targetSideAfter, func() {
		for _, p := range pairs {
			p[1].Close()
		}
	})
}

func (r *halfDeadRelay) close() {
	r.ln.Close()
	r.cutStandbySide(0)
}
