package check

func init() {
	register(&PropDef{
		ID:    "C18",
		Title: "A subscriber can only source traffic from its bound address",
		BPF: []BPFUnit{
			{"antispoof.c", "antispoof_ingress"},
		},
		// the kernel half of the claim: the return value of the TC program equals
		// the verdict function written from the property statement
		// (/verif/spec/bpf/antispoof_ingress.vspec), per specification case and
		// return site; memory safety etc. of the same program is C07
		BPFKinds: "verdict_spec",
		Undecided: []string{
			"control-plane half (pkg/antispoof/manager.go writes the binding / config / range bytes the specification reads; layouts documented at the top of antispoof_ingress.vspec): not part of this BPF unit list",
			"frames outside the specification's scope: shorter than their Ethernet/VLAN header, ethertypes other than IPv4/IPv6 (ARP, PPPoE discovery/session, ...), mode bytes other than 0..3",
			"'lies in an allowed range' is the result of the LPM-trie lookup with a /32 key (helper contract, assumed); IPv6 has no range table, so no IPv6 source lies in an allowed range",
			"concurrent binding updates while a frame is in flight (the specification reads the maps as they are at program entry)",
		},
		Assumptions: []string{
			"frame length symbolic in 0..65535, all frame bytes and all map contents symbolic; map contents at entry are functions of the key bytes (the same functions answer the program's lookups)",
			"the mode in force for a MAC is the mode byte of its binding, else default_mode of antispoof_config[0], else disabled",
		},
		Explanation: "antispoof_ingress is compiled from bpf/antispoof.c on every run and executed symbolically (see C07). The specified verdict is a function of the received frame and of the ghost contents of subscriber_bindings, antispoof_config and allowed_ranges_v4 at entry, written from the property statement in /verif/spec/bpf/antispoof_ingress.vspec: strict => forwarded iff the IPv4/IPv6 source equals the valid bound address of the sender MAC; loose => forwarded iff the source is found in the allowed ranges; log-only/disabled => forwarded; frames with VLAN tags are parsed through up to two tags; a frame whose IP header is truncated has no source address and is therefore not forwarded under strict/loose. For every return site of the program and every case of the specification (strict/loose x IPv4/IPv6, log-only, disabled, VLAN-tagged, truncated header) the obligation is: scope and case imply ret == spec. Counterexamples are replayed on the natively compiled program.",
	})
}
