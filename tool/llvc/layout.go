package llvc

import "fmt"

// Data layout: the IR is produced for x86_64 (and the BPF target agrees on
// everything used here): little endian, 64-bit pointers, natural alignment of
// i8/i16/i32/i64, struct padding unless packed.

func (m *Module) checkDataLayout() error {
	if m.DataLayout == "" {
		return fmt.Errorf("IR has no target datalayout")
	}
	if m.DataLayout[0] != 'e' {
		return fmt.Errorf("big-endian data layout %q is not supported", m.DataLayout)
	}
	return nil
}

// SizeOf returns the allocation size in bytes.
func SizeOf(t *Type) (int64, error) {
	switch t.Kind {
	case TInt:
		switch {
		case t.Bits <= 8:
			return 1, nil
		case t.Bits <= 16:
			return 2, nil
		case t.Bits <= 32:
			return 4, nil
		case t.Bits <= 64:
			return 8, nil
		}
		return 0, fmt.Errorf("integer type %s wider than 64 bits", t)
	case TPtr:
		return 8, nil
	case TArray:
		es, err := SizeOf(t.Elem)
		if err != nil {
			return 0, err
		}
		return es * t.Len, nil
	case TStruct:
		offs, size, err := structLayout(t)
		_ = offs
		return size, err
	}
	return 0, fmt.Errorf("type %s has no size", t)
}

func AlignOf(t *Type) (int64, error) {
	switch t.Kind {
	case TInt, TPtr:
		return SizeOf(t)
	case TArray:
		return AlignOf(t.Elem)
	case TStruct:
		if t.Packed {
			return 1, nil
		}
		var a int64 = 1
		for _, f := range t.Fields {
			fa, err := AlignOf(f)
			if err != nil {
				return 0, err
			}
			if fa > a {
				a = fa
			}
		}
		return a, nil
	}
	return 0, fmt.Errorf("type %s has no alignment", t)
}

func structLayout(t *Type) ([]int64, int64, error) {
	if t.Kind == TOpaque {
		return nil, 0, fmt.Errorf("opaque type %s has no layout", t)
	}
	offs := make([]int64, len(t.Fields))
	var off, maxA int64 = 0, 1
	for i, f := range t.Fields {
		sz, err := SizeOf(f)
		if err != nil {
			return nil, 0, err
		}
		if !t.Packed {
			a, err := AlignOf(f)
			if err != nil {
				return nil, 0, err
			}
			if a > maxA {
				maxA = a
			}
			off = (off + a - 1) / a * a
		}
		offs[i] = off
		off += sz
	}
	if !t.Packed {
		off = (off + maxA - 1) / maxA * maxA
	}
	return offs, off, nil
}

// FieldOffset returns the byte offset and type of field i of struct t.
func FieldOffset(t *Type, i int) (int64, *Type, error) {
	if t.Kind != TStruct {
		return 0, nil, fmt.Errorf("not a struct: %s", t)
	}
	if i < 0 || i >= len(t.Fields) {
		return 0, nil, fmt.Errorf("field index %d out of range for %s", i, t)
	}
	offs, _, err := structLayout(t)
	if err != nil {
		return 0, nil, err
	}
	return offs[i], t.Fields[i], nil
}
