package allocator

// Bounded stand-in for "a change announced by another node is applied with the address it
// announces" in LEASE mode (DistributedAllocator.handleRemoteChange, lease-mode branch: the
// EpochBitmapAllocator is not under contract, so the deductive check of handleRemoteChange covers
// the session-mode branch and the delete path only). The watch callback is called directly, as the
// store would call it. Bound: grace periods {1, 2} x local epoch after 0..4 advances x announced
// epoch 0..local+4 x three addresses x three prior states of the subscriber (unknown / holding the
// announced address / holding another address), then an announced delete.
//
// Oracle (from the property statement): every announced put whose epoch is not older than the local
// epoch minus the configured grace period -- in particular every put stamped with an epoch AHEAD of
// the local one; epoch counters are per node -- leaves the subscriber holding exactly the announced
// address, the address answering with that subscriber, and the next local allocation never handing
// out the announced address. Older puts may be ignored or applied; nothing is asserted for them.
// An announced delete leaves the subscriber without an address.

import (
	"context"
	"encoding/json"
	"fmt"
	"net"
	"testing"
	"time"
)

func TestBoundedVC(t *testing.T) {
	ctx := context.Background()
	bad, cases := 0, 0
	report := func(format string, a ...any) {
		if bad < 5 {
			fmt.Printf("BOUNDED-VIOLATED "+format+"\n", a...)
		}
		bad++
	}
	addrs := []string{"10.9.0.1/32", "10.9.0.7/32", "10.9.0.200/32"}
	for _, grace := range []int{1, 2} {
		for adv := 0; adv <= 4; adv++ {
			for prior := 0; prior < 3; prior++ {
				for ai, announced := range addrs {
					// the local epoch is only known after construction; enumerate announced epochs below
					probe, err := newLeaseNode(grace, adv)
					if err != nil {
						t.Fatalf("construct: %v", err)
					}
					local := probe.GetCurrentEpoch()
					for e := uint64(0); e <= local+4; e++ {
						da, _ := newLeaseNode(grace, adv)
						sub := "remote-sub"
						var before *net.IPNet
						switch prior {
						case 1: // already holding the announced address
							da.handleRemoteChange(da.keyPrefix()+sub, leaseRecord(sub, announced, local), false)
						case 2: // holding another address
							other := addrs[(ai+1)%len(addrs)]
							da.handleRemoteChange(da.keyPrefix()+sub, leaseRecord(sub, other, local), false)
						}
						before, _ = da.Get(sub)
						cases++
						name := fmt.Sprintf("grace=%d local-epoch=%d announced-epoch=%d prior=%d addr=%s", grace, local, e, prior, announced)
						da.handleRemoteChange(da.keyPrefix()+sub, leaseRecord(sub, announced, e), false)
						if e+uint64(grace) >= local {
							got, ok := da.Get(sub)
							if !ok || got.String() != announced {
								report("%s: announced change not applied with the announced address: subscriber has %v (had %v)", name, got, before)
								continue
							}
							_, want, _ := net.ParseCIDR(announced)
							if who, ok := da.GetByPrefix(want); !ok || who != sub {
								report("%s: address %s answers with %q after the announced change", name, announced, who)
								continue
							}
							// a following local allocation must not hand out the announced address
							if p, err := da.Allocate(ctx, "local-sub"); err == nil && p.String() == announced {
								report("%s: announced address %s handed to a local subscriber as well", name, announced)
								continue
							}
						}
						// announced delete
						da.handleRemoteChange(da.keyPrefix()+sub, nil, true)
						if got, ok := da.Get(sub); ok {
							report("%s: announced delete not applied: subscriber still has %v", name, got)
						}
					}
				}
			}
		}
	}
	if bad > 0 {
		t.Fatalf("%d violations in %d cases", bad, cases)
	}
	fmt.Printf("BOUNDED-OK cases=%d\n", cases)
}

// noStore satisfies Store for a node whose persistence is not exercised here: local allocations
// write through it and must succeed.
type noStore struct{}

func (noStore) Get(ctx context.Context, key string) ([]byte, error) {
	return nil, fmt.Errorf("not found")
}
func (noStore) Put(ctx context.Context, key string, value []byte) error { return nil }
func (noStore) Delete(ctx context.Context, key string) error            { return nil }
func (noStore) Query(ctx context.Context, prefix string) ([]KeyValue, error) {
	return nil, nil
}
func (noStore) Watch(prefix string, callback func(key string, value []byte, deleted bool)) {}

func newLeaseNode(grace, advances int) (*DistributedAllocator, error) {
	da, err := NewDistributedAllocator(DistributedConfig{
		PoolID: "lease", BaseNetwork: "10.9.0.0/24", PrefixLen: 32,
		Mode: PoolModeLease, EpochPeriod: time.Hour, EpochGrace: grace,
	}, noStore{})
	if err != nil {
		return nil, err
	}
	for i := 0; i < advances; i++ {
		da.AdvanceEpoch()
	}
	return da, nil
}

func leaseRecord(sub, prefix string, epoch uint64) []byte {
	b, _ := json.Marshal(DistributedAllocation{PoolID: "lease", SubscriberID: sub, Prefix: prefix, Epoch: epoch, AllocatedAt: time.Unix(1700000000, 0)})
	return b
}
