package ebpf

import (
	"fmt"
	"net"
	"testing"

	cebpf "github.com/cilium/ebpf"
	"go.uber.org/zap"
)

// The DHCP slow path caches a lease for the fast path exactly as
// Server.updateFastPathCache does: AddSubscriber(MACToUint64(mac),
// &PoolAssignment{AllocatedIP: IPToUint32(ip)}), here into a real kernel hash map
// with the key/value sizes of subscriber_pools. bpf/dhcp_fastpath.c copies the
// word at value offset 4 into the reply as it is (dhcp->yiaddr =
// assignment->allocated_ip), so the value bytes 4..7 must be the address bytes in
// network order.
func TestReplayVC(t *testing.T) {
	sp, err := cebpf.NewMap(&cebpf.MapSpec{Type: cebpf.Hash, KeySize: 8, ValueSize: 25, MaxEntries: 8})
	if err != nil {
		fmt.Println("REPLAY-SETUP-FAILED (cannot create a BPF map here):", err)
		return
	}
	defer sp.Close()
	l := &Loader{logger: zap.NewNop(), subscriberPools: sp}
	mac, _ := net.ParseMAC("02:00:00:00:00:01")
	ip := net.IPv4(10, 0, 1, 100).To4()
	key := MACToUint64(mac)
	if err := l.AddSubscriber(key, &PoolAssignment{PoolID: 1, AllocatedIP: IPToUint32(ip)}); err != nil {
		fmt.Println("REPLAY-SETUP-FAILED", err)
		return
	}
	var raw [25]byte
	if err := sp.Lookup(&key, &raw); err != nil {
		fmt.Println("REPLAY-SETUP-FAILED", err)
		return
	}
	if raw[4] != ip[0] || raw[5] != ip[1] || raw[6] != ip[2] || raw[7] != ip[3] {
		fmt.Printf("REPLAY-VIOLATED: the cache entry for %s holds allocated_ip bytes % x; dhcp_fastpath_prog copies them into yiaddr unchanged, so the fast path offers %d.%d.%d.%d\n",
			ip, raw[4:8], raw[4], raw[5], raw[6], raw[7])
		return
	}
	fmt.Println("REPLAY-OK")
}
