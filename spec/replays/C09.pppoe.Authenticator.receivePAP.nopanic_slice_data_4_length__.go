package pppoe

import (
	"fmt"
	"net"
	"testing"

	"go.uber.org/zap"
)

var _ = net.IPv4len
var _ = zap.NewNop

func replayGuard(f func()) {
	defer func() {
		if r := recover(); r != nil {
			fmt.Println("REPLAY-PANIC:", r)
		}
	}()
	f()
	fmt.Println("REPLAY-OK")
}

// PAP packet whose length field (3) is smaller than the 4-byte header: data[4:3].
func TestReplayVC(t *testing.T) {
	a := NewAuthenticator(AuthConfig{}, nil, func(uint16, []byte) {}, zap.NewNop())
	replayGuard(func() {
		a.receivePAP([]byte{PAPCodeAuthRequest, 1, 0, 3})
	})
}
