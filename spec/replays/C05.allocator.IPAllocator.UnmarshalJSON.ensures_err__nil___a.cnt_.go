package allocator

import (
	"fmt"
	"testing"
)

// A persisted state whose bitmap and allocation map disagree (two subscribers on
// index 0, bitmap empty) is accepted as-is; the restored allocator then hands
// the prefix of a recorded holder to a new subscriber.
func TestReplayVC(t *testing.T) {
	a, _ := NewIPAllocator("10.0.0.0/24", 32)
	doc := []byte(`{"base_network":"10.0.0.0/24","prefix_length":32,"bitmap":"0","allocated":{"alice":0,"bob":0}}`)
	if err := a.UnmarshalJSON(doc); err != nil {
		fmt.Println("REPLAY-OK (rejected:", err, ")")
		return
	}
	allocated, _, _ := a.Stats()
	distinct := map[string]bool{}
	for _, al := range a.ListAllocations() {
		distinct[al.Prefix.String()] = true
	}
	if allocated != uint64(len(distinct)) {
		fmt.Printf("REPLAY-VIOLATED: after restore Stats reports %d allocated but %d distinct prefix(es) are held\n", allocated, len(distinct))
		return
	}
	fmt.Println("REPLAY-OK")
}
