package pool

// Replay for the C17 precondition "distinct peer names have distinct scores":
// rendezvousHash (first maximum in slice order, used by GetOwner/IsLocalOwner) and
// rendezvousRanked (sort.Slice, unstable, used by getHealthyOwner/Allocate/Release) can
// disagree about the owner when two peer names have the same score. The score mixer is a
// bijection of keyHash^FNV1a(node), so scores tie exactly when two node names collide under
// 64-bit FNV-1a. "8yn0iYCKYHlIj4-BwPqk" / "GReLUrM4wMqfg9yzV3KQ" is such a pair.

import (
	"fmt"
	"sort"
	"testing"
)

func TestBoundedVC(t *testing.T) {
	defer func() {
		if r := recover(); r != nil {
			fmt.Printf("BOUNDED-VIOLATED panic: %v\n", r)
		}
	}()
	a, b := "8yn0iYCKYHlIj4-BwPqk", "GReLUrM4wMqfg9yzV3KQ"
	if hashString(a) != hashString(b) {
		fmt.Println("BOUNDED-OK (no collision on this platform)")
		return
	}
	nodes := []string{a, b}
	for i := 0; i < 14; i++ { // > 12 elements: sort.Slice leaves the insertion-sort regime
		nodes = append(nodes, fmt.Sprintf("bng-%02d", i))
	}
	sort.Strings(nodes) // as NewPeerPool/AddPeer do
	disagreements, ties := 0, 0
	first := ""
	for k := 0; k < 20000; k++ {
		key := fmt.Sprintf("sub-%d", k)
		owner := rendezvousHash(key, nodes)
		ranked := rendezvousRanked(key, nodes)
		if owner == a || owner == b {
			ties++
		}
		if ranked[0] != owner {
			disagreements++
			if first == "" {
				first = fmt.Sprintf("key=%q rendezvousHash=%q rendezvousRanked[0]=%q", key, owner, ranked[0])
			}
		}
	}
	if disagreements > 0 {
		fmt.Printf("BOUNDED-VIOLATED GetOwner/IsLocalOwner (rendezvousHash) and Allocate/Release (rendezvousRanked[0]) name different owners for %d of %d tied subscribers, e.g. %s\n", disagreements, ties, first)
		return
	}
	fmt.Printf("BOUNDED-OK (%d tied subscribers, sort.Slice kept the slice order for all of them)\n", ties)
}
