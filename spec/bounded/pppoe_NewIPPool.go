package pppoe

// Inspection for the constructor part of the IPPool invariant (NewIPPool is outside the engine's
// model: net.IPNet.Contains and the byte arithmetic of nextIP are not modelled, so the initial
// establishment of IPPool.{nonnil,avnn,avdist,avfree,inj} and of the range clause is not a
// discharged obligation). Exhaustive over every IPv4 network of prefix length 24..30 inside
// 10.5.0.0/22-style bases and every gateway position (each host, network address, broadcast,
// outside): the free list must be exactly the host addresses of the network without the
// gateway, pairwise distinct, and must not contain the network or the broadcast address.
// isBroadcast is compared with the arithmetic definition on every address of every network.

import (
	"encoding/binary"
	"fmt"
	"net"
	"testing"
)

func TestBoundedVC(t *testing.T) {
	bad := 0
	report := func(format string, a ...any) {
		if bad < 5 {
			fmt.Printf("BOUNDED-VIOLATED "+format+"\n", a...)
		}
		bad++
	}
	u32 := func(ip net.IP) uint32 { return binary.BigEndian.Uint32(ip.To4()) }
	mk := func(v uint32) net.IP { b := make(net.IP, 4); binary.BigEndian.PutUint32(b, v); return b }
	for plen := 24; plen <= 30; plen++ {
		size := uint32(1) << (32 - plen)
		for _, base := range []uint32{0x0A050000, 0x0A0500C0 &^ (size - 1), 0xC0A8FF00 | (256 - size)} {
			base &^= size - 1
			cidr := fmt.Sprintf("%s/%d", mk(base), plen)
			_, ipnet, _ := net.ParseCIDR(cidr)
			for a := uint32(0); a < size; a++ {
				if got, want := isBroadcast(mk(base+a), ipnet), a == size-1; got != want {
					report("isBroadcast(%v, %s) = %v, want %v", mk(base+a), cidr, got, want)
				}
			}
			gws := []uint32{base - 1, base + size}
			for a := uint32(0); a < size; a++ {
				gws = append(gws, base+a)
			}
			for _, gw := range gws {
				pool, err := NewIPPool(cidr, mk(gw).String())
				if err != nil {
					report("NewIPPool(%s, %v): %v", cidr, mk(gw), err)
					continue
				}
				if pool.allocated == nil || len(pool.allocated) != 0 {
					report("NewIPPool(%s): allocated table not empty/non-nil", cidr)
				}
				seen := map[uint32]bool{}
				for _, ip := range pool.available {
					if ip == nil || ip.To4() == nil {
						report("NewIPPool(%s): nil/invalid free-list entry", cidr)
						continue
					}
					v := u32(ip)
					switch {
					case seen[v]:
						report("NewIPPool(%s, gw %v): %v twice in the free list", cidr, mk(gw), ip)
					case v <= base || v >= base+size-1:
						report("NewIPPool(%s, gw %v): free list contains %v (network/broadcast/outside)", cidr, mk(gw), ip)
					case v == gw:
						report("NewIPPool(%s, gw %v): free list contains the gateway", cidr, mk(gw))
					}
					seen[v] = true
				}
				want := int(size) - 2
				if gw > base && gw < base+size-1 {
					want--
				}
				if len(seen) != want {
					report("NewIPPool(%s, gw %v): %d usable addresses in the free list, want %d", cidr, mk(gw), len(seen), want)
				}
			}
		}
	}
	if bad != 0 {
		fmt.Printf("BOUNDED-VIOLATED %d deviations in total\n", bad)
		return
	}
	fmt.Println("BOUNDED-OK every IPv4 network /24../30 at three bases, every gateway position")
}
