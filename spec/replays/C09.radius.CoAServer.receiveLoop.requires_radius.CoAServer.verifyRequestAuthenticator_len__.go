package radius

import (
	"context"
	"fmt"
	"net"
	"testing"
	"time"

	"go.uber.org/zap"
)

// A 20-byte datagram whose RADIUS length field is 4 (< 20) sent to the real
// listener: receiveLoop passes buf[:4] to verifyRequestAuthenticator, which
// slices packet[20:].
func TestReplayVC(t *testing.T) {
	conn, err := net.ListenUDP("udp", &net.UDPAddr{IP: net.IPv4(127, 0, 0, 1), Port: 0})
	if err != nil {
		fmt.Println("REPLAY-SETUP-FAILED", err)
		return
	}
	defer conn.Close()
	s := &CoAServer{secret: "s3cret", logger: zap.NewNop(), conn: conn, running: 1}
	done := make(chan string, 1)
	go func() {
		defer func() {
			if r := recover(); r != nil {
				done <- fmt.Sprint("REPLAY-PANIC: ", r)
			}
		}()
		ctx, cancel := context.WithTimeout(context.Background(), 3*time.Second)
		defer cancel()
		s.receiveLoop(ctx)
		done <- "REPLAY-OK"
	}()
	c, err := net.DialUDP("udp", nil, conn.LocalAddr().(*net.UDPAddr))
	if err != nil {
		fmt.Println("REPLAY-SETUP-FAILED", err)
		return
	}
	pkt := make([]byte, 20)
	pkt[0], pkt[1], pkt[2], pkt[3] = 43, 1, 0, 4
	c.Write(pkt)
	c.Close()
	select {
	case m := <-done:
		fmt.Println(m)
	case <-time.After(10 * time.Second):
		fmt.Println("REPLAY-OK (listener still running)")
	}
}
