package govc

import (
	"go/ast"
	"go/types"

	"bngvc/smt"
)

// Ghost state for hash objects and for UDP sockets.
//
// Hashes.  A hash object h carries an abstract state hash:st[h] (an Int). The
// digest algorithm itself stays uninterpreted:
//
//	bseq(c, o, n)        : Int   the byte sequence c[o], ..., c[o+n-1]   (extensional, see axiom bseq_ext)
//	hash_init(size)      : Int   state of a new hash with the given digest size (md5 16, sha1 20, sha256 32)
//	hash_absorb(s, q)    : Int   state after writing byte sequence q in state s
//	hash_sum(s)          : Array Int Int   the digest bytes (index 0..size-1) in state s
//
// New() allocates a fresh object in state hash_init(size); Write(p) replaces the
// state by hash_absorb(state, bseq(contents of p)); Sum(b) returns a fresh slice
// b ++ hash_sum(state)[0..size). The real MD5/SHA functions are one
// interpretation of these symbols, so everything proved for all
// interpretations holds for the real ones.
//
// UDP.  ReadFromUDP(buf) records the buffer and the byte count of the datagram
// just received (udp:rxbuf, udp:rxn); WriteToUDP(p, addr) increments a counter
// and records a snapshot of the datagram handed to the socket (udp:txcount,
// udp:txmem, udp:txoff, udp:txlen). Spec functions: udp_rx_buf() udp_rx_n()
// udp_tx_count() udp_tx_mem() udp_tx_off() udp_tx_len(); modifies targets
// udp_rx and udp_tx.

const (
	hashStKey   = "hash:st"
	udpRxBufKey = "udp:rxbuf"
	udpRxNKey   = "udp:rxn"
	udpTxCntKey = "udp:txcount"
	udpTxMemKey = "udp:txmem"
	udpTxOffKey = "udp:txoff"
	udpTxLenKey = "udp:txlen"
)

var byteArr = smt.Arr(smt.Int, smt.Int)

func (fv *funcVerifier) hashDecls() {
	c := fv.c
	if c.Has("hash_absorb") {
		return
	}
	c.DeclareFun("bseq", []string{byteArr, smt.Int, smt.Int}, smt.Int)
	c.DeclareFun("hash_init", []string{smt.Int}, smt.Int)
	c.DeclareFun("hash_absorb", []string{smt.Int, smt.Int}, smt.Int)
	c.DeclareFun("hash_sum", []string{smt.Int}, byteArr)
	c.DeclareFun("hash_size", []string{smt.Int}, smt.Int)
	fv.regHeap(hashStKey, smt.Arr(smt.Int, smt.Int))
	c1, c2 := smt.Term{S: "c1", Sort: byteArr}, smt.Term{S: "c2", Sort: byteArr}
	o1, o2 := smt.Term{S: "o1", Sort: smt.Int}, smt.Term{S: "o2", Sort: smt.Int}
	n, j := smt.Term{S: "n", Sort: smt.Int}, smt.Term{S: "j", Sort: smt.Int}
	b1, b2 := smt.App(smt.Int, "bseq", c1, o1, n), smt.App(smt.Int, "bseq", c2, o2, n)
	same := smt.Forall([]smt.Term{j}, smt.Implies(smt.And(smt.Ge(j, smt.IntLit(0)), smt.Lt(j, n)),
		smt.Eq(smt.Select(c1, smt.Add(o1, j)), smt.Select(c2, smt.Add(o2, j)))))
	// a byte sequence is determined by its bytes (multi-pattern on pairs of sequences of equal length)
	c.Axiom("bseq_ext", smt.Forall([]smt.Term{c1, o1, c2, o2, n}, smt.Implies(same, smt.Eq(b1, b2)),
		smt.Term{S: b1.S + " " + b2.S, Sort: smt.Int}), "bseq")
	s := smt.Term{S: "s", Sort: smt.Int}
	d := smt.Select(smt.App(byteArr, "hash_sum", s), j)
	c.Axiom("hash_sum_byte", smt.Forall([]smt.Term{s, j}, smt.And(smt.Ge(d, smt.IntLit(0)), smt.Le(d, smt.IntLit(255))), d), "hash_sum")
}

func (fv *funcVerifier) strBytes(s smt.Term) smt.Term {
	c := fv.c
	if !c.Has("str_bytes") {
		c.DeclareFun("str_bytes", []string{StrSort}, byteArr)
		x, j := smt.Term{S: "s", Sort: StrSort}, smt.Term{S: "j", Sort: smt.Int}
		sel := smt.Select(smt.App(byteArr, "str_bytes", x), j)
		c.Axiom("str_bytes_at", smt.Forall([]smt.Term{x, j}, smt.Eq(sel, smt.App(smt.Int, "str_at", x, j)), sel), "str_bytes")
	}
	return smt.App(byteArr, "str_bytes", s)
}

func (fv *funcVerifier) hashState(st *State, h smt.Term) smt.Term {
	fv.hashDecls()
	fv.instFrames(hashStKey, h)
	return smt.Select(fv.heapGet(st, hashStKey), h)
}

func (fv *funcVerifier) setHashState(st *State, h, v smt.Term) {
	fv.mut++
	fv.heapSet(st, hashStKey, smt.Store(fv.heapGet(st, hashStKey), h, v))
}

func (fv *funcVerifier) udpDecls() {
	fv.regHeap(udpRxBufKey, smt.Arr(smt.Int, SliceSort))
	fv.regHeap(udpRxNKey, smt.Arr(smt.Int, smt.Int))
	fv.regHeap(udpTxCntKey, smt.Arr(smt.Int, smt.Int))
	fv.regHeap(udpTxMemKey, smt.Arr(smt.Int, byteArr))
	fv.regHeap(udpTxOffKey, smt.Arr(smt.Int, smt.Int))
	fv.regHeap(udpTxLenKey, smt.Arr(smt.Int, smt.Int))
}

// ghost0 reads a ghost cell (index 0 of a heap array).
func (fv *funcVerifier) ghost0(st *State, key string) smt.Term {
	fv.instFrames(key, smt.IntLit(0))
	return smt.Select(fv.heapGet(st, key), smt.IntLit(0))
}

func (fv *funcVerifier) setGhost0(st *State, key string, v smt.Term) {
	fv.mut++
	fv.heapSet(st, key, smt.Store(fv.heapGet(st, key), smt.IntLit(0), v))
}

// builtinGhostGroup maps a modifies identifier to the ghost heap keys it covers.
func (fv *funcVerifier) builtinGhostGroup(name string) []string {
	switch name {
	case "udp_rx":
		fv.udpDecls()
		return []string{udpRxBufKey, udpRxNKey}
	case "udp_tx":
		fv.udpDecls()
		return []string{udpTxCntKey, udpTxMemKey, udpTxOffKey, udpTxLenKey}
	case "rad_sent":
		fv.radDecls()
		return radSentKeys
	}
	return nil
}

func isHashIface(t types.Type) bool {
	if n, ok := t.(*types.Named); ok && n.Obj().Pkg() != nil {
		return n.Obj().Pkg().Path() == "hash" && (n.Obj().Name() == "Hash" || n.Obj().Name() == "Hash32" || n.Obj().Name() == "Hash64")
	}
	return false
}

func init() {
	hashNew := func(size int64) libHandler {
		return func(fv *funcVerifier, st *State, call *ast.CallExpr, fn *types.Func) []smt.Term {
			fv.hashDecls()
			h := fv.alloc(st, "hash")
			fv.assume(st, smt.Eq(smt.App(smt.Int, "hash_size", h), smt.IntLit(size)))
			fv.setHashState(st, h, smt.App(smt.Int, "hash_init", smt.IntLit(size)))
			return []smt.Term{h}
		}
	}
	// HMAC: a fresh hash object whose initial state is an unknown function of hash and key
	libModels["crypto/hmac.New"] = func(fv *funcVerifier, st *State, call *ast.CallExpr, fn *types.Func) []smt.Term {
		fv.hashDecls()
		for _, a := range call.Args {
			fv.evalExpr(st, a)
		}
		h := fv.alloc(st, "hmac")
		fv.assume(st, smt.Ge(smt.App(smt.Int, "hash_size", h), smt.IntLit(0)))
		fv.setHashState(st, h, fv.c.Fresh("hmac_init", smt.Int))
		return []smt.Term{h}
	}
	libModels["crypto/md5.New"] = hashNew(16)
	libModels["crypto/sha256.New"] = hashNew(32)
	libModels["crypto/sha1.New"] = hashNew(20)

	ifaceModels["(hash.Hash).Sum"] = func(fv *funcVerifier, st *State, call *ast.CallExpr, fn *types.Func, recv smt.Term, args []smt.Term) []smt.Term {
		fv.hashDecls()
		b := args[0]
		sz := smt.App(smt.Int, "hash_size", recv)
		fv.assume(st, smt.Ge(sz, smt.IntLit(0)))
		key := fv.memKey(types.Typ[types.Uint8])
		fv.instFrames(key, slArr(b))
		m := fv.heapGet(st, key)
		arr := fv.alloc(st, "sum")
		n := fv.c.Let("sumlen", smt.Add(slLen(b), sz))
		contents := fv.c.Fresh("summem", byteArr)
		dig := fv.c.Let("digest", smt.App(byteArr, "hash_sum", fv.hashState(st, recv)))
		j := smt.Term{S: "j", Sort: smt.Int}
		fv.assumeGlobal(smt.Forall([]smt.Term{j}, smt.Eq(smt.Select(contents, j),
			smt.Ite(smt.Lt(j, slLen(b)), smt.Select(smt.Select(m, slArr(b)), smt.Add(slOff(b), j)), smt.Select(dig, smt.Sub(j, slLen(b))))),
			smt.Select(contents, j)))
		fv.mut++
		fv.heapSet(st, key, smt.Store(m, arr, contents))
		return []smt.Term{fv.c.Let("sum", mkSlice(arr, smt.IntLit(0), n, n))}
	}
	write := func(fv *funcVerifier, st *State, call *ast.CallExpr, fn *types.Func, recv smt.Term, args []smt.Term) []smt.Term {
		sel, _ := ast.Unparen(call.Fun).(*ast.SelectorExpr)
		if sel == nil || !isHashIface(fv.typeOf(sel.X)) || len(args) != 1 || args[0].Sort != SliceSort {
			return fv.freshResults(st, call, "hwrite")
		}
		fv.hashDecls()
		p := args[0]
		key := fv.memKey(types.Typ[types.Uint8])
		fv.instFrames(key, slArr(p))
		q := smt.App(smt.Int, "bseq", smt.Select(fv.heapGet(st, key), slArr(p)), slOff(p), slLen(p))
		fv.setHashState(st, recv, fv.c.Let("hst", smt.App(smt.Int, "hash_absorb", fv.hashState(st, recv), q)))
		// hash.Hash.Write never returns an error and consumes all of p
		return []smt.Term{slLen(p), smt.IntLit(0)}
	}
	ifaceModels["(hash.Hash).Write"] = write
	ifaceModels["(io.Writer).Write"] = write
	ifaceModels["(hash.Hash).Reset"] = func(fv *funcVerifier, st *State, call *ast.CallExpr, fn *types.Func, recv smt.Term, args []smt.Term) []smt.Term {
		fv.hashDecls()
		fv.setHashState(st, recv, smt.App(smt.Int, "hash_init", smt.App(smt.Int, "hash_size", recv)))
		return nil
	}

	// UDP reads: n bytes were written into the buffer, 0 <= n <= len(buf); the
	// buffer and n are recorded as "the datagram just received".
	readInto := func(fv *funcVerifier, st *State, call *ast.CallExpr, fn *types.Func) []smt.Term {
		fv.evalCallee(st, call.Fun)
		buf := fv.evalExpr(st, call.Args[0])
		fv.udpDecls()
		fv.mut++
		fv.havocKeys(st, []string{fv.memKey(types.Typ[types.Uint8])})
		res := fv.freshResults(st, call, "read")
		errT := res[len(res)-1]
		fv.assume(st, smt.Implies(smt.Eq(errT, smt.IntLit(0)), smt.And(smt.Ge(res[0], smt.IntLit(0)), smt.Le(res[0], slLen(buf)))))
		for i := 1; i < len(res)-1; i++ {
			if res[i].Sort == smt.Int {
				fv.assume(st, smt.Implies(smt.Eq(errT, smt.IntLit(0)), smt.Ne(res[i], smt.IntLit(0))))
			}
		}
		fv.setGhost0(st, udpRxBufKey, buf)
		fv.setGhost0(st, udpRxNKey, res[0])
		return res
	}
	libModels["(*net.UDPConn).ReadFromUDP"] = readInto
	libModels["(*net.UDPConn).ReadFrom"] = readInto
	libModels["(*net.UDPConn).Read"] = readInto

	writeTo := func(fv *funcVerifier, st *State, call *ast.CallExpr, fn *types.Func) []smt.Term {
		fv.evalCallee(st, call.Fun)
		p := fv.evalExpr(st, call.Args[0])
		for _, a := range call.Args[1:] {
			fv.evalExpr(st, a)
		}
		fv.udpDecls()
		key := fv.memKey(types.Typ[types.Uint8])
		fv.instFrames(key, slArr(p))
		fv.setGhost0(st, udpTxCntKey, fv.c.Let("txcount", smt.Add(fv.ghost0(st, udpTxCntKey), smt.IntLit(1))))
		fv.setGhost0(st, udpTxMemKey, smt.Select(fv.heapGet(st, key), slArr(p)))
		fv.setGhost0(st, udpTxOffKey, slOff(p))
		fv.setGhost0(st, udpTxLenKey, slLen(p))
		return fv.freshResults(st, call, "write")
	}
	libModels["(*net.UDPConn).WriteToUDP"] = writeTo
	libModels["(*net.UDPConn).WriteTo"] = writeTo
	libModels["(*net.UDPConn).Write"] = writeTo

	AssumedLib = append(AssumedLib,
		"crypto/md5.New, sha1.New, sha256.New: return a fresh hash object in state hash_init(size); hash.Hash.Write(p) never fails, returns len(p) and replaces the state by hash_absorb(state, bseq(bytes of p)); Sum(b) returns a fresh slice b ++ hash_sum(state)[0:size]; hash_init/hash_absorb/hash_sum are uninterpreted; bseq is extensional (equal bytes give equal sequences); digest bytes are in 0..255",
		"[]byte(s) for a string s yields a fresh array holding exactly the bytes of s",
		"(*net.UDPConn).ReadFromUDP/ReadFrom/Read: on nil error 0 <= n <= len(buf) and addr != nil; buffer contents arbitrary; ghost udp_rx_buf/udp_rx_n record the buffer and n",
		"(*net.UDPConn).WriteToUDP/WriteTo/Write: no panic, no modification of program memory; ghost udp_tx_count is incremented and udp_tx_mem/off/len snapshot the datagram")
}

// specBuiltinGhost evaluates the spec functions of the hash and UDP ghost models.
func (env *specEnv) specBuiltinGhost(name string, e *SExpr, args []*SExpr) (sval, bool) {
	fv := env.fv
	need := func(n int) {
		if len(args) != n {
			env.fail(e, "%s expects %d arguments", name, n)
		}
	}
	switch name {
	case "bseq":
		need(3)
		fv.hashDecls()
		v, o, n := env.eval(args[0]), env.eval(args[1]), env.eval(args[2])
		if v.t.Sort != byteArr {
			env.fail(e, "bseq needs a byte array view (elems(s), strbytes(s), zeros(), hash_sum(..))")
		}
		return mathVal(smt.App(smt.Int, "bseq", v.t, o.t, n.t)), true
	case "hash_init":
		need(1)
		fv.hashDecls()
		return mathVal(smt.App(smt.Int, "hash_init", env.eval(args[0]).t)), true
	case "hash_absorb":
		need(2)
		fv.hashDecls()
		return mathVal(smt.App(smt.Int, "hash_absorb", env.eval(args[0]).t, env.eval(args[1]).t)), true
	case "hash_sum":
		need(1)
		fv.hashDecls()
		return sval{smt.App(byteArr, "hash_sum", env.eval(args[0]).t), nil}, true
	case "hash_state":
		need(1)
		return mathVal(fv.hashState(env.cur, env.eval(args[0]).t)), true
	case "zeros":
		need(0)
		return sval{smt.Term{S: "((as const " + byteArr + ") 0)", Sort: byteArr}, nil}, true
	case "strbytes":
		need(1)
		v := env.eval(args[0])
		if v.t.Sort != StrSort {
			env.fail(e, "strbytes of non-string")
		}
		return sval{fv.strBytes(v.t), nil}, true
	case "udp_rx_buf":
		need(0)
		fv.udpDecls()
		return sval{fv.ghost0(env.cur, udpRxBufKey), types.NewSlice(types.Typ[types.Uint8])}, true
	case "udp_rx_n":
		need(0)
		fv.udpDecls()
		return mathVal(fv.ghost0(env.cur, udpRxNKey)), true
	case "udp_tx_count":
		need(0)
		fv.udpDecls()
		return mathVal(fv.ghost0(env.cur, udpTxCntKey)), true
	case "udp_tx_mem":
		need(0)
		fv.udpDecls()
		return sval{fv.ghost0(env.cur, udpTxMemKey), nil}, true
	case "udp_tx_off":
		need(0)
		fv.udpDecls()
		return mathVal(fv.ghost0(env.cur, udpTxOffKey)), true
	case "udp_tx_len":
		need(0)
		fv.udpDecls()
		return mathVal(fv.ghost0(env.cur, udpTxLenKey)), true
	}
	return sval{}, false
}
