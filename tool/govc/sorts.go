package govc

import (
	"fmt"
	"go/types"
	"math/big"
	"strings"

	"bngvc/smt"
)

const (
	SliceSort = "Slice"
	StrSort   = "Str"
	RefSort   = smt.Int
)

// typeInfo caches the SMT view of a Go struct type.
type structInfo struct {
	sort   string
	ctor   string
	fields []structField
}

type structField struct {
	name string // Go field name ("_" blanks get unique names)
	sel  string // SMT selector
	sort string
	typ  types.Type
}

// sorts maps Go types to SMT sorts for one Ctx.
type sorts struct {
	c       *smt.Ctx
	structs map[string]*structInfo
	nAnon   int
	anon    map[string]string

	litNames []string
	litVals  []string
}

func newSorts(c *smt.Ctx) *sorts {
	s := &sorts{c: c, structs: map[string]*structInfo{}, anon: map[string]string{}}
	c.DeclareRecord(SliceSort, "mk_slice", []smt.Field{{"s_arr", smt.Int}, {"s_off", smt.Int}, {"s_len", smt.Int}, {"s_cap", smt.Int}})
	c.DeclareSort(StrSort)
	c.DeclareFun("str_len", []string{StrSort}, smt.Int)
	c.DeclareFun("str_at", []string{StrSort, smt.Int}, smt.Int)
	c.Axiom("str_len_nonneg", smt.Forall([]smt.Term{{S: "s", Sort: StrSort}}, smt.Ge(smt.App(smt.Int, "str_len", smt.Term{S: "s", Sort: StrSort}), smt.IntLit(0)), smt.App(smt.Int, "str_len", smt.Term{S: "s", Sort: StrSort})), "str_len")
	return s
}

// isOpaqueNamed reports named types modelled as opaque Ints.
func opaqueNamed(t types.Type) (string, bool) {
	n, ok := t.(*types.Named)
	if !ok || n.Obj().Pkg() == nil {
		return "", false
	}
	full := n.Obj().Pkg().Path() + "." + n.Obj().Name()
	switch full {
	case "sync.Mutex", "sync.RWMutex", "sync.WaitGroup", "sync.Once", "sync.Map", "sync.Cond", "sync.Pool",
		"time.Time", "math/big.Int", "math/big.Float", "math/big.Rat",
		"sync/atomic.Int32", "sync/atomic.Int64", "sync/atomic.Uint32", "sync/atomic.Uint64", "sync/atomic.Bool", "sync/atomic.Value",
		"net.TCPAddr", "net.IPNet_", "bytes.Buffer", "strings.Builder", "time.Timer", "time.Ticker",
		"net/http.Client", "net/http.Server", "net/http.Request", "encoding/json.Decoder", "bufio.Reader", "bufio.Scanner",
		"regexp.Regexp", "os.File", "crypto/tls.Config", "context.emptyCtx":
		return full, true
	}
	return "", false
}

// sortOf returns the SMT sort for a Go type.
func (s *sorts) sortOf(t types.Type) string {
	if t == nil {
		return smt.Int
	}
	if _, ok := opaqueNamed(t); ok {
		return smt.Int
	}
	switch u := t.Underlying().(type) {
	case *types.Basic:
		switch {
		case u.Info()&types.IsBoolean != 0:
			return smt.Bool
		case u.Info()&types.IsInteger != 0:
			return smt.Int
		case u.Info()&types.IsString != 0:
			return StrSort
		case u.Info()&types.IsFloat != 0:
			return "Real"
		case u.Kind() == types.UnsafePointer, u.Kind() == types.UntypedNil:
			return smt.Int
		}
		return smt.Int
	case *types.Pointer, *types.Map, *types.Chan, *types.Signature, *types.Interface:
		return RefSort
	case *types.Slice:
		return SliceSort
	case *types.Array:
		return smt.Arr(smt.Int, s.sortOf(u.Elem()))
	case *types.Struct:
		return s.structOf(t).sort
	case *types.Tuple:
		return smt.Int
	case *types.TypeParam:
		return smt.Int
	}
	return smt.Int
}

func (s *sorts) structName(t types.Type) string {
	if n, ok := t.(*types.Named); ok && n.Obj().Pkg() != nil {
		name := "T_" + ShortPkg(n.Obj().Pkg().Path()) + "_" + n.Obj().Name()
		if n.TypeArgs() != nil && n.TypeArgs().Len() > 0 {
			name += "_" + smt.Sanitize(types.TypeString(n.TypeArgs().At(0), nil))
		}
		return name
	}
	if a, ok := t.(*types.Alias); ok {
		return s.structName(types.Unalias(a))
	}
	key := types.TypeString(t.Underlying(), nil)
	if nm, ok := s.anon[key]; ok {
		return nm
	}
	s.nAnon++
	nm := fmt.Sprintf("T_anon%d", s.nAnon)
	s.anon[key] = nm
	return nm
}

// structOf returns (declaring if needed) the datatype for a struct type.
func (s *sorts) structOf(t types.Type) *structInfo {
	name := s.structName(t)
	if si, ok := s.structs[name]; ok {
		return si
	}
	st := t.Underlying().(*types.Struct)
	si := &structInfo{sort: name, ctor: "mk_" + name}
	s.structs[name] = si // recursion guard (recursive by-value structs are impossible in Go)
	var fs []smt.Field
	for i := 0; i < st.NumFields(); i++ {
		f := st.Field(i)
		fname := f.Name()
		if fname == "_" {
			fname = fmt.Sprintf("blank%d", i)
		}
		fsort := s.sortOf(f.Type())
		sel := name + "." + fname
		si.fields = append(si.fields, structField{name: fname, sel: sel, sort: fsort, typ: f.Type()})
		fs = append(fs, smt.Field{Name: sel, Sort: fsort})
	}
	if len(fs) == 0 {
		fs = append(fs, smt.Field{Name: name + ".empty", Sort: smt.Int})
		si.fields = append(si.fields, structField{name: "empty", sel: name + ".empty", sort: smt.Int, typ: types.Typ[types.Int]})
	}
	s.c.DeclareRecord(name, si.ctor, fs)
	return si
}

func (si *structInfo) field(name string) (int, *structField) {
	for i := range si.fields {
		if si.fields[i].name == name {
			return i, &si.fields[i]
		}
	}
	return -1, nil
}

// heapKey for a field of a named struct type accessed through a pointer.
func (s *sorts) fieldKey(structType types.Type, field string) string {
	return s.structName(structType) + "." + field
}

// intRange returns the value range of an integer type (64-bit int/uint).
func intRange(t types.Type) (lo, hi *big.Int, ok bool) {
	b, isB := t.Underlying().(*types.Basic)
	if !isB || b.Info()&types.IsInteger == 0 {
		return nil, nil, false
	}
	bits, signed := intBits(b)
	if bits == 0 {
		return nil, nil, false
	}
	if signed {
		hi = new(big.Int).Lsh(big.NewInt(1), uint(bits-1))
		lo = new(big.Int).Neg(hi)
		hi.Sub(hi, big.NewInt(1))
	} else {
		lo = big.NewInt(0)
		hi = new(big.Int).Lsh(big.NewInt(1), uint(bits))
		hi.Sub(hi, big.NewInt(1))
	}
	return lo, hi, true
}

func intBits(b *types.Basic) (int, bool) {
	switch b.Kind() {
	case types.Int8:
		return 8, true
	case types.Int16:
		return 16, true
	case types.Int32:
		return 32, true
	case types.Int64, types.Int:
		return 64, true
	case types.Uint8:
		return 8, false
	case types.Uint16:
		return 16, false
	case types.Uint32:
		return 32, false
	case types.Uint64, types.Uint, types.Uintptr:
		return 64, false
	case types.UntypedInt, types.UntypedRune:
		return 0, true
	}
	return 0, false
}

func isInteger(t types.Type) bool {
	b, ok := t.Underlying().(*types.Basic)
	return ok && b.Info()&types.IsInteger != 0
}

func isString(t types.Type) bool {
	b, ok := t.Underlying().(*types.Basic)
	return ok && b.Info()&types.IsString != 0
}

func isFloat(t types.Type) bool {
	b, ok := t.Underlying().(*types.Basic)
	return ok && b.Info()&types.IsFloat != 0
}

func isBoolean(t types.Type) bool {
	b, ok := t.Underlying().(*types.Basic)
	return ok && b.Info()&types.IsBoolean != 0
}

func isRefLike(t types.Type) bool {
	switch t.Underlying().(type) {
	case *types.Pointer, *types.Map, *types.Chan, *types.Signature, *types.Interface:
		return true
	}
	if b, ok := t.Underlying().(*types.Basic); ok && (b.Kind() == types.UntypedNil || b.Kind() == types.UnsafePointer) {
		return true
	}
	return false
}

// Slice helpers.
func slArr(t smt.Term) smt.Term { return smt.App(smt.Int, "s_arr", t) }
func slOff(t smt.Term) smt.Term { return smt.App(smt.Int, "s_off", t) }
func slLen(t smt.Term) smt.Term { return smt.App(smt.Int, "s_len", t) }
func slCap(t smt.Term) smt.Term { return smt.App(smt.Int, "s_cap", t) }
func mkSlice(arr, off, ln, cp smt.Term) smt.Term {
	return smt.App(SliceSort, "mk_slice", arr, off, ln, cp)
}

var nilSlice = mkSlice(smt.IntLit(0), smt.IntLit(0), smt.IntLit(0), smt.IntLit(0))

const maxLen = int64(1) << 40   // assumed upper bound on the length of any slice/string read from inputs or memory
const maxAlloc = int64(1) << 48 // make() panics beyond this (runtime maxAlloc on 64-bit)

// valid returns the type-validity predicate of term v of Go type t
// (shallow: does not follow references). frontier bounds references.
func (s *sorts) valid(v smt.Term, t types.Type, frontier smt.Term) smt.Term {
	if t == nil {
		return smt.True
	}
	if _, ok := opaqueNamed(t); ok {
		return smt.True
	}
	switch u := t.Underlying().(type) {
	case *types.Basic:
		if lo, hi, ok := intRange(t); ok {
			return smt.And(smt.Ge(v, smt.BigLit(lo)), smt.Le(v, smt.BigLit(hi)))
		}
		if u.Info()&types.IsString != 0 {
			return smt.Le(smt.App(smt.Int, "str_len", v), smt.IntLit(maxLen))
		}
		return smt.True
	case *types.Pointer, *types.Map, *types.Chan, *types.Signature, *types.Interface:
		return smt.And(smt.Ge(v, smt.IntLit(0)), smt.Le(v, frontier))
	case *types.Slice:
		arr, off, ln, cp := slArr(v), slOff(v), slLen(v), slCap(v)
		return smt.And(
			smt.Ge(arr, smt.IntLit(0)), smt.Le(arr, frontier),
			smt.Ge(off, smt.IntLit(0)), smt.Ge(ln, smt.IntLit(0)), smt.Le(ln, cp), smt.Le(cp, smt.IntLit(maxLen)),
			smt.Le(off, smt.IntLit(maxLen)),
			smt.Implies(smt.Eq(arr, smt.IntLit(0)), smt.Eq(cp, smt.IntLit(0))))
	case *types.Struct:
		si := s.structOf(t)
		var cs []smt.Term
		for _, f := range si.fields {
			cs = append(cs, s.valid(smt.App(f.sort, f.sel, v), f.typ, frontier))
		}
		return smt.And(cs...)
	case *types.Array:
		// element validity for small integer element types via quantifier would be
		// costly; elements are validated when read.
		_ = u
		return smt.True
	}
	return smt.True
}

// zero returns the zero value of a Go type.
func (s *sorts) zero(t types.Type) smt.Term {
	if _, ok := opaqueNamed(t); ok {
		return smt.IntLit(0)
	}
	switch u := t.Underlying().(type) {
	case *types.Basic:
		switch {
		case u.Info()&types.IsBoolean != 0:
			return smt.False
		case u.Info()&types.IsString != 0:
			return s.strConst("")
		case u.Info()&types.IsFloat != 0:
			return smt.Term{S: "0.0", Sort: "Real"}
		}
		return smt.IntLit(0)
	case *types.Slice:
		return nilSlice
	case *types.Array:
		es := s.sortOf(u.Elem())
		return smt.Term{S: "((as const " + smt.Arr(smt.Int, es) + ") " + s.zero(u.Elem()).S + ")", Sort: smt.Arr(smt.Int, es)}
	case *types.Struct:
		si := s.structOf(t)
		var args []smt.Term
		for _, f := range si.fields {
			args = append(args, s.zero(f.typ))
		}
		return smt.App(si.sort, si.ctor, args...)
	}
	return smt.IntLit(0)
}

// strConst returns the term for a string literal.
func (s *sorts) strConst(v string) smt.Term {
	name := "strlit_" + smt.Sanitize(v)
	if len(name) > 40 || name != "strlit_"+v {
		// hash for uniqueness
		h := uint64(1469598103934665603)
		for i := 0; i < len(v); i++ {
			h ^= uint64(v[i])
			h *= 1099511628211
		}
		nm := smt.Sanitize(v)
		if len(nm) > 24 {
			nm = nm[:24]
		}
		name = fmt.Sprintf("strlit_%s_%x", nm, h)
	}
	if !s.c.Has(name) {
		t := s.c.Const(name, StrSort)
		s.c.Axiom("len_"+name, smt.Eq(smt.App(smt.Int, "str_len", t), smt.IntLit(int64(len(v)))), name)
		if len(v) <= 64 {
			var cs []smt.Term
			for i := 0; i < len(v); i++ {
				cs = append(cs, smt.Eq(smt.App(smt.Int, "str_at", t, smt.IntLit(int64(i))), smt.IntLit(int64(v[i]))))
			}
			if len(cs) > 0 {
				s.c.Axiom("at_"+name, smt.And(cs...), name)
			}
		}
		s.litNames = append(s.litNames, name)
		s.litVals = append(s.litVals, v)
	}
	return smt.Term{S: name, Sort: StrSort}
}

// distinctStrAxioms emits pairwise distinctness of the string literals seen.
func (s *sorts) distinctStrAxiom() {
	if len(s.litNames) < 2 {
		return
	}
	s.c.Axiom("", smt.Term{S: "(distinct " + strings.Join(s.litNames, " ") + ")", Sort: smt.Bool}, s.litNames...)
}
