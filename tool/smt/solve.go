package smt

import (
	"bytes"
	"context"
	"crypto/sha256"
	"encoding/hex"
	"encoding/json"
	"os"
	"os/exec"
	"path/filepath"
	"strings"
	"sync"
	"time"
)

// Result of one solver query.
type Result struct {
	Status  string            `json:"status"` // unsat | sat | unknown
	Solver  string            `json:"solver"`
	TimeS   float64           `json:"time_s"`
	Values  map[string]string `json:"values,omitempty"`
	Outputs map[string]string `json:"outputs,omitempty"` // per-solver raw first lines when unknown
	Cached  bool              `json:"cached,omitempty"`
	Error   bool              `json:"error,omitempty"` // every solver rejected the query text (generator bug)
}

type solverSpec struct {
	name string
	argv func(timeout time.Duration, rlimit int64) []string
}

// The z3 solvers are given a deterministic resource limit (rlimit) in addition
// to a generous wall-clock limit, so that whether an obligation discharges does
// not depend on how loaded the machine is.
var solvers = []solverSpec{
	{"z3-new", func(t time.Duration, rl int64) []string {
		a := []string{"z3-new", "-in", "-smt2", "-T:" + secs(t)}
		if rl > 0 {
			a = append(a, "rlimit="+itoa64(rl))
		}
		return a
	}},
	{"z3", func(t time.Duration, rl int64) []string {
		a := []string{"z3", "-in", "-smt2", "-T:" + secs(t)}
		if rl > 0 {
			a = append(a, "rlimit="+itoa64(rl))
		}
		return a
	}},
	{"cvc5", func(t time.Duration, rl int64) []string {
		a := []string{"cvc5", "--lang=smt2", "--produce-models", "--tlimit=" + msecs(t)}
		if rl > 0 {
			a = append(a, "--rlimit="+itoa64(rl*2))
		}
		return a
	}},
	{"z3-new-cs3", func(t time.Duration, rl int64) []string {
		// different case-split heuristic: robust on obligations with merged (ite) heap arrays
		a := []string{"z3-new", "-in", "-smt2", "-T:" + secs(t), "smt.case_split=3"}
		if rl > 0 {
			a = append(a, "rlimit="+itoa64(rl))
		}
		return a
	}},
}

func itoa64(n int64) string {
	b, _ := json.Marshal(n)
	return string(b)
}

func secs(t time.Duration) string {
	s := int(t / time.Second)
	if s < 1 {
		s = 1
	}
	return itoa(s)
}
func msecs(t time.Duration) string { return itoa(int(t / time.Millisecond)) }
func itoa(n int) string {
	b, _ := json.Marshal(n)
	return string(b)
}

// Solver runs queries with a portfolio and an on-disk result cache.
type Solver struct {
	Timeout  time.Duration
	CacheDir string // "" disables the cache
	Confirm  bool   // thorough: confirm unsat by a second solver where it answers
	Single   bool   // only the first solver (Houdini candidates)
	RLimit   int64  // deterministic resource limit per solver run (0 = none)
	CandRLimit int64 // resource limit for Houdini candidate queries
	mu       sync.Mutex
	Stats    map[string]int
}

func NewSolver(timeout time.Duration, cacheDir string) *Solver {
	if cacheDir != "" {
		os.MkdirAll(cacheDir, 0o755)
	}
	return &Solver{Timeout: timeout, CacheDir: cacheDir, Stats: map[string]int{}}
}

func (s *Solver) cachePath(q string) string {
	h := sha256.Sum256([]byte(q))
	return filepath.Join(s.CacheDir, hex.EncodeToString(h[:])+".json")
}

func runOne(ctx context.Context, sp solverSpec, q string, timeout time.Duration, rlimit int64) (status string, out string, dur time.Duration) {
	argv := sp.argv(timeout, rlimit)
	cctx, cancel := context.WithTimeout(ctx, timeout+2*time.Second)
	defer cancel()
	cmd := exec.CommandContext(cctx, argv[0], argv[1:]...)
	cmd.Stdin = strings.NewReader(q)
	var ob, eb bytes.Buffer
	cmd.Stdout = &ob
	cmd.Stderr = &eb
	t0 := time.Now()
	_ = cmd.Run()
	dur = time.Since(t0)
	out = ob.String()
	first := ""
	for _, ln := range strings.Split(out, "\n") {
		ln = strings.TrimSpace(ln)
		if ln == "" {
			continue
		}
		first = ln
		break
	}
	switch first {
	case "sat", "unsat":
		return first, out, dur
	}
	if first == "" {
		first = "no-output " + strings.TrimSpace(eb.String())
	}
	if len(first) > 300 {
		first = first[:300]
	}
	return "unknown:" + first, out, dur
}

// Check decides one query.
func (s *Solver) Check(q string) Result {
	if s.CacheDir != "" {
		if b, err := os.ReadFile(s.cachePath(q)); err == nil {
			var r Result
			if json.Unmarshal(b, &r) == nil && (r.Status == "unsat" || r.Status == "sat") {
				r.Cached = true
				return r
			}
		}
	}
	r := s.check(q)
	if s.CacheDir != "" && (r.Status == "unsat" || r.Status == "sat") {
		if b, err := json.Marshal(r); err == nil {
			tmp := s.cachePath(q) + ".tmp" + itoa(os.Getpid())
			if os.WriteFile(tmp, b, 0o644) == nil {
				os.Rename(tmp, s.cachePath(q))
			}
		}
	}
	s.mu.Lock()
	s.Stats[r.Solver+":"+r.Status]++
	s.mu.Unlock()
	return r
}

// CheckBudget is Check with a different per-query budget (no cache write for unknown).
func (s *Solver) CheckBudget(q string, budget time.Duration) Result {
	c := &Solver{Timeout: budget, CacheDir: s.CacheDir, Stats: map[string]int{}, Single: true, RLimit: s.CandRLimit}
	return c.Check(q)
}

// CheckQuick runs only the first solver with a short budget and no cache
// (used for vacuity canaries, where only "unsat" matters).
func (s *Solver) CheckQuick(q string, budget time.Duration) Result {
	return s.CheckQuickR(q, 3_000_000)
}

// CheckQuickR is CheckQuick with an explicit deterministic resource limit.
func (s *Solver) CheckQuickR(q string, rlimit int64) Result {
	t0 := time.Now()
	// the deciding budget is a deterministic resource limit (a wall-clock budget made a dead return
	// "proved unreachable" on a fast machine and "unknown" on a loaded one); the wall limit is generous
	st, out, _ := runOne(context.Background(), solvers[0], q, 60*time.Second, rlimit)
	r := Result{Status: st, Solver: solvers[0].name, TimeS: time.Since(t0).Seconds()}
	if st == "sat" {
		r.Values = parseValues(out)
	} else if st != "unsat" {
		r.Status = "unknown"
	}
	return r
}

func (s *Solver) check(q string) Result {
	t0 := time.Now()
	outputs := map[string]string{}
	// stage 1: z3-new alone with a fraction of the resource budget
	t1 := s.Timeout
	st, out, _ := runOne(context.Background(), solvers[0], q, t1, s.RLimit/4)
	if st == "sat" || st == "unsat" {
		r := Result{Status: st, Solver: solvers[0].name, TimeS: time.Since(t0).Seconds()}
		if st == "sat" {
			r.Values = parseValues(out)
		}
		if st == "unsat" && s.Confirm {
			s.confirm(q, &r)
		}
		return r
	}
	outputs[solvers[0].name] = st
	if s.Single {
		return Result{Status: "unknown", Solver: solvers[0].name, TimeS: time.Since(t0).Seconds(), Outputs: outputs}
	}
	// stage 2: race all
	ctx, cancel := context.WithCancel(context.Background())
	defer cancel()
	type ans struct {
		name, st, out string
	}
	ch := make(chan ans, len(solvers))
	for _, sp := range solvers {
		sp := sp
		go func() {
			st, out, _ := runOne(ctx, sp, q, s.Timeout, s.RLimit)
			ch <- ans{sp.name, st, out}
		}()
	}
	for range solvers {
		a := <-ch
		if a.st == "sat" || a.st == "unsat" {
			cancel()
			r := Result{Status: a.st, Solver: a.name, TimeS: time.Since(t0).Seconds()}
			if a.st == "sat" {
				r.Values = parseValues(a.out)
			}
			return r
		}
		outputs[a.name] = a.st
	}
	res := Result{Status: "unknown", Solver: "portfolio", TimeS: time.Since(t0).Seconds(), Outputs: outputs}
	nerr := 0
	for _, o := range outputs {
		if strings.Contains(o, "(error") || strings.Contains(o, "Parse Error") {
			nerr++
		}
	}
	if nerr == len(outputs) && nerr > 0 {
		res.Error = true
		s.mu.Lock()
		s.Stats["solver-error"]++
		s.mu.Unlock()
	}
	return res
}

func (s *Solver) confirm(q string, r *Result) {
	for _, sp := range solvers {
		if sp.name == r.Solver {
			continue
		}
		st, _, _ := runOne(context.Background(), sp, q, s.Timeout, s.RLimit)
		if st == "unsat" {
			r.Solver += "+" + sp.name
			return
		}
		if st == "sat" {
			r.Status = "unknown"
			r.Outputs = map[string]string{sp.name: "sat (disagrees with " + r.Solver + ")"}
			return
		}
	}
}

// parseValues parses the output of (get-value (...)) following "sat".
func parseValues(out string) map[string]string {
	i := strings.Index(out, "sat")
	if i < 0 {
		return nil
	}
	rest := strings.TrimSpace(out[i+3:])
	if !strings.HasPrefix(rest, "(") {
		return nil
	}
	sx, _ := parseSexp(rest, 0)
	m := map[string]string{}
	for _, pair := range sx.list {
		if len(pair.list) == 2 {
			m[pair.list[0].String()] = pair.list[1].String()
		}
	}
	return m
}

type sexp struct {
	atom string
	list []*sexp
	isL  bool
}

func (s *sexp) String() string {
	if !s.isL {
		return s.atom
	}
	parts := make([]string, len(s.list))
	for i, x := range s.list {
		parts[i] = x.String()
	}
	return "(" + strings.Join(parts, " ") + ")"
}

func parseSexp(s string, i int) (*sexp, int) {
	for i < len(s) && (s[i] == ' ' || s[i] == '\n' || s[i] == '\t' || s[i] == '\r') {
		i++
	}
	if i >= len(s) {
		return &sexp{}, i
	}
	if s[i] == '(' {
		i++
		n := &sexp{isL: true}
		for {
			for i < len(s) && (s[i] == ' ' || s[i] == '\n' || s[i] == '\t' || s[i] == '\r') {
				i++
			}
			if i >= len(s) {
				return n, i
			}
			if s[i] == ')' {
				return n, i + 1
			}
			var c *sexp
			c, i = parseSexp(s, i)
			n.list = append(n.list, c)
		}
	}
	j := i
	if s[i] == '|' {
		j = i + 1
		for j < len(s) && s[j] != '|' {
			j++
		}
		j++
	} else if s[i] == '"' {
		j = i + 1
		for j < len(s) && s[j] != '"' {
			j++
		}
		j++
	} else {
		for j < len(s) && !strings.ContainsRune(" \n\t\r()", rune(s[j])) {
			j++
		}
	}
	return &sexp{atom: s[i:min(j, len(s))]}, j
}

// ParseIntValue parses an SMT integer / bit-vector / bool value.
func ParseIntValue(v string) (int64, bool) {
	v = strings.TrimSpace(v)
	switch v {
	case "true":
		return 1, true
	case "false":
		return 0, true
	}
	if strings.HasPrefix(v, "#x") {
		var n uint64
		for _, c := range v[2:] {
			n <<= 4
			switch {
			case c >= '0' && c <= '9':
				n |= uint64(c - '0')
			case c >= 'a' && c <= 'f':
				n |= uint64(c-'a') + 10
			case c >= 'A' && c <= 'F':
				n |= uint64(c-'A') + 10
			}
		}
		return int64(n), true
	}
	if strings.HasPrefix(v, "#b") {
		var n uint64
		for _, c := range v[2:] {
			n <<= 1
			if c == '1' {
				n |= 1
			}
		}
		return int64(n), true
	}
	neg := false
	if strings.HasPrefix(v, "(- ") {
		neg = true
		v = strings.TrimSuffix(v[3:], ")")
	}
	var n int64
	if v == "" {
		return 0, false
	}
	for _, c := range v {
		if c < '0' || c > '9' {
			return 0, false
		}
		n = n*10 + int64(c-'0')
	}
	if neg {
		n = -n
	}
	return n, true
}
