package nexus

// Replay for obligation C20.nexus.VLANAllocator.LoadFromStore.loopinv.step[...v.rev]:
// loading an NTE id that already holds a pair (or that occurs twice in the
// store with different pairs) overwrites the forward entry but leaves the old
// reverse entry behind: the old pair stays marked as used by a subscriber whose
// forward lookup returns another pair; it is never handed out again (leak) and
// reverse and forward lookups disagree.

import (
	"context"
	"fmt"
	"testing"
)

func TestReplayVC(t *testing.T) {
	defer func() {
		if r := recover(); r != nil {
			fmt.Printf("REPLAY-PANIC: %v\n", r)
		}
	}()
	v := NewVLANAllocator(VLANAllocatorConfig{STagRange: VLANRange{Start: 100, End: 100}, CTagRange: VLANRange{Start: 100, End: 101}})
	_ = v.LoadFromStore(context.Background(), []*NTE{
		{ID: "nte-a", STag: 100, CTag: 100},
		{ID: "nte-a", STag: 100, CTag: 101},
	})
	a, _ := v.Get("nte-a")
	owner, stale := v.sTagUsage[100][100]
	if stale && !(a.STag == 100 && a.CTag == 100) {
		fmt.Printf("REPLAY-VIOLATED: reverse entry (100,100)->%s but forward lookup of %s gives (%d,%d)\n", owner, owner, a.STag, a.CTag)
		v.Release("nte-a")
		if _, err := v.Allocate("nte-b"); err == nil {
			if _, err2 := v.Allocate("nte-c"); err2 != nil {
				fmt.Printf("REPLAY-VIOLATED: after releasing the only subscriber a 2-pair pool serves only one more NTE: %v (pair (100,100) leaked)\n", err2)
			}
		}
		return
	}
	fmt.Println("REPLAY-OK")
}
