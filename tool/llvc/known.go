package llvc

import (
	"strings"

	"bngvc/smt"
)

// iteRec remembers that a value is ite(C, A, B) (built by path merging), so
// that it can be resolved once the path condition decides C.
type iteRec struct {
	C    smt.Term
	A, B *Val
}

// knownNode is a persistent list of Bool terms (by text) whose truth value is
// fixed on every path to the current point.
type knownNode struct {
	s     string
	v     bool
	next  *knownNode
	depth int
	comp  bool // consequence fully captured by later (decomposed) entries
}

func commonKnown(a, b *knownNode) *knownNode {
	for a != nil && b != nil && a != b {
		if a.depth > b.depth {
			a = a.next
		} else if b.depth > a.depth {
			b = b.next
		} else {
			a, b = a.next, b.next
		}
	}
	if a == nil || b == nil {
		return nil
	}
	return a
}

func (k *knownNode) lookup(s string) (bool, bool) {
	for n := k; n != nil; n = n.next {
		if n.s == s {
			return n.v, true
		}
	}
	return false, false
}

// splitApp parses one level of "(op a1 ... an)".
func splitApp(s string) (string, []string, bool) {
	if len(s) < 3 || s[0] != '(' || s[len(s)-1] != ')' {
		return "", nil, false
	}
	body := s[1 : len(s)-1]
	var parts []string
	d, start := 0, -1
	for i := 0; i < len(body); i++ {
		c := body[i]
		switch c {
		case '(':
			if d == 0 && start < 0 {
				start = i
			}
			d++
		case ')':
			d--
			if d < 0 {
				return "", nil, false
			}
		case ' ':
			if d == 0 && start >= 0 {
				parts = append(parts, body[start:i])
				start = -1
			}
		default:
			if start < 0 {
				start = i
			}
		}
	}
	if d != 0 {
		return "", nil, false
	}
	if start >= 0 {
		parts = append(parts, body[start:])
	}
	if len(parts) == 0 {
		return "", nil, false
	}
	return parts[0], parts[1:], true
}

// learn records the consequences of Bool term s having value pol.
func (e *executor) learn(st *State, s string, pol bool, depth int) {
	if s == "true" || s == "false" || depth > 12 {
		return
	}
	push := func(x string, v bool) *knownNode {
		if _, ok := st.known.lookup(x); ok {
			return nil
		}
		d := 0
		if st.known != nil {
			d = st.known.depth + 1
		}
		st.known = &knownNode{s: x, v: v, next: st.known, depth: d}
		return st.known
	}
	decomposable := func(t string, pol bool) bool {
		if !strings.ContainsAny(t, " (") {
			return true
		}
		op, args, ok := splitApp(t)
		if !ok {
			return false
		}
		return (op == "not" && len(args) == 1) || (op == "and" && pol) || (op == "or" && !pol)
	}
	if !strings.ContainsAny(s, " (") {
		n := push(s, pol)
		if def, ok := e.tm.boolDefs[s]; ok && depth < 12 && decomposable(def, pol) {
			if n != nil {
				n.comp = true
			}
			e.learn(st, def, pol, depth+1)
		}
		return
	}
	op, args, ok := splitApp(s)
	if !ok {
		return
	}
	switch {
	case op == "not" && len(args) == 1:
		e.learn(st, args[0], !pol, depth+1)
	case op == "and" && pol, op == "or" && !pol:
		for _, a := range args {
			e.learn(st, a, pol, depth+1)
		}
	default:
		push(s, pol)
	}
}

// knownVal evaluates Bool term s under the known facts, if decided.
func (e *executor) knownVal(st *State, s string, depth int) (bool, bool) {
	if s == "true" {
		return true, true
	}
	if s == "false" {
		return false, true
	}
	if st.known == nil || depth > 6 {
		return false, false
	}
	if v, ok := st.known.lookup(s); ok {
		return v, true
	}
	if !strings.ContainsAny(s, " (") {
		if def, ok := e.tm.boolDefs[s]; ok && !strings.HasPrefix(s, "pc!") {
			return e.knownVal(st, def, depth+1)
		}
		return false, false
	}
	op, args, ok := splitApp(s)
	if !ok {
		return false, false
	}
	switch op {
	case "not":
		if len(args) == 1 {
			if v, ok := e.knownVal(st, args[0], depth+1); ok {
				return !v, true
			}
		}
	case "and":
		all := true
		for _, a := range args {
			v, ok := e.knownVal(st, a, depth+1)
			if ok && !v {
				return false, true
			}
			if !ok {
				all = false
			}
		}
		if all {
			return true, true
		}
	case "or":
		all := true
		for _, a := range args {
			v, ok := e.knownVal(st, a, depth+1)
			if ok && v {
				return true, true
			}
			if !ok {
				all = false
			}
		}
		if all {
			return false, true
		}
	}
	return false, false
}

// resolve simplifies a merged value under the facts known on this path.
func (e *executor) resolve(st *State, v *Val) *Val {
	if v == nil || v.Ite == nil || st.known == nil {
		return v
	}
	// results are valid for one known-list (persistent, so pointer identity
	// identifies its content)
	if e.resolveFor != st.known {
		e.resolveFor = st.known
		e.resolveMemo = map[*Val]*Val{}
		e.condMemo = map[string]int8{}
	}
	budget := 4000
	return e.resolveRec(st, v, &budget)
}

func (e *executor) condKnown(st *State, c string) (bool, bool) {
	if r, ok := e.condMemo[c]; ok {
		return r == 1, r != 0
	}
	b, ok := e.knownVal(st, c, 0)
	var r int8
	if ok {
		r = 2
		if b {
			r = 1
		}
	}
	e.condMemo[c] = r
	return b, ok
}

func (e *executor) resolveRec(st *State, v *Val, budget *int) *Val {
	if v.Ite == nil {
		return v
	}
	if r, ok := e.resolveMemo[v]; ok {
		return r
	}
	*budget--
	if *budget < 0 {
		return v
	}
	var out *Val
	if b, ok := e.condKnown(st, v.Ite.C.S); ok {
		if b {
			out = e.resolveRec(st, v.Ite.A, budget)
		} else {
			out = e.resolveRec(st, v.Ite.B, budget)
		}
	} else {
		a := e.resolveRec(st, v.Ite.A, budget)
		b := e.resolveRec(st, v.Ite.B, budget)
		if a == v.Ite.A && b == v.Ite.B {
			out = v
		} else {
			out = e.mergeVal(v.Ite.C, a, b)
		}
	}
	if *budget >= 0 {
		e.resolveMemo[v] = out
	}
	return out
}

// constLeaves reports whether v is a tree of ites with literal leaves (at
// most max leaves).
func constLeaves(v *Val, max *int) bool {
	if v.IsPtr {
		return false
	}
	if v.Ite == nil {
		if v.W == 1 {
			if !(v.T.IsTrue() || v.T.IsFalse()) {
				return false
			}
		} else if _, ok := bvConst(v.T); !ok {
			return false
		}
		*max--
		return *max >= 0
	}
	return constLeaves(v.Ite.A, max) && constLeaves(v.Ite.B, max)
}

// mapLeaves applies f to the literal leaves of an ite tree, rebuilding the
// ites (Bool results become and/or/not combinations of the conditions so that
// branch conditions on them can be decomposed).
func (e *executor) mapLeaves(v *Val, f func(*Val) *Val) *Val {
	if v.Ite == nil {
		return f(v)
	}
	a, b := e.mapLeaves(v.Ite.A, f), e.mapLeaves(v.Ite.B, f)
	if a.W == 1 {
		c := v.Ite.C
		var t smt.Term
		switch {
		case a.T.IsTrue():
			t = smt.Or(c, b.T)
		case a.T.IsFalse():
			t = smt.And(smt.Not(c), b.T)
		case b.T.IsTrue():
			t = smt.Or(smt.Not(c), a.T)
		case b.T.IsFalse():
			t = smt.And(c, a.T)
		default:
			t = smt.Ite(c, a.T, b.T)
		}
		return &Val{W: 1, T: t, UB: 1}
	}
	return e.mergeVal(v.Ite.C, a, b)
}
