package pppoe

import (
	"fmt"
	"testing"
	"time"

	"go.uber.org/zap"
)

// Obligation: C11.pppoe.IPV6CPStateMachine.timeout.lockinv[IPV6CPStateMachine.ackrcvd_unlock]
//
// Same trace as for IPCP: Open, Up, RCA(id a), TO+ (request id b goes out, state stays
// Ack-Rcvd), RCR+ -> Opened although request b was never acknowledged.
func TestReplayVC(t *testing.T) {
	var sent [][]byte
	cfg := IPV6CPConfig{LocalInterfaceID: 0x0200000000000001, MaxRetransmit: 10, RestartTimer: time.Hour}
	m, err := NewIPV6CPStateMachine(cfg, func(proto uint16, data []byte) {
		sent = append(sent, append([]byte(nil), data...))
	}, zap.NewNop())
	if err != nil {
		fmt.Println("REPLAY-SETUP-FAILED", err)
		return
	}
	m.Open()
	m.Up()
	first := sent[len(sent)-1]
	ack := append([]byte(nil), first...)
	ack[0] = LCPCodeConfigAck
	m.ReceivePacket(ack)
	m.timeout()
	m.stopTimer()
	latest := sent[len(sent)-1]
	// peer's Configure-Request: a non-zero interface identifier different from ours (acceptable)
	req := []byte{LCPCodeConfigRequest, 9, 0, 14, IPV6CPOptInterfaceID, 10, 2, 0, 0, 0, 0, 0, 0, 0x42}
	m.ReceivePacket(req)
	m.stopTimer()
	if latest[0] != LCPCodeConfigRequest || latest[1] == first[1] {
		fmt.Println("REPLAY-SETUP-FAILED: timeout did not retransmit with a new identifier")
		return
	}
	if m.IsOpened() {
		fmt.Printf("REPLAY-VIOLATED: IPv6CP reports Opened although the peer acknowledged only request id %d; the most recent Configure-Request (id %d) was never acknowledged\n", first[1], latest[1])
		return
	}
	fmt.Println("REPLAY-OK")
}
