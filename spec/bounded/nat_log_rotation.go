package nat

// Bounded stand-in for the file / rotation layer of the compliance log (writeWithRotation,
// rotateFileLocked: trusted frames for the verifier). 120 allocations and 120 releases are logged in
// bulk (RFC 6908) mode through a file with a 2 KB rotation limit, in three bursts, so that about twenty
// rotations happen, most of them within the same second (rotated files are named by second).
// Every record handed to the logger must be found, exactly once, in the current file or one of the
// rotated files ("every allocation and release produces a log record").

import (
	"fmt"
	"net"
	"os"
	"path/filepath"
	"strings"
	"testing"
	"time"

	"go.uber.org/zap"
)

func TestBoundedVC(t *testing.T) {
	dir, err := os.MkdirTemp("", "natlog")
	if err != nil {
		fmt.Println("BOUNDED-SETUP-FAILED", err)
		return
	}
	defer os.RemoveAll(dir)
	path := filepath.Join(dir, "nat.log")
	l, err := NewLogger(LoggerConfig{Enabled: true, FilePath: path, Format: LogFormatJSON, BufferSize: 50, BulkLogging: true, MaxFileSize: 2048}, zap.NewNop())
	if err != nil {
		fmt.Println("BOUNDED-SETUP-FAILED", err)
		return
	}
	want := map[string]int{}
	n := 0
	for burst := 0; burst < 3; burst++ {
		for i := 0; i < 40; i++ {
			n++
			priv := net.IPv4(10, 9, byte(n/250), byte(n%250+1)).To4()
			a := &Allocation{PrivateIP: priv, PublicIP: net.IPv4(203, 0, 113, 7).To4(), PortStart: uint16(1024 + n), PortEnd: uint16(1024 + n), SubscriberID: uint32(n), AllocatedAt: time.Now()}
			l.LogAllocation(a)
			want[fmt.Sprintf("port_block_assign|%s|%d", priv, 1024+n)]++
			l.LogDeallocation(priv, a.PublicIP, a.PortStart, time.Second)
			want[fmt.Sprintf("port_block_release|%s|%d", priv, 1024+n)]++
		}
		l.FlushPortBlocks()
	}
	l.Stop()
	files, _ := filepath.Glob(path + "*")
	got := map[string]int{}
	lines := 0
	for _, f := range files {
		b, err := os.ReadFile(f)
		if err != nil {
			continue
		}
		for _, ln := range strings.Split(string(b), "\n") {
			if strings.TrimSpace(ln) == "" {
				continue
			}
			lines++
			for k := range want {
				parts := strings.Split(k, "|")
				if strings.Contains(ln, "\""+parts[0]+"\"") && strings.Contains(ln, "\""+parts[1]+"\"") && strings.Contains(ln, "\"port_start\":"+parts[2]) {
					got[k]++
				}
			}
		}
	}
	bad := 0
	for k, w := range want {
		if got[k] != w {
			if bad < 5 {
				fmt.Printf("BOUNDED-VIOLATED record %s: handed to the logger %d time(s), found %d time(s) in %d log file(s)\n", k, w, got[k], len(files))
			}
			bad++
		}
	}
	if bad != 0 {
		fmt.Printf("BOUNDED-VIOLATED %d of %d records missing or duplicated (%d lines in %d files)\n", bad, len(want), lines, len(files))
		return
	}
	fmt.Printf("BOUNDED-OK %d records in %d files (%d rotations)\n", len(want), len(files), len(files)-1)
}
