package ha

// Replay for a finding made by inspection while writing the C13 contracts (channels are
// not modelled by the verifier, so no obligation id): the active's broadcastToClients
// silently drops a change when a standby's per-connection channel (capacity 100) is full,
// although PushChange returned nil for it, and the standby never checks sequence gaps.
// Property C13: "every change pushed while the stream is connected is applied on the
// standby in push order".

import (
	"fmt"
	"testing"

	"go.uber.org/zap"
)

func TestReplayVC(t *testing.T) {
	defer func() {
		if r := recover(); r != nil {
			fmt.Printf("REPLAY-PANIC: %v\n", r)
		}
	}()
	cfg := DefaultSyncConfig()
	cfg.NodeID = "active"
	cfg.Role = RoleActive
	s := NewHASyncer(cfg, NewInMemorySessionStore(), zap.NewNop())
	// a connected standby whose HTTP writer is momentarily stalled (nobody drains the channel)
	client := make(chan *SyncMessage, 100) // same capacity as handleSessionStream uses
	s.sseClientsMu.Lock()
	s.sseClients["standby"] = client
	s.sseClientsMu.Unlock()

	const n = 150
	accepted := 0
	for i := 0; i < n; i++ {
		if err := s.PushChange(SyncTypeAdd, &SessionState{SessionID: fmt.Sprintf("s%d", i)}); err == nil {
			accepted++
		}
	}
	// what broadcastLoop does for every pending change
	for len(s.pendingChanges) > 0 {
		s.broadcastToClients(<-s.pendingChanges)
	}
	delivered := len(client)
	if delivered < accepted {
		fmt.Printf("REPLAY-VIOLATED: %d changes accepted by PushChange (nil error) while the stream was connected, only %d queued for the standby; %d dropped silently (sequence gap is never checked by handleSSEData)\n",
			accepted, delivered, accepted-delivered)
		return
	}
	fmt.Println("REPLAY-OK")
}
