package check

func init() {
	register(&PropDef{
		ID:    "C16",
		Title: "Ending a session by any path releases everything it held",
		Pkgs:  []string{"./pkg/dhcp", "./pkg/ebpf"},
		Funcs: []string{
			"dhcp.Server.releaseLease", "dhcp.Server.handleRelease", "dhcp.Server.handleDecline", "dhcp.Server.cleanupExpiredLeases",
			"dhcp.Pool.Release", "dhcp.Pool.MarkUnavailable", "dhcp.PoolManager.GetPool",
			"ebpf.Loader.HasVLANSupport", "ebpf.Loader.HasCircuitIDSubscriberSupport",
		},
		Trusted: []string{
			"ebpf.Loader.RemoveSubscriber / RemoveVLANSubscriber / RemoveCircuitIDSubscriber / RemoveCircuitIDMapping, qos.Manager.RemoveSubscriberQoS: trusted frames (write kernel maps / their own tables only); each call is observed by the caller through a ghost counter",
			"nat.Manager.DeallocateNAT: frame verified under C10's contracts; radius.Client.SendAccounting: contract verified under C08",
		},
		Undecided: []string{
			"PPPoE termination paths (handlePADT, LCP terminate, auth failure, SessionTeardown.cleanup, SessionManager.CleanupExpired) and subscriber.Manager / RADIUS Disconnect paths are not under contract in this run",
			"'exactly one Accounting-Stop': the Stop is sent by a goroutine spawned by releaseLease; the goroutine body is executed inline at the spawn point (it is assumed to run to completion), delivery/retry is C08",
			"that the kernel maps no longer answer for the lease after the Remove* calls (kernel side, C03)",
			"two termination paths racing for the same lease: decided through the monitor model only (the lease is removed from the table under leasesMu before releaseLease runs, so a second path finds no lease and releases nothing)",
		},
		Assumptions: []string{
			"go func(){...}() closures are executed inline at the spawn point (mode goinline)",
			"Server.leasesMu owns leases, leasesByCircuitIDMu owns leasesByCircuitID; Pool.mu and PoolManager.poolsMu own their tables (monitor model)",
		},
		Explanation: "Every release operation increments a ghost counter in its caller through the 'sets' clause of its contract. releaseLease (the single DHCPv4 teardown path after the repair) ensures: the address went back to its pool exactly once when the pool exists (and is quarantined for DECLINE), NAT and QoS were removed exactly once when configured, exactly one Accounting-Stop was issued iff a RADIUS session had been started, and the MAC, VLAN-pair and circuit-id fast-path entries were removed when the corresponding cache exists. handleRelease / handleDecline ensure that releaseLease ran exactly once if the client had a lease under leasesMu and not at all otherwise (ending twice has no further effect); cleanupExpiredLeases ensures one teardown per lease it removed.",
	})
}
