package check

import (
	"encoding/json"
	"fmt"
	"os"
	"path/filepath"
	"regexp"
	"runtime"
	"sort"
	"strings"
	"time"

	"bngvc/llvc"
	"bngvc/smt"
)

// BPFUnit is one eBPF entry point verified through the LLVM-IR front end.
type BPFUnit struct {
	File  string // base name under <repo>/bpf
	Entry string
}

var viaRe = regexp.MustCompile(` via [^\]]*`)

func stripVia(id string) string { return viaRe.ReplaceAllString(id, "") }

// execLLVC runs a property whose obligations come from the eBPF C programs.
func (r *propRun) execLLVC() int {
	def := r.def
	r.notes = map[string]bool{}
	llvc.RepoBPFDir = filepath.Join(r.repo, "bpf")
	// deterministic budgets decide; wall limits are generous. The two-packet token-bucket contract
	// needs about 1.5e8 z3 resource units: the quick limit leaves a factor of more than two.
	timeout := 180 * time.Second
	cache := filepath.Join(verifDir, ".cache", "smt")
	rlimit := int64(400_000_000)
	if r.tier == "thorough" {
		timeout, rlimit, cache = 600*time.Second, 2_000_000_000, ""
	}
	solver := smt.NewSolver(timeout, cache)
	solver.RLimit = rlimit
	solver.Confirm = r.tier == "thorough"

	known := map[string]Finding{}
	for _, f := range loadFindings() {
		if f.Property == def.ID && f.Status == "known" {
			known[f.Obligation] = f
		}
	}
	bl := loadBaseline(def.ID)
	blDis := map[string]bool{}
	if bl != nil {
		for _, id := range bl.Discharged {
			blDis[id] = true
		}
	}
	newBL := &Baseline{Property: def.ID}
	helpers, irs := r.runBPFUnits(solver, known, blDis, newBL)
	if bl != nil && !r.update && r.only == "" && r.nDischarged < len(bl.Discharged)*9/10 {
		r.broken = append(r.broken, fmt.Sprintf("obligation count dropped: %d discharged now, %d recorded", r.nDischarged, len(bl.Discharged)))
	}
	if r.extra == nil {
		r.extra = map[string]interface{}{}
	}
	var hs []string
	for h := range helpers {
		hs = append(hs, h)
	}
	sort.Strings(hs)
	r.extra["bpf_helpers_used"] = hs
	r.extra["ir_sha256"] = irs
	r.extra["assumed_helper_contracts"] = llvc.AssumedHelpers
	r.extra["integers"] = "bit-precise: LLVM IR registers are bit-vectors, memory is byte-addressed per region"
	if r.update {
		sort.Strings(newBL.Discharged)
		b, _ := json.MarshalIndent(newBL, "", " ")
		os.MkdirAll(filepath.Dir(baselinePath(def.ID)), 0o755)
		os.WriteFile(baselinePath(def.ID), b, 0o644)
		fmt.Printf("baseline written: %d discharged\n", len(newBL.Discharged))
	}
	r.solverStats = solver.Stats
	code := 0
	for _, v := range r.violations {
		suffix := ""
		if v.NoInput {
			suffix = " no-failing-input-found"
		}
		fmt.Printf("VIOLATION property=%s replay=%s obligation=%s%s\n", def.ID, v.Replay, v.Obligation, suffix)
		code = 1
	}
	for _, b := range r.broken {
		path := r.writeBroken("broken", b)
		fmt.Printf("VIOLATION property=%s replay=%s %s no-failing-input-found\n", def.ID, path, strings.ReplaceAll(b, "\n", " "))
		code = 1
	}
	if r.nDischarged == 0 {
		fmt.Printf("VIOLATION property=%s replay=%s zero obligations discharged no-failing-input-found\n", def.ID, r.writeBroken("empty", "no obligations"))
		code = 1
	}
	return code
}

// runBPFUnits verifies the eBPF programs of the property (def.BPF, kinds def.BPFKinds) and adds
// their obligations to the run; it returns the helpers used and the IR hashes per file.
func (r *propRun) runBPFUnits(solver *smt.Solver, known map[string]Finding, blDis map[string]bool, newBL *Baseline) (map[string]bool, map[string]string) {
	def := r.def
	mods := map[string]*llvc.Module{}
	helpers := map[string]bool{}
	irs := map[string]string{}
	for _, u := range def.BPF {
		if r.only != "" && !strings.HasPrefix(u.Entry, r.only) && !strings.HasPrefix(u.File, r.only) {
			continue
		}
		cfile := filepath.Join(r.repo, "bpf", u.File)
		mod := mods[cfile]
		if mod == nil {
			m, err := llvc.Compile(cfile)
			if err != nil {
				r.broken = append(r.broken, fmt.Sprintf("cannot compile %s: %v", u.File, err))
				continue
			}
			mod = m
			mods[cfile] = m
			irs[u.File] = m.IRSHA
		}
		f, ok := mod.Funcs[u.Entry]
		if !ok {
			r.broken = append(r.broken, fmt.Sprintf("entry point %s not found in %s", u.Entry, u.File))
			continue
		}
		sp, err := llvc.LoadSpec(llvc.SpecFile, mod.CFile, u.Entry, llvc.ProgTypeOfSection(f.Section))
		if err != nil {
			r.broken = append(r.broken, fmt.Sprintf("spec for %s: %v", u.Entry, err))
			continue
		}
		opts := llvc.Options{Property: def.ID, Spec: sp}
		// functional kinds are checked together with the safety kinds they silently rest on (every
		// obligation is assumed by the later ones on its paths); the safety obligations are claimed
		// under C07 and only guard against vacuity here
		kinds := def.BPFKinds
		safetyOnly := map[string]bool{}
		if kinds != "" {
			have := map[string]bool{}
			for _, k := range strings.Split(kinds, ",") {
				have[strings.TrimSpace(k)] = true
			}
			for _, k := range []string{"inbounds", "unwind", "divzero", "helperarg", "unreachable"} {
				if !have[k] {
					safetyOnly[k] = true
					kinds += "," + k
				}
			}
		}
		rep, err := llvc.Check(mod, u.Entry, opts, solver, runtime.NumCPU(), llvc.CheckOptions{Replay: true, Kinds: kinds})
		if err != nil {
			r.broken = append(r.broken, fmt.Sprintf("%s: %v", u.Entry, err))
			continue
		}
		if rep.Result.Rejected != "" {
			r.rejected = append(r.rejected, u.Entry+": "+rep.Result.Rejected)
			r.broken = append(r.broken, "program out of reach of the IR front end: "+u.Entry+": "+rep.Result.Rejected)
			continue
		}
		r.funcsUnder = append(r.funcsUnder, u.File+":"+u.Entry)
		for _, n := range rep.Result.Notes {
			r.notes[n] = true
		}
		for h := range rep.Result.HelpersUsed {
			helpers[h] = true
		}
		for _, s := range rep.Solved {
			r.solverTime += s.TimeS
			if safetyOnly[s.O.Kind] {
				// a safety obligation of the same program: later obligations on its paths assume it,
				// so a functional contract proved after a failing one may hold vacuously
				if s.Status != "unsat" {
					r.broken = append(r.broken, "the contracts of "+u.Entry+" rest on a safety obligation that does not discharge ("+s.Status+"): "+s.O.ID)
				}
				continue
			}
			rec := oblRecord{ID: s.O.ID, Kind: s.O.Kind, Func: u.Entry, Pos: s.O.Source, Status: s.Status, Solver: s.Solver, TimeS: s.TimeS}
			if s.Status == "unsat" {
				rec.Class = "discharged"
				r.nClaimed++
				r.nDischarged++
				newBL.Discharged = append(newBL.Discharged, s.O.ID)
				if len(r.samples) < 4 && !s.O.Trivial {
					r.samples = append(r.samples, map[string]string{"obligation": s.O.ID, "kind": s.O.Kind, "source": s.O.Source, "solver": s.Solver, "smt2": truncate(s.O.Query(), 2500)})
				}
				r.records = append(r.records, rec)
				continue
			}
			// a known finding is identified by program, kind and case; the "via <block>-><block>"
			// part of an id names compiler-generated labels, which move with every edit of the function
			kf, isKnown := known[s.O.ID]
			if !isKnown {
				kf, isKnown = known[stripVia(s.O.ID)]
			}
			if f, ok := kf, isKnown; ok {
				rec.Class = "known-finding"
				r.nKnown++
				fmt.Printf("KNOWN-FINDING: property=%s %s — %s\n", def.ID, s.O.ID, f.What)
				r.records = append(r.records, rec)
				continue
			}
			// every obligation of a program under contract is part of the claim
			rec.Class = "violation"
			rr := rep.Replays[s.O.ID]
			path := filepath.Join(r.replayDir(), smt.Sanitize(s.O.ID)+".json")
			m := map[string]interface{}{"property": def.ID, "obligation": s.O.ID, "kind": s.O.Kind, "file": u.File, "entry": u.Entry,
				"source": s.O.Source, "desc": s.O.Desc, "solver_status": s.Status, "solver": s.Solver, "solver_outputs": s.Outputs,
				"model": s.Model, "replay": rr, "in_recorded_claim": blDis[s.O.ID], "query_smt2": truncate(s.O.Query(), 200000)}
			b, _ := json.MarshalIndent(m, "", " ")
			os.WriteFile(path, b, 0o644)
			noInput := !(rr != nil && rr.Status == "reproduced")
			r.violations = append(r.violations, violation{s.O.ID, path, noInput})
			r.records = append(r.records, rec)
		}
	}
	return helpers, irs
}
