package radius

// Replay for the undischarged obligation
//   radius.AccountingManager.recoverOrphanedSessions.lockinv[AccountingManager.pendkey@unlock]  (accounting.go:869)
// pendkey: every entry of pendingRecords is a non-nil record, filed under its own ID, with a request.
// recoverOrphanedSessions copies whatever json.Unmarshal produced from pending.json into
// pendingRecords (and onto the channel) without validating it. An entry that is null, or has no
// "request" member, ends up in the queue; the processor goroutine then dereferences it
// (processPendingRecord: record.Request / SendAccounting: req.SessionID) and the whole BNG process
// dies with a nil-pointer panic on every start until the file is removed by hand. pending.json is
// written non-atomically (os.WriteFile) by persistPendingRecords at shutdown.
// The replay only inspects the queue after recovery (it does not start the processor, which would
// kill the test binary); the panic itself is shown inside a recover().

import (
	"fmt"
	"os"
	"path/filepath"
	"testing"
	"time"

	"go.uber.org/zap"
)

func TestReplayVC(t *testing.T) {
	c, err := NewClient(ClientConfig{Servers: []ServerConfig{{Host: "127.0.0.1", Port: 1, Secret: "s"}}, NASID: "bng1", Timeout: 100 * time.Millisecond}, zap.NewNop())
	if err != nil {
		t.Fatal(err)
	}
	dir, _ := os.MkdirTemp("", "replay-c08")
	defer os.RemoveAll(dir)
	os.MkdirAll(filepath.Join(dir, "sessions"), 0755)
	os.WriteFile(filepath.Join(dir, "pending.json"), []byte(`{"a":null,"b":{"id":"other-id","retry_count":3}}`), 0600)
	cfg := DefaultAccountingConfig()
	cfg.PersistPath = dir
	am, _ := NewAccountingManager(c, cfg, zap.NewNop())
	rerr := am.recoverOrphanedSessions()
	am.pendingMu.RLock()
	a, aok := am.pendingRecords["a"]
	b, bok := am.pendingRecords["b"]
	am.pendingMu.RUnlock()
	fmt.Printf("recoverOrphanedSessions err=%v; queue: a present=%v nil=%v; b present=%v", rerr, aok, a == nil, bok)
	if b != nil {
		fmt.Printf(" id=%q request-nil=%v", b.ID, b.Request == nil)
	}
	fmt.Println()
	bad := (aok && a == nil) || (bok && b != nil && (b.Request == nil || b.ID != "b"))
	if bad {
		msg := ""
		func() {
			defer func() {
				if r := recover(); r != nil {
					msg = fmt.Sprint(r)
				}
			}()
			select {
			case rec := <-am.pendingQueue:
				am.processPendingRecord(rec)
			default:
			}
			am.retryPendingRecords()
		}()
		fmt.Printf("REPLAY-VIOLATED: pending queue after recovery holds a nil record / a record without request / under a foreign id; processing it: panic=%q\n", msg)
		return
	}
	fmt.Println("REPLAY-OK")
}
