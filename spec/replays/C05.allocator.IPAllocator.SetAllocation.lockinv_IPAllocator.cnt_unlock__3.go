package allocator

import (
	"fmt"
	"testing"
)

// Re-applying the same (subscriber, prefix) record, as a store replay does,
// must not change the allocated count: one holder, count must stay 1.
func TestReplayVC(t *testing.T) {
	a, err := NewIPAllocator("10.0.0.0/24", 32)
	if err != nil {
		fmt.Println("REPLAY-SETUP-FAILED", err)
		return
	}
	pfx, _ := a.Allocate("sub-1")
	a.SetAllocation("sub-1", pfx)
	a.SetAllocation("sub-1", pfx)
	allocated, _, _ := a.Stats()
	holders := len(a.ListAllocations())
	if allocated != uint64(holders) {
		fmt.Printf("REPLAY-VIOLATED: Stats reports %d allocated prefixes but %d subscriber(s) hold one\n", allocated, holders)
		return
	}
	fmt.Println("REPLAY-OK")
}
