package dhcpv6

import (
	"fmt"
	"net"
	"testing"

	"go.uber.org/zap"
)

// Client A is bound to an address and DECLINEs it (it found the address in use
// by another node). The declined address must not be handed to a later client.
func TestReplayVC(t *testing.T) {
	pool, err := NewAddressPool("2001:db8::/126", 3600, 7200) // 2001:db8::1 .. ::3
	if err != nil {
		fmt.Println("REPLAY-SETUP-FAILED", err)
		return
	}
	conn, err := net.ListenUDP("udp", &net.UDPAddr{IP: net.IPv4(127, 0, 0, 1)}) // replies go nowhere; only the bindings matter
	if err != nil {
		fmt.Println("REPLAY-SETUP-FAILED", err)
		return
	}
	defer conn.Close()
	srv := &Server{
		conn:        conn,
		logger:      zap.NewNop(),
		serverDUID:  &DUID{Type: 3, Data: []byte{0, 1, 2, 3, 4, 5, 6, 7}},
		addressPool: pool,
		leases:      make(map[string]*Lease),
	}
	from := &net.UDPAddr{IP: net.ParseIP("fe80::1"), Port: 546}
	request := func(duid string, typ uint8) *Message {
		return &Message{Type: typ, Options: []Option{
			MakeClientIDOption([]byte(duid)),
			MakeServerIDOption(srv.serverDUID),
			MakeIANAOption(&IANA{IAID: 1}),
		}}
	}
	srv.handleMessage(request("client-A", MsgTypeRequest), from)
	srv.leasesMu.RLock()
	la := srv.leases["client-A"]
	srv.leasesMu.RUnlock()
	if la == nil || la.Address == nil {
		fmt.Println("REPLAY-SETUP-FAILED: A got no address")
		return
	}
	declined := la.Address
	srv.handleMessage(request("client-A", MsgTypeDecline), from)

	for _, c := range []string{"client-B", "client-C", "client-D"} {
		srv.handleMessage(request(c, MsgTypeRequest), from)
		srv.leasesMu.RLock()
		l := srv.leases[c]
		srv.leasesMu.RUnlock()
		if l != nil && l.Address != nil && l.Address.Equal(declined) {
			fmt.Printf("REPLAY-VIOLATED: %s was declined by client-A and is bound to %s afterwards\n", declined, c)
			return
		}
	}
	fmt.Println("REPLAY-OK")
}
