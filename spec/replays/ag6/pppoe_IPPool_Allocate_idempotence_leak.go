package pppoe

// Replay for
//   pppoe.IPPool.Allocate.ensures[old(sessionID in p.allocated) ==> result == old(p.allocated[sessionID]) ...]   (C01: asking again returns the same address)
//   pppoe.IPPool.Allocate.ensures[len(p.available) + card(p.allocated) == old(...)]                              (C05: no leak)
//   pppoe.IPPool.Allocate.ensures[(result == nil) <==> (!old(sessionID in p.allocated) && old(len(p.available)) == 0)] (C05: exhaustion only when full)
// A session that already holds an address calls Allocate again (the server does this for every
// further PAP Authenticate-Request of an authenticated client, handlePAP -> startIPCPNegotiation).

import (
	"fmt"
	"testing"
)

func TestReplayVC(t *testing.T) {
	defer func() {
		if r := recover(); r != nil {
			fmt.Printf("REPLAY-PANIC: %v\n", r)
		}
	}()
	pool, err := NewIPPool("10.0.0.0/29", "10.0.0.1")
	if err != nil {
		t.Fatal(err)
	}
	total := len(pool.available) + len(pool.allocated)
	violated := false
	first := pool.Allocate("session-A")
	second := pool.Allocate("session-A")
	if !first.Equal(second) {
		fmt.Printf("REPLAY-VIOLATED: second Allocate for the same session returned %v, first returned %v\n", second, first)
		violated = true
	}
	if got := len(pool.available) + len(pool.allocated); got != total {
		fmt.Printf("REPLAY-VIOLATED: free+held = %d after the repeated Allocate, pool has %d addresses (address %v is neither free nor held)\n", got, total, first)
		violated = true
	}
	// one client drains the pool: no other subscriber holds anything, yet exhaustion is reported
	for i := 0; i < total; i++ {
		pool.Allocate("session-A")
	}
	if ip := pool.Allocate("session-B"); ip == nil && len(pool.allocated) < total {
		fmt.Printf("REPLAY-VIOLATED: exhaustion reported to session-B while only %d of %d addresses are held\n", len(pool.allocated), total)
		violated = true
	}
	if !violated {
		fmt.Println("REPLAY-OK")
	}
}
