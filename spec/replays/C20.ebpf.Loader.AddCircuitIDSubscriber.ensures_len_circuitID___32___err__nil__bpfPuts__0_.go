package ebpf

import (
	"bytes"
	"fmt"
	"testing"

	"github.com/cilium/ebpf"
)

// Two access lines whose relay circuit-ids are longer than the 32-byte fast-path key and share their
// first 32 bytes (same access node, different ports). Installing the entry of line A must not make a
// lookup for line B succeed: "each relay circuit-id key in use identifies at most one subscriber".
func TestReplayVC(t *testing.T) {
	m, err := ebpf.NewMap(&ebpf.MapSpec{Type: ebpf.Hash, KeySize: CircuitIDKeyLen, ValueSize: 25, MaxEntries: 8})
	if err != nil {
		fmt.Println("REPLAY-SETUP-FAILED (cannot create a BPF map here):", err)
		return
	}
	defer m.Close()
	l := &Loader{circuitIDSubscribers: m}
	prefix := bytes.Repeat([]byte("access-node-0042/"), 2)[:32]
	lineA := append(append([]byte{}, prefix...), []byte("/port-07")...)
	lineB := append(append([]byte{}, prefix...), []byte("/port-19")...)
	errA := l.AddCircuitIDSubscriber(lineA, &PoolAssignment{PoolID: 1, AllocatedIP: 0x0a000007})
	got, errB := l.GetCircuitIDSubscriber(lineB)
	if errB == nil && got != nil {
		fmt.Printf("REPLAY-VIOLATED: entry installed for circuit-id %q (err=%v) answers a lookup for the different circuit-id %q with address %#x\n", lineA, errA, lineB, got.AllocatedIP)
		return
	}
	fmt.Printf("REPLAY-OK (AddCircuitIDSubscriber of the 40-byte id: %v; lookup of the other line: %v)\n", errA, errB)
}
