package govc

import (
	"go/ast"
	"go/types"
	"reflect"
	"strings"

	"bngvc/smt"
)

// Assumed model of encoding/json for struct values (top-level JSON objects).
//
// A document is identified by its byte sequence q = bseq(bytes). Its members are
// given by uninterpreted functions of (q, member name):
//
//	json_str(q, k) Str, json_int(q, k) Int, json_bool(q, k) Bool,
//	json_mdom_K_V(q, k) (Array K Bool), json_mval_K_V(q, k) (Array K V), json_mlen(q, k) Int, json_mnil(q, k) Bool
//
// json.Marshal(v) of a struct (or pointer to struct) returns, on nil error, a
// fresh slice whose document has every supported exported field of v as member
// (name from the json tag). json.Unmarshal(data, &x) sets, on nil error, every
// supported field of x to the corresponding member of the document of data;
// map members become fresh maps. Nothing else is assumed about a document, so
// an input document is arbitrary (untrusted). Fields of other kinds (nested
// structs, slices, time.Time, ...) are left unconstrained.
//
// math/big: x.Text(16) = big_text16(bits(x)); z.SetString(s, 16) sets bits(z) =
// big_parse16(s); big_parse16(big_text16(b)) = b.
// net: (*net.IPNet).String() = ipnet_string(bseq(IP), bseq(Mask)).

func jsonMember(f *types.Var, tag string) (string, bool) {
	if !f.Exported() {
		return "", false
	}
	name := f.Name()
	if t, ok := reflect.StructTag(tag).Lookup("json"); ok {
		if t == "-" {
			return "", false
		}
		if i := strings.Index(t, ","); i >= 0 {
			t = t[:i]
		}
		if t != "" {
			name = t
		}
	}
	return name, true
}

func (fv *funcVerifier) jsonDecls() {
	fv.hashDecls()
	c := fv.c
	c.DeclareFun("json_str", []string{smt.Int, StrSort}, StrSort)
	c.DeclareFun("json_int", []string{smt.Int, StrSort}, smt.Int)
	c.DeclareFun("json_bool", []string{smt.Int, StrSort}, smt.Bool)
	c.DeclareFun("json_mlen", []string{smt.Int, StrSort}, smt.Int)
	c.DeclareFun("json_mnil", []string{smt.Int, StrSort}, smt.Bool)
}

func (fv *funcVerifier) jsonMapFuns(mt *types.Map) (dom, val string) {
	ks, vs := fv.so.sortOf(mt.Key()), fv.so.sortOf(mt.Elem())
	sfx := smt.Sanitize(ks + "_" + vs)
	dom, val = "json_mdom_"+sfx, "json_mval_"+sfx
	fv.c.DeclareFun(dom, []string{smt.Int, StrSort}, smt.Arr(ks, smt.Bool))
	fv.c.DeclareFun(val, []string{smt.Int, StrSort}, smt.Arr(ks, vs))
	return
}

// jsonStructOf returns the struct type behind a value or pointer static type.
func jsonStructOf(t types.Type) (st *types.Struct, named types.Type, isPtr bool) {
	if p, ok := t.Underlying().(*types.Pointer); ok {
		t = p.Elem()
		isPtr = true
	}
	if _, opaque := opaqueNamed(t); opaque {
		return nil, nil, false
	}
	s, ok := t.Underlying().(*types.Struct)
	if !ok {
		return nil, nil, false
	}
	return s, t, isPtr
}

func (fv *funcVerifier) docOf(st *State, s smt.Term) smt.Term {
	key := fv.memKey(types.Typ[types.Uint8])
	fv.instFrames(key, slArr(s))
	return fv.c.Let("jdoc", smt.App(smt.Int, "bseq", smt.Select(fv.heapGet(st, key), slArr(s)), slOff(s), slLen(s)))
}

func init() {
	libModels["encoding/json.Marshal"] = func(fv *funcVerifier, st *State, call *ast.CallExpr, fn *types.Func) []smt.Term {
		fv.jsonDecls()
		arg := call.Args[0]
		at := fv.typeOf(arg)
		v := fv.evalExpr(st, arg)
		sig := fn.Type().(*types.Signature)
		errT := fv.fresh(st, "res_Marshal", sig.Results().At(1).Type())
		arr := fv.alloc(st, "json")
		key := fv.memKey(types.Typ[types.Uint8])
		n := fv.c.Fresh("jsonlen", smt.Int)
		fv.assume(st, smt.And(smt.Ge(n, smt.IntLit(2)), smt.Le(n, smt.IntLit(maxLen))))
		contents := fv.c.Fresh("jsonmem", byteArr)
		fv.mut++
		fv.heapSet(st, key, smt.Store(fv.heapGet(st, key), arr, contents))
		res := mkSlice(arr, smt.IntLit(0), n, n)
		ok := smt.Eq(errT, smt.IntLit(0))
		q := fv.c.Let("jdoc", smt.App(smt.Int, "bseq", contents, smt.IntLit(0), n))
		stt, named, isPtr := jsonStructOf(at)
		if stt == nil {
			fv.note("json.Marshal of %s: document contents unconstrained", at)
		} else {
			si := fv.so.structOf(named)
			for i := 0; i < stt.NumFields(); i++ {
				f := stt.Field(i)
				member, vis := jsonMember(f, stt.Tag(i))
				if !vis {
					continue
				}
				_, sf := si.field(f.Name())
				if sf == nil {
					continue
				}
				var fvv smt.Term
				if isPtr {
					fvv = fv.fieldLval(st, v, named, sf).load()
				} else {
					fvv = smt.App(sf.sort, sf.sel, v)
				}
				k := fv.so.strConst(member)
				switch {
				case isString(f.Type()):
					fv.assume(st, smt.Implies(ok, smt.Eq(smt.App(StrSort, "json_str", q, k), fvv)))
				case isInteger(f.Type()):
					fv.assume(st, smt.Implies(ok, smt.Eq(smt.App(smt.Int, "json_int", q, k), fvv)))
				case isBoolean(f.Type()):
					fv.assume(st, smt.Implies(ok, smt.Eq(smt.App(smt.Bool, "json_bool", q, k), fvv)))
				default:
					if mt, isMap := f.Type().Underlying().(*types.Map); isMap {
						dom, val, ln := fv.mapKeys(mt)
						jd, jv := fv.jsonMapFuns(mt)
						fv.instFrames(dom, fvv)
						fv.instFrames(val, fvv)
						fv.instFrames(ln, fvv)
						ks, vs := fv.so.sortOf(mt.Key()), fv.so.sortOf(mt.Elem())
						isNil := smt.Eq(fvv, smt.IntLit(0))
						fv.assume(st, smt.Implies(ok, smt.Eq(smt.App(smt.Bool, "json_mnil", q, k), isNil)))
						fv.assume(st, smt.Implies(smt.And(ok, smt.Not(isNil)), smt.And(
							smt.Eq(smt.App(smt.Arr(ks, smt.Bool), jd, q, k), smt.Select(fv.heapGet(st, dom), fvv)),
							smt.Eq(smt.App(smt.Arr(ks, vs), jv, q, k), smt.Select(fv.heapGet(st, val), fvv)),
							smt.Eq(smt.App(smt.Int, "json_mlen", q, k), smt.Select(fv.heapGet(st, ln), fvv)))))
					} else {
						fv.note("json.Marshal: member %q of type %s is not tracked", member, f.Type())
					}
				}
			}
		}
		return []smt.Term{fv.c.Let("jsonres", smt.Ite(ok, res, nilSlice)), errT}
	}

	libModels["encoding/json.Unmarshal"] = func(fv *funcVerifier, st *State, call *ast.CallExpr, fn *types.Func) []smt.Term {
		fv.jsonDecls()
		data := fv.evalExpr(st, call.Args[0])
		tgtT := fv.typeOf(call.Args[1])
		p := fv.evalExpr(st, call.Args[1])
		sig := fn.Type().(*types.Signature)
		errT := fv.fresh(st, "res_Unmarshal", sig.Results().At(0).Type())
		ok := smt.Eq(errT, smt.IntLit(0))
		q := fv.docOf(st, data)
		stt, named, isPtr := jsonStructOf(tgtT)
		if stt == nil || !isPtr {
			fv.note("json.Unmarshal into %s: heap havocked", tgtT)
			fv.havocAll(st)
			return []smt.Term{errT}
		}
		si := fv.so.structOf(named)
		for i := 0; i < stt.NumFields(); i++ {
			f := stt.Field(i)
			_, sf := si.field(f.Name())
			if sf == nil {
				continue
			}
			lv := fv.fieldLval(st, p, named, sf)
			member, vis := jsonMember(f, stt.Tag(i))
			if !vis {
				continue
			}
			k := fv.so.strConst(member)
			junk := fv.fresh(st, "jsonjunk_"+f.Name(), f.Type()) // partial decode on error
			switch {
			case isString(f.Type()):
				v := fv.c.Let("jv", smt.App(StrSort, "json_str", q, k))
				fv.assume(st, smt.Implies(ok, fv.so.valid(v, f.Type(), st.frontier)))
				lv.store(smt.Ite(ok, v, junk))
			case isInteger(f.Type()):
				v := fv.c.Let("jv", smt.App(smt.Int, "json_int", q, k))
				fv.assume(st, smt.Implies(ok, fv.so.valid(v, f.Type(), st.frontier)))
				lv.store(smt.Ite(ok, v, junk))
			case isBoolean(f.Type()):
				lv.store(smt.Ite(ok, smt.App(smt.Bool, "json_bool", q, k), junk))
			default:
				if mt, isMap := f.Type().Underlying().(*types.Map); isMap {
					dom, val, ln := fv.mapKeys(mt)
					jd, jv := fv.jsonMapFuns(mt)
					ks, vs := fv.so.sortOf(mt.Key()), fv.so.sortOf(mt.Elem())
					m := fv.alloc(st, "jsonmap")
					fv.mut++
					fv.heapSet(st, dom, smt.Store(fv.heapGet(st, dom), m, smt.App(smt.Arr(ks, smt.Bool), jd, q, k)))
					fv.heapSet(st, val, smt.Store(fv.heapGet(st, val), m, smt.App(smt.Arr(ks, vs), jv, q, k)))
					l := smt.App(smt.Int, "json_mlen", q, k)
					fv.assume(st, smt.And(smt.Ge(l, smt.IntLit(0)), smt.Le(l, smt.IntLit(maxLen))))
					fv.heapSet(st, ln, smt.Store(fv.heapGet(st, ln), m, l))
					lv.store(smt.Ite(ok, smt.Ite(smt.App(smt.Bool, "json_mnil", q, k), smt.IntLit(0), m), junk))
				} else {
					fv.note("json.Unmarshal: member %q of type %s is unconstrained", member, f.Type())
					fv.havocReferent(st, lv.load(), f.Type())
					lv.store(junk)
				}
			}
		}
		return []smt.Term{errT}
	}

	// math/big text round trip (bit view)
	libModels["(*math/big.Int).Text"] = func(fv *funcVerifier, st *State, call *ast.CallExpr, fn *types.Func) []smt.Term {
		x := recvOf(fv, st, call)
		base := fv.evalExpr(st, call.Args[0])
		if b, ok := smt.IntVal(base); !ok || b.Int64() != 16 {
			return fv.freshResults(st, call, "bigtext")
		}
		fv.bigTextDecls()
		r := fv.c.Let("bigtext", smt.App(StrSort, "big_text16", fv.bigBits(st, x)))
		fv.assume(st, fv.so.valid(r, types.Typ[types.String], st.frontier))
		return []smt.Term{r}
	}
	libModels["(*math/big.Int).SetString"] = func(fv *funcVerifier, st *State, call *ast.CallExpr, fn *types.Func) []smt.Term {
		z := recvOf(fv, st, call)
		s := fv.evalExpr(st, call.Args[0])
		base := fv.evalExpr(st, call.Args[1])
		okT := fv.c.Fresh("setstring_ok", smt.Bool)
		if b, ok := smt.IntVal(base); ok && b.Int64() == 16 {
			fv.bigTextDecls()
			okT = fv.c.Let("setstring_ok", smt.App(smt.Bool, "big_valid16", s))
		}
		fv.mut++
		kv := fv.bigKey("val")
		fv.heapSet(st, kv, smt.Store(fv.heapGet(st, kv), z, fv.c.Fresh("bigval", smt.Int)))
		kb := fv.bigKey("bits")
		h := fv.heapGet(st, kb)
		if b, ok := smt.IntVal(base); ok && b.Int64() == 16 {
			fv.bigTextDecls()
			// on failure the value of z is undefined (math/big documentation)
			fv.heapSet(st, kb, smt.Store(h, z, smt.Ite(okT, smt.App(smt.Arr(smt.Int, smt.Bool), "big_parse16", s), fv.c.Fresh("bits", smt.ElemSort(h.Sort)))))
		} else {
			fv.heapSet(st, kb, smt.Store(h, z, fv.c.Fresh("bits", smt.ElemSort(h.Sort))))
		}
		return []smt.Term{smt.Ite(okT, z, smt.IntLit(0)), okT}
	}
	// context constructors return a non-nil context and a non-nil cancel function
	ctxCtor := func(fv *funcVerifier, st *State, call *ast.CallExpr, fn *types.Func) []smt.Term {
		fv.evalArgs(st, call, fn.Type().(*types.Signature))
		res := fv.freshResults(st, call, fn.Name())
		for _, r := range res {
			if r.Sort == smt.Int {
				fv.assume(st, smt.Ne(r, smt.IntLit(0)))
			}
		}
		return res
	}
	libModels["context.WithTimeout"] = ctxCtor
	libModels["context.WithCancel"] = ctxCtor
	libModels["context.WithDeadline"] = ctxCtor
	libModels["net.ParseCIDR"] = func(fv *funcVerifier, st *State, call *ast.CallExpr, fn *types.Func) []smt.Term {
		fv.evalArgs(st, call, fn.Type().(*types.Signature))
		res := fv.freshResults(st, call, "ParseCIDR")
		// (IP, *IPNet, error): nil error implies a non-nil network
		fv.assume(st, smt.Implies(smt.Eq(res[2], smt.IntLit(0)), smt.Ne(res[1], smt.IntLit(0))))
		return res
	}
	libModels["(*net.IPNet).String"] = func(fv *funcVerifier, st *State, call *ast.CallExpr, fn *types.Func) []smt.Term {
		sel := ast.Unparen(call.Fun).(*ast.SelectorExpr)
		p := fv.evalExpr(st, sel.X)
		if _, isPtr := fv.typeOf(sel.X).Underlying().(*types.Pointer); !isPtr {
			return fv.freshResults(st, call, "ipnetstr")
		}
		fv.nilCheck(st, p, sel.X, call.Pos())
		r := fv.c.Let("ipnetstr", fv.ipnetString(st, p, fv.typeOf(sel.X)))
		fv.assume(st, fv.so.valid(r, types.Typ[types.String], st.frontier))
		return []smt.Term{r}
	}
	AssumedLib = append(AssumedLib,
		"encoding/json.Marshal/Unmarshal of struct values: a document is a function from member names to values (json_str/json_int/json_bool/json_mdom/json_mval/json_mlen over the document's byte sequence); Marshal writes every exported string/integer/bool/map field under its json tag name into a fresh slice, Unmarshal reads them back into fresh maps; documents are otherwise arbitrary",
		"(*big.Int).Text(16) / SetString(s, 16): SetString succeeds iff big_valid16(s) and then bits = big_parse16(s); big_valid16(big_text16(b)) and big_parse16(big_text16(b)) == b; on failure the bits of the receiver are arbitrary",
		"(*net.IPNet).String is a function of the IP and Mask byte sequences; net.ParseCIDR: nil error implies a non-nil *IPNet")
}

func (fv *funcVerifier) bigTextDecls() {
	c := fv.c
	if c.Has("big_text16") {
		return
	}
	bs := smt.Arr(smt.Int, smt.Bool)
	c.DeclareFun("big_text16", []string{bs}, StrSort)
	c.DeclareFun("big_parse16", []string{StrSort}, bs)
	b := smt.Term{S: "b", Sort: bs}
	t := smt.App(StrSort, "big_text16", b)
	c.DeclareFun("big_valid16", []string{StrSort}, smt.Bool)
	c.Axiom("big_text_roundtrip", smt.Forall([]smt.Term{b}, smt.And(smt.App(smt.Bool, "big_valid16", t), smt.Eq(smt.App(bs, "big_parse16", t), b)), t), "big_text16")
}

// ipnetString is the String() of the *net.IPNet p (static type pt).
func (fv *funcVerifier) ipnetString(st *State, p smt.Term, pt types.Type) smt.Term {
	fv.hashDecls()
	fv.c.DeclareFun("ipnet_string", []string{smt.Int, smt.Int}, StrSort)
	elem, _ := derefType(pt)
	si := fv.so.structOf(elem)
	_, fip := si.field("IP")
	_, fmask := si.field("Mask")
	ip := fv.fieldLval(st, p, elem, fip).load()
	mask := fv.fieldLval(st, p, elem, fmask).load()
	key := fv.memKey(types.Typ[types.Uint8])
	fv.instFrames(key, slArr(ip))
	fv.instFrames(key, slArr(mask))
	m := fv.heapGet(st, key)
	return smt.App(StrSort, "ipnet_string",
		smt.App(smt.Int, "bseq", smt.Select(m, slArr(ip)), slOff(ip), slLen(ip)),
		smt.App(smt.Int, "bseq", smt.Select(m, slArr(mask)), slOff(mask), slLen(mask)))
}

// specBuiltinJSON evaluates the spec functions of the JSON / big text / IPNet models.
func (env *specEnv) specBuiltinJSON(name string, e *SExpr, args []*SExpr) (sval, bool) {
	fv := env.fv
	two := func() (smt.Term, smt.Term) {
		if len(args) != 2 {
			env.fail(e, "%s expects (document, member name)", name)
		}
		fv.jsonDecls()
		q, k := env.eval(args[0]), env.eval(args[1])
		if k.t.Sort != StrSort {
			env.fail(e, "%s: member name must be a string", name)
		}
		return q.t, k.t
	}
	strIntMap := types.NewMap(types.Typ[types.String], types.Typ[types.Uint64])
	switch name {
	case "json_str":
		q, k := two()
		return sval{smt.App(StrSort, "json_str", q, k), types.Typ[types.String]}, true
	case "json_int":
		q, k := two()
		return mathVal(smt.App(smt.Int, "json_int", q, k)), true
	case "json_bool":
		q, k := two()
		return boolVal(smt.App(smt.Bool, "json_bool", q, k)), true
	case "json_strmap_dom":
		q, k := two()
		jd, _ := fv.jsonMapFuns(strIntMap)
		return sval{smt.App(smt.Arr(StrSort, smt.Bool), jd, q, k), nil}, true
	case "json_strmap_val":
		q, k := two()
		_, jv := fv.jsonMapFuns(strIntMap)
		return sval{smt.App(smt.Arr(StrSort, smt.Int), jv, q, k), nil}, true
	case "json_map_len":
		q, k := two()
		return mathVal(smt.App(smt.Int, "json_mlen", q, k)), true
	case "json_map_nil":
		q, k := two()
		return boolVal(smt.App(smt.Bool, "json_mnil", q, k)), true
	case "doc":
		// doc(s): the document (byte sequence) held by slice s
		if len(args) != 1 {
			env.fail(e, "doc expects a []byte")
		}
		fv.hashDecls()
		v := env.eval(args[0])
		if v.t.Sort != SliceSort {
			env.fail(e, "doc of non-slice")
		}
		return mathVal(fv.docOf(env.cur, v.t)), true
	case "big_text16":
		if len(args) != 1 {
			env.fail(e, "big_text16 expects a bit view")
		}
		fv.bigTextDecls()
		return sval{smt.App(StrSort, "big_text16", env.eval(args[0]).t), types.Typ[types.String]}, true
	case "big_valid16":
		if len(args) != 1 {
			env.fail(e, "big_valid16 expects a string")
		}
		fv.bigTextDecls()
		return boolVal(smt.App(smt.Bool, "big_valid16", env.eval(args[0]).t)), true
	case "big_parse16":
		if len(args) != 1 {
			env.fail(e, "big_parse16 expects a string")
		}
		fv.bigTextDecls()
		return sval{smt.App(smt.Arr(smt.Int, smt.Bool), "big_parse16", env.eval(args[0]).t), nil}, true
	case "ipnet_str":
		if len(args) != 1 {
			env.fail(e, "ipnet_str expects a *net.IPNet")
		}
		v := env.eval(args[0])
		if v.typ == nil {
			env.fail(e, "ipnet_str of untyped value")
		}
		return sval{fv.ipnetString(env.cur, v.t, v.typ), types.Typ[types.String]}, true
	}
	return sval{}, false
}
