package pppoe

import (
	"fmt"
	"net"
	"testing"
	"time"

	"go.uber.org/zap"
)

// Obligation: C11.pppoe.IPCPStateMachine.timeout.lockinv[IPCPStateMachine.ackrcvd_unlock]
//
// Open, Up -> Configure-Request id=a sent; peer acks a -> Ack-Rcvd; restart timer fires
// -> Configure-Request id=b retransmitted but the automaton stays in Ack-Rcvd; the peer's
// own (acceptable) Configure-Request is acknowledged -> Opened, although the most recent
// Configure-Request (id b) was never acknowledged. RFC 1661: TO+ in Ack-Rcvd -> Req-Sent.
func TestReplayVC(t *testing.T) {
	var sent [][]byte
	cfg := DefaultIPCPConfig()
	cfg.PeerIP = net.ParseIP("10.0.0.2")
	cfg.RestartTimer = time.Hour // only explicit timeout() calls below
	ipcp := NewIPCPStateMachine(cfg, "s1", func(proto uint16, data []byte) {
		sent = append(sent, append([]byte(nil), data...))
	}, zap.NewNop())
	ipcp.Open()
	ipcp.Up()
	first := sent[len(sent)-1] // our Configure-Request (id a)
	ack := append([]byte(nil), first...)
	ack[0] = LCPCodeConfigAck
	ipcp.ReceivePacket(ack) // peer acknowledges request a
	ipcp.timeout()          // restart timer expires: request b goes out
	ipcp.stopTimer()
	latest := sent[len(sent)-1]
	// peer's Configure-Request: IP-Address = the assigned address (acceptable)
	req := []byte{LCPCodeConfigRequest, 9, 0, 10, IPCPOptIPAddress, 6, 10, 0, 0, 2}
	ipcp.ReceivePacket(req)
	ipcp.stopTimer()
	if latest[0] != LCPCodeConfigRequest || latest[1] == first[1] {
		fmt.Println("REPLAY-SETUP-FAILED: timeout did not retransmit with a new identifier")
		return
	}
	if ipcp.IsOpened() {
		fmt.Printf("REPLAY-VIOLATED: IPCP reports Opened although the peer acknowledged only request id %d; the most recent Configure-Request (id %d) was never acknowledged\n", first[1], latest[1])
		return
	}
	fmt.Println("REPLAY-OK")
}
