// Package govc is the Go front end: it loads packages of /repo with
// go/packages, reads the contracts from the verif-tagged comment files, and
// generates verification conditions from the typed AST.
package govc

import (
	"fmt"
	"go/ast"
	"go/token"
	"go/types"
	"os"
	"path/filepath"
	"sort"
	"strings"

	"golang.org/x/tools/go/packages"
)

// Program is the loaded set of packages.
type Program struct {
	RepoDir string
	Fset    *token.FileSet
	Pkgs    map[string]*packages.Package // by import path
	Funcs   map[string]*FuncInfo         // by key "pkg.Recv.Name" / "pkg.Name"
	lockSets map[string]map[string]bool // receiverLocks memo
	Specs   *SpecSet
	ModPath string
	pureMemo map[string]int
}

// FuncInfo is one function or method declared in the repo.
type FuncInfo struct {
	Key  string
	Pkg  *packages.Package
	Decl *ast.FuncDecl
	Obj  *types.Func
	File string
}

// Load loads the given package patterns (relative to repoDir, e.g.
// "./pkg/pppoe") with the verif tag on.
func Load(repoDir string, patterns []string) (*Program, error) {
	scratch, err := os.MkdirTemp("", "bngvc-mod")
	if err != nil {
		return nil, err
	}
	defer os.RemoveAll(scratch)
	for _, f := range []string{"go.mod", "go.sum"} {
		b, err := os.ReadFile(filepath.Join(repoDir, f))
		if err != nil {
			return nil, err
		}
		if err := os.WriteFile(filepath.Join(scratch, f), b, 0o644); err != nil {
			return nil, err
		}
	}
	env := []string{}
	for _, e := range os.Environ() {
		if strings.HasPrefix(e, "GOFLAGS=") || strings.HasPrefix(e, "GOSUMDB=") || strings.HasPrefix(e, "GOTOOLCHAIN=") {
			continue
		}
		env = append(env, e)
	}
	env = append(env, "GOFLAGS=-mod=mod", "GOPROXY=off", "GOWORK=off")
	cfg := &packages.Config{
		Mode: packages.NeedName | packages.NeedFiles | packages.NeedCompiledGoFiles | packages.NeedSyntax |
			packages.NeedTypes | packages.NeedTypesInfo | packages.NeedImports | packages.NeedModule,
		Dir:        repoDir,
		Env:        env,
		BuildFlags: []string{"-tags=verif", "-modfile=" + filepath.Join(scratch, "go.mod")},
		Fset:       token.NewFileSet(),
	}
	pkgs, err := packages.Load(cfg, patterns...)
	if err != nil {
		return nil, err
	}
	p := &Program{RepoDir: repoDir, Fset: cfg.Fset, Pkgs: map[string]*packages.Package{}, Funcs: map[string]*FuncInfo{}}
	var errs []string
	for _, pkg := range pkgs {
		for _, e := range pkg.Errors {
			errs = append(errs, e.Error())
		}
		p.Pkgs[pkg.PkgPath] = pkg
		if pkg.Module != nil {
			p.ModPath = pkg.Module.Path
		}
		for _, f := range pkg.Syntax {
			fname := p.Fset.Position(f.Pos()).Filename
			for _, d := range f.Decls {
				fd, ok := d.(*ast.FuncDecl)
				if !ok || fd.Body == nil {
					continue
				}
				obj, _ := pkg.TypesInfo.Defs[fd.Name].(*types.Func)
				if obj == nil {
					continue
				}
				key := FuncKey(obj)
				p.Funcs[key] = &FuncInfo{Key: key, Pkg: pkg, Decl: fd, Obj: obj, File: fname}
			}
		}
	}
	if len(errs) > 0 {
		return nil, fmt.Errorf("package load errors:\n%s", strings.Join(errs, "\n"))
	}
	p.Specs, err = LoadSpecs(p)
	if err != nil {
		return nil, err
	}
	return p, nil
}

// ShortPkg returns the last path element of an import path.
func ShortPkg(path string) string {
	if i := strings.LastIndex(path, "/"); i >= 0 {
		return path[i+1:]
	}
	return path
}

// FuncKey returns "pkg.Recv.Name" or "pkg.Name" with the short package name.
func FuncKey(f *types.Func) string {
	pkg := ""
	if f.Pkg() != nil {
		pkg = ShortPkg(f.Pkg().Path())
	}
	sig, _ := f.Type().(*types.Signature)
	if sig != nil && sig.Recv() != nil {
		t := sig.Recv().Type()
		if pt, ok := t.(*types.Pointer); ok {
			t = pt.Elem()
		}
		if n, ok := t.(*types.Named); ok {
			return pkg + "." + n.Obj().Name() + "." + f.Name()
		}
		if a, ok := t.(*types.Alias); ok {
			return pkg + "." + a.Obj().Name() + "." + f.Name()
		}
	}
	return pkg + "." + f.Name()
}

// FullName returns the fully qualified name used for library models.
func FullName(f *types.Func) string {
	return f.FullName()
}

// SortedFuncKeys returns the keys of all loaded functions.
func (p *Program) SortedFuncKeys() []string {
	var ks []string
	for k := range p.Funcs {
		ks = append(ks, k)
	}
	sort.Strings(ks)
	return ks
}

// InRepo reports whether the package belongs to the repository module.
func (p *Program) InRepo(pkg *types.Package) bool {
	if pkg == nil {
		return false
	}
	return p.ModPath != "" && (pkg.Path() == p.ModPath || strings.HasPrefix(pkg.Path(), p.ModPath+"/"))
}

// Pos renders a position relative to the repo.
func (p *Program) Pos(pos token.Pos) string {
	ps := p.Fset.Position(pos)
	rel, err := filepath.Rel(p.RepoDir, ps.Filename)
	if err != nil {
		rel = ps.Filename
	}
	return fmt.Sprintf("%s:%d", rel, ps.Line)
}

// Callees returns the keys of repo functions statically called by fi
// (including calls inside function literals).
func (p *Program) Callees(fi *FuncInfo) []string {
	seen := map[string]bool{}
	info := fi.Pkg.TypesInfo
	ast.Inspect(fi.Decl.Body, func(n ast.Node) bool {
		call, ok := n.(*ast.CallExpr)
		if !ok {
			return true
		}
		var fn *types.Func
		switch f := ast.Unparen(call.Fun).(type) {
		case *ast.Ident:
			fn, _ = info.Uses[f].(*types.Func)
		case *ast.SelectorExpr:
			if sel, ok := info.Selections[f]; ok {
				if sel.Kind() == types.MethodVal {
					if _, isIface := sel.Recv().Underlying().(*types.Interface); !isIface {
						fn, _ = sel.Obj().(*types.Func)
					}
				}
			} else {
				fn, _ = info.Uses[f.Sel].(*types.Func)
			}
		}
		if fn != nil && p.InRepo(fn.Pkg()) {
			k := FuncKey(fn)
			if _, ok := p.Funcs[k]; ok {
				seen[k] = true
			}
		}
		return true
	})
	var out []string
	for k := range seen {
		out = append(out, k)
	}
	sort.Strings(out)
	return out
}

// Reachable returns the functions reachable from the given roots.
func (p *Program) Reachable(roots []string) []string {
	seen := map[string]bool{}
	var work []string
	for _, r := range roots {
		if _, ok := p.Funcs[r]; ok && !seen[r] {
			seen[r] = true
			work = append(work, r)
		}
	}
	for len(work) > 0 {
		k := work[len(work)-1]
		work = work[:len(work)-1]
		for _, c := range p.Callees(p.Funcs[k]) {
			if !seen[c] {
				seen[c] = true
				work = append(work, c)
			}
		}
	}
	var out []string
	for k := range seen {
		out = append(out, k)
	}
	sort.Strings(out)
	return out
}
