package allocator

import (
	"fmt"
	"testing"
)

// A /64 pool handing out /128 addresses has 2^64 prefixes: totalPrefixes.Uint64()
// truncates to 0, so the pool reports exhaustion while nobody holds an address.
func TestReplayVC(t *testing.T) {
	a, err := NewIPAllocator("2001:db8:0:1::/64", 128)
	if err != nil {
		fmt.Println("REPLAY-OK (configuration rejected:", err, ")")
		return
	}
	_, err = a.Allocate("sub-1")
	allocated, total, _ := a.Stats()
	if err != nil {
		fmt.Printf("REPLAY-VIOLATED: Allocate on an empty pool returned %q; Stats allocated=%d total=%d\n", err, allocated, total)
		return
	}
	fmt.Println("REPLAY-OK")
}
