package check

func init() {
	register(&PropDef{
		ID:    "C07",
		Title: "Kernel programs stay inside the packet and leave other traffic untouched",
		BPF: []BPFUnit{
			{"dhcp_fastpath.c", "dhcp_fastpath_prog"}, {"antispoof.c", "antispoof_ingress"},
			{"qos_ratelimit.c", "qos_egress_prog"}, {"qos_ratelimit.c", "qos_ingress_prog"},
			{"nat44.c", "nat44_egress"}, {"nat44.c", "nat44_ingress"}, {"nat44.c", "nat44_hairpin_xdp"},
		},
		Undecided: []string{
			"what the in-kernel BPF verifier would additionally reject, JIT behaviour, helper implementations (helper contracts are assumptions)",
			"the IR verified is clang's x86_64 IR of the same C text, not -target bpf (same endianness, pointer width and struct layouts)",
			"alignment, uninitialised stack reads, concurrent CPUs sharing map values",
			"'unless the frame is one the program is specified to act on': the acts predicate per program is in /verif/spec/bpf/programs.json (nat44: a subscriber NAT / session entry was found; all other programs: none)",
		},
		Assumptions: []string{
			"frame length symbolic in 0..65535, all bytes, all ctx fields and all map contents symbolic",
			"loops are unrolled to their compile-time trip counts with an unwinding obligation each (complete, not a bound)",
		},
		Explanation: "Every run compiles the real bpf/*.c with clang-14 to LLVM IR (opt: sroa, mem2reg, simplifycfg) and executes the IR symbolically, bit-precisely, with pointers as (region, offset): each load/store/atomic/memcpy gets an in-bounds obligation against its region (packet: inside [data, data_end)), each loop an unwinding obligation, each program a verdict-set obligation, and each path returning the pass verdict the obligation that the packet bytes and length equal the received ones unless the program's acts predicate holds. Counterexamples are replayed on the natively compiled C file with the frame placed against a PROT_NONE guard page.",
	})
}
