package dhcp

import (
	"fmt"
	"net"
	"testing"
	"time"

	"github.com/insomniacslk/dhcp/dhcpv4"
	"go.uber.org/zap"
)

// Client A obtains an address (DISCOVER + REQUEST). Client B, which has no lease,
// then sends a REQUEST for A's address. The server must not acknowledge it: the
// address is leased to a different client.
func TestReplayVC(t *testing.T) {
	logger := zap.NewNop()
	poolMgr := NewPoolManager(nil, logger)
	pool, err := NewPool(PoolConfig{ID: 1, Name: "p", Network: "10.0.1.0/24", Gateway: "10.0.1.1", LeaseTime: time.Hour})
	if err != nil {
		fmt.Println("REPLAY-SETUP-FAILED", err)
		return
	}
	poolMgr.AddPool(pool)
	srv, err := NewServer(ServerConfig{Interface: "lo", ServerIP: net.ParseIP("10.0.1.1")}, nil, poolMgr, logger)
	if err != nil {
		fmt.Println("REPLAY-SETUP-FAILED", err)
		return
	}
	macA, _ := net.ParseMAC("aa:bb:cc:dd:ee:0a")
	macB, _ := net.ParseMAC("aa:bb:cc:dd:ee:0b")

	disc, _ := dhcpv4.NewDiscovery(macA)
	offer, err := srv.handleDiscover(disc)
	if err != nil || offer == nil {
		fmt.Println("REPLAY-SETUP-FAILED", err)
		return
	}
	ip := offer.YourIPAddr
	reqA, _ := dhcpv4.NewDiscovery(macA)
	reqA.UpdateOption(dhcpv4.OptMessageType(dhcpv4.MessageTypeRequest))
	reqA.UpdateOption(dhcpv4.OptRequestedIPAddress(ip))
	ackA, err := srv.handleRequest(reqA)
	if err != nil || ackA == nil || ackA.MessageType() != dhcpv4.MessageTypeAck {
		fmt.Println("REPLAY-SETUP-FAILED: A was not acknowledged", err)
		return
	}

	reqB, _ := dhcpv4.NewDiscovery(macB)
	reqB.UpdateOption(dhcpv4.OptMessageType(dhcpv4.MessageTypeRequest))
	reqB.UpdateOption(dhcpv4.OptRequestedIPAddress(ip))
	respB, err := srv.handleRequest(reqB)
	if err == nil && respB != nil && respB.MessageType() == dhcpv4.MessageTypeAck && respB.YourIPAddr.Equal(ip) {
		srv.leasesMu.RLock()
		n := 0
		for _, l := range srv.leases {
			if l.IP.Equal(ip) && time.Now().Before(l.ExpiresAt) {
				n++
			}
		}
		srv.leasesMu.RUnlock()
		fmt.Printf("REPLAY-VIOLATED: %s is leased to %s and was acknowledged to %s as well (%d unexpired bindings on it)\n", ip, macA, macB, n)
		return
	}
	fmt.Println("REPLAY-OK")
}
