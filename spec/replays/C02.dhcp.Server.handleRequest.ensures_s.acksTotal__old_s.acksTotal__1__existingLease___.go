package dhcp

import (
	"fmt"
	"net"
	"testing"
	"time"

	"github.com/insomniacslk/dhcp/dhcpv4"
	"go.uber.org/zap"
)

// Client A is bound to x through a relayed DISCOVER/REQUEST carrying circuit-id
// "port1". A different MAC B then sends a relayed DISCOVER and REQUEST with the
// same circuit-id (replaced CPE on the same line). The server finds A's lease
// through the circuit-id index and acknowledges x to B; A's entry must not stay
// in the lease table next to B's ("never two unexpired bindings on one address").
func TestReplayVC(t *testing.T) {
	logger := zap.NewNop()
	poolMgr := NewPoolManager(nil, logger)
	pool, err := NewPool(PoolConfig{ID: 1, Name: "p", Network: "10.0.1.0/24", Gateway: "10.0.1.1", LeaseTime: time.Hour})
	if err != nil {
		fmt.Println("REPLAY-SETUP-FAILED", err)
		return
	}
	poolMgr.AddPool(pool)
	srv, err := NewServer(ServerConfig{Interface: "lo", ServerIP: net.ParseIP("10.0.1.1")}, nil, poolMgr, logger)
	if err != nil {
		fmt.Println("REPLAY-SETUP-FAILED", err)
		return
	}
	opt82 := dhcpv4.Option{Code: dhcpv4.OptionRelayAgentInformation, Value: dhcpv4.OptionGeneric{Data: []byte{1, 5, 'p', 'o', 'r', 't', '1'}}}
	mk := func(mac net.HardwareAddr, typ dhcpv4.MessageType, ip net.IP) *dhcpv4.DHCPv4 {
		p, _ := dhcpv4.NewDiscovery(mac)
		p.UpdateOption(dhcpv4.OptMessageType(typ))
		p.GatewayIPAddr = net.IPv4(10, 0, 9, 1)
		p.Options.Update(opt82)
		if ip != nil {
			p.UpdateOption(dhcpv4.OptRequestedIPAddress(ip))
		}
		return p
	}
	macA, _ := net.ParseMAC("aa:bb:cc:dd:ee:0a")
	macB, _ := net.ParseMAC("aa:bb:cc:dd:ee:0b")
	offA, err := srv.handleDiscover(mk(macA, dhcpv4.MessageTypeDiscover, nil))
	if err != nil || offA == nil {
		fmt.Println("REPLAY-SETUP-FAILED", err)
		return
	}
	x := offA.YourIPAddr
	if ack, err := srv.handleRequest(mk(macA, dhcpv4.MessageTypeRequest, x)); err != nil || ack == nil || ack.MessageType() != dhcpv4.MessageTypeAck {
		fmt.Println("REPLAY-SETUP-FAILED: A not acknowledged", err)
		return
	}
	offB, err := srv.handleDiscover(mk(macB, dhcpv4.MessageTypeDiscover, nil))
	if err != nil || offB == nil {
		fmt.Println("REPLAY-SETUP-FAILED", err)
		return
	}
	ackB, err := srv.handleRequest(mk(macB, dhcpv4.MessageTypeRequest, offB.YourIPAddr))
	if err != nil || ackB == nil || ackB.MessageType() != dhcpv4.MessageTypeAck {
		fmt.Println("REPLAY-OK (B was not acknowledged)")
		return
	}
	srv.leasesMu.RLock()
	n := 0
	for _, l := range srv.leases {
		if l.IP.Equal(ackB.YourIPAddr) && time.Now().Before(l.ExpiresAt) {
			n++
		}
	}
	srv.leasesMu.RUnlock()
	if n > 1 {
		fmt.Printf("REPLAY-VIOLATED: %s acknowledged to %s through circuit-id port1 while %s still has a lease entry on it: %d unexpired bindings on one address\n", ackB.YourIPAddr, macB, macA, n)
		return
	}
	fmt.Println("REPLAY-OK")
}
