package check

import "fmt"

func runSelfTest(args []string) int {
	fmt.Println("selftest: driven by /verif/selftest/run.sh")
	return 0
}
