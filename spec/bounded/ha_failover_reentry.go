package ha

// Bounded stand-in for "each promotion emits exactly one completed event" across concurrent
// invocations of the failover (the verifier decides executeFailover per invocation; two invocations
// that overlap while one sleeps through the grace period with the lock released are a whole-history
// matter it cannot express). Real controller, real timers: a standby is told the partner is down
// (FailoverDelay 20 ms, GracePeriod 120 ms, automatic failback off) and the operator command
// ForceFailover arrives 0, 1 or 2 times at offsets {0, 10, 30, 60, 100, 170} ms after the report
// (before the timer, while it fires, during the grace period, after completion), once also with no
// partner-down report at all. The oracle does not depend on the timing actually achieved: after
// everything has settled the node is active, the role-change callback has been called exactly once,
// exactly one completed event was emitted, failoversCompleted is 1 and the controller is not left in
// progress.

import (
	"fmt"
	"sync"
	"testing"
	"time"

	"go.uber.org/zap"
)

func TestBoundedVC(t *testing.T) {
	offsets := []time.Duration{0, 10 * time.Millisecond, 30 * time.Millisecond, 60 * time.Millisecond, 100 * time.Millisecond, 170 * time.Millisecond}
	type scenario struct {
		down   bool
		forces []time.Duration
	}
	var scs []scenario
	scs = append(scs, scenario{down: true})
	for _, a := range offsets {
		scs = append(scs, scenario{down: true, forces: []time.Duration{a}})
		scs = append(scs, scenario{down: false, forces: []time.Duration{a, a}})
		for _, b := range offsets {
			if b >= a {
				scs = append(scs, scenario{down: true, forces: []time.Duration{a, b}})
			}
		}
	}
	var out sync.Mutex
	bad := 0
	var all sync.WaitGroup
	for i, sc := range scs {
		all.Add(1)
		go func(i int, sc scenario) {
			defer all.Done()
			if msg := runFailoverScenario(sc.down, sc.forces); msg != "" {
				out.Lock()
				if bad < 5 {
					fmt.Printf("BOUNDED-VIOLATED partner-down=%v force-failover at %v: %s\n", sc.down, sc.forces, msg)
				}
				bad++
				out.Unlock()
			}
		}(i, sc)
	}
	all.Wait()
	if bad > 0 {
		t.Fatalf("%d of %d scenarios violated", bad, len(scs))
	}
	fmt.Printf("BOUNDED-OK %d scenarios, one promotion each\n", len(scs))
}

func runFailoverScenario(down bool, forces []time.Duration) string {
	cfg := DefaultFailoverConfig()
	cfg.FailoverDelay, cfg.GracePeriod, cfg.FailbackEnabled = 20*time.Millisecond, 120*time.Millisecond, false
	hm := NewHealthMonitor(DefaultHealthConfig(), &PartnerInfo{NodeID: "a", Endpoint: "127.0.0.1:1"}, zap.NewNop())
	c := NewFailoverController(cfg, "b", RoleStandby, 1, hm, zap.NewNop())
	var mu sync.Mutex
	calls, completed := 0, 0
	c.SetRoleChangeCallback(func(Role) error { mu.Lock(); calls++; mu.Unlock(); return nil })
	c.OnFailoverEvent(func(e FailoverEvent) {
		if e.Type == FailoverEventCompleted {
			mu.Lock()
			completed++
			mu.Unlock()
		}
	})
	if down {
		c.handleHealthEvent(HealthEvent{Type: HealthEventPartnerDown, Timestamp: time.Now()})
	}
	var wg sync.WaitGroup
	for _, off := range forces {
		wg.Add(1)
		go func(off time.Duration) {
			defer wg.Done()
			time.Sleep(off)
			c.ForceFailover("operator")
		}(off)
	}
	wg.Wait()
	// let a timer-driven promotion finish: wait until the node is active and nothing is in flight
	deadline := time.Now().Add(10 * time.Second)
	for time.Now().Before(deadline) {
		st := c.State()
		if c.CurrentRole() == RoleActive && st != FailoverStatePending && st != FailoverStateInProgress {
			break
		}
		time.Sleep(5 * time.Millisecond)
	}
	time.Sleep(2 * (cfg.FailoverDelay + cfg.GracePeriod)) // anything still sleeping through its grace period
	mu.Lock()
	nCalls, nCompleted := calls, completed
	mu.Unlock()
	_, done, _, _ := c.Stats()
	if c.CurrentRole() != RoleActive {
		return fmt.Sprintf("the standby was never promoted (state %v)", c.State())
	}
	if st := c.State(); st == FailoverStateInProgress {
		return "controller left in progress with nothing pending"
	}
	if nCalls != 1 || nCompleted != 1 || done != 1 {
		return fmt.Sprintf("one promotion produced %d role-change callback calls, %d completed events, failoversCompleted=%d", nCalls, nCompleted, done)
	}
	return ""
}
