package llvc

func SelfTestMain(args []string) int { return 0 }
