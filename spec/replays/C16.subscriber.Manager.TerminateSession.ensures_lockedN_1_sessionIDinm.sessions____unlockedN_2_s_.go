package subscriber

// Replay for C16.subscriber.Manager.TerminateSession.ensures[lockedN_1_sessionIDinm.sessions____unlockedN_2_s]
// "Ending a session twice, or by two paths at once, has no further effect."
//
// History: an operator disconnect and the timeout sweep (or a RADIUS Disconnect-Request) end the
// same session at the same time. TerminateSession looks the session up in one critical section and
// removes it from the table in a later one; in between it releases the addresses. Both callers
// therefore find the session and both release its address. The second release hits an address
// that the allocator may already have given to another subscriber. (The allocator of this replay
// makes the interleaving deterministic: the first release waits until the second caller has
// arrived or a timeout expires.)

import (
	"context"
	"net"
	"sync"
	"sync/atomic"
	"testing"
	"time"

	"go.uber.org/zap"
)

type replayAllocator struct {
	releases int32
	arrived  chan struct{}
}

func (a *replayAllocator) AllocateIPv4(ctx context.Context, s *Session, poolID string) (net.IP, net.IPMask, net.IP, error) {
	return net.IPv4(10, 1, 0, 7), net.CIDRMask(24, 32), net.IPv4(10, 1, 0, 1), nil
}
func (a *replayAllocator) AllocateIPv6(ctx context.Context, s *Session, poolID string) (net.IP, *net.IPNet, error) {
	return nil, nil, nil
}
func (a *replayAllocator) ReleaseIPv4(ctx context.Context, ip net.IP) error {
	atomic.AddInt32(&a.releases, 1)
	// rendezvous: give a concurrent terminator the time to get here as well
	select {
	case a.arrived <- struct{}{}:
	case <-a.arrived:
	case <-time.After(500 * time.Millisecond):
	}
	return nil
}
func (a *replayAllocator) ReleaseIPv6(ctx context.Context, ip net.IP) error { return nil }

func TestReplayVC(t *testing.T) {
	alloc := &replayAllocator{arrived: make(chan struct{})}
	m := NewManager(DefaultManagerConfig(), nil, alloc, zap.NewNop())

	var termEvents int32
	m.OnEvent(func(ev *SessionEvent) {
		if ev.Type == EventSessionTerminate {
			atomic.AddInt32(&termEvents, 1)
		}
	})

	mac, _ := net.ParseMAC("aa:bb:cc:00:00:07")
	s, err := m.CreateSession(context.Background(), &SessionRequest{MAC: mac, Type: SessionTypeIPoE})
	if err != nil {
		t.Fatal(err)
	}
	if err := m.AssignAddress(context.Background(), s.ID, "pool-v4", ""); err != nil {
		t.Fatal(err)
	}

	var wg sync.WaitGroup
	errs := make([]error, 2)
	reasons := []TerminateReason{TerminateAdminReset, TerminateIdleTimeout}
	for i := 0; i < 2; i++ {
		wg.Add(1)
		go func(i int) {
			defer wg.Done()
			errs[i] = m.TerminateSession(context.Background(), s.ID, reasons[i])
		}(i)
	}
	wg.Wait()

	rel, ev := atomic.LoadInt32(&alloc.releases), atomic.LoadInt32(&termEvents)
	t.Logf("two concurrent terminations: errors=%v / %v, IPv4 releases=%d, terminate events=%d", errs[0], errs[1], rel, ev)
	if rel != 1 || ev != 1 {
		t.Logf("REPLAY-VIOLATED: one session ended by two paths at once: its address was released %d times and %d terminate events were emitted (each must be 1)", rel, ev)
		return
	}
	t.Logf("REPLAY-OK")
}
