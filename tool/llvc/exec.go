package llvc

import (
	"fmt"
	"sort"
	"strconv"
	"strings"

	"bngvc/smt"
)

// Options configure one verification run.
type Options struct {
	Property  string    // obligation id prefix, e.g. "C07" (default "LLVC")
	MaxUnroll int       // per-loop unrolling cap (default 512)
	MaxSteps  int       // executed-instruction cap (default 4,000,000)
	Spec      *ProgSpec // verdict set / pass verdict / acts predicate (default: from program type)
	// AllFunctional generates the functional-spec obligations of every
	// property (default: only those of Property).
	AllFunctional bool

	onlyRef *FunctionalRef // internal: pinned run that generates only this specification's obligations
}

type factNode struct {
	t     smt.Term
	next  *factNode
	depth int
}

func (f *factNode) list() []smt.Term {
	var out []smt.Term
	for n := f; n != nil; n = n.next {
		out = append(out, n.t)
	}
	// oldest first
	for i, j := 0, len(out)-1; i < j; i, j = i+1, j-1 {
		out[i], out[j] = out[j], out[i]
	}
	return out
}

func commonFacts(a, b *factNode) *factNode {
	for a != nil && b != nil && a != b {
		if a.depth > b.depth {
			a = a.next
		} else if b.depth > a.depth {
			b = b.next
		} else {
			a, b = a.next, b.next
		}
	}
	if a == nil || b == nil {
		return nil
	}
	return a
}

// State is the merged symbolic state at one program point.
type State struct {
	pc     smt.Term
	regs   map[string]*Val
	mem    map[int]*RegMem
	pktLen smt.Term
	facts  *factNode
	guards *factNode // branch conditions that hold on every path to this point
	known  *knownNode
	writes *factNode // offsets of packet stores on (some) path to here; hints for counterexample search
	mapVer map[string]int
	found  map[string]smt.Term // ghost: a lookup in this map returned non-NULL on this path
}

func (s *State) clone() *State {
	n := &State{pc: s.pc, pktLen: s.pktLen, facts: s.facts, guards: s.guards, known: s.known, writes: s.writes,
		regs: make(map[string]*Val, len(s.regs)+8), mem: make(map[int]*RegMem, len(s.mem)+2),
		mapVer: make(map[string]int, len(s.mapVer)), found: make(map[string]smt.Term, len(s.found))}
	for k, v := range s.regs {
		n.regs[k] = v
	}
	for k, v := range s.mem {
		n.mem[k] = v
	}
	for k, v := range s.mapVer {
		n.mapVer[k] = v
	}
	for k, v := range s.found {
		n.found[k] = v
	}
	return n
}

// edgeSnap is the part of the state on a control-flow edge of the entry
// function that pass_unmodified needs.
type edgeSnap struct {
	pc     smt.Term
	pkt    *RegMem
	pktLen smt.Term
	facts  *factNode
	known  *knownNode
	writes *factNode
	phis   map[string]*Val
	found  map[string]smt.Term
	multi  bool
}

type retRec struct {
	st *State
	v  *Val
}

type frame struct {
	f      *Function
	path   string
	in     map[int][]*State
	back   map[int][]*State
	iters  []int
	rets   []retRec
	edgePC map[[2]int]smt.Term
	snaps  map[[2]int]*edgeSnap
	cur    *Block
	top    bool
}

type unsupportedError struct{ msg string }

func (u *unsupportedError) Error() string { return u.msg }

func unsupported(format string, args ...interface{}) error {
	return &unsupportedError{fmt.Sprintf(format, args...)}
}

type executor struct {
	mod           *Module
	ctx           *smt.Ctx
	tm            *terms
	opts          Options
	res           *Result
	fn            *Function
	regions       []*Region
	globalReg     map[string]*Region
	mergeMemo     map[mergeKey]*Val
	// base array of the stack region being merged (its undef initial contents), "" otherwise
	mergingStackInit string
	stack         []string
	steps         int
	siteOrd       map[*Instr]int
	ids           map[string]int
	mapVerMax     map[string]int
	nextFresh     int
	pktLen0       smt.Term
	ctxStruct     string
	probes        *probeSet
	notes         map[string]bool
	nullPtr0      *Val
	pktStores     []storeEvt
	resolveFor    *knownNode
	resolveMemo   map[*Val]*Val
	condMemo      map[string]int8
	mapInsts      map[string][]*mapInst // by "map#version"
	offCases      map[string][]offCase  // offset terms that are small case splits over constants
	mute          int                   // >0: obligations are not recorded (second execution of call2 hooks)
	ghost         int                   // >0: helper calls belong to the hypothetical second execution of a call2 hook
	noStoreEvents bool
	pktOpaque     bool // a helper modified packet bytes (no store event describes it)
}

func (e *executor) note(format string, args ...interface{}) {
	s := fmt.Sprintf(format, args...)
	if !e.notes[s] {
		e.notes[s] = true
		e.res.Notes = append(e.res.Notes, s)
	}
}

func (e *executor) fresh(prefix string, w int) *Val {
	if w == 1 {
		return &Val{W: 1, T: e.tm.freshConst(prefix, smt.Bool), UB: 1}
	}
	return intVal(e.tm.freshConst(prefix, smt.BV(w)), w)
}

func (e *executor) ptrTo(r *Region, off int64) *Val {
	return &Val{W: 64, IsPtr: true, P: &Ptr{Reg: regLit(r.ID), Off: lit(uint64(off), 64), OffUB: uint64(off), Cands: []int{r.ID}}}
}

func (e *executor) nullPtr() *Val {
	if e.nullPtr0 == nil {
		e.nullPtr0 = e.ptrTo(e.regions[ridNull], 0)
	}
	return e.nullPtr0
}

func (e *executor) invalidPtr(bits smt.Term) *Val {
	if bits.S == "" {
		bits = lit(0, 64)
	}
	return &Val{W: 64, IsPtr: true, P: &Ptr{Reg: regLit(ridInvalid), Off: bits, OffUB: maxU64, Cands: []int{ridInvalid}}}
}

// ---------------------------------------------------------------- operands

func (e *executor) operand(st *State, v *Value) (*Val, error) {
	switch v.Kind {
	case VLocal:
		x, ok := st.regs[v.Name]
		if !ok {
			return nil, fmt.Errorf("use of undefined register %%%s", v.Name)
		}
		if x.Ite != nil && st.known != nil {
			if r := e.resolve(st, x); r != x {
				st.regs[v.Name] = r
				x = r
			}
		}
		return x, nil
	case VInt:
		return constVal(v.Int, v.Ty.Bits), nil
	case VNull:
		return e.nullPtr(), nil
	case VZero:
		switch v.Ty.Kind {
		case TInt:
			return constVal(0, v.Ty.Bits), nil
		case TPtr:
			return e.nullPtr(), nil
		}
		return nil, unsupported("aggregate zeroinitializer operand")
	case VUndef:
		switch v.Ty.Kind {
		case TInt:
			return e.fresh("undef", v.Ty.Bits), nil
		case TPtr:
			u := e.invalidPtr(smt.Term{})
			u.Undef = true
			return u, nil
		}
		return nil, unsupported("aggregate undef operand")
	case VGlobal:
		if r, ok := e.globalReg[v.Name]; ok {
			return e.ptrTo(r, 0), nil
		}
		if _, ok := e.mod.Funcs[v.Name]; ok {
			return nil, unsupported("function pointer @%s used as a value", v.Name)
		}
		return nil, fmt.Errorf("unknown global @%s", v.Name)
	case VExpr:
		ce := v.Expr
		switch ce.Op {
		case "bitcast":
			return e.operand(st, ce.Args[0])
		case "getelementptr":
			base, err := e.operand(st, ce.Args[0])
			if err != nil {
				return nil, err
			}
			var idx []*Val
			for _, a := range ce.Args[1:] {
				x, err := e.operand(st, a)
				if err != nil {
					return nil, err
				}
				idx = append(idx, x)
			}
			return e.gep(base, ce.SrcTy, idx)
		case "inttoptr":
			x, err := e.operand(st, ce.Args[0])
			if err != nil {
				return nil, err
			}
			return e.intToPtr(x), nil
		case "ptrtoint":
			x, err := e.operand(st, ce.Args[0])
			if err != nil {
				return nil, err
			}
			return e.ptrToInt(x, ce.To.Bits), nil
		}
		return nil, unsupported("constant expression %s", ce.Op)
	}
	return nil, unsupported("operand kind %d", v.Kind)
}

func (e *executor) intToPtr(x *Val) *Val {
	if x.IsPtr {
		return x
	}
	if x.P != nil {
		return &Val{W: 64, IsPtr: true, P: x.P}
	}
	if c, ok := bvConst(x.T); ok && c == 0 {
		return e.nullPtr()
	}
	e.note("inttoptr of an integer without pointer provenance: result treated as an invalid pointer (every access through it fails its in-bounds obligation)")
	t := x.T
	if x.W < 64 {
		t = e.tm.zext(t, x.W, 64)
	}
	return e.invalidPtr(t)
}

func (e *executor) ptrToInt(x *Val, w int) *Val {
	if !x.IsPtr {
		return x
	}
	t := e.bitsOf(x)
	if w < 64 {
		t = e.tm.extract(t, w-1, 0)
	}
	return &Val{W: w, T: t, P: x.P, UB: maskOf(w)}
}

// gep computes base + offsets.
func (e *executor) gep(base *Val, srcTy *Type, idx []*Val) (*Val, error) {
	if !base.IsPtr {
		base = e.intToPtr(base)
	}
	p := base.P
	cur := srcTy
	var constOff int64
	off := p.Off
	ub := p.OffUB
	var treeCases []offCase // the single variable index is an ite tree over constants
	treeSeen := false
	for k, ix := range idx {
		var scale int64
		if k == 0 {
			s, err := SizeOf(cur)
			if err != nil {
				return nil, unsupported("getelementptr: %v", err)
			}
			scale = s
		} else {
			switch cur.Kind {
			case TStruct:
				c, ok := bvConst(ix.T)
				if !ok {
					return nil, unsupported("getelementptr: variable struct index")
				}
				fo, ft, err := FieldOffset(cur, int(c))
				if err != nil {
					return nil, unsupported("getelementptr: %v", err)
				}
				constOff += fo
				cur = ft
				continue
			case TArray:
				cur = cur.Elem
				s, err := SizeOf(cur)
				if err != nil {
					return nil, unsupported("getelementptr: %v", err)
				}
				scale = s
			default:
				return nil, unsupported("getelementptr into %s", cur)
			}
		}
		if c, ok := bvConst(ix.T); ok {
			constOff += signExt(c, ix.W) * scale
			continue
		}
		if constTree(ix) && treeCases == nil && !treeSeen {
			treeSeen = true
			leafCases(ix, smt.True, scale, &treeCases)
		} else {
			treeCases, treeSeen = nil, true
		}
		var t smt.Term
		nonneg := ix.W < 64 && ix.UB < (uint64(1)<<uint(ix.W-1)) || ix.W == 64 && ix.UB < (uint64(1)<<62)
		if nonneg {
			t = e.tm.zext(ix.T, ix.W, 64)
			ub = satAdd(ub, satMul(ix.UB, uint64(scale)))
		} else {
			t = e.tm.sext(ix.T, ix.W, 64)
			ub = maxU64
		}
		t = e.tm.binop("mul", t, lit(uint64(scale), 64))
		off = e.tm.add(off, t)
	}
	if constOff < 0 {
		if c, ok := bvConst(off); ok && int64(c)+constOff >= 0 {
			ub = uint64(int64(c) + constOff)
		} else if r, ok := e.tm.addInfo[off.S]; ok && int64(r.c) >= -constOff && ub != maxU64 {
			ub = ub + uint64(constOff) // known constant part stays non-negative
		} else {
			ub = maxU64
		}
	} else {
		ub = satAdd(ub, uint64(constOff))
	}
	baseConst, baseIsConst := bvConst(p.Off)
	off = e.tm.addConst(off, uint64(constOff))
	if c, ok := bvConst(off); ok {
		ub = c
	} else if baseIsConst && len(treeCases) > 0 && len(treeCases) <= 8 {
		cs := make([]offCase, len(treeCases))
		for i, tc := range treeCases {
			cs[i] = offCase{cond: tc.cond, off: int64(baseConst) + constOff + tc.off}
		}
		e.offCases[off.S] = cs
	}
	return &Val{W: 64, IsPtr: true, P: &Ptr{Reg: p.Reg, Off: off, OffUB: ub, Cands: p.Cands}}, nil
}

// ---------------------------------------------------------------- bounds

func usableRegion(r *Region) bool {
	switch r.Kind {
	case rkNull, rkInvalid, rkMapDef:
		return false
	}
	return true
}

// boundsGoal is the in-bounds condition of an n-byte access through p.
func (e *executor) boundsGoal(st *State, p *Ptr, n int64, write bool) smt.Term {
	var alts []smt.Term
	for _, id := range p.Cands {
		r := e.regions[id]
		if !usableRegion(r) || (write && r.ReadOnly) {
			continue
		}
		var c smt.Term
		if r.Kind == rkPacket {
			if p.OffUB < (uint64(1) << 62) {
				c = e.tm.icmp("ule", e.tm.addConst(p.Off, uint64(n)), st.pktLen)
			} else {
				c = smt.And(e.tm.icmp("ule", p.Off, st.pktLen), e.tm.icmp("ule", lit(uint64(n), 64), e.tm.sub(st.pktLen, p.Off)))
			}
		} else {
			if n > r.Size {
				continue
			}
			c = e.tm.icmp("ule", p.Off, lit(uint64(r.Size-n), 64))
		}
		if len(p.Cands) > 1 {
			c = smt.And(smt.Eq(p.Reg, regLit(id)), c)
		}
		alts = append(alts, c)
	}
	return smt.Or(alts...)
}

// boundsGoalSym is boundsGoal for a symbolic byte count.
func (e *executor) boundsGoalSym(st *State, p *Ptr, n smt.Term) smt.Term {
	var alts []smt.Term
	for _, id := range p.Cands {
		r := e.regions[id]
		if !usableRegion(r) {
			continue
		}
		size := lit(uint64(r.Size), 64)
		if r.Kind == rkPacket {
			size = st.pktLen
		}
		c := smt.And(e.tm.icmp("ule", p.Off, size), e.tm.icmp("ule", n, e.tm.sub(size, p.Off)))
		if len(p.Cands) > 1 {
			c = smt.And(smt.Eq(p.Reg, regLit(id)), c)
		}
		alts = append(alts, c)
	}
	return smt.Or(alts...)
}

// ---------------------------------------------------------------- memory access

func (e *executor) usableCands(p *Ptr) []int {
	var out []int
	for _, id := range p.Cands {
		if usableRegion(e.regions[id]) {
			out = append(out, id)
		}
	}
	return out
}

func (e *executor) ctxField(off int64, n int) (string, bool, error) {
	for _, f := range []string{"data", "data_end", "data_meta"} {
		fo, ok := e.mod.CtxOff[e.ctxStruct+"."+f]
		if !ok {
			continue
		}
		if off == fo && n == 4 {
			return f, true, nil
		}
		if off < fo+4 && fo < off+int64(n) {
			return f, false, unsupported("partial/overlapping access to ctx->%s", f)
		}
	}
	return "", false, nil
}

// loadMem reads n bytes through p (after the in-bounds obligation).
func (e *executor) loadMem(st *State, p *Ptr, n int) (*Val, error) {
	cands := e.usableCands(p)
	if len(cands) == 0 {
		return e.fresh("wild", 8*n), nil
	}
	var res *Val
	for i := len(cands) - 1; i >= 0; i-- {
		id := cands[i]
		var v *Val
		r := e.regions[id]
		if r.Kind == rkCtx {
			c, ok := bvConst(p.Off)
			if !ok {
				return nil, unsupported("context access at a variable offset")
			}
			f, exact, err := e.ctxField(int64(c), n)
			if err != nil {
				return nil, err
			}
			if exact {
				switch f {
				case "data":
					v = e.ptrToInt(e.ptrTo(e.regions[ridPacket], 0), 32)
				case "data_end":
					pe := &Val{W: 64, IsPtr: true, P: &Ptr{Reg: regLit(ridPacket), Off: st.pktLen, OffUB: 65535, Cands: []int{ridPacket}}}
					v = e.ptrToInt(pe, 32)
				default:
					return nil, unsupported("ctx->data_meta is not modelled")
				}
			}
		}
		if v == nil {
			v = e.loadRegion(st, id, p.Off, n)
		}
		if res == nil {
			res = v
		} else {
			res = e.mergeVal(smt.Eq(p.Reg, regLit(id)), v, res)
		}
	}
	return e.resolve(st, res), nil
}

// storeMem writes v through p (after the in-bounds obligation).
func (e *executor) storeMem(st *State, p *Ptr, v *Val) error {
	cands := e.usableCands(p)
	for _, id := range cands {
		r := e.regions[id]
		if r.ReadOnly {
			continue
		}
		if r.Kind == rkCtx {
			c, ok := bvConst(p.Off)
			if !ok {
				return unsupported("context store at a variable offset")
			}
			if f, _, _ := e.ctxField(int64(c), v.W/8); f != "" {
				return unsupported("store to ctx->%s", f)
			}
		}
		if r.Kind == rkMapVal {
			e.bumpMap(st, r.Map)
		}
		if r.Kind == rkPacket && !e.noStoreEvents {
			pc := st.pc
			if len(cands) > 1 {
				pc = smt.And(pc, smt.Eq(p.Reg, regLit(id)))
			}
			e.recordPktStore(st, pc, p.Off, v.W/8, v)
		}
		old := st.regMem(e, id)
		e.storeRegion(st, id, p.Off, v)
		if len(cands) > 1 {
			st.mem[id] = e.mergeMem(smt.Eq(p.Reg, regLit(id)), st.mem[id], old)
		}
	}
	return nil
}

func (e *executor) bumpMap(st *State, m string) {
	e.mapVerMax[m]++
	st.mapVer[m] = e.mapVerMax[m]
}

// ---------------------------------------------------------------- obligations

func tagOf(in *Instr) string {
	if in.Res != "" {
		return in.Op + "." + in.Res
	}
	if in.Op == "call" {
		return in.Op + "." + strings.TrimPrefix(in.Callee, "llvm.") + "#" + strconv.Itoa(in.Ord)
	}
	return in.Op + "#" + strconv.Itoa(in.Ord)
}

func (e *executor) descr(fr *frame, tag string) string {
	d := fr.path
	if fr.cur != nil {
		d += fr.cur.Name + ":"
	}
	d += tag
	if len(fr.iters) > 0 {
		var s []string
		for _, i := range fr.iters {
			s = append(s, strconv.Itoa(i))
		}
		d += "@it" + strings.Join(s, ".")
	}
	return d
}

// oblige records an obligation "pc => goal" and assumes it afterwards.
func (e *executor) oblige(fr *frame, st *State, kind, tag string, goal smt.Term, src string) *Obligation {
	if st.pc.IsFalse() || e.mute > 0 {
		return nil
	}
	desc := e.descr(fr, tag)
	prop := e.opts.Property
	id := fmt.Sprintf("%s.%s.%s.%s[%s]", prop, e.mod.Base, e.fn.Name, kind, desc)
	if n := e.ids[id]; n > 0 {
		e.ids[id] = n + 1
		id = fmt.Sprintf("%s.%s.%s.%s[%s~%d]", prop, e.mod.Base, e.fn.Name, kind, desc, n)
	} else {
		e.ids[id] = 1
	}
	o := &Obligation{ID: id, Kind: kind, Func: e.fn.Name, Desc: desc, Source: src, res: e.res,
		pc: st.pc, goal: goal, facts: st.facts, known: st.known}
	if goal.IsTrue() {
		o.Trivial = true
	} else {
		d := 0
		if st.facts != nil {
			d = st.facts.depth + 1
		}
		st.facts = &factNode{t: smt.Implies(st.pc, goal), next: st.facts, depth: d}
	}
	e.res.Obligations = append(e.res.Obligations, o)
	return o
}

// ---------------------------------------------------------------- merging

func (e *executor) mergeStates(sts []*State) *State {
	var live []*State
	for _, s := range sts {
		if !s.pc.IsFalse() {
			live = append(live, s)
		}
	}
	if len(live) == 0 {
		return nil
	}
	if len(live) == 1 {
		return live[0]
	}
	out := live[len(live)-1].clone()
	pcs := make([]smt.Term, len(live))
	for i, s := range live {
		pcs[i] = s.pc
	}
	for i := len(live) - 2; i >= 0; i-- {
		s := live[i]
		c := s.pc
		// registers
		var diff []string
		for k, v := range out.regs {
			o, ok := s.regs[k]
			if !ok {
				delete(out.regs, k)
				continue
			}
			if o != v {
				diff = append(diff, k)
			}
		}
		sort.Strings(diff)
		for _, k := range diff {
			out.regs[k] = e.mergeVal(c, s.regs[k], out.regs[k])
		}
		// memory
		ids := map[int]bool{}
		for id := range s.mem {
			ids[id] = true
		}
		for id := range out.mem {
			ids[id] = true
		}
		var idl []int
		for id := range ids {
			idl = append(idl, id)
		}
		sort.Ints(idl)
		for _, id := range idl {
			a, b := s.regMem(e, id), out.regMem(e, id)
			if a != b {
				e.mergingStackInit = ""
				if r := e.regions[id]; r.Kind == rkStack && r.init != nil {
					e.mergingStackInit = r.init.Base.S
				}
				out.mem[id] = e.mergeMem(c, a, b)
				e.mergingStackInit = ""
			}
		}
		if s.pktLen.S != out.pktLen.S {
			out.pktLen = e.tm.named("pktlen", smt.Ite(c, s.pktLen, out.pktLen))
		}
		out.facts = commonFacts(s.facts, out.facts)
		out.guards = commonFacts(s.guards, out.guards)
		out.known = commonKnown(s.known, out.known)
		if s.writes != nil && (out.writes == nil || s.writes.depth > out.writes.depth) {
			out.writes = s.writes
		}
		var ms []string
		for m := range s.mapVer {
			ms = append(ms, m)
		}
		for m := range out.mapVer {
			if _, ok := s.mapVer[m]; !ok {
				ms = append(ms, m)
			}
		}
		sort.Strings(ms)
		for _, m := range ms {
			if s.mapVer[m] != out.mapVer[m] {
				e.bumpMap(out, m)
			}
		}
		var fs []string
		for m := range s.found {
			fs = append(fs, m)
		}
		for m := range out.found {
			if _, ok := s.found[m]; !ok {
				fs = append(fs, m)
			}
		}
		sort.Strings(fs)
		for _, m := range fs {
			a, ok1 := s.found[m]
			b, ok2 := out.found[m]
			if !ok1 {
				a = smt.False
			}
			if !ok2 {
				b = smt.False
			}
			out.found[m] = e.tm.named("found_"+m, smt.Ite(c, a, b))
		}
	}
	out.pc = e.tm.named("pc", smt.Or(pcs...))
	return out
}

// ---------------------------------------------------------------- control

func (e *executor) execFunc(f *Function, args []*Val, st *State, path string, top bool) (*Val, *State, error) {
	for _, s := range e.stack {
		if s == f.Name {
			return nil, nil, unsupported("recursive call of %s", f.Name)
		}
	}
	if len(e.stack) > 32 {
		return nil, nil, unsupported("call depth exceeds 32")
	}
	if len(args) != len(f.Params) || f.VarArg {
		return nil, nil, unsupported("call of %s with mismatching arguments", f.Name)
	}
	e.stack = append(e.stack, f.Name)
	defer func() { e.stack = e.stack[:len(e.stack)-1] }()
	fr := &frame{f: f, path: path, in: map[int][]*State{}, back: map[int][]*State{}, edgePC: map[[2]int]smt.Term{}, snaps: map[[2]int]*edgeSnap{}, top: top}
	callerRegs := st.regs
	es := st.clone()
	es.regs = map[string]*Val{}
	for i, p := range f.Params {
		es.regs[p.Name] = args[i]
	}
	fr.in[0] = []*State{es}
	if err := e.runItems(fr, f.cfg.top); err != nil {
		return nil, nil, err
	}
	if top {
		e.res.topFrame = fr
	}
	if len(fr.rets) == 0 {
		dead := st.clone()
		dead.pc = smt.False
		return nil, dead, nil
	}
	var rs []*State
	for i, r := range fr.rets {
		s := r.st
		if len(fr.rets) > 1 {
			s = s.clone()
		}
		s.regs = map[string]*Val{}
		if r.v != nil {
			s.regs["$ret"] = r.v
		}
		_ = i
		rs = append(rs, s)
	}
	out := e.mergeStates(rs)
	if out == nil {
		dead := st.clone()
		dead.pc = smt.False
		return nil, dead, nil
	}
	if out == rs[0] && len(rs) == 1 {
		out = out.clone()
	}
	rv := out.regs["$ret"]
	out.regs = callerRegs
	return rv, out, nil
}

func (e *executor) runItems(fr *frame, items []item) error {
	for _, it := range items {
		if it.loop != nil {
			if err := e.runLoop(fr, it.loop); err != nil {
				return err
			}
			continue
		}
		if err := e.runBlock(fr, fr.f.Blocks[it.block]); err != nil {
			return err
		}
	}
	return nil
}

func (e *executor) runLoop(fr *frame, l *loop) error {
	max := e.opts.MaxUnroll
	hname := fr.f.Blocks[l.header].Name
	iter := 0
	entered := false
	for ; ; iter++ {
		if len(fr.in[l.header]) == 0 {
			break
		}
		entered = true
		if iter > max {
			return unsupported("loop at %s%s not bounded after %d iterations (no compile-time trip count visible)", fr.path, hname, max)
		}
		fr.iters = append(fr.iters, iter)
		err := e.runItems(fr, l.order)
		fr.iters = fr.iters[:len(fr.iters)-1]
		if err != nil {
			return err
		}
		fr.in[l.header] = fr.back[l.header]
		delete(fr.back, l.header)
	}
	if entered {
		// The loop was unrolled until no back-edge state with a satisfiable-looking
		// path condition remained: the unwinding assertion "back edge dead after
		// iter iterations" holds by constant folding of the exit condition.
		fr.cur = fr.f.Blocks[l.header]
		pcAny := smt.True
		st := &State{pc: pcAny}
		o := e.oblige(fr, st, "unwind", fmt.Sprintf("loop#%d<=%d", l.ord, iter-1), smt.True, fmt.Sprintf("loop with header %s: back edge dead after %d iterations", hname, iter))
		if o != nil {
			o.Iterations = iter
		}
	}
	return nil
}

func (e *executor) runBlock(fr *frame, b *Block) error {
	sts := fr.in[b.Index]
	delete(fr.in, b.Index)
	if len(sts) == 0 {
		return nil
	}
	st := e.mergeStates(sts)
	if st == nil {
		return nil
	}
	fr.cur = b
	e.probes.blocks = append(e.probes.blocks, blockProbe{name: e.descr(fr, ""), pc: st.pc})
	for _, in := range b.Instrs {
		e.steps++
		if e.steps > e.opts.MaxSteps {
			return unsupported("symbolic execution exceeded %d instructions", e.opts.MaxSteps)
		}
		if in.Op == "phi" {
			continue // assigned on the incoming edge
		}
		done, err := e.execInstr(fr, st, b, in)
		if err != nil {
			if _, ok := err.(*unsupportedError); ok {
				return unsupported("%s%s: %v    [%s]", fr.path, b.Name, err, in.Raw)
			}
			return fmt.Errorf("%s%s: %v    [%s]", fr.path, b.Name, err, in.Raw)
		}
		if done || st.pc.IsFalse() {
			break
		}
	}
	return nil
}

// edge delivers the state of edge from->to (with condition cond).
func (e *executor) edge(fr *frame, st *State, from *Block, toName string, cond smt.Term, share bool) error {
	pc := smt.And(st.pc, cond)
	if pc.IsFalse() {
		return nil
	}
	to := fr.f.BlockBy[toName]
	es := st
	if !share {
		es = st.clone()
	}
	es.pc = e.tm.named("pc", pc)
	if !cond.IsTrue() {
		d := 0
		if es.guards != nil {
			d = es.guards.depth + 1
		}
		es.guards = &factNode{t: cond, next: es.guards, depth: d}
		e.learn(es, cond.S, true, 0)
	}
	// phi nodes: parallel assignment
	type asg struct {
		name string
		v    *Val
	}
	var as []asg
	for _, in := range to.Instrs {
		if in.Op != "phi" {
			break
		}
		var src *Value
		for _, inc := range in.In {
			if inc.Block == from.Name {
				src = inc.Val
				break
			}
		}
		if src == nil {
			return fmt.Errorf("phi %%%s in %s has no incoming value for %s", in.Res, to.Name, from.Name)
		}
		v, err := e.operand(st, src)
		if err != nil {
			return err
		}
		as = append(as, asg{in.Res, v})
	}
	for _, a := range as {
		es.regs[a.name] = a.v
	}
	key := [2]int{from.Index, to.Index}
	if old, ok := fr.edgePC[key]; ok {
		fr.edgePC[key] = smt.Or(old, es.pc)
		if sn := fr.snaps[key]; sn != nil {
			sn.multi = true
		}
	} else {
		fr.edgePC[key] = es.pc
		if fr.top {
			sn := &edgeSnap{pc: es.pc, pkt: es.regMem(e, ridPacket), pktLen: es.pktLen, facts: es.facts, known: es.known, writes: es.writes, phis: map[string]*Val{}, found: map[string]smt.Term{}}
			for _, a := range as {
				sn.phis[a.name] = a.v
			}
			for k, v := range es.found {
				sn.found[k] = v
			}
			fr.snaps[key] = sn
		}
	}
	// back edge?
	l := fr.f.cfg.loopOf[from.Index]
	for l != nil {
		if l.header == to.Index {
			fr.back[to.Index] = append(fr.back[to.Index], es)
			return nil
		}
		l = l.parent
	}
	fr.in[to.Index] = append(fr.in[to.Index], es)
	return nil
}

func (e *executor) boolOf(v *Val) smt.Term {
	if v.W != 1 {
		panic("i1 expected")
	}
	return v.T
}

// execInstr executes one non-phi instruction; done=true after a terminator.
func (e *executor) execInstr(fr *frame, st *State, b *Block, in *Instr) (bool, error) {
	set := func(v *Val) {
		if in.Res != "" {
			st.regs[in.Res] = v
		}
	}
	switch {
	case binops[in.Op]:
		a, err := e.operand(st, in.Args[0])
		if err != nil {
			return false, err
		}
		c, err := e.operand(st, in.Args[1])
		if err != nil {
			return false, err
		}
		set(e.binopVal(fr, st, in, a, c))
	case in.Op == "icmp":
		a, err := e.operand(st, in.Args[0])
		if err != nil {
			return false, err
		}
		c, err := e.operand(st, in.Args[1])
		if err != nil {
			return false, err
		}
		t, err := e.icmpVal(in.Pred, a, c)
		if err != nil {
			return false, err
		}
		set(&Val{W: 1, T: e.tm.let(in.Res, t), UB: 1})
	case in.Op == "zext" || in.Op == "sext" || in.Op == "trunc":
		a, err := e.operand(st, in.Args[0])
		if err != nil {
			return false, err
		}
		if in.Ty.Kind != TInt || in.Args[0].Ty.Kind != TInt {
			return false, unsupported("%s on non-integer", in.Op)
		}
		if a.IsPtr {
			a = e.ptrToInt(a, 64)
		}
		to := in.Ty.Bits
		if a.Ite != nil {
			n := 32
			if constLeaves(a, &n) {
				set(e.mapLeaves(a, func(l *Val) *Val { return e.castVal(in.Op, l, to, in.Res) }))
				break
			}
		}
		set(e.castVal(in.Op, a, to, in.Res))
	case in.Op == "bitcast":
		a, err := e.operand(st, in.Args[0])
		if err != nil {
			return false, err
		}
		ft, tt := in.Args[0].Ty, in.Ty
		if !(ft.Kind == TPtr && tt.Kind == TPtr) && !(ft.Kind == TInt && tt.Kind == TInt && ft.Bits == tt.Bits) {
			return false, unsupported("bitcast %s to %s", ft, tt)
		}
		set(a)
	case in.Op == "inttoptr":
		a, err := e.operand(st, in.Args[0])
		if err != nil {
			return false, err
		}
		set(e.intToPtr(a))
	case in.Op == "ptrtoint":
		a, err := e.operand(st, in.Args[0])
		if err != nil {
			return false, err
		}
		set(e.ptrToInt(a, in.Ty.Bits))
	case in.Op == "freeze":
		a, err := e.operand(st, in.Args[0])
		if err != nil {
			return false, err
		}
		set(a)
	case in.Op == "select":
		c, err := e.operand(st, in.Args[0])
		if err != nil {
			return false, err
		}
		a, err := e.operand(st, in.Args[1])
		if err != nil {
			return false, err
		}
		d, err := e.operand(st, in.Args[2])
		if err != nil {
			return false, err
		}
		set(e.mergeVal(e.boolOf(c), a, d))
	case in.Op == "alloca":
		if len(in.Args) > 0 {
			return false, unsupported("alloca with element count")
		}
		sz, err := SizeOf(in.ElemTy)
		if err != nil {
			return false, unsupported("alloca: %v", err)
		}
		r := e.newRegion(rkStack, fr.path+in.Res, sz)
		set(e.ptrTo(r, 0))
	case in.Op == "getelementptr":
		base, err := e.operand(st, in.Args[0])
		if err != nil {
			return false, err
		}
		var idx []*Val
		for _, a := range in.Args[1:] {
			x, err := e.operand(st, a)
			if err != nil {
				return false, err
			}
			if x.IsPtr {
				return false, unsupported("pointer used as getelementptr index")
			}
			idx = append(idx, x)
		}
		v, err := e.gep(base, in.ElemTy, idx)
		if err != nil {
			return false, err
		}
		set(v)
	case in.Op == "load":
		pv, err := e.operand(st, in.Args[0])
		if err != nil {
			return false, err
		}
		n, err := memWidth(in.ElemTy)
		if err != nil {
			return false, err
		}
		if !pv.IsPtr {
			pv = e.intToPtr(pv)
		}
		e.oblige(fr, st, "inbounds", tagOf(in), e.boundsGoal(st, pv.P, int64(n), false), in.Raw)
		v, err := e.loadMem(st, pv.P, n)
		if err != nil {
			return false, err
		}
		set(e.asType(v, in.ElemTy))
	case in.Op == "store":
		v, err := e.operand(st, in.Args[0])
		if err != nil {
			return false, err
		}
		pv, err := e.operand(st, in.Args[1])
		if err != nil {
			return false, err
		}
		n, err := memWidth(in.ElemTy)
		if err != nil {
			return false, err
		}
		if !pv.IsPtr {
			pv = e.intToPtr(pv)
		}
		if v.W != 8*n {
			return false, unsupported("store of %d-bit value", v.W)
		}
		e.oblige(fr, st, "inbounds", tagOf(in), e.boundsGoal(st, pv.P, int64(n), true), in.Raw)
		if err := e.storeMem(st, pv.P, v); err != nil {
			return false, err
		}
	case in.Op == "atomicrmw":
		pv, err := e.operand(st, in.Args[0])
		if err != nil {
			return false, err
		}
		v, err := e.operand(st, in.Args[1])
		if err != nil {
			return false, err
		}
		n, err := memWidth(in.Ty)
		if err != nil {
			return false, err
		}
		if !pv.IsPtr {
			pv = e.intToPtr(pv)
		}
		e.oblige(fr, st, "inbounds", tagOf(in), e.boundsGoal(st, pv.P, int64(n), true), in.Raw)
		old, err := e.loadMem(st, pv.P, n)
		if err != nil {
			return false, err
		}
		old = e.asType(old, in.Ty)
		var nv smt.Term
		switch in.Pred {
		case "add", "sub", "and", "or", "xor":
			nv = e.tm.binop(in.Pred, old.T, v.T)
		case "xchg":
			nv = v.T
		case "umax":
			nv = smt.Ite(e.tm.icmp("ugt", old.T, v.T), old.T, v.T)
		case "umin":
			nv = smt.Ite(e.tm.icmp("ult", old.T, v.T), old.T, v.T)
		case "max":
			nv = smt.Ite(e.tm.icmp("sgt", old.T, v.T), old.T, v.T)
		case "min":
			nv = smt.Ite(e.tm.icmp("slt", old.T, v.T), old.T, v.T)
		}
		if err := e.storeMem(st, pv.P, intVal(e.tm.let("rmw", nv), 8*n)); err != nil {
			return false, err
		}
		set(old)
	case in.Op == "call":
		return false, e.execCall(fr, st, in)
	case in.Op == "br":
		if len(in.Targets) == 1 {
			return true, e.edge(fr, st, b, in.Targets[0], smt.True, true)
		}
		c, err := e.operand(st, in.Args[0])
		if err != nil {
			return false, err
		}
		ct := e.boolOf(c)
		if in.Targets[0] == in.Targets[1] {
			return true, e.edge(fr, st, b, in.Targets[0], smt.True, true)
		}
		if err := e.edge(fr, st, b, in.Targets[0], ct, false); err != nil {
			return false, err
		}
		return true, e.edge(fr, st, b, in.Targets[1], smt.Not(ct), true)
	case in.Op == "switch":
		v, err := e.operand(st, in.Args[0])
		if err != nil {
			return false, err
		}
		conds := map[string][]smt.Term{}
		var order []string
		var all []smt.Term
		for _, c := range in.Cases {
			t := e.tm.icmp("eq", v.T, lit(c.Val, v.W))
			if _, ok := conds[c.Block]; !ok {
				order = append(order, c.Block)
			}
			conds[c.Block] = append(conds[c.Block], t)
			all = append(all, t)
		}
		def := smt.Not(smt.Or(all...))
		if _, ok := conds[in.Targets[0]]; !ok {
			order = append(order, in.Targets[0])
		}
		conds[in.Targets[0]] = append(conds[in.Targets[0]], def)
		for _, blk := range order {
			if err := e.edge(fr, st, b, blk, e.tm.named("sw", smt.Or(conds[blk]...)), false); err != nil {
				return false, err
			}
		}
		return true, nil
	case in.Op == "ret":
		var v *Val
		if len(in.Args) > 0 {
			x, err := e.operand(st, in.Args[0])
			if err != nil {
				return false, err
			}
			v = x
		}
		if fr.top {
			e.res.retBlocks = append(e.res.retBlocks, b.Index)
		}
		fr.rets = append(fr.rets, retRec{st, v})
		return true, nil
	case in.Op == "unreachable":
		e.oblige(fr, st, "unreachable", tagOf(in), smt.False, in.Raw)
		return true, nil
	default:
		return false, unsupported("instruction %s", in.Op)
	}
	return false, nil
}

func memWidth(t *Type) (int, error) {
	switch t.Kind {
	case TPtr:
		return 8, nil
	case TInt:
		switch t.Bits {
		case 8, 16, 32, 64:
			return t.Bits / 8, nil
		}
	}
	return 0, unsupported("memory access of type %s", t)
}

// asType views loaded bytes as a value of type t.
func (e *executor) asType(v *Val, t *Type) *Val {
	if t.Kind == TPtr {
		if v.IsPtr {
			return v
		}
		if v.P != nil {
			return &Val{W: 64, IsPtr: true, P: v.P}
		}
		if c, ok := bvConst(v.T); ok && c == 0 {
			return e.nullPtr()
		}
		e.note("a pointer was loaded from bytes without pointer provenance (uninitialised or integer data): treated as an invalid pointer")
		return e.invalidPtr(v.T)
	}
	if v.IsPtr {
		return e.ptrToInt(v, 64)
	}
	return v
}

func (e *executor) binopVal(fr *frame, st *State, in *Instr, a, b *Val) *Val {
	w := in.Ty.Bits
	if a.IsPtr {
		a = e.ptrToInt(a, 64)
	}
	if b.IsPtr {
		b = e.ptrToInt(b, 64)
	}
	// provenance-preserving forms
	if w == 64 {
		switch {
		case in.Op == "sub" && a.P != nil && b.P != nil && len(a.P.Cands) == 1 && len(b.P.Cands) == 1 && a.P.Cands[0] == b.P.Cands[0]:
			// address difference within one region: base cancels
			r := intVal(e.tm.let(in.Res, e.tm.sub(a.P.Off, b.P.Off)), 64)
			if bo, ok := bvConst(b.P.Off); ok && bo == 0 {
				r.UB = a.P.OffUB
			}
			return r
		case (in.Op == "add" && a.P != nil && b.P == nil) || (in.Op == "sub" && a.P != nil && b.P == nil):
			off := e.tm.binop(in.Op, a.P.Off, b.T)
			ub := maxU64
			if in.Op == "add" {
				ub = satAdd(a.P.OffUB, b.UB)
			}
			p := &Ptr{Reg: a.P.Reg, Off: off, OffUB: ub, Cands: a.P.Cands}
			return &Val{W: 64, T: e.tm.let(in.Res, e.tm.binop(in.Op, a.T, b.T)), P: p, UB: maxU64}
		case in.Op == "add" && b.P != nil && a.P == nil:
			off := e.tm.binop("add", b.P.Off, a.T)
			p := &Ptr{Reg: b.P.Reg, Off: off, OffUB: satAdd(b.P.OffUB, a.UB), Cands: b.P.Cands}
			return &Val{W: 64, T: e.tm.let(in.Res, e.tm.binop("add", a.T, b.T)), P: p, UB: maxU64}
		}
	}
	if w > 1 && ((constTree(a) && isLiteral(b)) || (constTree(b) && isLiteral(a))) {
		if c, ok := bvConst(b.T); !(in.Op == "udiv" || in.Op == "sdiv" || in.Op == "urem" || in.Op == "srem") || (ok && c&maskOf(w) != 0) {
			if constTree(a) {
				return e.mapLeaves(a, func(l *Val) *Val { return intVal(e.tm.binop(in.Op, l.T, b.T), w) })
			}
			return e.mapLeaves(b, func(l *Val) *Val { return intVal(e.tm.binop(in.Op, a.T, l.T), w) })
		}
	}
	switch in.Op {
	case "udiv", "sdiv", "urem", "srem":
		if c, ok := bvConst(b.T); !ok || c&maskOf(w) == 0 {
			e.oblige(fr, st, "divzero", tagOf(in), smt.Not(e.tm.icmp("eq", b.T, lit(0, w))), in.Raw)
		}
	}
	t := e.tm.binop(in.Op, a.T, b.T)
	r := &Val{W: w, T: e.tm.let(in.Res, t)}
	r.UB = binopUB(in.Op, w, a, b, t)
	if w == 1 {
		r.UB = 1
	}
	return r
}

func (e *executor) icmpVal(pred string, a, b *Val) (smt.Term, error) {
	if a.IsPtr || b.IsPtr {
		if !a.IsPtr {
			a = e.intToPtr(a)
		}
		if !b.IsPtr {
			b = e.intToPtr(b)
		}
		return e.icmpPtr(pred, a, b), nil
	}
	if constTree(a) && isLiteral(b) {
		return e.mapLeaves(a, func(l *Val) *Val { return &Val{W: 1, T: e.tm.icmp(pred, l.T, b.T), UB: 1} }).T, nil
	}
	if constTree(b) && isLiteral(a) {
		return e.mapLeaves(b, func(l *Val) *Val { return &Val{W: 1, T: e.tm.icmp(pred, a.T, l.T), UB: 1} }).T, nil
	}
	// integer views of pointers compared with 0: null test
	if (pred == "eq" || pred == "ne") && a.W == 64 {
		if a.P != nil && b.P == nil {
			if c, ok := bvConst(b.T); ok && c == 0 {
				return e.icmpPtr(pred, &Val{W: 64, IsPtr: true, P: a.P}, e.nullPtr()), nil
			}
		}
		if b.P != nil && a.P == nil {
			if c, ok := bvConst(a.T); ok && c == 0 {
				return e.icmpPtr(pred, &Val{W: 64, IsPtr: true, P: b.P}, e.nullPtr()), nil
			}
		}
	}
	if a.P != nil && b.P != nil && a.W == 64 {
		return e.icmpPtr(pred, &Val{W: 64, IsPtr: true, P: a.P}, &Val{W: 64, IsPtr: true, P: b.P}), nil
	}
	return e.tm.icmp(pred, a.T, b.T), nil
}

func isNullPtr(p *Ptr) bool { return len(p.Cands) == 1 && p.Cands[0] == ridNull }

func (e *executor) icmpPtr(pred string, a, b *Val) smt.Term {
	pa, pb := a.P, b.P
	if pred == "eq" || pred == "ne" {
		var t smt.Term
		switch {
		case isNullPtr(pb):
			t = e.nullTest(a, 0)
		case isNullPtr(pa):
			t = e.nullTest(b, 0)
		default:
			t = smt.And(smt.Eq(pa.Reg, pb.Reg), e.tm.icmp("eq", pa.Off, pb.Off))
			if len(pa.Cands) == 1 && len(pb.Cands) == 1 && pa.Cands[0] != pb.Cands[0] {
				t = smt.False
			}
		}
		if pred == "ne" {
			return smt.Not(t)
		}
		return t
	}
	// ordering: same single region with bounded offsets -> compare offsets
	// (numeric addresses base+off cannot wrap since base < 2^47)
	if len(pa.Cands) == 1 && len(pb.Cands) == 1 && pa.Cands[0] == pb.Cands[0] &&
		pa.OffUB < (uint64(1)<<62) && pb.OffUB < (uint64(1)<<62) {
		return e.tm.icmp(pred, pa.Off, pb.Off)
	}
	return e.tm.icmp(pred, e.bitsOf(a), e.bitsOf(b))
}

func (e *executor) castVal(op string, a *Val, to int, name string) *Val {
	var r *Val
	switch op {
	case "zext":
		r = &Val{W: to, T: e.tm.let(name, e.tm.zext(a.T, a.W, to)), UB: a.UB, P: a.P}
		if a.W == 1 {
			r.UB = 1
		}
	case "sext":
		r = intVal(e.tm.let(name, e.tm.sext(a.T, a.W, to)), to)
		if a.W > 1 && a.UB < uint64(1)<<uint(a.W-1) {
			r.UB = a.UB
		}
	case "trunc":
		r = intVal(e.tm.let(name, e.tm.trunc(a.T, a.W, to)), to)
		if a.UB < r.UB {
			r.UB = a.UB
		}
	}
	return r
}

func isLiteral(v *Val) bool {
	if v.IsPtr || v.P != nil || v.Ite != nil {
		return false
	}
	if v.W == 1 {
		return v.T.IsTrue() || v.T.IsFalse()
	}
	_, ok := bvConst(v.T)
	return ok
}

// constTree reports whether v is a (small) ite tree over literals.
func constTree(v *Val) bool {
	if v.Ite == nil {
		return false
	}
	n := 32
	return constLeaves(v, &n)
}

// storeEvt is one store to the packet region (in executor order).
type storeEvt struct {
	pc  smt.Term
	off smt.Term
	n   int
	val *Val // nil for range events (memset/memcpy) whose bytes are not tracked here
}

func (e *executor) recordPktStore(st *State, pc, off smt.Term, n int, v *Val) {
	e.pktStores = append(e.pktStores, storeEvt{pc: pc, off: off, n: n, val: v})
	d := 0
	if st.writes != nil {
		d = st.writes.depth + 1
	}
	st.writes = &factNode{t: smt.Term{S: strconv.Itoa(len(e.pktStores) - 1)}, next: st.writes, depth: d}
}

// nullTest builds "v == NULL"; for merged pointers it distributes over the
// ite structure so that the result is a Boolean combination of the merge
// conditions (e.g. "not found" for a map lookup result), which branch
// conditions can be decomposed into known facts.
func (e *executor) nullTest(v *Val, depth int) smt.Term {
	p := v.P
	if len(p.Cands) == 1 {
		return smt.BoolLit(p.Cands[0] == ridNull)
	}
	if v.Ite != nil && depth < 16 && v.Ite.A.IsPtr && v.Ite.B.IsPtr {
		c := v.Ite.C
		a, b := e.nullTest(v.Ite.A, depth+1), e.nullTest(v.Ite.B, depth+1)
		switch {
		case a.IsTrue():
			return smt.Or(c, b)
		case a.IsFalse():
			return smt.And(smt.Not(c), b)
		case b.IsTrue():
			return smt.Or(smt.Not(c), a)
		case b.IsFalse():
			return smt.And(c, a)
		}
		return smt.Ite(c, a, b)
	}
	return smt.Eq(p.Reg, regLit(ridNull))
}

// offCase: under cond the offset term equals the constant off.
type offCase struct {
	cond smt.Term
	off  int64
}

// leafCases lists the (path condition, scaled constant) pairs of an ite tree
// with literal leaves; the conditions are exhaustive and mutually exclusive.
func leafCases(v *Val, pc smt.Term, scale int64, out *[]offCase) {
	if v.Ite == nil {
		c, _ := bvConst(v.T)
		*out = append(*out, offCase{cond: pc, off: signExt(c, v.W) * scale})
		return
	}
	leafCases(v.Ite.A, smt.And(pc, v.Ite.C), scale, out)
	leafCases(v.Ite.B, smt.And(pc, smt.Not(v.Ite.C)), scale, out)
}
