package allocator

// Inspection for the TRUSTED contract of (*EpochBitmapAllocator).setGeneration (the engine does
// not model x &^ (3 << s) | g << s). setGeneration reads and writes only generations[idx/4], and
// its effect on that byte depends only on (old byte value, idx % 4, gen): all 256 * 4 * 256 cases
// are enumerated and compared with the contract
//   gen2(new, idx%4) == gen % 4,  gen2(new, r) == gen2(old, r) for r != idx%4,
//   every other byte of the array unchanged.
// Prints REPLAY-OK when the contract holds in every case.

import (
	"fmt"
	"testing"
)

func TestReplayVC(t *testing.T) {
	gen2 := func(b byte, r int) byte { return (b >> (2 * uint(r))) & 3 }
	bad := 0
	for old := 0; old < 256; old++ {
		for r := 0; r < 4; r++ {
			for g := 0; g < 256; g++ {
				for _, base := range []uint64{0, 4, 8} {
					a := &EpochBitmapAllocator{generations: []byte{0xA5, 0x5A, 0x3C, 0xC3}}
					byteIdx := base / 4
					a.generations[byteIdx] = byte(old)
					before := append([]byte(nil), a.generations...)
					idx := base + uint64(r)
					a.setGeneration(idx, byte(g))
					nb := a.generations[byteIdx]
					if gen2(nb, r) != byte(g)%4 || a.getGeneration(idx) != byte(g)%4 {
						bad++
					}
					for q := 0; q < 4; q++ {
						if q != r && gen2(nb, q) != gen2(byte(old), q) {
							bad++
						}
					}
					for i := range before {
						if uint64(i) != byteIdx && a.generations[i] != before[i] {
							bad++
						}
					}
				}
			}
		}
	}
	if bad != 0 {
		fmt.Printf("REPLAY-VIOLATED: setGeneration contract broken in %d cases\n", bad)
		return
	}
	fmt.Println("REPLAY-OK")
}
