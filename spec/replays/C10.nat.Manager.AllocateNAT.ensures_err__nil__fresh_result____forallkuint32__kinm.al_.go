package nat

// Replay for obligations C10.nat.Manager.AllocateNAT.ensures[err == nil && fresh(result) ==> forall k ... !locked(k in m.allocations)]
// and [... locked(k in m.allocations) ==> m.allocations[k] == locked(m.allocations[k])]:
// the existence check runs under RLock, the insertion later under a new Lock. Two concurrent
// AllocateNAT calls for one private address both pass the check; the second overwrites the
// first entry, the first caller keeps a block that is no longer recorded (and stays counted).
// The interleaving is scheduler dependent, so the replay retries.

import (
	"fmt"
	"net"
	"sync"
	"testing"

	"go.uber.org/zap"
)

func TestReplayVC(t *testing.T) {
	defer func() {
		if r := recover(); r != nil {
			fmt.Printf("REPLAY-PANIC: %v\n", r)
		}
	}()
	ip := net.ParseIP("10.0.0.1")
	for round := 0; round < 20000; round++ {
		m, _ := NewManager(ManagerConfig{Interface: "eth0"}, zap.NewNop())
		m.AddPublicIP(net.ParseIP("203.0.113.1"))
		const n = 8
		res := make([]*Allocation, n)
		var wg sync.WaitGroup
		start := make(chan struct{})
		for g := 0; g < n; g++ {
			wg.Add(1)
			go func(g int) {
				defer wg.Done()
				<-start
				res[g], _ = m.AllocateNAT(ip)
			}(g)
		}
		close(start)
		wg.Wait()
		stored := m.GetAllocation(ip)
		for g := 0; g < n; g++ {
			if res[g] != nil && res[g] != stored {
				fmt.Printf("REPLAY-VIOLATED: round %d: a caller of AllocateNAT(%s) was given ports %d-%d but the recorded block is %d-%d; pool entry counts %d subscribers for 1 allocation\n",
					round, ip, res[g].PortStart, res[g].PortEnd, stored.PortStart, stored.PortEnd, m.GetPoolStats()[0].Subscribers)
				return
			}
		}
	}
	fmt.Println("REPLAY-OK (race not hit in 20000 rounds)")
}
