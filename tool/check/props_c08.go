package check

import (
	"strings"

	"bngvc/govc"
)

// c08Select: every obligation of the pkg/radius units; of the pkg/pppoe units (verified in full under
// C16) only the clauses about Accounting-Start / Accounting-Stop records.
func c08Select(o *govc.Oblig) bool {
	if !strings.HasPrefix(o.Func, "pppoe.") && !strings.HasPrefix(o.Func, "dhcp.") {
		return true
	}
	return strings.Contains(o.ID, "acctSt")
}

// C08, clause "Records carry the session's own identifiers and report 64-bit
// traffic counters exactly through the low-word/gigaword split" only. Merge the
// Funcs / Trusted / Undecided entries into the full C08 definition.
func init() {
	register(&PropDef{
		ID:    "C08",
		Title: "Accounting records carry the session's identifiers and exact 64-bit counters (clause of C08)",
		Pkgs:  []string{"./pkg/radius", "./pkg/pppoe", "./pkg/dhcp", "./pkg/ebpf", "./pkg/qos", "./pkg/nat"},
		Funcs: []string{
			"radius.Client.SendAccounting",
			"radius.addMessageAuthenticator",
			"radius.Client.getServer",
			"radius.formatMAC",
			// PPPoE side of "every started session is accounted to exactly one Stop, never for a session that was not started"
			"pppoe.SessionTeardown.cleanup", "pppoe.SessionTeardown.sendAccountingStop",
			// DHCP side: a new acknowledged session is started exactly once, renewals and refusals start nothing (Stops: C16)
			"dhcp.Server.handleRequest",
			// the accounting manager (pkg/radius/accounting.go): when records are emitted, queueing / retry,
			// persist-before-stop / remove-after, orphan recovery
			"radius.AccountingManager.StopSession", "radius.AccountingManager.sendAccountingStop", "radius.AccountingManager.sendAccountingStopSync", "radius.AccountingManager.StartSession", "radius.AccountingManager.queuePendingRecord", "radius.AccountingManager.processPendingRecord", "radius.AccountingManager.retryPendingRecords", "radius.AccountingManager.recoverOrphanedSessions", "radius.AccountingManager.persistActiveSession", "radius.AccountingManager.removePersistedSession", "radius.AccountingManager.fetchCounters", "radius.AccountingManager.drainAllSessions",
			"pppoe.Server.handleIPCPConfigAck", "pppoe.Server.handlePADT", "pppoe.Server.handleLCPTermRequest", "pppoe.Server.endSession", "pppoe.Server.expireSessions",
		},
		Select: c08Select,
		Trusted: []string{
			"functype radius.CounterFetcher: the eBPF counter callback modifies nothing and returns non-nil counters with a nil error",
			"engine library model (new, engine.patch): os.WriteFile / os.Remove have no effect on the modelled Go state, unconstrained error, and increment the function-level ghost counters fsWrites / fsRemoves when declared; (io/fs.DirEntry).IsDir/Name/Type have no effect; the rest of package os and path/filepath: no effect, unconstrained results (existing model)",
			"sets clauses count calls: persists/unpersists (+ the value of acctStops/acctStarts at that moment) are incremented per call of persistActiveSession/removePersistedSession, queued* per call of queuePendingRecord, acctStops/acctStarts per call of Client.SendAccounting (by status type), also inside sendAccountingStop/Sync and processPendingRecord whose own postconditions prove the same count; a call of persistActiveSession stands for 'the copy was written' although MkdirAll / Marshal / WriteFile errors are only logged",
			"radius.Client.SendAccounting through its existing contract (err == nil ==> the request was handed to radius.Exchange with the request's own identifiers)",
			"sync/atomic operations are the plain sequential operations; channel send is a no-op and select picks a case nondeterministically (the channel pendingQueue only wakes the processor; the queue proper is the map pendingRecords)",
			"json.Unmarshal into AccountingSession: string/integer/bool members follow the document model, MAC/FramedIP/Class/time members are unconstrained; json.Unmarshal into map[string]*PendingAcctRecord havocs the heap (only ghost counters are constrained after it)",
			"engine library model layeh.com/radius: radius.New yields a packet without attributes; the generated setters rfcNNNN.X_Set/X_SetString/X_Add/X_Del record attribute number X_Type := value in ghost state (integer setters cannot fail; string and []byte setters fail and leave the packet unchanged beyond 253 octets; net.IP setters need an IPv4 address); (*Packet).Encode does not modify the packet; radius.Exchange snapshots the attributes of the packet it transmits (rad_sent_*) and does not modify program memory",
			"trusted radius.Client.waitRateLimit: modifies nothing relevant (golang.org/x/time/rate.Limiter.Wait is external)",
			"crypto/hmac.New returns a fresh hash object; context.CancelFunc values have no effect on modelled state",
		},
		Undecided: []string{
			"eventual delivery ('eventually has an Accounting-Stop accepted'): liveness of pendingRecordProcessor / interimUpdateLoop (tickers, select loops, goroutines) is not under contract; Start, Stop, pendingRecordProcessor, interimUpdateLoop, sendInterimUpdates, sendInterimUpdate, persistPendingRecords have no contract",
			"'durably queued while the server stays down': the queue (pendingRecords) lives in memory and reaches disk only in Stop() (persistPendingRecords); StopSession removes the persisted session right after the Stop was QUEUED, so a crash during an outage loses the Stop. The contracts prove 'accepted or queued in memory before the copy is removed', not durability of the queue",
			"drainAllSessions: the per-session goroutines (closure with a parameter, WaitGroup, select on done/ctx) are not executed by the model: frame-only contract; sendAccountingStopSync, which they call, is verified",
			"recoverOrphanedSessions: that the recovery Stop carries the SessionID read from the persisted copy is by inspection (the local 'session' of the loop body cannot be named in an iteration clause); order 'Stop before os.Remove' inside one iteration is not observed (both counted per iteration); entries whose os.ReadFile fails are left in place for the next start",
			"'never before its Start': a session whose Start was never accepted (queued, then crash) still gets a Stop from recovery; ordering of a queued Start against a later direct Stop of the same session is not under contract",
			"interleavings: each function is verified sequentially under the monitor model (owned fields arbitrary at every Lock subject to the lock invariants); data races on *AccountingSession fields written outside sessionsMu (StartSession writes session.StartTime under the lock, sendInterimUpdate reads it without) are not modelled",
			"the AccountingManager is not referenced outside pkg/radius (pkg/dhcp and pkg/pppoe call Client.SendAccounting directly), so none of this protects the sessions of the running gateway",
			"PPPoE: nothing in pkg/pppoe issues an Accounting-Start (obligation acctStarts == 0 of Server.handleIPCPConfigAck / handlePAP, the places where a session becomes established), so PPPoE sessions are not accounted at all in this repository; the teardown component sends the Stop iff Session.AcctStarted, which only embedding code can set. Delivery, retry and crash recovery of that Stop are not under contract (SessionTeardown calls radius.Client.SendAccounting directly, not the AccountingManager)",
			"the other clauses of C08 (when records are emitted, retry/queueing, interim scheduling) are not covered by these contracts",
			"Calling-Station-Id: formatMAC's result is an uninterpreted fmt.Sprintf string, so only the call is checked, not its format",
			"that AccountingManager copies the session's identifiers and counters into AcctRequest (accounting.go composite literals) is by inspection, not under contract",
			"wire encoding of the attributes inside layeh.com/radius (assumed library)",
			"Acct-Input/Output-Packets have no gigaword companion in RADIUS: the record holds the value mod 2^32 (proved), the high word is not reported by the protocol",
		},
		Assumptions: []string{
			"am.client != nil, session/record/request pointers non-nil as the constructors and call sites establish",
			"lock invariants of AccountingManager: every session is filed under its own SessionID (sesskey); every pending record is non-nil, filed under its own ID and has a request (pendkey)",
			"req is non-nil; all 64-bit counter values are unconstrained",
			"an absent Acct-*-Gigawords attribute means 0 (RFC 2869)",
		},
		Explanation: "PPPoE (clause 'exactly one Stop iff a Start was issued, never for a session that was not started'): SessionTeardown.cleanup issues exactly one Accounting-Stop iff the session left the table through this call, a RADIUS client is configured and Session.AcctStarted holds, and none when the session had already been ended (a second termination sends no second Stop); the PPPoE server's own termination paths (PADT, LCP Terminate-Request, authentication failure, idle timeout, shutdown) and its establishment path issue no accounting record at all. SendAccounting is verified against a contract over the ghost record of the packet handed to radius.Exchange: Acct-Status-Type, NAS-Port, Acct-Session-Id, User-Name, NAS-Identifier, Class and Framed-IP-Address equal the request's fields; for Stop/Interim records Acct-Input/Output-Octets == value mod 2^32, Acct-Input/Output-Gigawords (or 0 when absent) == value div 2^32, hence gigawords*2^32 + octets == value for every uint64; packets, session time and terminate cause likewise; Start/On/Off records carry no counters. addMessageAuthenticator is shown to touch attribute 80 only. One obligation does not discharge and is genuine (replay C08_SendAccounting_identifier_dropped): the errors the string setters return for identifiers longer than 253 octets are discarded, so the record goes out without User-Name / Acct-Session-Id.",
	})
}
