package check

func init() {
	register(&PropDef{
		ID:    "C13",
		Title: "Standby converges to the active node's session table",
		Pkgs:  []string{"./pkg/ha"},
		Funcs: []string{
			// the store (map view, owned by mu)
			"ha.NewInMemorySessionStore", "ha.InMemorySessionStore.PutSession", "ha.InMemorySessionStore.DeleteSession",
			"ha.InMemorySessionStore.GetSession", "ha.InMemorySessionStore.GetSessionCount", "ha.InMemorySessionStore.GetAllSessions",
			// standby side
			"ha.DecodeSyncMessage", "ha.HASyncer.performFullSync", "ha.HASyncer.handleSSEData", "ha.HASyncer.applyFullSync",
			// active side
			"ha.HASyncer.PushChange", "ha.HASyncer.handleGetSessions",
		},
		// the delivery layer (Go channels, SSE writer) is not modelled: bounded stand-in on the real code
		BoundedChecks: []BoundedCheck{
			{ID: "ha.stream_backpressure", Pkg: "github.com/codelaboratoryltd/bng/pkg/ha", File: "ha_stream_backpressure.go",
				Bound: "a connected standby whose writer is stalled while the active pushes 1, 50, 99, 100, 101, 150, 400 changes",
				Claim: "every accepted change is queued for the standby in push order, or the standby's stream has been ended so that it resynchronises -- never a silent hole"},
			{ID: "ha.end_to_end", Pkg: "github.com/codelaboratoryltd/bng/pkg/ha", File: "ha_end_to_end.go",
				Bound: "active and standby over loopback HTTP (full-sync GET + SSE stream); four seeded histories of adds / updates / deletes over 40 session ids: 200 changes, 300 with all connections cut twice (ten changes pushed while disconnected each time), 300 pushed in one burst, 200 over a half-dead link (a TCP relay drops the standby's side of the stream at once and the active's side 1.5 s later, changes flowing for 3 s); no change is pushed during the few milliseconds between a reconnecting standby's full-sync GET and the registration of its new stream (healed in production by the next change or the periodic full sync, which is switched off here)",
				Claim: "within 10 s after the active goes quiet the standby's table equals the active's store (ids, IP, State)"},
		},
		Undecided: []string{
			"delivery between PushChange and handleSSEData: Go channels (pendingChanges FIFO, per-client channel), broadcastLoop/broadcastToClients, the SSE framing in sendSSE/connectToStream and the network are not modelled. broadcastToClients used to DROP a change when a standby's channel (cap 100) was full although PushChange had returned nil (found by inspection, spec/replays/inspection_C13_broadcast_drop.go; repaired by af1ecfb: the stalled standby's stream is ended and it resynchronises); the bounded stand-in ha.stream_backpressure watches this layer; handleSSEData still never checks SequenceNum gaps",
			"schedules of disconnections/reconnections (standbyLoop, waitReconnect back-off, periodic full sync): only the per-call effect of performFullSync and handleSSEData is decided",
			"the snapshot served by the active: GetAllSessions is proved sound AND complete (every element is the value of a present key and every present key's value is returned, via the engine's map-range visited set); that handleGetSessions puts exactly that list into the HTTP response body is outside the model (json encoding to an io.Writer)",
			"the message placed on pendingChanges carries the sequence number just taken (channel contents not modelled); PushChange is decided only on the counter s.sequenceNum",
			"JSON encoding/decoding is external: the received message is arbitrary (type-valid)",
			"concurrency: see assumptions (single writer on the standby); races between readers of receivedSessions and the writer are not decided",
		},
		Assumptions: []string{
			"the dynamic type of HASyncer.store is *InMemorySessionStore (cmd/bng/main.go:763,826); the SessionStore interface contracts are the verified InMemorySessionStore contracts with the pre-state taken at the call instead of at the store's lock acquisition",
			"single writer: on the standby only the syncer goroutine (standbyLoop -> performFullSync / connectToStream -> handleSSEData, sequential) writes the store and receivedSessions, so nothing changes between two store calls of that goroutine and receivedMu acquisitions do not change receivedSessions (receivedMu owns no field in the monitor model)",
			"s.mu owns connected and stats (monitor model); the atomics on sequenceNum are sequentially consistent read-modify-writes; sequence numbers do not wrap (old value < 2^64-1)",
			"requires: s.store != nil, the store's map is allocated, s.config.Partner != nil (performFullSync), receivedSessions allocated and distinct from the store's map (established by NewHASyncer)",
		},
		Explanation: "The store gets a map-view contract (whole domain/value views with locked() pre-state, frames) that is verified against InMemorySessionStore. performFullSync: loop invariants relate receivedSessions (rebuilt from an empty map inside the function) and the store to the prefix msg.Sessions[0..i) of the received snapshot; the top-level postcondition, taken from the property, is 'after a completed full sync the store's domain equals the snapshot image and agrees with it on every id'. Before fix_1 it was not discharged (the store's domain was old ∪ snapshot); with applyFullSync (put the snapshot, then delete every stored session whose id is not in it; uses the completeness of GetAllSessions and the assumption keyed(store): every stored object carries the id it is stored under) it discharges. handleSSEData: per message type, stated over the local msg holding the decoded message: add/update = puts in list order (last occurrence of an id wins, value equality with the list element), delete = removals, heartbeat/unknown = no change, full = snapshot (via applyFullSync), store pointer and all other entries unchanged. PushChange: one sequence number per call, strictly increasing. handleGetSessions: store and sequence number unchanged.",
		Trusted: []string{
			"iface SessionStore.{PutSession,DeleteSession,GetSessionCount,GetAllSessions}: mirror of the verified InMemorySessionStore contracts (see assumptions)",
			"encoding/json, io.ReadAll, io.Closer.Close, context.CancelFunc, sync/atomic models (engine AssumedLib)",
			"net/http client and response objects: no effect on the modelled heap",
		},
	})
}
