package allocator

// Replay for the lease-mode reload path (C01: "reload", "a subscriber that asks again ...
// receives the same value"): DistributedAllocator.loadAllocations / handleRemoteChange in
// lease mode call epochAllocator.Allocate(subscriberID), which picks the next free address
// instead of the address in the stored record. After a restart the subscribers' addresses are
// permuted: the address recorded (and still in use by) one subscriber is assigned to another.
// (No obligation of the session-mode contracts covers this branch; the decisive check is the
// postcondition of EpochBitmapAllocator.SetAllocation that the repaired path now goes through.)

import (
	"context"
	"fmt"
	"testing"
)

func TestReplayVC(t *testing.T) {
	defer func() {
		if r := recover(); r != nil {
			fmt.Printf("REPLAY-PANIC: %v\n", r)
		}
	}()
	ctx := context.Background()
	store := newMockStore()
	cfg := DistributedConfig{PoolID: "p", BaseNetwork: "10.0.0.0/24", PrefixLen: 32, Mode: PoolModeLease}
	da, err := NewDistributedAllocator(cfg, store)
	if err != nil {
		t.Fatal(err)
	}
	before := map[string]string{}
	for _, s := range []string{"sub-a", "sub-b", "sub-c", "sub-d"} {
		p, err := da.Allocate(ctx, s)
		if err != nil {
			t.Fatal(err)
		}
		before[s] = p.IP.String()
	}
	// sub-a leaves; the others keep their leases. Then the node restarts on the same store.
	if err := da.Release(ctx, "sub-a"); err != nil {
		t.Fatal(err)
	}
	da2, err := NewDistributedAllocator(cfg, store)
	if err != nil {
		t.Fatal(err)
	}
	if err := da2.loadAllocations(ctx); err != nil {
		t.Fatal(err)
	}
	violated := false
	holder := map[string]string{}
	for _, s := range []string{"sub-b", "sub-c", "sub-d"} {
		p, ok := da2.Get(s)
		if !ok {
			fmt.Printf("REPLAY-VIOLATED: %s lost its lease on reload\n", s)
			violated = true
			continue
		}
		holder[p.IP.String()] = s
		if p.IP.String() != before[s] {
			fmt.Printf("REPLAY-VIOLATED: after reload %s holds %s, the store (and the client) say %s\n", s, p.IP, before[s])
			violated = true
		}
	}
	for _, s := range []string{"sub-b", "sub-c", "sub-d"} {
		if h, ok := holder[before[s]]; ok && h != s {
			fmt.Printf("REPLAY-VIOLATED: address %s is in use by %s and now also assigned to %s\n", before[s], s, h)
		}
	}
	if !violated {
		fmt.Println("REPLAY-OK")
	}
}
