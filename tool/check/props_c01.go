package check

import (
	"strings"

	"bngvc/govc"
)

var ipAllocatorFuncs = []string{
	"allocator.NewIPAllocator", "allocator.IPAllocator.Allocate", "allocator.IPAllocator.AllocateSpecific",
	"allocator.IPAllocator.Release", "allocator.IPAllocator.ReleasePrefix", "allocator.IPAllocator.Lookup",
	"allocator.IPAllocator.LookupByPrefix", "allocator.IPAllocator.IsAllocated", "allocator.IPAllocator.ListAllocations",
	"allocator.IPAllocator.SetAllocation", "allocator.IPAllocator.UnmarshalJSON", "allocator.IPAllocator.MarshalJSON",
	"allocator.IPAllocator.findFreeIndex", "allocator.IPAllocator.getPrefixByIndex", "allocator.IPAllocator.getIndexByPrefix",
	"allocator.IPAllocator.Stats", "allocator.addIPOffset", "allocator.ipOffset",
}

// The other pool implementations C01 / C05 are anchored in.
var (
	// pkg/pppoe/server.go: the pool PPPoE client addresses are assigned from, and the session-end paths
	pppoePoolFuncs = []string{
		"pppoe.IPPool.Allocate", "pppoe.IPPool.Release",
		"pppoe.Server.handlePADT", "pppoe.Server.handleLCPTermRequest", "pppoe.Server.expireSessions",
	}
	// pkg/allocator/epoch_bitmap.go: lease mode
	epochFuncs = []string{
		"allocator.NewEpochBitmapAllocator", "allocator.EpochBitmapAllocator.Allocate", "allocator.EpochBitmapAllocator.Renew",
		"allocator.EpochBitmapAllocator.Release", "allocator.EpochBitmapAllocator.SetAllocation", "allocator.EpochBitmapAllocator.Lookup",
		"allocator.EpochBitmapAllocator.LookupByIP", "allocator.EpochBitmapAllocator.AdvanceEpoch", "allocator.EpochBitmapAllocator.GetCurrentEpoch",
		"allocator.EpochBitmapAllocator.Stats", "allocator.EpochBitmapAllocator.UnmarshalJSON", "allocator.EpochBitmapAllocator.MarshalJSON",
		"allocator.EpochBitmapAllocator.currentGeneration", "allocator.EpochBitmapAllocator.freeThreshold", "allocator.EpochBitmapAllocator.isGenerationFree",
		"allocator.EpochBitmapAllocator.getGeneration", "allocator.EpochBitmapAllocator.indexToIP", "allocator.EpochBitmapAllocator.ipToIndex",
	}
	// pkg/allocator/store.go: IPAllocator backed by an AllocationStore
	poolAllocatorFuncs = []string{
		"allocator.NewPoolAllocatorWithType", "allocator.PoolAllocator.AllocateWithOptions", "allocator.PoolAllocator.Allocate",
		"allocator.MemoryAllocationStore.RemoveAllocation", "allocator.PoolAllocator.Release", "allocator.PoolAllocator.Lookup", "allocator.PoolAllocator.Stats",
	}
	// pkg/pool/peer.go: the addresses a peer hands out itself
	peerLocalFuncs = []string{
		"pool.newLocalPool", "pool.PeerPool.makeResponse", "pool.PeerPool.allocateLocal", "pool.PeerPool.releaseLocal",
		"pool.PeerPool.Get", "pool.PeerPool.Stats",
	}
	// pkg/nexus/client.go: hash-based central allocation
	nexusAllocFuncs = []string{
		"nexus.parseIPv4", "nexus.parseIPNet", "nexus.Client.GetSubscriber", "nexus.Client.SaveSubscriber",
		"nexus.Client.addressesInUse", "nexus.Client.allocateFromPool", "nexus.Client.AllocateIPForSubscriber",
	}
)

func poolFuncs() []string {
	var fs []string
	for _, l := range [][]string{ipAllocatorFuncs, pppoePoolFuncs, epochFuncs, poolAllocatorFuncs, peerLocalFuncs, nexusAllocFuncs} {
		fs = append(fs, l...)
	}
	return fs
}

var poolPkgs = []string{"./pkg/allocator", "./pkg/pppoe", "./pkg/pool", "./pkg/nexus"}

// countObligation: obligations about counts / leaks / exhaustion / release / expiry / statistics
// (claimed by C05, not C01). Every obligation of the pool functions belongs to exactly one of the two.
func countObligation(o *govc.Oblig) bool {
	id := o.ID
	switch {
	case strings.Contains(id, ".cnt_unlock"), strings.Contains(id, ".cnt]"), strings.Contains(id, "result.cnt"), strings.Contains(id, "a.cnt"):
		return true
	case strings.Contains(id, ".Stats."):
		return true
	case strings.Contains(id, ".total_unlock"), strings.Contains(id, "result.total"), strings.Contains(id, "a.total"):
		return true
	case strings.Contains(id, "findFreeIndex.ensures[err__nil___isErr"):
		return true
	case strings.Contains(id, "isErr_err_ErrPoolExhausted"):
		return true
	}
	return poolExtCount(o)
}

// poolExtCount classifies the obligations of the pools added after the bitmap allocator.
func poolExtCount(o *govc.Oblig) bool {
	// whole functions whose purpose is giving addresses back / expiry / renewal / session end
	for _, suf := range []string{
		"pppoe.IPPool.Release", "pppoe.Server.handleLCPTermRequest", "pppoe.Server.expireSessions",
		"allocator.EpochBitmapAllocator.Release", "allocator.EpochBitmapAllocator.Renew", "allocator.EpochBitmapAllocator.AdvanceEpoch",
		"allocator.PoolAllocator.Release", "pool.PeerPool.releaseLocal",
	} {
		if o.Func == suf {
			return true
		}
	}
	id := o.ID
	for _, s := range []string{
		"len_p.available__card_p.allocated",             // PPPoE: free + held conserved
		"_result__nil_______locked_sessionIDinp.alloca", // PPPoE: nil iff nothing free
		"result__nil___p.available__locked_p.available", // PPPoE: failure changes nothing
		"pppRel", "old_s.clientIPPool___nil",            // PPPoE: session end releases exactly once
		"len_p.localPool.available__card_",              // peer: free + held conserved
		"_err__nil_______locked_subscriberIDinp.localP", // peer: error iff nothing free
		"err__nil___result__nil__p.localPool.available", // peer: failure changes nothing
		".live_unlock",                                  // epoch: no expired lease is kept
		"recSaves", "recRemoves",                        // PoolAllocator: store writes
		"PoolAllocator.AllocateWithOptions.ensures[err__nil___old_opts.SubscriberID", // PoolAllocator: failed persistence is undone
		"PoolAllocator.Allocate.ensures[err__nil___old_subscriberID",                 // PoolAllocator.Allocate: the same
		"err__nil____old_subscriberIDinc.subscriberCache",                            // nexus: failed save takes the address back
	} {
		if strings.Contains(id, s) {
			return true
		}
	}
	return false
}

var poolTrusted = []string{
	"allocator.EpochBitmapAllocator.setGeneration: bit packing x &^ (3<<s) | g<<s (outside the engine's model of bitwise operators); contract confirmed by exhaustive enumeration (replays/inspection_EpochBitmapAllocator_setGeneration_exhaustive.go)",
	"allocator.AllocationStore.SaveAllocation / RemoveAllocation (interface): fail nondeterministically; a call that returns an error had no effect on the store",
	"nexus.TypedStore.Get / Put (generic store access): Get returns a fresh non-nil object or an error; the Go heap is only read",
	"pool.hashString / pool.hashCombine (see C17)",
}

func init() {
	register(&PropDef{
		ID:      "C01",
		Title:   "No address or prefix is ever held by two subscribers at once",
		Pkgs:    poolPkgs,
		Funcs:   poolFuncs(),
		Select:  func(o *govc.Oblig) bool { return !countObligation(o) },
		Trusted: poolTrusted,
		// constructors whose address iteration the verifier cannot reach: bounded stand-ins on the real code
		BoundedChecks: []BoundedCheck{
			{ID: "pppoe.NewIPPool", Pkg: "github.com/codelaboratoryltd/bng/pkg/pppoe", File: "pppoe_NewIPPool.go",
				Bound: "every IPv4 network /24../30 at three bases, every gateway position (each host, network, broadcast, outside)",
				Claim: "free list = the hosts without the gateway, duplicate-free, never network / broadcast address; isBroadcast agrees with the arithmetic definition"},
			{ID: "pool.newLocalPool", Pkg: "github.com/codelaboratoryltd/bng/pkg/pool", File: "pool_generateAvailableIPs.go",
				Bound: "every IPv4 network /22../30 at three bases, 7 gateway positions: 189 configurations",
				Claim: "free list = the hosts without the gateway, duplicate-free, never network / broadcast address"},
		},
		Undecided: []string{
			"DHCPv4 pool and DHCPv6 address/prefix pools are decided under C02 (same invariant shape: free list pairwise distinct, disjoint from the bindings, bindings injective)",
			"prefix / address arithmetic (index <-> IP bytes: addIPOffset, ipOffset, getPrefixByIndex, EpochBitmapAllocator.indexToIP / ipToIndex, the offset addition of nexus allocateFromPool) is under frame / range contracts only: the claim is at the level of indices (inside the pool, injective ownership), the byte-level arithmetic is not decided",
			"constructors whose result is built by address iteration (pppoe.NewIPPool, pool.generateAvailableIPs): the initial establishment of 'free list pairwise distinct, inside the network, without network/gateway/broadcast address' is not a discharged obligation (net.IPNet.Contains and the byte increment are not modelled); confirmed by exhaustive enumeration for every /24../30 network and every gateway position in replays/inspection_pppoe_NewIPPool_small_pools.go",
			"PoolAllocator.ready after NewPoolAllocatorWithType (engine limit: values read after a Lock may alias maps allocated by the same call)",
			"lease-mode branches of DistributedAllocator (loadAllocations, handleRemoteChange, Allocate): the C12 contracts require session mode; that the reload installs the recorded address is decided for EpochBitmapAllocator.SetAllocation up to ipToIndex, the call itself is confirmed by replay",
			"uniqueness across several BNG processes: every peer of a PeerPool builds its local pool from the whole network (two peers hand the same address to different subscribers, replays/observation_pool_PeerPool_same_range_on_every_peer.go); nexus allocation is serialised per process only",
			"pppoe.Server.expireSessions: number of releases (one per session that disappeared) is not decided, only the frame",
		},
		Assumptions: []string{
			"monitor model for every mutex (IPAllocator.mu, EpochBitmapAllocator.mu, IPPool.mu, LocalPool.mu, PoolAllocator.mu, nexus Client.mu/allocMu): all fields of the owned state are accessed with the mutex held",
			"PoolAllocator / nexus Client: calls made while holding the serialising mutex (PoolAllocator.mu, Client.allocMu) see the callee's state unchanged between the call and the callee's own lock (mode seq); cache updates by the store watcher during one allocation are not considered",
			"PPPoE session ids (Session.SessionID, 16 random bytes) are unique among live sessions",
			"Go maps behave as (domain, value, cardinality) triples; math/big per AssumedLib; net.IP.Equal / String through the ip_key model",
		},
		Explanation: "Each pool carries its representation invariant as the lock invariant of its mutex: assumed after every Lock with all protected fields havocked, asserted at every Unlock of every method. IPAllocator: allocated and indexToSubscriber mutually inverse, bitmap = domain, indices below the pool size. EpochBitmapAllocator: subscribers and ipToSubscriber mutually inverse, indices in [1, totalIPs-2], no kept lease older than the grace period. PPPoE IPPool and peer LocalPool: free list pairwise distinct, disjoint from the bindings, bindings injective (peer: ipToSub exactly the reverse table). Injectivity gives 'no address held by two subscribers'. The Allocate contracts are whole-view: a holder gets the same value and nothing changes (idempotence), a new holder gets a value that was free, every other binding is untouched. Reload: UnmarshalJSON of both allocators re-establishes the invariant whatever the document says; SetAllocation installs exactly one binding. nexus: allocateFromPool returns an address outside the set of addresses held by the other cached subscribers. Each obligation is one SMT query.",
	})
	register(&PropDef{
		ID:      "C05",
		Title:   "Address pools neither leak nor miscount",
		Pkgs:    poolPkgs,
		Funcs:   poolFuncs(),
		Select:  countObligation,
		Trusted: poolTrusted,
		// forwarded releases cross the HTTP layer (trusted frame): bounded stand-in on the real code
		BoundedChecks: []BoundedCheck{httpForwardingBounded},
		Undecided: []string{
			"DHCPv4 / DHCPv6 pools: release and quarantine are decided under C02 / C16",
			"utilisation percentage (floating point)",
			"store-backed rollback of DistributedAllocator in lease mode (the C12 contracts require session mode)",
			"pppoe.Server.expireSessions: that every expired session's address is released is confirmed by replay only (frame contract)",
			"PPPoE sessions that end on other paths (failed re-authentication sets StateClosed without removing the session; SessionTeardown is not wired into the server)",
		},
		Assumptions: []string{"same as C01"},
		Explanation: "Counts are lock invariants: IPAllocator allocatedCount == |allocated| == |indexToSubscriber|; EpochBitmapAllocator |subscribers| == |ipToSubscriber| and Stats returns that cardinality; PPPoE IPPool and peer LocalPool conserve len(free list) + |bindings| across Allocate / Release (cardinalities are ghost counters maintained by every map insert/delete). Exhaustion: findFreeIndex / EpochBitmapAllocator.Allocate return ErrPoolExhausted only if every usable index is held (loop invariants over the scan, including the wrap-around of the hint), the free-list pools report failure iff the free list is empty and the caller holds nothing; a failed call changes nothing. Release clears exactly the released binding and makes exactly that value available again. Expiry: AdvanceEpoch keeps a lease iff its age is within the grace period (never reclaimed while renewed in time) and removes every other lease with its reverse entry. Failed persistence: PoolAllocator undoes only what the failing call added and removes the store record before the local release; nexus takes the address off the record when the save fails. PPPoE: PADT and LCP Terminate-Request release the session's address exactly once.",
	})
}
