#!/bin/bash
# builds bin/bngvc-new from the working tree (development binary; the registered commands use bin/bngvc built by the MANIFEST setup_cmd)
set -e
cd /verif/tool && GOFLAGS=-mod=vendor GOPROXY=off GOTOOLCHAIN=auto go build -o /verif/bin/bngvc-new ./cmd/bngvc
