package pppoe

// Replay for C16.pppoe.SessionTeardown.cleanup.ensures[wasLive__0___pppRel__0__relFastPath__0__acctStop]
// "Ending a session twice, or by two paths at once, has no further effect."
//
// History: an authenticated, accounted session with an address is ended by the client's PADT;
// the PADT is retransmitted (or an operator reset / a server-side TerminateSession for the same
// session arrives while the first teardown is in flight: HandleClientPADT, TerminateSession,
// TerminateByID ... all take the *Session the caller looked up earlier). The second termination
// must release nothing: no second Accounting-Stop, no second pool release, no second fast-path removal.

import (
	"net"
	"reflect"
	"sync"
	"sync/atomic"
	"testing"
	"time"

	bngradius "github.com/codelaboratoryltd/bng/pkg/radius"
	"go.uber.org/zap"
	"layeh.com/radius"
	"layeh.com/radius/rfc2866"
)

type replayCountingPool struct {
	mu       sync.Mutex
	releases map[string]int
}

func (p *replayCountingPool) Allocate(sessionID string) net.IP { return net.IPv4(10, 0, 0, 2) }
func (p *replayCountingPool) Release(sessionID string) {
	p.mu.Lock()
	p.releases[sessionID]++
	p.mu.Unlock()
}

// replayAcctServer answers Accounting-Requests on 127.0.0.1 and counts Start / Stop records.
func replayAcctServer(t *testing.T, secret string) (port int, starts, stops *int32, closeFn func()) {
	var conn *net.UDPConn
	var err error
	// the client sends accounting to port+1: find a free pair
	for p := 28000; p < 28100; p++ {
		conn, err = net.ListenUDP("udp4", &net.UDPAddr{IP: net.IPv4(127, 0, 0, 1), Port: p + 1})
		if err == nil {
			port = p
			break
		}
	}
	if conn == nil {
		t.Fatalf("no free UDP port: %v", err)
	}
	starts, stops = new(int32), new(int32)
	go func() {
		buf := make([]byte, 4096)
		for {
			n, addr, err := conn.ReadFromUDP(buf)
			if err != nil {
				return
			}
			pkt, err := radius.Parse(buf[:n], []byte(secret))
			if err != nil || pkt.Code != radius.CodeAccountingRequest {
				continue
			}
			switch rfc2866.AcctStatusType_Get(pkt) {
			case rfc2866.AcctStatusType_Value_Start:
				atomic.AddInt32(starts, 1)
			case rfc2866.AcctStatusType_Value_Stop:
				atomic.AddInt32(stops, 1)
			}
			resp := pkt.Response(radius.CodeAccountingResponse)
			if b, err := resp.Encode(); err == nil {
				conn.WriteToUDP(b, addr)
			}
		}
	}()
	return port, starts, stops, func() { conn.Close() }
}

// replayMarkAccountingStarted records that an Accounting-Start was issued for the session (the field
// exists only once the teardown distinguishes "accounting started" from "authenticated").
func replayMarkAccountingStarted(s *Session) {
	if f := reflect.ValueOf(s).Elem().FieldByName("AcctStarted"); f.IsValid() && f.CanSet() {
		f.SetBool(true)
	}
}

func TestReplayVC(t *testing.T) {
	const secret = "s3cret"
	port, _, stops, closeSrv := replayAcctServer(t, secret)
	defer closeSrv()

	logger := zap.NewNop()
	rc, err := bngradius.NewClient(bngradius.ClientConfig{
		Servers: []bngradius.ServerConfig{{Host: "127.0.0.1", Port: port, Secret: secret}},
		NASID:   "replay-nas",
		Timeout: time.Second,
		Retries: 1,
	}, logger)
	if err != nil {
		t.Fatal(err)
	}

	mgr := NewSessionManager()
	pool := &replayCountingPool{releases: map[string]int{}}
	var fastPathRemovals int32

	td := NewSessionTeardown(DefaultTeardownConfig(), logger)
	td.SetSessionManager(mgr)
	td.SetIPPool(pool)
	td.SetRADIUSClient(rc)
	td.SetUpdateEBPFMaps(func(s *Session, remove bool) error {
		if remove {
			atomic.AddInt32(&fastPathRemovals, 1)
		}
		return nil
	})

	clientMAC, _ := net.ParseMAC("aa:bb:cc:dd:ee:01")
	serverMAC, _ := net.ParseMAC("02:00:00:00:00:01")
	session, err := mgr.CreateSession(clientMAC, serverMAC)
	if err != nil {
		t.Fatal(err)
	}
	session.Username = "alice"
	session.Authenticated = true
	session.ClientIP = pool.Allocate(session.SessionID)
	replayMarkAccountingStarted(session)
	session.SetState(StateEstablished)

	// first termination: the client's PADT
	if err := td.HandleClientPADT(session, clientMAC, session.ID); err != nil {
		t.Fatal(err)
	}
	rel1, fp1, st1 := pool.releases[session.SessionID], atomic.LoadInt32(&fastPathRemovals), atomic.LoadInt32(stops)

	// second termination of the same session: retransmitted PADT
	if err := td.HandleClientPADT(session, clientMAC, session.ID); err != nil {
		t.Fatal(err)
	}
	rel2, fp2, st2 := pool.releases[session.SessionID], atomic.LoadInt32(&fastPathRemovals), atomic.LoadInt32(stops)

	t.Logf("after first PADT: releases=%d fast-path removals=%d Accounting-Stops=%d; after second: %d %d %d", rel1, fp1, st1, rel2, fp2, st2)
	if rel1 != 1 || fp1 != 1 || st1 != 1 {
		t.Logf("REPLAY-VIOLATED: the first termination did not release everything exactly once (releases=%d fast-path=%d stops=%d)", rel1, fp1, st1)
		return
	}
	if rel2 != 1 || fp2 != 1 || st2 != 1 {
		t.Logf("REPLAY-VIOLATED: ending the session a second time released again: pool releases=%d, fast-path removals=%d, Accounting-Stops=%d (each must stay 1)", rel2, fp2, st2)
		return
	}
	t.Logf("REPLAY-OK")
}
