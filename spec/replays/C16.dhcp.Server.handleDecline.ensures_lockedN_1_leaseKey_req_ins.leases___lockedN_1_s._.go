package dhcp

import (
	"fmt"
	"net"
	"testing"
	"time"

	"github.com/codelaboratoryltd/bng/pkg/nat"
	"github.com/insomniacslk/dhcp/dhcpv4"
	"go.uber.org/zap"
)

// A client with a lease and a CGNAT block declines its address. Ending the
// session by DECLINE must release what the session held: afterwards the NAT
// block must be gone and the address must not be handed to the same client again.
func TestReplayVC(t *testing.T) {
	logger := zap.NewNop()
	poolMgr := NewPoolManager(nil, logger)
	pool, err := NewPool(PoolConfig{ID: 1, Name: "p", Network: "10.0.1.0/24", Gateway: "10.0.1.1", LeaseTime: time.Hour})
	if err != nil {
		fmt.Println("REPLAY-SETUP-FAILED", err)
		return
	}
	poolMgr.AddPool(pool)
	srv, err := NewServer(ServerConfig{Interface: "lo", ServerIP: net.ParseIP("10.0.1.1")}, nil, poolMgr, logger)
	if err != nil {
		fmt.Println("REPLAY-SETUP-FAILED", err)
		return
	}
	natMgr, err := nat.NewManager(nat.ManagerConfig{Interface: "lo"}, logger)
	if err != nil {
		fmt.Println("REPLAY-SETUP-FAILED", err)
		return
	}
	natMgr.AddPublicIP(net.ParseIP("203.0.113.1"))
	srv.SetNATManager(natMgr)

	mac, _ := net.ParseMAC("aa:bb:cc:dd:ee:01")
	ip, _ := pool.Allocate(mac)
	natMgr.AllocateNAT(ip)
	srv.leases[mac.String()] = &Lease{MAC: mac, IP: ip, PoolID: 1, ExpiresAt: time.Now().Add(time.Hour)}

	req, _ := dhcpv4.New(dhcpv4.WithHwAddr(mac), dhcpv4.WithMessageType(dhcpv4.MessageTypeDecline), dhcpv4.WithOption(dhcpv4.OptRequestedIPAddress(ip)))
	srv.handleDecline(req)

	again, _ := pool.Allocate(mac)
	switch {
	case natMgr.GetAllocation(ip) != nil:
		fmt.Printf("REPLAY-VIOLATED: after DECLINE the session's NAT block for %s is still allocated\n", ip)
	case again != nil && again.Equal(ip):
		fmt.Printf("REPLAY-VIOLATED: after DECLINE the declined address %s is handed to the client again\n", ip)
	default:
		fmt.Println("REPLAY-OK")
	}
}
