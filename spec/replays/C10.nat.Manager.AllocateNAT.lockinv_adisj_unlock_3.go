package nat

// Replay for obligation C10.nat.Manager.AllocateNAT.lockinv[Manager.adisj@unlock]#3:
// the port block is derived from the current subscriber COUNT of the pool entry, so
// after a release from the middle the next allocation gets the block of a live subscriber.
// Second part: AddPublicIP accepts the same public address twice, the two pool entries
// hand out the same ports of the same public address.

import (
	"fmt"
	"net"
	"testing"

	"go.uber.org/zap"
)

func TestReplayVC(t *testing.T) {
	defer func() {
		if r := recover(); r != nil {
			fmt.Printf("REPLAY-PANIC: %v\n", r)
		}
	}()
	violated := false
	m, err := NewManager(ManagerConfig{Interface: "eth0", PortsPerSubscriber: 1024, PortRangeStart: 1024, PortRangeEnd: 65535}, zap.NewNop())
	if err != nil {
		fmt.Printf("unexpected: %v\n", err)
		return
	}
	m.AddPublicIP(net.ParseIP("203.0.113.1"))
	a, _ := m.AllocateNAT(net.ParseIP("10.0.0.1"))
	b, _ := m.AllocateNAT(net.ParseIP("10.0.0.2"))
	c, _ := m.AllocateNAT(net.ParseIP("10.0.0.3"))
	_, _ = a, b
	m.DeallocateNAT(net.ParseIP("10.0.0.1"))
	d, _ := m.AllocateNAT(net.ParseIP("10.0.0.4"))
	live := m.GetAllocation(net.ParseIP("10.0.0.3"))
	if live == c && d != nil && d.PublicIP.Equal(c.PublicIP) && d.PortStart <= c.PortEnd && c.PortStart <= d.PortEnd {
		fmt.Printf("REPLAY-VIOLATED: %s holds %s:%d-%d and %s was given %s:%d-%d (overlap on the same public address)\n",
			c.PrivateIP, c.PublicIP, c.PortStart, c.PortEnd, d.PrivateIP, d.PublicIP, d.PortStart, d.PortEnd)
		violated = true
	}

	m2, _ := NewManager(ManagerConfig{Interface: "eth0", PortsPerSubscriber: 1024, PortRangeStart: 1024, PortRangeEnd: 2047}, zap.NewNop())
	m2.AddPublicIP(net.ParseIP("203.0.113.9"))
	m2.AddPublicIP(net.ParseIP("203.0.113.9"))
	x, _ := m2.AllocateNAT(net.ParseIP("10.0.1.1"))
	y, err := m2.AllocateNAT(net.ParseIP("10.0.1.2"))
	if err == nil && x != nil && y != nil && x.PublicIP.Equal(y.PublicIP) && x.PortStart <= y.PortEnd && y.PortStart <= x.PortEnd {
		fmt.Printf("REPLAY-VIOLATED: public address added twice: %s and %s both hold %s:%d-%d\n", x.PrivateIP, y.PrivateIP, x.PublicIP, x.PortStart, x.PortEnd)
		violated = true
	}
	if !violated {
		fmt.Println("REPLAY-OK")
	}
}
