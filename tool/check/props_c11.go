package check

func init() {
	lcp := func(names ...string) []string {
		var out []string
		for _, n := range names {
			out = append(out, "pppoe.LCPStateMachine."+n)
		}
		return out
	}
	register(&PropDef{
		ID:    "C11",
		Title: "PPP control protocols open only on mutual agreement and always terminate",
		Pkgs:  []string{"./pkg/pppoe"},
		Funcs: append(lcp("Up", "Down", "Open", "Close", "closeInternal", "ReceivePacket", "receiveConfigureRequest", "receiveConfigureAck",
			"receiveConfigureNak", "receiveConfigureReject", "receiveTerminateRequest", "receiveTerminateAck", "receiveCodeReject",
			"receiveProtocolReject", "receiveEchoRequest", "receiveEchoReply", "sendConfigureRequest", "sendTerminateRequest", "sendTerminateAck",
			"sendCodeReject", "SendEchoRequest", "SendProtocolReject", "timeout", "initializeRestartCount", "zeroRestartCount", "startTimer", "stopTimer",
			"setState", "processConfigureOptions", "storePeerOptions", "IsOpened", "GetState", "GetNegotiatedOptions", "SetOnStateChange"),
			"pppoe.LCPPacket.Serialize", "pppoe.ParseLCPPacket", "pppoe.ParseLCPOptions", "pppoe.SerializeLCPOptions"),
		Trusted: []string{
			"functype LCPStateMachine.sendPacket / onStateChange: the callbacks modify no automaton state (assumed); sendPacket's contract records the first packet (code, identifier) sent by the current activation in ghost variables",
			"generateMagicNumber: trusted frame (crypto/rand)",
		},
		Undecided: []string{
			"IPCP and IPv6CP automata (ipcp.go, ipv6cp.go) are not under contract in this run: the LCP automaton is; 'IPCP acknowledges only the address assigned to the session' is therefore undecided",
			"'an acknowledgement repeats the request's options unchanged while a nak or reject lists only offending options': processConfigureOptions is under a frame contract only",
			"timer-vs-packet races (a time.AfterFunc callback already running when stopTimer is called) and real elapsed time",
			"byte-level Serialize/Parse round trip of option lists",
		},
		Assumptions: []string{
			"monitor model for LCPStateMachine.mu (state, config, negotiated, counters, identifiers and the ghost flags gA/gB are owned by mu); timerMu owns restartTimer",
			"ghost flags are assigned only at function exits (ghost_exit clauses), so the proof does not depend on statement order inside bodies",
		},
		Explanation: "Ghost flags gA ('we acknowledged the peer's most recent Configure-Request') and gB ('the peer acknowledged our most recent Configure-Request') are ghost fields of the automaton, owned by its mutex. gB is cleared by sendConfigureRequest and set by receiveConfigureAck only for the matching identifier; gA is set by receiveConfigureRequest exactly when the first packet it sent was a Configure-Ack. The lock invariant state=Opened => gA&&gB, Ack-Rcvd => gB, Ack-Sent => gA is assumed at every Lock and asserted at every Unlock of every method, and IsOpened/GetState ensure it for what they report. Every event that must leave Opened (RCR, RCN/RCJ for the current id, RTR, RTA, Down, Close, code/protocol reject of LCP) has the postcondition state != Opened; replies carry the request's identifier (first-sent ghost id == pkt.Identifier); timeout decrements restartCount in the active states and leaves them when it is exhausted (so a silent peer sees at most MaxConfigure/MaxTerminate retransmissions).",
	})
}
