package check

import (
	"strings"

	"bngvc/govc"
)

var ipAllocatorFuncs = []string{
	"allocator.NewIPAllocator", "allocator.IPAllocator.Allocate", "allocator.IPAllocator.AllocateSpecific",
	"allocator.IPAllocator.Release", "allocator.IPAllocator.ReleasePrefix", "allocator.IPAllocator.Lookup",
	"allocator.IPAllocator.LookupByPrefix", "allocator.IPAllocator.IsAllocated", "allocator.IPAllocator.ListAllocations",
	"allocator.IPAllocator.SetAllocation", "allocator.IPAllocator.UnmarshalJSON", "allocator.IPAllocator.MarshalJSON",
	"allocator.IPAllocator.findFreeIndex", "allocator.IPAllocator.getPrefixByIndex", "allocator.IPAllocator.getIndexByPrefix",
	"allocator.IPAllocator.Stats", "allocator.addIPOffset", "allocator.ipOffset",
}

// countObligation: obligations about counts / exhaustion / statistics (claimed by C05, not C01).
func countObligation(o *govc.Oblig) bool {
	id := o.ID
	switch {
	case strings.Contains(id, ".cnt_unlock"), strings.Contains(id, ".cnt]"), strings.Contains(id, "result.cnt"), strings.Contains(id, "a.cnt"):
		return true
	case strings.Contains(id, ".Stats."):
		return true
	case strings.Contains(id, ".total_unlock"), strings.Contains(id, "result.total"), strings.Contains(id, "a.total"):
		return true
	case strings.Contains(id, "findFreeIndex.ensures[err__nil___isErr"):
		return true
	case strings.Contains(id, "isErr_err_ErrPoolExhausted"):
		return true
	}
	return false
}

func init() {
	register(&PropDef{
		ID:    "C01",
		Title: "No address or prefix is ever held by two subscribers at once",
		Pkgs:  []string{"./pkg/allocator"},
		Funcs: ipAllocatorFuncs,
		Select: func(o *govc.Oblig) bool { return !countObligation(o) },
		Undecided: []string{
			"pool implementations not under contract in this run: epoch/lease allocator, DHCPv4 pool, DHCPv6 address/prefix pools, PPPoE IPPool, peer-local pool, hash-based central allocation (nexus client) — see DESIGN.md C01",
			"prefix arithmetic (index <-> IP bytes in addIPOffset/ipOffset/getPrefixByIndex) is under frame contracts only: the claim is at the level of prefix indices (0 <= idx < total, injective ownership), the byte-level IP arithmetic is not decided",
			"uniqueness across several BNG processes",
		},
		Assumptions: []string{
			"monitor model for mu: all IPAllocator fields are accessed with mu held (every exported method locks); data-race freedom of unexported helpers is by their 'requires a.inv' contracts",
			"Go maps behave as (domain, value, cardinality) triples; math/big per AssumedLib",
		},
		Explanation: "Representation invariant of allocator.IPAllocator (allocated and indexToSubscriber are mutually inverse, the bitmap is exactly the domain of indexToSubscriber, every index is below the pool size) is declared as the lock invariant of mu: it is assumed after every Lock/RLock with all protected fields havocked, and asserted at every Unlock, for every method. Injectivity of the subscriber->index map gives 'no prefix held by two subscribers'; Allocate's whole-view postcondition gives idempotence (same index, nothing else changed) and that a newly assigned index was free before. Each obligation is one SMT query.",
	})
	register(&PropDef{
		ID:    "C05",
		Title: "Address pools neither leak nor miscount",
		Pkgs:  []string{"./pkg/allocator"},
		Funcs: ipAllocatorFuncs,
		Select: countObligation,
		Undecided: []string{
			"pool implementations not under contract in this run: epoch/lease allocator (grace-period clause), DHCPv4/DHCPv6/PPPoE/peer pools, store-backed rollback paths of DistributedAllocator",
			"utilisation percentage (floating point)",
		},
		Assumptions: []string{"same as C01"},
		Explanation: "Count invariant allocatedCount == |allocated| == |indexToSubscriber| (cardinalities are ghost counters maintained by every map insert/delete, no cardinality axioms) is part of the lock invariant and asserted at every Unlock. findFreeIndex's postcondition states that ErrPoolExhausted is returned only if every index below the pool size has its bit set (loop invariants over both scans), which with the bijection invariant means every usable prefix has a live holder; Stats returns exactly the ghost cardinality and the pool size; Release clears exactly the released index.",
	})
}
