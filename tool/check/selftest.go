package check

// SelfTest is implemented in selftest_impl.go once the mutant corpus exists.
func SelfTest(args []string) int { return runSelfTest(args) }
