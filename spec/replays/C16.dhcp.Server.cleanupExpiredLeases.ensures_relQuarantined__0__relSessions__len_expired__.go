package dhcp

import (
	"fmt"
	"net"
	"testing"
	"time"

	"github.com/codelaboratoryltd/bng/pkg/nat"
	"go.uber.org/zap"
)

// A lease with a CGNAT block expires. Ending the session by expiry must release
// everything it held, like a RELEASE does: afterwards the NAT block must be gone.
func TestReplayVC(t *testing.T) {
	logger := zap.NewNop()
	poolMgr := NewPoolManager(nil, logger)
	pool, err := NewPool(PoolConfig{ID: 1, Name: "p", Network: "10.0.1.0/24", Gateway: "10.0.1.1", LeaseTime: time.Hour})
	if err != nil {
		fmt.Println("REPLAY-SETUP-FAILED", err)
		return
	}
	poolMgr.AddPool(pool)
	srv, err := NewServer(ServerConfig{Interface: "lo", ServerIP: net.ParseIP("10.0.1.1")}, nil, poolMgr, logger)
	if err != nil {
		fmt.Println("REPLAY-SETUP-FAILED", err)
		return
	}
	natMgr, _ := nat.NewManager(nat.ManagerConfig{Interface: "lo"}, logger)
	natMgr.AddPublicIP(net.ParseIP("203.0.113.1"))
	srv.SetNATManager(natMgr)

	mac, _ := net.ParseMAC("aa:bb:cc:dd:ee:02")
	ip, _ := pool.Allocate(mac)
	natMgr.AllocateNAT(ip)
	srv.leases[mac.String()] = &Lease{MAC: mac, IP: ip, PoolID: 1, ExpiresAt: time.Now().Add(-time.Minute)}

	srv.cleanupExpiredLeases()

	if natMgr.GetAllocation(ip) != nil {
		fmt.Printf("REPLAY-VIOLATED: lease for %s expired and was removed, but its NAT block is still allocated\n", ip)
		return
	}
	fmt.Println("REPLAY-OK")
}
