package ebpf

// Replay for the C20 clause "each relay circuit-id key in use identifies at most one
// subscriber" applied to MakeCircuitIDKey (contract: key[i] = circuitID[i] for i < len, 0
// beyond, truncated to 32 bytes - proved). The key is therefore NOT injective: circuit-ids
// that agree on their first 32 bytes, or that differ only by trailing NUL bytes, share
// one key in circuit_id_subscribers, so Add for the second subscriber overwrites the first
// and Remove of one deletes the other.

import (
	"fmt"
	"strings"
	"testing"
)

func TestReplayVC(t *testing.T) {
	defer func() {
		if r := recover(); r != nil {
			fmt.Printf("REPLAY-PANIC: %v\n", r)
		}
	}()
	a := []byte(strings.Repeat("x", 32) + "/port-1")
	b := []byte(strings.Repeat("x", 32) + "/port-2")
	c := []byte("eth0/1/1")
	d := []byte("eth0/1/1\x00")
	violated := false
	if MakeCircuitIDKey(a) == MakeCircuitIDKey(b) {
		fmt.Printf("REPLAY-VIOLATED: distinct circuit-ids %q and %q map to the same key\n", a, b)
		violated = true
	}
	if MakeCircuitIDKey(c) == MakeCircuitIDKey(d) {
		fmt.Printf("REPLAY-VIOLATED: distinct circuit-ids %q and %q map to the same key\n", c, d)
		violated = true
	}
	if !violated {
		fmt.Println("REPLAY-OK")
	}
}
