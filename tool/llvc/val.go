package llvc

import (
	"fmt"
	"math/bits"
	"sort"
	"strconv"
	"strings"

	"bngvc/smt"
)

const maxU64 = ^uint64(0)

// Val is the symbolic value of an SSA register.  Integers of width 1 are
// Bool-sorted terms, other integers are bit-vectors.  Pointers are
// (region, offset) pairs; an integer may carry a provenance tag P saying
// "this integer is the address of P" (ptrtoint, ctx->data loads).
type Val struct {
	W     int
	T     smt.Term // integers (incl. tagged ones); empty for pointers
	IsPtr bool
	P     *Ptr
	UB    uint64  // inclusive unsigned upper bound of an integer value
	Ite   *iteRec // set when the value is ite(C, A, B) built by path merging
	Undef bool    // an undef / poison pointer operand (phi incoming of a path that never uses it)
}

// Ptr is a pointer value: region id term (BV16), byte offset (BV64).
type Ptr struct {
	Reg   smt.Term
	Off   smt.Term
	OffUB uint64
	Cands []int // possible region ids, sorted, no duplicates
}

func maskOf(w int) uint64 {
	if w >= 64 {
		return maxU64
	}
	return (uint64(1) << uint(w)) - 1
}

// bvConst recognises (_ bvN W) literals.
func bvConst(t smt.Term) (uint64, bool) {
	s := t.S
	if !strings.HasPrefix(s, "(_ bv") {
		return 0, false
	}
	rest := s[5:]
	sp := strings.IndexByte(rest, ' ')
	if sp < 0 {
		return 0, false
	}
	v, err := strconv.ParseUint(rest[:sp], 10, 64)
	if err != nil {
		return 0, false
	}
	return v, true
}

func widthOf(t smt.Term) int {
	if t.Sort == smt.Bool {
		return 1
	}
	var w int
	fmt.Sscanf(t.Sort, "(_ BitVec %d)", &w)
	return w
}

func lit(v uint64, w int) smt.Term { return smt.BVLit(v, w) }

func signExt(v uint64, w int) int64 {
	if w >= 64 {
		return int64(v)
	}
	v &= maskOf(w)
	if v&(uint64(1)<<uint(w-1)) != 0 {
		return int64(v | ^maskOf(w))
	}
	return int64(v)
}

type addRec struct {
	base smt.Term
	c    uint64
}

// terms bundles term construction with constant folding; addInfo lets chains
// of "+ constant" collapse into a single addition.
type terms struct {
	ctx      *smt.Ctx
	addInfo  map[string]addRec
	defs     map[string]*defRec
	boolDefs map[string]string // Bool-sorted definitions by name
	axioms   []axRec
	axIDs    map[string]bool
}

func (tm *terms) let(prefix string, t smt.Term) smt.Term {
	if _, ok := tm.addInfo[t.S]; ok {
		return t // keep "x + c" visible for further folding
	}
	return tm.named(prefix, t)
}

// named introduces a define-fun for t (like Ctx.Let) and records the
// definition so that weak queries can be assembled and sliced.
func (tm *terms) named(prefix string, t smt.Term) smt.Term {
	if prefix == "" || (prefix[0] >= '0' && prefix[0] <= '9') || prefix[0] == '.' {
		prefix = "t" + prefix
	}
	n := tm.ctx.Let(prefix, t)
	if n.S != t.S {
		d := map[string]bool{}
		smt.Symbols(t.S, d)
		ds := make([]string, 0, len(d))
		for k := range d {
			ds = append(ds, k)
		}
		sort.Strings(ds)
		tm.defs[n.S] = &defRec{sort: t.Sort, deps: ds, text: "(define-fun " + n.S + " () " + t.Sort + " " + t.S + ")", isDef: true}
		if t.Sort == smt.Bool {
			tm.boolDefs[n.S] = t.S
		}
	}
	return n
}

func (tm *terms) declConst(name, sort string) smt.Term {
	t := tm.ctx.Const(name, sort)
	if _, ok := tm.defs[name]; !ok {
		tm.defs[name] = &defRec{sort: sort, text: "(declare-fun " + name + " () " + sort + ")"}
	}
	return t
}

func (tm *terms) freshConst(prefix, sort string) smt.Term {
	t := tm.ctx.Fresh(prefix, sort)
	tm.defs[t.S] = &defRec{sort: sort, text: "(declare-fun " + t.S + " () " + sort + ")"}
	return t
}

func (tm *terms) declFun(name string, args []string, ret string) {
	tm.ctx.DeclareFun(name, args, ret)
	if _, ok := tm.defs[name]; !ok {
		tm.defs[name] = &defRec{sort: "fun", text: "(declare-fun " + name + " (" + strings.Join(args, " ") + ") " + ret + ")"}
	}
}

type axRec struct {
	key  string
	term smt.Term
}

func (tm *terms) axiom(id string, t smt.Term, key string) {
	if tm.axIDs[id] {
		return
	}
	tm.axIDs[id] = true
	tm.ctx.Axiom(id, t, key)
	tm.axioms = append(tm.axioms, axRec{key, t})
}

type defRec struct {
	sort   string
	deps   []string
	text   string
	isDef  bool
	closed map[string]bool
}

// scalarSyms returns the scalar symbols a term depends on: it follows
// definitions of bit-vector/Bool names, does not descend into array-sorted
// names, and keeps path-condition names (pc!N) and memory loads (ld!N) as
// atoms without expanding them.
func (tm *terms) scalarSyms(s string) map[string]bool {
	out := map[string]bool{}
	toks := map[string]bool{}
	smt.Symbols(s, toks)
	for t := range toks {
		for k := range tm.closure(t) {
			out[k] = true
		}
	}
	return out
}

func (tm *terms) closure(name string) map[string]bool {
	d, ok := tm.defs[name]
	if !ok {
		return nil
	}
	if d.sort == "fun" || strings.HasPrefix(d.sort, "(Array") {
		return nil
	}
	if d.closed != nil {
		return d.closed
	}
	d.closed = map[string]bool{name: true}
	if strings.HasPrefix(name, "pc!") || strings.HasPrefix(name, "ld!") {
		// path conditions and memory loads are atoms for slicing: a
		// constraint on loaded data says nothing about the address it was
		// loaded from
		return d.closed
	}
	for _, x := range d.deps {
		for k := range tm.closure(x) {
			d.closed[k] = true
		}
	}
	return d.closed
}

// weakCase is one implication "assumptions => goal" of a weak query.
type weakCase struct {
	as   []smt.Term
	goal smt.Term
}

// weakQuery assembles a query that is unsat iff every case is valid, with
// only the definitions in the cone of influence; merged path conditions
// (pc!N) are left uninterpreted (a sound weakening: more models).
func (tm *terms) weakQuery(cases []weakCase) string {
	var b strings.Builder
	b.WriteString("(set-logic QF_AUFBV)\n")
	visited := map[string]bool{}
	var visit func(name string)
	visit = func(name string) {
		if visited[name] {
			return
		}
		visited[name] = true
		d, ok := tm.defs[name]
		if !ok {
			return
		}
		if d.isDef && strings.HasPrefix(name, "pc!") {
			b.WriteString("(declare-fun " + name + " () Bool)\n")
			return
		}
		for _, x := range d.deps {
			visit(x)
		}
		b.WriteString(d.text)
		b.WriteByte('\n')
	}
	visitTerm := func(s string) {
		toks := map[string]bool{}
		smt.Symbols(s, toks)
		ks := make([]string, 0, len(toks))
		for k := range toks {
			ks = append(ks, k)
		}
		sort.Strings(ks)
		for _, k := range ks {
			visit(k)
		}
	}
	var disj []smt.Term
	for _, c := range cases {
		for _, a := range c.as {
			visitTerm(a.S)
		}
		visitTerm(c.goal.S)
		disj = append(disj, smt.And(append(append([]smt.Term{}, c.as...), smt.Not(c.goal))...))
	}
	for changed := true; changed; {
		changed = false
		for i := range tm.axioms {
			ax := &tm.axioms[i]
			if visited[ax.key] && !visited["axiom:"+ax.term.S] {
				visited["axiom:"+ax.term.S] = true
				visitTerm(ax.term.S)
				b.WriteString("(assert " + ax.term.S + ")\n")
				changed = true
			}
		}
	}
	b.WriteString("(assert " + smt.Or(disj...).S + ")\n(check-sat)\n")
	return b.String()
}

func (tm *terms) addConst(a smt.Term, c uint64) smt.Term {
	w := widthOf(a)
	c &= maskOf(w)
	if c == 0 {
		return a
	}
	if v, ok := bvConst(a); ok {
		return lit(v+c, w)
	}
	base := a
	if r, ok := tm.addInfo[a.S]; ok {
		base = r.base
		c = (c + r.c) & maskOf(w)
		if c == 0 {
			return base
		}
	}
	t := smt.App(a.Sort, "bvadd", base, lit(c, w))
	tm.addInfo[t.S] = addRec{base, c}
	return t
}

func (tm *terms) add(a, b smt.Term) smt.Term {
	if v, ok := bvConst(b); ok {
		return tm.addConst(a, v)
	}
	if v, ok := bvConst(a); ok {
		return tm.addConst(b, v)
	}
	// (x + c1) + (y + c2) -> (x + y) + (c1+c2)
	ra, oka := tm.addInfo[a.S]
	rb, okb := tm.addInfo[b.S]
	if oka || okb {
		x, y := a, b
		var c uint64
		if oka {
			x, c = ra.base, ra.c
		}
		if okb {
			y = rb.base
			c += rb.c
		}
		return tm.addConst(smt.App(a.Sort, "bvadd", x, y), c)
	}
	return smt.App(a.Sort, "bvadd", a, b)
}

func (tm *terms) sub(a, b smt.Term) smt.Term {
	w := widthOf(a)
	if v, ok := bvConst(b); ok {
		return tm.addConst(a, (-v)&maskOf(w))
	}
	if a.S == b.S {
		return lit(0, w)
	}
	// (x + c1) - (x + c2)
	ra, oka := tm.addInfo[a.S]
	rb, okb := tm.addInfo[b.S]
	xa, ca := a, uint64(0)
	if oka {
		xa, ca = ra.base, ra.c
	}
	xb, cb := b, uint64(0)
	if okb {
		xb, cb = rb.base, rb.c
	}
	if xa.S == xb.S {
		return lit(ca-cb, w)
	}
	if okb {
		return tm.addConst(smt.App(a.Sort, "bvsub", a, xb), (-cb)&maskOf(w))
	}
	return smt.App(a.Sort, "bvsub", a, b)
}

func (tm *terms) binop(op string, a, b smt.Term) smt.Term {
	w := widthOf(a)
	if a.Sort == smt.Bool {
		switch op {
		case "and":
			return smt.And(a, b)
		case "or":
			return smt.Or(a, b)
		case "xor":
			if b.IsTrue() {
				return smt.Not(a)
			}
			if a.IsTrue() {
				return smt.Not(b)
			}
			if b.IsFalse() {
				return a
			}
			if a.IsFalse() {
				return b
			}
			return smt.App(smt.Bool, "xor", a, b)
		case "add", "sub":
			return tm.binop("xor", a, b)
		case "mul":
			return smt.And(a, b)
		}
		panic("unsupported i1 operation " + op)
	}
	va, oka := bvConst(a)
	vb, okb := bvConst(b)
	m := maskOf(w)
	if oka && okb {
		switch op {
		case "add":
			return lit(va+vb, w)
		case "sub":
			return lit(va-vb, w)
		case "mul":
			return lit(va*vb, w)
		case "and":
			return lit(va&vb, w)
		case "or":
			return lit(va|vb, w)
		case "xor":
			return lit(va^vb, w)
		case "shl":
			if vb >= uint64(w) {
				return lit(0, w)
			}
			return lit(va<<vb, w)
		case "lshr":
			if vb >= uint64(w) {
				return lit(0, w)
			}
			return lit((va&m)>>vb, w)
		case "ashr":
			if vb >= uint64(w) {
				vb = uint64(w - 1)
			}
			return lit(uint64(signExt(va, w)>>vb), w)
		case "udiv":
			if vb&m != 0 {
				return lit((va&m)/(vb&m), w)
			}
		case "urem":
			if vb&m != 0 {
				return lit((va&m)%(vb&m), w)
			}
		case "sdiv":
			if vb&m != 0 && !(signExt(vb, w) == -1 && signExt(va, w) == -(1<<uint(w-1))) {
				return lit(uint64(signExt(va, w)/signExt(vb, w)), w)
			}
		case "srem":
			if vb&m != 0 && signExt(vb, w) != -1 {
				return lit(uint64(signExt(va, w)%signExt(vb, w)), w)
			}
		}
	}
	switch op {
	case "add":
		return tm.add(a, b)
	case "sub":
		return tm.sub(a, b)
	case "mul":
		if okb && vb == 1 {
			return a
		}
		if oka && va == 1 {
			return b
		}
		if (okb && vb == 0) || (oka && va == 0) {
			return lit(0, w)
		}
	case "and":
		if (okb && vb == 0) || (oka && va == 0) {
			return lit(0, w)
		}
		if okb && vb&m == m {
			return a
		}
		if oka && va&m == m {
			return b
		}
		if a.S == b.S {
			return a
		}
	case "or", "xor":
		if okb && vb == 0 {
			return a
		}
		if oka && va == 0 {
			return b
		}
	case "shl", "lshr", "ashr":
		if okb && vb == 0 {
			return a
		}
		if okb && vb >= uint64(w) && op != "ashr" {
			return lit(0, w)
		}
	case "udiv", "sdiv":
		if okb && vb == 1 {
			return a
		}
	}
	smtOp := map[string]string{"add": "bvadd", "sub": "bvsub", "mul": "bvmul", "and": "bvand", "or": "bvor", "xor": "bvxor",
		"shl": "bvshl", "lshr": "bvlshr", "ashr": "bvashr", "udiv": "bvudiv", "urem": "bvurem", "sdiv": "bvsdiv", "srem": "bvsrem"}[op]
	if smtOp == "" {
		panic("unknown binop " + op)
	}
	// 64-bit division by a variable and variable x variable multiplication go
	// through named wrapper functions: the exact queries define them as the
	// bit-vector operation, the "uf-arith" tier declares them uninterpreted
	// (sound weakening) so that proofs which only need "same operands, same
	// result" do not have to reason about divider/multiplier circuits.
	if w == 64 && ((op == "mul" && !oka && !okb) || ((op == "udiv" || op == "urem") && !okb)) {
		name := "bv64_" + op
		if _, ok := tm.defs[name]; !ok {
			body := "(" + smtOp + " a b)"
			tm.ctx.DefineFun(name, []smt.Term{{S: "a", Sort: smt.BV(64)}, {S: "b", Sort: smt.BV(64)}}, smt.BV(64), body, false)
			tm.defs[name] = &defRec{sort: "fun", text: arithDefText(name, body)}
		}
		return smt.App(a.Sort, name, a, b)
	}
	return smt.App(a.Sort, smtOp, a, b)
}

func arithDefText(name, body string) string {
	return "(define-fun " + name + " ((a (_ BitVec 64)) (b (_ BitVec 64))) (_ BitVec 64) " + body + ")"
}

// abstractArith turns the wrapper definitions of a query into declarations
// of uninterpreted functions; returns "" if the query has none.
func abstractArith(q string) string {
	changed := false
	for _, op := range []string{"mul", "udiv", "urem"} {
		name := "bv64_" + op
		def := arithDefText(name, "(bv"+op+" a b)")
		if strings.Contains(q, def) {
			q = strings.Replace(q, def, "(declare-fun "+name+" ((_ BitVec 64) (_ BitVec 64)) (_ BitVec 64))", 1)
			changed = true
		}
	}
	if !changed {
		return ""
	}
	return q
}

func satAdd(a, b uint64) uint64 {
	s, c := bits.Add64(a, b, 0)
	if c != 0 {
		return maxU64
	}
	return s
}
func satMul(a, b uint64) uint64 {
	hi, lo := bits.Mul64(a, b)
	if hi != 0 {
		return maxU64
	}
	return lo
}

func pow2ceilMinus1(x uint64) uint64 {
	if x == 0 {
		return 0
	}
	return maxU64 >> uint(bits.LeadingZeros64(x))
}

// binopUB bounds the result of an integer operation.
func binopUB(op string, w int, a, b *Val, res smt.Term) uint64 {
	m := maskOf(w)
	if v, ok := bvConst(res); ok {
		return v & m
	}
	ub := m
	switch op {
	case "add":
		if s := satAdd(a.UB, b.UB); s <= m {
			ub = s
		}
	case "mul":
		if s := satMul(a.UB, b.UB); s <= m {
			ub = s
		}
	case "and":
		ub = a.UB
		if b.UB < ub {
			ub = b.UB
		}
	case "or", "xor":
		x := a.UB
		if b.UB > x {
			x = b.UB
		}
		ub = pow2ceilMinus1(x)
	case "lshr":
		ub = a.UB
		if v, ok := bvConst(b.T); ok && v < 64 {
			ub = a.UB >> v
		}
	case "shl":
		if v, ok := bvConst(b.T); ok && v < 64 && a.UB <= (m>>v) {
			ub = a.UB << v
		}
	case "udiv":
		ub = a.UB
		if v, ok := bvConst(b.T); ok && v != 0 {
			ub = a.UB / v
		}
	case "urem":
		ub = a.UB
		if b.UB > 0 && b.UB-1 < ub {
			ub = b.UB - 1
		}
	case "sub":
		// a - b with b <= a cannot be decided here
	}
	if ub > m {
		ub = m
	}
	return ub
}

func (tm *terms) zext(a smt.Term, from, to int) smt.Term {
	if from == to {
		return a
	}
	if a.Sort == smt.Bool {
		return smt.Ite(a, lit(1, to), lit(0, to))
	}
	if v, ok := bvConst(a); ok {
		return lit(v&maskOf(from), to)
	}
	return smt.Term{S: fmt.Sprintf("((_ zero_extend %d) %s)", to-from, a.S), Sort: smt.BV(to)}
}

func (tm *terms) sext(a smt.Term, from, to int) smt.Term {
	if from == to {
		return a
	}
	if a.Sort == smt.Bool {
		return smt.Ite(a, lit(maskOf(to), to), lit(0, to))
	}
	if v, ok := bvConst(a); ok {
		return lit(uint64(signExt(v, from)), to)
	}
	return smt.Term{S: fmt.Sprintf("((_ sign_extend %d) %s)", to-from, a.S), Sort: smt.BV(to)}
}

// textWidth returns the bit width of a term given as text, when it can be
// told from the text or the recorded definitions (0 = unknown).
func (tm *terms) textWidth(s string) int {
	if d, ok := tm.defs[s]; ok {
		var w int
		if _, err := fmt.Sscanf(d.sort, "(_ BitVec %d)", &w); err == nil {
			return w
		}
		return 0
	}
	if strings.HasPrefix(s, "(_ bv") {
		var v uint64
		var w int
		if _, err := fmt.Sscanf(s, "(_ bv%d %d)", &v, &w); err == nil {
			return w
		}
	}
	if strings.HasPrefix(s, "((_ extract ") {
		var h, l int
		if _, err := fmt.Sscanf(s, "((_ extract %d %d)", &h, &l); err == nil {
			return h - l + 1
		}
	}
	if strings.HasPrefix(s, "(select ") {
		return 8 // all arrays here are byte arrays
	}
	return 0
}

// concatParts splits "(concat p1 .. pn)" into its parts with widths (most
// significant first); ok=false if it is not a concat or a width is unknown.
func (tm *terms) concatParts(s string) ([]string, []int, bool) {
	op, args, ok := splitApp(s)
	if !ok || op != "concat" {
		return nil, nil, false
	}
	ws := make([]int, len(args))
	for i, a := range args {
		ws[i] = tm.textWidth(a)
		if ws[i] == 0 {
			return nil, nil, false
		}
	}
	return args, ws, true
}

func (tm *terms) extract(a smt.Term, hi, lo int) smt.Term {
	w := widthOf(a)
	if lo == 0 && hi == w-1 {
		return a
	}
	if v, ok := bvConst(a); ok {
		return lit((v>>uint(lo))&maskOf(hi-lo+1), hi-lo+1)
	}
	// extract of a concat on part boundaries: the parts themselves
	if parts, ws, ok := tm.concatParts(a.S); ok {
		pos := w
		var sel []smt.Term
		okb := true
		for i, p := range parts {
			top := pos - 1
			bot := pos - ws[i]
			pos = bot
			if top <= hi && bot >= lo {
				sel = append(sel, smt.Term{S: p, Sort: smt.BV(ws[i])})
			} else if !(bot > hi || top < lo) {
				okb = false // straddles a boundary
			}
		}
		if okb && len(sel) > 0 {
			return tm.concat(sel)
		}
	}
	// extract of an extract
	if strings.HasPrefix(a.S, "((_ extract ") {
		var h, l int
		if _, err := fmt.Sscanf(a.S, "((_ extract %d %d)", &h, &l); err == nil {
			inner := strings.TrimSuffix(strings.TrimSpace(a.S[strings.Index(a.S, ")")+1:]), ")")
			inner = strings.TrimSpace(inner)
			if iw := tm.textWidth(inner); iw > 0 {
				return tm.extract(smt.Term{S: inner, Sort: smt.BV(iw)}, l+hi, l+lo)
			}
		}
	}
	return smt.Term{S: fmt.Sprintf("((_ extract %d %d) %s)", hi, lo, a.S), Sort: smt.BV(hi - lo + 1)}
}

func (tm *terms) trunc(a smt.Term, from, to int) smt.Term {
	if to == 1 {
		if v, ok := bvConst(a); ok {
			return smt.BoolLit(v&1 == 1)
		}
		return smt.Eq(tm.extract(a, 0, 0), lit(1, 1))
	}
	return tm.extract(a, to-1, 0)
}

// concat joins parts given most-significant first.
func (tm *terms) concat(parts []smt.Term) smt.Term {
	// adjacent extracts of one term: a single extract (or the term itself)
	if len(parts) > 1 {
		var merged []smt.Term
		for _, p := range parts {
			if n := len(merged); n > 0 {
				var h1, l1, h2, l2 int
				a, b := merged[n-1].S, p.S
				if strings.HasPrefix(a, "((_ extract ") && strings.HasPrefix(b, "((_ extract ") {
					_, e1 := fmt.Sscanf(a, "((_ extract %d %d)", &h1, &l1)
					_, e2 := fmt.Sscanf(b, "((_ extract %d %d)", &h2, &l2)
					ia := strings.TrimSpace(strings.TrimSuffix(strings.TrimSpace(a[strings.Index(a, ")")+1:]), ")"))
					ib := strings.TrimSpace(strings.TrimSuffix(strings.TrimSpace(b[strings.Index(b, ")")+1:]), ")"))
					if e1 == nil && e2 == nil && ia == ib && l1 == h2+1 {
						if iw := tm.textWidth(ia); iw > 0 {
							merged[n-1] = tm.extract(smt.Term{S: ia, Sort: smt.BV(iw)}, h1, l2)
							continue
						}
					}
				}
			}
			merged = append(merged, p)
		}
		parts = merged
	}
	if len(parts) == 1 {
		return parts[0]
	}
	allConst := true
	var v uint64
	w := 0
	for _, p := range parts {
		pw := widthOf(p)
		c, ok := bvConst(p)
		if !ok || w+pw > 64 {
			allConst = false
			break
		}
		v = v<<uint(pw) | (c & maskOf(pw))
		w += pw
	}
	if allConst {
		return lit(v, w)
	}
	w = 0
	for _, p := range parts {
		w += widthOf(p)
	}
	return smt.App(smt.BV(w), "concat", parts...)
}

func (tm *terms) icmp(pred string, a, b smt.Term) smt.Term {
	if a.Sort == smt.Bool {
		switch pred {
		case "eq":
			return smt.Eq(a, b)
		case "ne":
			return smt.Not(smt.Eq(a, b))
		}
		// order on i1: convert to bit-vectors
		a, b = smt.Ite(a, lit(1, 1), lit(0, 1)), smt.Ite(b, lit(1, 1), lit(0, 1))
	}
	w := widthOf(a)
	va, oka := bvConst(a)
	vb, okb := bvConst(b)
	if oka && okb {
		va, vb = va&maskOf(w), vb&maskOf(w)
		sa, sb := signExt(va, w), signExt(vb, w)
		var r bool
		switch pred {
		case "eq":
			r = va == vb
		case "ne":
			r = va != vb
		case "ugt":
			r = va > vb
		case "uge":
			r = va >= vb
		case "ult":
			r = va < vb
		case "ule":
			r = va <= vb
		case "sgt":
			r = sa > sb
		case "sge":
			r = sa >= sb
		case "slt":
			r = sa < sb
		case "sle":
			r = sa <= sb
		}
		return smt.BoolLit(r)
	}
	if a.S == b.S {
		switch pred {
		case "eq", "uge", "ule", "sge", "sle":
			return smt.True
		default:
			return smt.False
		}
	}
	switch pred {
	case "eq":
		return smt.Eq(a, b)
	case "ne":
		return smt.Not(smt.Eq(a, b))
	}
	// unsigned comparisons against 0 / max
	if okb && vb&maskOf(w) == 0 {
		switch pred {
		case "ult":
			return smt.False
		case "uge":
			return smt.True
		case "ugt":
			return smt.Not(smt.Eq(a, b))
		case "ule":
			return smt.Eq(a, b)
		}
	}
	if oka && va&maskOf(w) == 0 {
		switch pred {
		case "ugt":
			return smt.False
		case "ule":
			return smt.True
		case "ult":
			return smt.Not(smt.Eq(a, b))
		case "uge":
			return smt.Eq(a, b)
		}
	}
	op := map[string]string{"ugt": "bvugt", "uge": "bvuge", "ult": "bvult", "ule": "bvule", "sgt": "bvsgt", "sge": "bvsge", "slt": "bvslt", "sle": "bvsle"}[pred]
	return smt.App(smt.Bool, op, a, b)
}

// intVal wraps a term as an integer Val with the trivial bound.
func intVal(t smt.Term, w int) *Val {
	v := &Val{W: w, T: t, UB: maskOf(w)}
	if c, ok := bvConst(t); ok && w > 1 {
		v.UB = c & maskOf(w)
	}
	if w == 1 {
		v.UB = 1
	}
	return v
}

func constVal(v uint64, w int) *Val {
	if w == 1 {
		return &Val{W: 1, T: smt.BoolLit(v&1 == 1), UB: 1}
	}
	return &Val{W: w, T: lit(v, w), UB: v & maskOf(w)}
}
