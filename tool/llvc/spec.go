package llvc

import (
	"encoding/json"
	"fmt"
	"os"
	"path/filepath"
	"strings"

	"bngvc/smt"
)

// ProgSpec is the specification of one entry-point program.
type ProgSpec struct {
	Type             string  `json:"type"`     // xdp | tc
	Verdicts         []int64 `json:"verdicts"` // allowed return values
	Pass             int64   `json:"pass"`     // the "hand the frame on unchanged" verdict (XDP_PASS / TC_ACT_OK)
	Acts             string  `json:"acts"`     // predicate under which a pass verdict may carry a rewritten frame
	NoPassUnmodified bool    `json:"no_pass_unmodified,omitempty"`
}

// uapi constants: enum xdp_action {XDP_ABORTED=0, XDP_DROP, XDP_PASS, XDP_TX,
// XDP_REDIRECT}; TC_ACT_UNSPEC=-1, TC_ACT_OK=0, RECLASSIFY=1, SHOT=2, PIPE=3,
// STOLEN=4, QUEUED=5, REPEAT=6, REDIRECT=7, TRAP=8.
func DefaultSpec(progType string) *ProgSpec {
	switch progType {
	case "xdp":
		return &ProgSpec{Type: "xdp", Verdicts: []int64{0, 1, 2, 3, 4}, Pass: 2}
	case "tc":
		return &ProgSpec{Type: "tc", Verdicts: []int64{-1, 0, 1, 2, 3, 4, 5, 6, 7, 8}, Pass: 0}
	}
	return &ProgSpec{Type: progType}
}

// SpecFile is the default location of the per-program specifications.
var SpecFile = "/verif/spec/bpf/programs.json"

// LoadSpec returns the specification of function fn of C file cFile from the
// JSON spec file ({"<file>.c": {"<func>": {...}}}); fields that are absent
// take the defaults of the program type.
func LoadSpec(path, cFile, fn, progType string) (*ProgSpec, error) {
	sp := DefaultSpec(progType)
	b, err := os.ReadFile(path)
	if err != nil {
		if os.IsNotExist(err) {
			return sp, nil
		}
		return nil, err
	}
	var all map[string]json.RawMessage
	if err := json.Unmarshal(b, &all); err != nil {
		return nil, fmt.Errorf("%s: %v", path, err)
	}
	rawFile, ok := all[filepath.Base(cFile)]
	if !ok {
		return sp, nil
	}
	var fm map[string]json.RawMessage
	if err := json.Unmarshal(rawFile, &fm); err != nil {
		return nil, fmt.Errorf("%s: %s: %v", path, filepath.Base(cFile), err)
	}
	raw, ok := fm[fn]
	if !ok {
		return sp, nil
	}
	if err := json.Unmarshal(raw, sp); err != nil {
		return nil, fmt.Errorf("%s: %s/%s: %v", path, cFile, fn, err)
	}
	sp.Type = progType
	return sp, nil
}

// actsTerm evaluates the acts predicate in the final state.  Grammar:
//
//	expr   := term ('|' term)*
//	term   := factor ('&' factor)*
//	factor := '!' factor | '(' expr ')' | 'found(' map ')' | 'true' | 'false'
//
// found(m) holds on a path iff some bpf_map_lookup_elem on map m returned a
// non-NULL pointer on that path.
func (sp *ProgSpec) actsTerm(st *State) (smt.Term, error) {
	src := strings.TrimSpace(sp.Acts)
	if src == "" {
		return smt.False, nil
	}
	p := &actsParser{s: src, st: st}
	t, err := p.expr()
	if err != nil {
		return smt.Term{}, fmt.Errorf("acts predicate %q: %v", sp.Acts, err)
	}
	p.ws()
	if p.i != len(p.s) {
		return smt.Term{}, fmt.Errorf("acts predicate %q: trailing input at %d", sp.Acts, p.i)
	}
	return t, nil
}

type actsParser struct {
	s  string
	i  int
	st *State
}

func (p *actsParser) ws() {
	for p.i < len(p.s) && (p.s[p.i] == ' ' || p.s[p.i] == '\t') {
		p.i++
	}
}

func (p *actsParser) expr() (smt.Term, error) {
	t, err := p.term()
	if err != nil {
		return t, err
	}
	for {
		p.ws()
		if p.i < len(p.s) && p.s[p.i] == '|' {
			p.i++
			u, err := p.term()
			if err != nil {
				return u, err
			}
			t = smt.Or(t, u)
			continue
		}
		return t, nil
	}
}

func (p *actsParser) term() (smt.Term, error) {
	t, err := p.factor()
	if err != nil {
		return t, err
	}
	for {
		p.ws()
		if p.i < len(p.s) && p.s[p.i] == '&' {
			p.i++
			u, err := p.factor()
			if err != nil {
				return u, err
			}
			t = smt.And(t, u)
			continue
		}
		return t, nil
	}
}

func (p *actsParser) factor() (smt.Term, error) {
	p.ws()
	if p.i >= len(p.s) {
		return smt.Term{}, fmt.Errorf("unexpected end")
	}
	switch {
	case p.s[p.i] == '!':
		p.i++
		t, err := p.factor()
		return smt.Not(t), err
	case p.s[p.i] == '(':
		p.i++
		t, err := p.expr()
		if err != nil {
			return t, err
		}
		p.ws()
		if p.i >= len(p.s) || p.s[p.i] != ')' {
			return t, fmt.Errorf("')' expected")
		}
		p.i++
		return t, nil
	case strings.HasPrefix(p.s[p.i:], "found("):
		p.i += 6
		j := strings.IndexByte(p.s[p.i:], ')')
		if j < 0 {
			return smt.Term{}, fmt.Errorf("')' expected")
		}
		name := strings.TrimSpace(p.s[p.i : p.i+j])
		p.i += j + 1
		if t, ok := p.st.found[name]; ok {
			return t, nil
		}
		return smt.False, nil
	case strings.HasPrefix(p.s[p.i:], "true"):
		p.i += 4
		return smt.True, nil
	case strings.HasPrefix(p.s[p.i:], "false"):
		p.i += 5
		return smt.False, nil
	}
	return smt.Term{}, fmt.Errorf("unexpected %q", p.s[p.i:])
}
