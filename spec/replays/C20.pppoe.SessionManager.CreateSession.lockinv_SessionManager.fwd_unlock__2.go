package pppoe

// Replay for obligation C20.pppoe.SessionManager.CreateSession.lockinv[SessionManager.fwd_unlock]#2.
// A client MAC opens a second session (allowed, RFC 2516): the MAC index is overwritten with the
// new id. The defect: removing the OLDER session deletes the index entry of the newer, live one
// (RemoveSession and CleanupExpired delete macToSession[mac] unconditionally), so the live session
// can no longer be found or terminated by MAC. Checked here: after removing the older session the
// MAC lookup must still return the newer session; the lookup must never return a removed session or
// a session of another MAC; after removing both it must return nil.

import (
	"bytes"
	"fmt"
	"net"
	"testing"
)

func TestReplayVC(t *testing.T) {
	defer func() {
		if r := recover(); r != nil {
			fmt.Printf("REPLAY-PANIC: %v\n", r)
		}
	}()
	m := NewSessionManager()
	mac := net.HardwareAddr{0x02, 0, 0, 0, 0, 1}
	srv := net.HardwareAddr{0x02, 0, 0, 0, 0, 0xff}
	s1, _ := m.CreateSession(mac, srv)
	s2, _ := m.CreateSession(mac, srv)
	violated := false
	if got := m.GetSessionByMAC(mac); got == nil || m.GetSession(got.ID) != got || !bytes.Equal(got.ClientMAC, mac) {
		fmt.Printf("REPLAY-VIOLATED: with two live sessions of %s the MAC lookup returns %v\n", mac, got)
		violated = true
	}
	m.RemoveSession(s1.ID)
	if got := m.GetSessionByMAC(mac); m.GetSession(s2.ID) == s2 && got != s2 {
		fmt.Printf("REPLAY-VIOLATED: after RemoveSession(%d) (older session) the live session %d of MAC %s is no longer found by MAC (its index entry was deleted)\n", s1.ID, s2.ID, mac)
		violated = true
	}
	m.RemoveSession(s2.ID)
	if got := m.GetSessionByMAC(mac); got != nil {
		fmt.Printf("REPLAY-VIOLATED: all sessions of %s removed but the MAC lookup returns session %d\n", mac, got.ID)
		violated = true
	}
	if !violated {
		fmt.Println("REPLAY-OK")
	}
}
