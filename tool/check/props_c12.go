package check

// C12, clauses "serialising then restoring any allocator yields an allocator that
// answers every query identically" and "each subscriber recorded in the store
// maps to the same address after restart".
func init() {
	register(&PropDef{
		ID:    "C12",
		Title: "Allocator state survives serialisation and restart (clauses of C12)",
		Pkgs:  []string{"./pkg/allocator"},
		Funcs: []string{
			"allocator.IPAllocator.MarshalJSON", "allocator.IPAllocator.UnmarshalJSON",
			"allocator.IPAllocator.SetAllocation",
			"allocator.IPAllocator.Allocate", "allocator.IPAllocator.Release", "allocator.IPAllocator.Lookup",
			"allocator.IPAllocator.getIndexByPrefix", "allocator.IPAllocator.findFreeIndex", "allocator.IPAllocator.getPrefixByIndex",
			"allocator.DistributedAllocator.saveAllocation", "allocator.DistributedAllocator.deleteAllocation",
			"allocator.DistributedAllocator.allocationKey", "allocator.DistributedAllocator.keyPrefix",
			"allocator.DistributedAllocator.Allocate", "allocator.DistributedAllocator.Release",
			"allocator.DistributedAllocator.handleRemoteChange", "allocator.DistributedAllocator.loadAllocations", "allocator.DistributedAllocator.cleanupExpiredFromStore", "allocator.DistributedAllocator.Renew", "allocator.DistributedAllocator.getAllocation",
		},
		Trusted: []string{
			"iface allocator.Store.Put/Delete/Get/Query: fail nondeterministically; a call that returns an error had no effect on the store; ghost storePuts/storeDeletes/lastPutDoc record the effects that reached the store",
			"engine library model encoding/json (struct documents as member functions json_str/json_int/json_strmap_* of the byte sequence; Marshal writes the exported fields under their tag names, Unmarshal reads them into fresh maps; input documents arbitrary)",
			"engine library model math/big Text(16)/SetString(.,16): SetString succeeds iff big_valid16(s); big_parse16(big_text16(b)) == b; on failure the receiver's bits are arbitrary",
			"(*net.IPNet).String is a function of IP and Mask bytes; net.ParseCIDR returns a non-nil network on nil error",
			"mode seq (DistributedAllocator methods): the inner IPAllocator is reachable only through the DistributedAllocator whose mutex is held (loadAllocations: runs before any watcher/goroutine exists), so no other thread runs between a call and the callee's lock acquisition; the callee's lock invariant is asserted at each such call",
			"objects referenced by lock-protected fields are not shared with other objects (frame of functions that take the lock)",
			"trusted thin frames for EpochBitmapAllocator.Allocate/Release/Lookup/GetCurrentEpoch (lease branch is dead under requires sessionMode; to be replaced by verified C01/C05 contracts)",
		},
		// the snapshot document of the lease-mode allocator is built with fmt formatting the verifier does not
		// model, and its restore filter is under contract only as far as the invariants go: bounded stand-in
		BoundedChecks: []BoundedCheck{
			{ID: "allocator.epoch_roundtrip", Pkg: "github.com/codelaboratoryltd/bng/pkg/allocator", File: "allocator_epoch_roundtrip.go",
				Bound: "base networks /16, /22, /24, /28 x prefix lengths {24, 28, 30, 32} x grace periods {1, 2} x 0..3 epoch advances with renewals and one release: 120 allocator states",
				Claim: "the snapshot restores; same epoch, same Lookup / LookupByIP for every subscriber and address, same Stats, same next allocation"},
			{ID: "allocator.lease_remote_change", Pkg: "github.com/codelaboratoryltd/bng/pkg/allocator", File: "allocator_lease_remote_change.go",
				Bound: "lease-mode DistributedAllocator.handleRemoteChange called as the store's watch would: grace periods {1, 2} x local epoch after 0..4 advances x announced epoch 0..local+4 x three addresses x three prior states of the subscriber (unknown / holding the announced address / holding another one), then an announced delete: 810 cases",
				Claim: "every announced put not older than the local epoch minus the grace period (in particular every put stamped ahead of the local epoch) leaves the subscriber holding exactly the announced address, the address answering with that subscriber and never handed to a local subscriber afterwards; an announced delete leaves the subscriber without an address"},
			{ID: "allocator.store_atomic", Pkg: "github.com/codelaboratoryltd/bng/pkg/allocator", File: "allocator_store_atomic.go",
				Bound: "every history of up to 3 operations out of {SaveAllocation for 2 subscribers x 2 pools x 2 addresses, RemoveAllocation} on a real MemoryAllocationStore: 1884 histories, 480 refused operations",
				Claim: "an operation that returns an error leaves every query answer (GetByPool, GetBySubscriber, GetByIP, GetPoolUtilization, ListPools, Count, JSON snapshot) as it was -- the assumption 'error => no effect' the allocator contracts make about the store; an accepted save is visible through all three indexes"},
			{ID: "allocator.lease_restart", Pkg: "github.com/codelaboratoryltd/bng/pkg/allocator", File: "allocator_lease_restart.go",
				Bound: "lease-mode node on a shared store: grace periods {1, 2} x 0..6 epoch ticks before allocating x optional tick-and-renew in between x 4 subscribers, then a new node loads the store with the query answering in ascending / descending / map order: 84 restarts",
				Claim: "every record the store holds is answered by the restarted node with the recorded address (Get, GetByPrefix), no address is recorded twice, and four further allocations return none of the recorded addresses"},
		},
		Undecided: []string{
			"round trip of the pool configuration (base_network string -> net.ParseCIDR -> baseIP/baseMask/step/totalPrefixes): relies on ParseCIDR(IPNet.String()) which is not modelled; only prefix_length is tracked",
			"UnmarshalJSON rebuilds indexToSubscriber in a range-over-map loop; the engine's map iteration model does not track coverage, so 'indexToSubscriber is the inverse of allocated after restore' is by inspection",
			"the composition Unmarshal(Marshal(a)) is argued from the two contracts plus the Text/SetString axiom (report), not as a single mechanised obligation; nextFree is reset to 0 (not observable by queries, changes which free address the next Allocate picks)",
			"that the index SetAllocation installs is the index OF THE GIVEN PREFIX: getIndexByPrefix has only a range contract (its arithmetic goes through big.Int.SetBytes/To16)",
			"lease mode (EpochBitmapAllocator): no contracts in this package copy; the reload / remote-apply defect is confirmed by replay only (C12_lease_mode_reload_ignores_stored_address)",
			"loadAllocations: that EVERY store record is applied (per-record postcondition) needs loop-body locals in an iteration clause; decided only: the allocator invariant is preserved and each record is passed to SetAllocation (inspection)",
			"handleRemoteChange: conflicts (SetAllocation error) are dropped silently by the code; agreement with the announcing node is then lost (not expressible without a model of the peer)",
			"AllocateWithMAC and Renew (same structure as Allocate) are not under contract",
		},
		Assumptions: []string{
			"session-mode contracts require the IPAllocator invariant (nonnil, distinct, total, fwd, rev, bits, cnt) and da.store != nil",
			"store calls are atomic: error => no effect (a timed-out Put that was applied would break agreement in a way no local code can repair)",
		},
		Explanation: "MarshalJSON ensures the document holds big_text16 of the bitmap bits, the allocated map (dom/vals/len) and prefix_length. UnmarshalJSON ensures, relative to the document, bits == big_parse16(bitmap member) when it is valid hex, allocated == the document's map, allocatedCount == card(allocated); with the Text/SetString round-trip axiom this gives equal bitmap, map and count after Marshal;Unmarshal. The honest 'restored allocator satisfies the allocator invariant for ANY accepted document' ensures FAIL (genuine: nothing is cross-checked; replay C12_UnmarshalJSON_invariant shows a duplicate assignment, an out-of-range index and a nil-map panic). SetAllocation gets whole-view postconditions; its lock invariant cnt FAILS (genuine: repeated installation of the same allocation increments allocatedCount; replay). DistributedAllocator.Allocate/Release (session mode, mode seq) are verified against 'success: local map and store record agree; failure: neither changed'; two obligations FAIL and are genuine: the rollback of a failed idempotent Allocate releases the pre-existing allocation, and Release leaves the store record behind when the store delete fails (retry cannot repair it); replay C12_DistributedAllocate_rollback_releases_existing. handleRemoteChange/loadAllocations preserve the allocator invariant (modulo SetAllocation's finding).",
	})
}
