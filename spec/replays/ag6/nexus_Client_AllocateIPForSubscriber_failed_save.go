package nexus

// Replay for nexus.Client.AllocateIPForSubscriber.ensures[err != nil ==> the subscriber's IPv4Addr is unchanged]
// (C05: "a failed persistence puts the address back into circulation"). The cached subscriber
// record is updated before the store write; when the write fails the call returns an error but
// the address stays on the cached record, is reported by LookupSubscriberIP and is returned as
// "already allocated" by the next call although it was never persisted.

import (
	"context"
	"errors"
	"fmt"
	"testing"

	"go.uber.org/zap"
)

type failingPutStore struct {
	*MemoryStore
	fail bool
}

func (f *failingPutStore) Put(ctx context.Context, key string, value []byte) error {
	if f.fail {
		return errors.New("store unavailable")
	}
	return f.MemoryStore.Put(ctx, key, value)
}

func TestReplayVC(t *testing.T) {
	defer func() {
		if r := recover(); r != nil {
			fmt.Printf("REPLAY-PANIC: %v\n", r)
		}
	}()
	ctx := context.Background()
	store := &failingPutStore{MemoryStore: NewMemoryStore()}
	c := NewClient(DefaultClientConfig(), store, zap.NewNop())
	if err := c.Pools.Put(ctx, "pool-1", &IPPool{ID: "pool-1", CIDR: "10.9.0.0/24"}); err != nil {
		t.Fatal(err)
	}
	c.subscriberCache["sub-1"] = &Subscriber{ID: "sub-1", IPv4Pool: "pool-1"}
	store.fail = true
	_, err := c.AllocateIPForSubscriber(ctx, "sub-1")
	if err == nil {
		t.Fatal("expected the save to fail")
	}
	if ip, ok := c.LookupSubscriberIP("sub-1"); ok {
		fmt.Printf("REPLAY-VIOLATED: AllocateIPForSubscriber failed (%v) but the subscriber keeps %s, which was never persisted\n", err, ip)
		return
	}
	fmt.Println("REPLAY-OK")
}
