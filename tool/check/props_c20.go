package check

func init() {
	register(&PropDef{
		ID:    "C20",
		Title: "Subscriber-identifying keys map to at most one subscriber",
		Pkgs:  []string{"./pkg/nexus", "./pkg/qinq", "./pkg/pppoe", "./pkg/ebpf"},
		Funcs: []string{
			// nexus/vlan.go: NTE id <-> (S-TAG, C-TAG)
			"nexus.NewVLANAllocator", "nexus.VLANAllocator.findAvailableCTag", "nexus.VLANAllocator.findAvailable",
			"nexus.VLANAllocator.releaseUnlocked", "nexus.VLANAllocator.Release", "nexus.VLANAllocator.Get",
			"nexus.VLANAllocator.Allocate", "nexus.VLANAllocator.AllocateWithSTag", "nexus.VLANAllocator.LoadFromStore",
			// qinq/qinq.go: VLAN pair <-> subscriber id
			"qinq.VLANRange.Contains", "qinq.NewMapper", "qinq.Mapper.Register", "qinq.Mapper.Unregister",
			"qinq.Mapper.UnregisterSubscriber", "qinq.Mapper.GetSubscriber", "qinq.Mapper.GetVLAN",
			// pppoe/session.go: session id -> session, client MAC -> session id
			"pppoe.NewSession", "pppoe.NewSessionManager", "pppoe.SessionManager.CreateSession", "pppoe.SessionManager.GetSession",
			"pppoe.SessionManager.GetSessionByMAC", "pppoe.SessionManager.RemoveSession", "pppoe.SessionManager.CleanupExpired", "pppoe.SessionManager.unindexLocked",
			// ebpf/loader.go: relay circuit-id key
			"ebpf.MakeCircuitIDKey", "ebpf.HashCircuitID", "ebpf.Loader.AddCircuitIDSubscriber", "ebpf.Loader.RemoveCircuitIDSubscriber",
		},
		Undecided: []string{
			"pkg/state/store.go (Lease/Session/Subscriber index maintenance) is not under contract",
			"relay circuit-id keys: only the key function MakeCircuitIDKey is specified (exact key proved); the kernel map circuit_id_subscribers itself (Put/Delete/Lookup through cilium/ebpf) and the hash-based circuit_id_map are outside the Go heap model (its key function HashCircuitID is proved to be 64-bit FNV-1a over all bytes of the circuit-id, which is not injective). Injectivity of the key is refuted by replay (truncation to 32 bytes, trailing NULs), not by an obligation",
			"pppoe: a client MAC may hold several sessions (RFC 2516), so the MAC index cannot be a bijection; what is claimed for it is `rev` (every index entry leads to a live session with that MAC) plus the whole-view postconditions of RemoveSession/CleanupExpired (an index entry disappears only together with the session it refers to). That every live session is reachable by MAC is NOT claimed (after the newest session of a MAC is removed an older one of the same MAC is not re-indexed)",
			"qinq: the S-TAG ranges slice of the Mapper configuration is assumed not to be mutated by the caller of NewMapper after construction",
			"obligations answered 'unknown' where the expected answer is a counterexample (solver cannot build a model under the quantified invariants) are diagnosed by replay, see REPORT",
		},
		Assumptions: []string{
			"monitor model: the state owned by a mutex is arbitrary but satisfies the declared invariants after Lock/RLock; invariants are re-established at every Unlock/RUnlock",
			"*VLANAllocation objects returned by Allocate/Get and *Session objects returned by CreateSession/GetSession are not mutated by callers in the fields the invariants read (STag, CTag; ID, ClientMAC), and the byte arrays behind Session.ClientMAC are not overwritten after CreateSession",
			"inner maps of VLANAllocator.sTagUsage are reachable only through the allocator (never leaked)",
			"NewVLANAllocator is called with Start <= End for both ranges (precondition; not validated by the code, see REPORT)",
		},
		Trusted: []string{
			"net.HardwareAddr.String is a function of the address bytes (uninterpreted)",
			"crypto/rand.Read writes only into its argument; hex.EncodeToString, time.Now, fmt.Errorf have no effect on modelled state",
		},
		Explanation: "Per structure a bijection invariant is declared on the mutex-protected maps as two quantified lock invariants (fwd: the reverse index of a forward entry leads back to it; rev: every reverse entry has the matching forward entry), plus a range invariant for allocated tags and, for PPPoE, 'the session stored under id carries id and id != 0'. Every exported operation is verified to re-establish the invariants at Unlock and to satisfy whole-view postconditions (the view after the call equals the view at the linearisation point with exactly one key added/removed; every other mapping is unchanged). Release/Unregister/RemoveSession have whole-view postconditions stating that exactly the released key becomes unused. After the fixes fix_1..fix_4 (uint16 loop wrap in findAvailable/findAvailableCTag; AllocateWithSTag range check and keep-old-pair; LoadFromStore keep-the-first validation; CreateSession never id 0 / bounded probing / removal keeps the index entry of a newer session) every obligation discharges, termination of all loops included. Remaining C20 finding without an obligation: ebpf MakeCircuitIDKey is not injective (truncation to 32 bytes, trailing NULs; replay).",
	})
}
