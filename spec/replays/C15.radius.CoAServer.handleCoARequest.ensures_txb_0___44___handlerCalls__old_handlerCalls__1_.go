package radius

// Replay for the undischarged obligation
//   C15.radius.CoAServer.handleCoARequest.ensures[txb(0) == 44 ==> handlerCalls == old(handlerCalls) + 1]
// With no CoAHandler registered, an authentic CoA-Request is answered with
// CoA-ACK although no session-changing handler ran ("Default: accept all CoA
// requests" in handleCoARequest). Disconnect requests default to NAK.

import (
	"context"
	"crypto/md5"
	"encoding/binary"
	"fmt"
	"net"
	"testing"
	"time"

	"go.uber.org/zap"
)

func TestReplayVC(t *testing.T) {
	secret := "s3cret"
	srv, err := NewCoAServer(CoAServerConfig{Address: "127.0.0.1:0", Secret: secret}, zap.NewNop())
	if err != nil {
		t.Fatal(err)
	}
	ctx, cancel := context.WithCancel(context.Background())
	defer cancel()
	if err := srv.Start(ctx); err != nil {
		fmt.Println("REPLAY-SKIP: cannot open UDP socket:", err)
		return
	}
	defer srv.Stop()
	dst := srv.conn.LocalAddr().(*net.UDPAddr)

	sid := "no-such-session"
	attrs := append([]byte{AttrAcctSessionID, byte(2 + len(sid))}, sid...)
	attrs = append(attrs, AttrFilterID, 6, 'g', 'o', 'l', 'd')
	pkt := make([]byte, 20+len(attrs))
	pkt[0], pkt[1] = CodeCoARequest, 9
	binary.BigEndian.PutUint16(pkt[2:4], uint16(len(pkt)))
	copy(pkt[20:], attrs)
	h := md5.New()
	h.Write(pkt[:4])
	h.Write(make([]byte, 16))
	h.Write(pkt[20:])
	h.Write([]byte(secret))
	copy(pkt[4:20], h.Sum(nil))

	c, err := net.DialUDP("udp", nil, dst)
	if err != nil {
		t.Fatal(err)
	}
	defer c.Close()
	c.Write(pkt)
	c.SetReadDeadline(time.Now().Add(3 * time.Second))
	resp := make([]byte, 4096)
	n, err := c.Read(resp)
	if err != nil || n < 20 {
		fmt.Println("REPLAY-SKIP: no response:", err)
		return
	}
	if resp[0] == CodeCoAACK {
		fmt.Printf("REPLAY-VIOLATED: CoA-ACK (code %d, id %d) sent for session %q although no CoA handler is registered and nothing was changed\n", resp[0], resp[1], sid)
		return
	}
	fmt.Println("REPLAY-OK")
}
