package pppoe

// Replay for obligation C20.pppoe.SessionManager.CreateSession.lockinv[SessionManager.ids@unlock]#2
// (session id 0 handed out after the uint16 counter wraps: the trailing m.nextID++ does not
// skip 0) and for the non-termination witness (once every id is in use the probing loop
// `for { if !exists break; nextID++ }` never exits and the manager lock is held forever).

import (
	"fmt"
	"net"
	"testing"
	"time"
)

func TestReplayVC(t *testing.T) {
	defer func() {
		if r := recover(); r != nil {
			fmt.Printf("REPLAY-PANIC: %v\n", r)
		}
	}()
	m := NewSessionManager()
	srv := net.HardwareAddr{0x02, 0, 0, 0, 0, 0xff}
	mac := func(i int) net.HardwareAddr {
		return net.HardwareAddr{0x02, 0, byte(i >> 24), byte(i >> 16), byte(i >> 8), byte(i)}
	}
	for i := 1; i <= 65535; i++ {
		if _, err := m.CreateSession(mac(i), srv); err != nil {
			fmt.Printf("unexpected error: %v\n", err)
			return
		}
	}
	violated := false
	s, err := m.CreateSession(mac(70000), srv)
	if err == nil && s.ID == 0 {
		fmt.Printf("REPLAY-VIOLATED: with ids 1..65535 in use CreateSession handed out the reserved session id 0 (Count=%d)\n", m.Count())
		violated = true
	}
	done := make(chan struct{})
	go func() { m.CreateSession(mac(70001), srv); close(done) }()
	select {
	case <-done:
		fmt.Println("CreateSession on a full table returned")
	case <-time.After(3 * time.Second):
		fmt.Println("REPLAY-VIOLATED: CreateSession with every session id in use did not return within 3s (spins holding the manager lock)")
		violated = true
	}
	if !violated {
		fmt.Println("REPLAY-OK")
	}
}
