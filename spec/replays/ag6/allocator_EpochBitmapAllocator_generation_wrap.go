package allocator

// Replay for the EpochBitmapAllocator obligations (C05)
//   allocator.EpochBitmapAllocator.Allocate.ensures[err != nil ==> ... forall i :: 1 <= i < totalIPs-1 ==> i in locked(dom(a.ipToSubscriber))]
//   allocator.EpochBitmapAllocator.Stats.ensures[allocated == locked(card(a.subscribers)) ...]
//   allocator.EpochBitmapAllocator.Release: the released index can be obtained again
// The 2-bit generation tag of a slot that nobody holds (never used, or released) is compared
// with the current epoch modulo 4: two epochs later it equals the current generation again and
// the free slot counts as leased.

import (
	"context"
	"fmt"
	"testing"
)

func TestReplayVC(t *testing.T) {
	defer func() {
		if r := recover(); r != nil {
			fmt.Printf("REPLAY-PANIC: %v\n", r)
		}
	}()
	ctx := context.Background()
	violated := false

	// 1. an empty pool reports exhaustion after two epoch advances
	a, err := NewEpochBitmapAllocator(EpochBitmapConfig{BaseNetwork: "10.0.0.0/29", PrefixLength: 32, GracePeriod: 1})
	if err != nil {
		t.Fatal(err)
	}
	a.AdvanceEpoch()
	a.AdvanceEpoch()
	if _, err := a.Allocate(ctx, "sub-1"); err != nil {
		fmt.Printf("REPLAY-VIOLATED: empty pool (0 subscribers) after 2 epoch advances: Allocate -> %v\n", err)
		violated = true
	}
	if n, total, _ := a.Stats(); n != uint64(len(a.subscribers)) {
		fmt.Printf("REPLAY-VIOLATED: Stats reports %d of %d allocated, %d subscribers hold an address\n", n, total, len(a.subscribers))
		violated = true
	}

	// 2. a released address comes back only for two epochs, then it is lost for two epochs, and so on
	b, _ := NewEpochBitmapAllocator(EpochBitmapConfig{BaseNetwork: "10.0.0.0/30", PrefixLength: 32, GracePeriod: 1})
	// /30: usable indices 1 and 2
	if _, err := b.Allocate(ctx, "x"); err != nil {
		t.Fatal(err)
	}
	if _, err := b.Allocate(ctx, "y"); err != nil {
		t.Fatal(err)
	}
	b.Release(ctx, "x")
	b.Release(ctx, "y")
	b.AdvanceEpoch()
	b.AdvanceEpoch()
	if _, err := b.Allocate(ctx, "z"); err != nil {
		fmt.Printf("REPLAY-VIOLATED: both addresses released, nobody holds anything, 2 epochs later: Allocate -> %v\n", err)
		violated = true
	}

	// 3. grace period >= 2: a brand-new pool is exhausted from the start (generation 0 of the
	// untouched slots is within the grace distance of the initial epoch 2)
	c, _ := NewEpochBitmapAllocator(EpochBitmapConfig{BaseNetwork: "10.0.0.0/30", PrefixLength: 32, GracePeriod: 2})
	if _, err := c.Allocate(ctx, "x"); err != nil {
		fmt.Printf("REPLAY-VIOLATED: grace period 2, new pool, first Allocate -> %v\n", err)
		violated = true
	}
	if !violated {
		fmt.Println("REPLAY-OK")
	}
}
