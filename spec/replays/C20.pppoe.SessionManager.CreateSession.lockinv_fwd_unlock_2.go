package pppoe

// Replay for obligation C20.pppoe.SessionManager.CreateSession.lockinv[SessionManager.fwd@unlock]#2:
// a second CreateSession for a client MAC that already has a session overwrites the
// MAC index; the first session stays in the table but is no longer reachable by MAC,
// and removing the first session deletes the MAC index entry of the second one.

import (
	"fmt"
	"net"
	"testing"
)

func TestReplayVC(t *testing.T) {
	defer func() {
		if r := recover(); r != nil {
			fmt.Printf("REPLAY-PANIC: %v\n", r)
		}
	}()
	m := NewSessionManager()
	mac := net.HardwareAddr{0x02, 0, 0, 0, 0, 1}
	srv := net.HardwareAddr{0x02, 0, 0, 0, 0, 0xff}
	s1, _ := m.CreateSession(mac, srv)
	s2, _ := m.CreateSession(mac, srv)
	violated := false
	if got := m.GetSessionByMAC(s1.ClientMAC); m.GetSession(s1.ID) == s1 && got != s1 {
		fmt.Printf("REPLAY-VIOLATED: session %d (MAC %s) is live but GetSessionByMAC returns session %d\n", s1.ID, s1.ClientMAC, got.ID)
		violated = true
	}
	m.RemoveSession(s1.ID)
	if got := m.GetSessionByMAC(mac); m.GetSession(s2.ID) == s2 && got == nil {
		fmt.Printf("REPLAY-VIOLATED: after RemoveSession(%d) the live session %d of MAC %s is no longer found by MAC (index entry deleted)\n", s1.ID, s2.ID, mac)
		violated = true
	}
	if !violated {
		fmt.Println("REPLAY-OK")
	}
}
