package nexus

// Replay for obligation C20.nexus.VLANAllocator.AllocateWithSTag.lockinv[VLANAllocator.rng@unlock]:
// the requested S-TAG is not checked against the configured S-TAG range.

import (
	"fmt"
	"testing"
)

func TestReplayVC(t *testing.T) {
	defer func() {
		if r := recover(); r != nil {
			fmt.Printf("REPLAY-PANIC: %v\n", r)
		}
	}()
	cfg := DefaultVLANConfig()
	v := NewVLANAllocator(cfg)
	a, err := v.AllocateWithSTag("nte-a", 65535)
	if err == nil && (a.STag < cfg.STagRange.Start || a.STag > cfg.STagRange.End) {
		fmt.Printf("REPLAY-VIOLATED: AllocateWithSTag handed out S-TAG %d outside [%d,%d]\n", a.STag, cfg.STagRange.Start, cfg.STagRange.End)
		return
	}
	fmt.Println("REPLAY-OK")
}
