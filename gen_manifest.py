#!/usr/bin/env python3
"""Regenerates /verif/MANIFEST.json from the table below (run after adding a property check)."""
import json, subprocess

PROPS = [json.loads(l) for l in open('/verif/properties.jsonl')]

# property id -> (technique, level text, level note, design ref)
CLAIMED = {
 "C01": ("lock/representation invariants + whole-view postconditions on allocator.IPAllocator, VCs from the typed Go AST discharged by z3/cvc5",
         "Deductive proof, per function and for all inputs/histories/schedules of lock-protected calls, that the bitmap allocator's maps stay mutually inverse (no prefix index has two holders), indices stay below the pool size and a repeated Allocate returns the same index and changes nothing. Other pool implementations are listed as undecided in the evidence.",
         "Trusted: the VC generator and SMT encoding, solvers, assumed math/big and Go-map contracts, monitor model for sync.RWMutex; IP byte arithmetic only under frame contracts.", "DESIGN.md §5 C01"),
 "C02": ("ownership lock invariants (free list pairwise distinct, disjoint from bindings, bindings injective, quarantine) and whole-view postconditions on the DHCPv4 Pool and the DHCPv6 AddressPool/PrefixPool; ACK-gate and OFFER-source postconditions on the DHCPv4 handlers through ghost results of the pool queries; RELEASE/DECLINE routing postconditions (ghost call counters) on the DHCPv6 server; net.IP equality as an uninterpreted extensional class key; VCs discharged by z3/cvc5",
         "Deductive proof, per function and for all inputs / pool states, that the pools never hand out a value another client holds, keep every other binding untouched on release, return a released value to the free list and never a declined one; that DHCPv4 REQUEST is acknowledged only for the client's own lease address or the address the pool holds for its MAC, and DISCOVER offers only such an address; that DHCPv6 DECLINE quarantines and RELEASE releases. Three genuine defects (address hijack by REQUEST, declined v4 address re-offered, v6 DECLINE handled as RELEASE) were found by these obligations, replayed on the real code and repaired. The whole-history clauses (lease table vs pool agreement across two mutexes, expiry and virtual time, v6 lifetimes, relay/circuit-id takeover, pool members inside the network) are NOT decided and are listed as such in the evidence.",
         "Trusted: VC generator, solvers, ip_key model of net.IP.Equal/String, dhcpv4 library constructors assumed effect-free, trusted frames for kernel-map writers / socket / external allocator, monitor model per mutex (no cross-mutex invariants), pool invariants assumed established by the constructors.", "DESIGN.md §7 C02"),
 "C04": ("gate preconditions at every call site of the granting operations + provenance/inertness postconditions (ghost verdict of the RADIUS oracle), VCs from the typed Go AST discharged by z3/cvc5",
         "Deductive proof for the PPPoE server.go frame handlers: SetState(IPCP/Established), client-address assignment and IPCP handling are reachable only with session.Authenticated; Authenticated becomes true only from the RADIUS verdict; frames/PADT from a MAC that does not own the session leave it unchanged. Three genuine defects found by these obligations were repaired (fix: commits).",
         "Trusted: VC generator, solvers, trusted contract for radius.Client.Authenticate (oracle) and rawSocket.send, monitor model for Session.mu/SessionManager.mu; CHAP/Authenticator path not under contract.", "DESIGN.md §5 C04"),
 "C11": ("lock invariant over ghost acknowledgement flags (state=Opened => acked peer's latest request and peer acked ours) on every method of the LCP automaton + per-event postconditions, sendPacket callback observed through a functype contract; VCs discharged by z3/cvc5",
         "Deductive proof for the LCP option-negotiation automaton (lcp.go): the opened state implies mutual acknowledgement of the most recent requests, every renegotiation/terminate/down/close event leaves Opened, replies echo the request identifier, and the restart counter bounds retransmissions. One genuine RFC 1661 deviation (TO+ in Ack-Rcvd) was found by the invariant and repaired. IPCP/IPv6CP and option-list contents are undecided.",
         "Trusted: VC generator, solvers, callbacks sendPacket/onStateChange assumed not to modify the automaton, monitor model for mu/timerMu, timer firing order.", "DESIGN.md §5 C11"),
 "C05": ("count/exhaustion lock invariants and postconditions on allocator.IPAllocator (ghost cardinalities), VCs discharged by z3/cvc5",
         "Deductive proof that allocatedCount equals the cardinality of both maps after every operation, that exhaustion is reported only when every index is taken, and that Stats returns those figures; one configuration-dependent defect (pools of 2^63+ prefixes) is a recorded known finding.",
         "Same trusted base as C01; cardinalities are ghost counters updated at map insert/delete.", "DESIGN.md §5 C05"),
 "C08": ("attribute-level postconditions on radius.Client.SendAccounting through an assumed model of the layeh/radius setters (ghost record of attributes written), VCs discharged by z3/cvc5",
         "Deductive proof of one clause of C08: for every 64-bit counter value the Acct-*-Octets attribute holds the value mod 2^32 and Acct-*-Gigawords the value div 2^32, and session id / user name / NAS id / class / framed IP / status are copied from the request; a defect (identifier silently dropped when it does not fit an attribute) was found and repaired. The Start/Stop ordering, retry, durability and crash clauses of C08 are NOT decided (listed as undecided).",
         "Trusted: VC generator, solvers, assumed contracts of the layeh/radius attribute setters and radius.Exchange.", "DESIGN.md §5 C08"),
 "C12": ("contracts on IPAllocator.MarshalJSON/UnmarshalJSON (assumed encoding/json and big.Int text round-trip models), SetAllocation, and DistributedAllocator Allocate/Release/handleRemoteChange/loadAllocations with the store as nondeterministic-error interface contracts; VCs discharged by z3/cvc5",
         "Deductive proof (session mode) that UnmarshalJSON establishes the allocator invariant for every input document and reproduces the document's allocation map (serialise->restore round trip), that DistributedAllocator.Allocate/Release leave memory and store in agreement on success and on store failure, and that reload/remote-apply preserve the invariant. Three genuine defects were found by these obligations and repaired. Lease mode (EpochBitmapAllocator) is under trusted frames only: its reload behaviour is undecided.",
         "Trusted: VC generator, solvers, assumed JSON/big.Int models, AllocationStore calls atomic (error => no effect), 'mode seq' for the inner allocator (reachable only under da.mu).", "DESIGN.md §5 C12"),
 "C13": ("map-view contracts on the standby session store verified against InMemorySessionStore, loop invariants over the received snapshot, per-message-type postconditions on the SSE handler, with the top-level postcondition 'store == snapshot after a completed full sync' taken from the property; VCs discharged by z3/cvc5",
         "Deductive proof that after performFullSync / a full message the standby store's domain equals the received snapshot and agrees with it on every id, that add/update/delete messages are applied in list order with last-writer-wins, that heartbeats and unknown messages change nothing, and that PushChange assigns strictly increasing sequence numbers. One genuine defect (full sync merged instead of replacing, on both paths) was found by these obligations and repaired. NOT decided: delivery of every pushed change over the per-connection channel (channels are not modelled; a drop on a full channel is recorded as an observation), reconnection schedules.",
         "Trusted: VC generator, solvers, JSON decoding model, interface contracts of SessionStore mirrored from the verified in-memory store, assumption keyed(store), HTTP transport.", "DESIGN.md §7 C13"),
 "C14": ("per-critical-section postconditions (lockedN/unlockedN in program order) and a complete transition table on the failover controller, ghost completed-event counter, callbacks through functype contracts; VCs discharged by z3/cvc5",
         "Deductive proof for FailoverController: health events never change the role and never enter in-progress; executeFailover/executeFailback write the role only in the critical section that follows a successful role-change callback, emit exactly one completed event on that path and none otherwise, leave in-progress on every return path, and failback completes only if the partner was reported healthy during the call; ForceFailover never returns in state in-progress. One genuine defect (ForceFailover left the controller in progress for ever) was found and repaired. NOT decided: 'down continuously for the configured delay' across timer firings (timer semantics; a stale-timer promotion and a double promotion across invocations are recorded as observations).",
         "Trusted: VC generator, solvers, functype contracts of the handlers/callback (modify nothing), monitor model for c.mu, time.AfterFunc closures verified as separate functions with arbitrary entry state.", "DESIGN.md §7 C14"),
 "C17": ("set-level characterisation of ownership (top score among members) with loop invariants on rendezvousHash, permutation contract on rendezvousRanked through an assumed sort model, and three machine-checked lemmas (order independence, minimal disruption on removal, join disruption); VCs discharged by z3/cvc5",
         "Deductive proof that the owner is the member with the maximal score (unique under distinct scores), hence independent of the order and multiplicity in which peers were configured or added; that the ranked list is a permutation of the peer set in non-increasing score order headed by the owner; that removing a peer or marking it unhealthy changes the owner only where that peer was the owner. NOT decided: score ties under FNV-1a collisions (stated precondition; recorded observation), 'nothing else was added' converses for AddPeer/RemovePeer, that the HTTP forwarding serves a request from exactly one pool.",
         "Trusted: VC generator, solvers, hashString/hashCombine as uninterpreted functions, assumed contract of sort.Slice with an opaque comparator, monitor model for the pool mutex.", "DESIGN.md §7 C17"),
 "C15": ("uninterpreted-hash ghost state (absorb/sum over byte sequences) with the RFC 5176 authenticator formula written independently in the spec; gating preconditions on the handlers at their call sites in receiveLoop; response bytes observed through a ghost snapshot of WriteToUDP; VCs discharged by z3/cvc5",
         "Deductive proof for the CoA/Disconnect listener: verifyRequestAuthenticator returns true iff the Request Authenticator verifies (16-byte comparison loop included); handlers are invoked only for complete, authentic datagrams whose attributes parse, and such a datagram produces exactly one response; the response carries code, identifier, length, attributes and a Response Authenticator that verifies against the request. One defect repaired (Reply-Message length), one recorded as known finding (default ACK without handler, pinned by an existing test).",
         "Trusted: VC generator, solvers, MD5 as an uninterpreted function (no cryptographic claim), assumed models of net.UDPConn Read/Write, callbacks assumed not to touch the socket/buffer.", "DESIGN.md §5 C15"),
 "C16": ("ghost release counters set by the contracts of every release operation; whole-teardown postcondition on the DHCPv4 teardown path and exactly-once/none postconditions on RELEASE, DECLINE and expiry; VCs discharged by z3/cvc5",
         "Deductive proof for the DHCPv4 server: ending a session by RELEASE, DECLINE or lease expiry returns (or quarantines) the address exactly once, removes NAT and QoS when configured, removes the MAC / VLAN-pair / circuit-id fast-path entries that exist, and issues exactly one Accounting-Stop iff a RADIUS session was started; a client without a lease causes no release. Two genuine defects (DECLINE and expiry released almost nothing) were found and repaired. PPPoE and RADIUS-disconnect paths are undecided.",
         "Trusted: VC generator, solvers, trusted frames for the eBPF/QoS removers, goroutine closures executed inline, monitor model for the server's and pools' mutexes.", "DESIGN.md §5 C16"),
 "C07": ("bit-precise symbolic execution of the LLVM IR that clang-14 produces from the real bpf/*.c on every run: in-bounds obligation per memory access, unwinding obligation per loop, verdict-set and pass-unmodified obligations per program; z3/cvc5; counterexamples replayed on the natively compiled C against a guard page",
         "Deductive proof, for every frame length 0..65535, every frame content, every ctx and every map state, that the seven XDP/TC entry points only touch bytes inside their regions (packet, stack, map values), terminate (loops fully unrolled with unwinding obligations), return a verdict of their program type, and return the pass verdict only with the frame unmodified unless the program's acts predicate holds. Two genuine pass-after-rewrite paths in dhcp_fastpath.c were found, replayed natively and repaired.",
         "Trusted: clang/opt, the IR executor written for this task, solvers, BPF helper contracts (assumed), x86_64 IR standing for the bpf target.", "DESIGN.md §5 C07"),
 "C20": ("lock invariants (forward map / reverse map agreement, range, freshness) and whole-view postconditions on nexus.VLANAllocator, pppoe.SessionManager and the qinq/ebpf key constructors, with loop invariants and variants; VCs discharged by z3/cvc5",
         "Deductive proof that each (S-TAG, C-TAG) pair and each PPPoE session id identifies at most one subscriber, allocated pairs lie inside the configured ranges, forward and reverse indexes agree after every operation (Allocate, AllocateWithSTag, Release, LoadFromStore, CreateSession, RemoveSession, CleanupExpired), release leaves every other mapping untouched, every search loop terminates, and key constructors are the stated functions of their inputs. Eleven failing obligations were genuine defects, repaired in four fix: commits. Not claimed: reachability of an older session of a MAC after the newest one is removed; injectivity of the 32-byte circuit-id key (see DESIGN.md).",
         "Trusted: VC generator, solvers, Go-map model, monitor model for the allocator/session-manager mutexes, NewSession's crypto/rand model.", "DESIGN.md §7 C20"),
 "C10": ("lock invariants on nat.Manager (pool counters, configuration validity, id uniqueness, block disjointness) and postconditions on NewManager/AddPublicIP/AllocateNAT/DeallocateNAT; VCs discharged by z3/cvc5",
         "Deductive proof that the configuration accepted by NewManager keeps every block inside the port range with the configured size, that pool counters stay within capacity, and that allocation records carry the block they were given; the block-disjointness invariant and the 'same block until released' postconditions FAIL on the current code and are recorded as known findings with replays (count-derived blocks; check-then-act across two mutexes; id counter bound). The logging clause is not decided.",
         "Trusted: VC generator, solvers, eBPF map Put/Delete and the NAT logger as frame-only contracts, monitor model per mutex (no cross-mutex invariants).", "DESIGN.md §7 C10"),
 "C09": ("zero-annotation safety sweep: index/slice/nil/div/make obligations + loop variants with Houdini-inferred invariants over every function reachable from the network-facing decoders, counterexamples replayed on the real code",
         "Deductive proof of absence of run-time panics and of loop termination measures for the obligations recorded in spec/C09.baseline.json (about 1700 obligations, 117 fully clean functions) for all byte strings and all receiver states; obligations that need caller-side contracts are listed as undecided and not claimed.",
         "Trusted: VC generator, solvers, assumed library contracts (encoding/binary, net, hash, zap...), third-party decoders assumed not to panic, heap havoc at un-contracted calls and lock acquisitions.", "DESIGN.md §5 C09"),
}

NOT_APPLICABLE_REASON = {}
DEFAULT_NA = "check not built yet (contracts for this property are still being written); see DESIGN.md §5"

def main():
    checks = []
    for pid, (tech, text, note, ref) in sorted(CLAIMED.items()):
        checks.append({
            "property_id": pid,
            "quick_cmd": f"/verif/bin/bngvc check -property {pid} -tier quick",
            "thorough_cmd": f"/verif/bin/bngvc check -property {pid} -tier thorough",
            "evidence_file": f"/verif/evidence/{pid}.json",
            "replay_cmd_template": "/verif/bin/bngvc replay {path}",
            "engine": "bngvc",
            "level_claimed": {"category": "proof", "text": text, "design_ref": ref},
            "level_note": note,
            "technique": tech,
        })
    na = []
    for p in PROPS:
        if p["id"] not in CLAIMED:
            na.append({"property_id": p["id"], "reason": NOT_APPLICABLE_REASON.get(p["id"], DEFAULT_NA)})
    hooks = subprocess.run(["git", "-C", "/repo", "log", "--format=%h %s", "--grep=^verif hook"], capture_output=True, text=True).stdout.strip().splitlines()
    m = {
        "version": 1,
        "setup_cmd": "cd /verif/tool && GOFLAGS=-mod=vendor GOPROXY=off GOTOOLCHAIN=auto go build -o /verif/bin/bngvc ./cmd/bngvc",
        "hooks": {
            "guard": "verif",
            "enable": "the checker loads /repo with go/packages and -tags=verif; the only hook files are comment-only pkg/<pkg>/verif_contracts.go (//go:build verif) holding the //@ contracts",
            "baseline_off_cmd": "cd /repo && go test -vet=off -count=1 -timeout 25m ./...",
            "source_commits": [h.split()[0] for h in hooks],
            "add_only": True,
        },
        "engines": [{"name": "bngvc", "path": "/verif/tool", "serves_properties": sorted(CLAIMED),
                     "kind_free_text": "contract-based deductive verifier written for this task: VC generation over the typed Go AST (go/packages) with contracts in //@ comment files, per-obligation SMT queries raced on z3 5.1 / z3 4.8 / cvc5; counterexamples replayed on the real code through go test -overlay"}],
        "checks": checks,
        "not_applicable": na,
        "notes": "Known findings: /verif/known_findings.json. Baselines of discharged obligations: /verif/spec/*.baseline.json. Hand-written replays for method-level findings: /verif/spec/replays/.",
    }
    json.dump(m, open('/verif/MANIFEST.json', 'w'), indent=1)
    print("MANIFEST.json written:", len(checks), "checks,", len(na), "not applicable")

if __name__ == "__main__":
    main()
