package check

func init() {
	register(&PropDef{
		ID:    "C03",
		Title: "The kernel fast path answers exactly as the userspace server would, for cached leases only",
		BPF: []BPFUnit{
			{"dhcp_fastpath.c", "dhcp_fastpath_prog"},
		},
		// kernel half: well-formedness of the transmitted reply and its agreement
		// with the map contents (specifications /verif/spec/bpf/dhcp_reply.vspec and
		// dhcp_reply_ihl.vspec); memory safety / pass-unmodified of the same program is C07
		BPFKinds: "reply_wf,reply_wf_any_ihl,reply_wf_ihl6,reply_wf_vlan1,reply_wf_vlan2",
		Undecided: []string{
			"equality of the reply with what the userspace DHCP server would send for the same request (comparison with the Go code in pkg/dhcp: option set and order, T1/T2, broadcast/unicast choice, relay handling): not decided here; the kernel half only shows that every value in the reply is the specified function of the frame and of the map value bytes (pool_assignment, ip_pool, dhcp_server_config)",
			"'for cached leases only' beyond the lookups themselves: that the control plane removes / expires the map entries when a lease ends is the Go side (C16: release paths call the Remove* loaders); the fast path's own lease_expiry test against bpf_ktime_get_ns is executed symbolically but no wall-clock relation between the two clocks is claimed",
			"reply_wf is evaluated on a symbolic execution with frame bytes 12..14 pinned to 08 00 45: untagged Ethernet II, IPv4, ihl 5; its value contracts additionally assume option 53 as the first option and no option-82 byte at the positions the fast path probes (subscriber found by client MAC in subscriber_pools). VLAN-tagged / QinQ requests, subscribers found through vlan_subscriber_pools or circuit_id_subscribers, and other option layouts are not covered by the value contracts (memory safety of those paths is C07)",
			"requests with IP options: only 'not answered in kernel' (reply_wf_any_ihl for every framing, reply_wf_ihl6 as the pinned instance 08 00 46)",
			"UDP checksum (the reply sends 0 = none), IP identification / fragment fields (copied from the request), Ethernet addressing policy and relay (giaddr) addressing: not specified here",
		},
		Assumptions: []string{
			"frame length, all other frame bytes, ctx, helper results and all map contents symbolic; map entries are ghost (key -> presence, value bytes) pairs shared between the program's lookups and the specification (equal keys, equal entry)",
			"bpf_xdp_adjust_tail contract: returns 0 and data_end moves by delta, or fails and nothing changes (C07 helper contracts)",
		},
		Explanation: "dhcp_fastpath_prog is compiled from bpf/dhcp_fastpath.c on every run and executed symbolically (see C07). For every return site that yields XDP_TX the transmitted frame (bytes at concrete offsets, new data_end) is related to the received frame and the map values: IP total length and UDP length equal the new frame length, the IP checksum field is the complement of the folded sum of the other nine header words (and, as a lemma on free values, such a header sums to 0xFFFF), BOOTP op is 2, xid, chaddr and the magic cookie are unchanged, source port 67 and destination port 68/67, option 53 is OFFER for DISCOVER and ACK for REQUEST and nothing else is answered, yiaddr is the allocated address, siaddr and option 54 are the configured server address (or the pool gateway), options 51, 1, 3 and 6 carry lease time, mask(prefix_len), gateway and DNS servers of the pool. Requests whose IP header carries options are never answered in kernel. Counterexamples are replayed on the natively compiled program.",
	})
}
