package allocator

// Bounded stand-in for "each subscriber recorded in the store maps to the same address after restart
// as before and no address is assigned to two subscribers" in LEASE mode (the EpochBitmapAllocator is
// not under contract; the deductive check of loadAllocations covers session mode). A lease-mode node
// on a shared store ticks its epoch 0..6 times, allocates 2 subscribers, optionally ticks once more
// and renews them, allocates 2 more; then a NEW node (a restart: its epoch counter starts again)
// loads the same store, with the store's query answering in ascending, descending or map order.
// Grace periods {1, 2}. Oracle, from the property statement: every record the store holds after the
// reload is answered by the new node with the recorded address (Get) and the address answers with
// that subscriber (GetByPrefix); four further allocations on the new node return none of the recorded
// addresses.

import (
	"context"
	"encoding/json"
	"fmt"
	"net"
	"sort"
	"strings"
	"sync"
	"testing"
	"time"
)

type restartStore struct {
	mu    sync.Mutex
	m     map[string][]byte
	order int // 0 ascending, 1 descending, 2 map order
}

func (s *restartStore) Get(ctx context.Context, key string) ([]byte, error) {
	s.mu.Lock()
	defer s.mu.Unlock()
	if v, ok := s.m[key]; ok {
		return v, nil
	}
	return nil, fmt.Errorf("not found")
}
func (s *restartStore) Put(ctx context.Context, key string, value []byte) error {
	s.mu.Lock()
	defer s.mu.Unlock()
	s.m[key] = append([]byte(nil), value...)
	return nil
}
func (s *restartStore) Delete(ctx context.Context, key string) error {
	s.mu.Lock()
	defer s.mu.Unlock()
	delete(s.m, key)
	return nil
}
func (s *restartStore) Query(ctx context.Context, prefix string) ([]KeyValue, error) {
	s.mu.Lock()
	defer s.mu.Unlock()
	var out []KeyValue
	for k, v := range s.m {
		if strings.HasPrefix(k, prefix) {
			out = append(out, KeyValue{Key: k, Value: v})
		}
	}
	switch s.order {
	case 0:
		sort.Slice(out, func(i, j int) bool { return out[i].Key < out[j].Key })
	case 1:
		sort.Slice(out, func(i, j int) bool { return out[i].Key > out[j].Key })
	}
	return out, nil
}
func (s *restartStore) Watch(prefix string, callback func(key string, value []byte, deleted bool)) {}

func TestBoundedVC(t *testing.T) {
	ctx := context.Background()
	bad, cases := 0, 0
	report := func(format string, a ...any) {
		if bad < 5 {
			fmt.Printf("BOUNDED-VIOLATED "+format+"\n", a...)
		}
		bad++
	}
	for _, grace := range []int{1, 2} {
		for ticks := 0; ticks <= 6; ticks++ {
			for _, midTick := range []bool{false, true} {
				for order := 0; order < 3; order++ {
					cases++
					name := fmt.Sprintf("grace=%d ticks-before=%d tick-and-renew-in-between=%v query-order=%d", grace, ticks, midTick, order)
					store := &restartStore{m: map[string][]byte{}, order: order}
					cfg := DistributedConfig{PoolID: "lease", BaseNetwork: "10.5.0.0/28", PrefixLen: 32, Mode: PoolModeLease, EpochPeriod: time.Hour, EpochGrace: grace}
					a, err := NewDistributedAllocator(cfg, store)
					if err != nil {
						t.Fatalf("construct: %v", err)
					}
					for i := 0; i < ticks; i++ {
						a.AdvanceEpoch()
					}
					for _, s := range []string{"s1", "s2"} {
						if _, err := a.Allocate(ctx, s); err != nil {
							report("%s: Allocate(%s): %v", name, s, err)
						}
					}
					if midTick {
						a.AdvanceEpoch()
						a.Renew(ctx, "s1")
						a.Renew(ctx, "s2")
					}
					for _, s := range []string{"s3", "s4"} {
						if _, err := a.Allocate(ctx, s); err != nil {
							report("%s: Allocate(%s): %v", name, s, err)
						}
					}
					// restart: a new node on the same store
					b, _ := NewDistributedAllocator(cfg, store)
					if err := b.loadAllocations(ctx); err != nil {
						report("%s: loadAllocations: %v", name, err)
						continue
					}
					recorded := map[string]string{} // address -> subscriber
					kvs, _ := store.Query(ctx, "/allocation/lease/")
					if len(kvs) != 4 {
						report("%s: the store holds %d records after the reload, 4 were written", name, len(kvs))
					}
					for _, kv := range kvs {
						var rec DistributedAllocation
						if json.Unmarshal(kv.Value, &rec) != nil {
							continue
						}
						if other, dup := recorded[rec.Prefix]; dup {
							report("%s: the store records %s for %s and %s", name, rec.Prefix, other, rec.SubscriberID)
						}
						recorded[rec.Prefix] = rec.SubscriberID
						got, ok := b.Get(rec.SubscriberID)
						if !ok || got.String() != rec.Prefix {
							report("%s: %s is recorded with %s (epoch %d) but the restarted node answers %v", name, rec.SubscriberID, rec.Prefix, rec.Epoch, got)
							continue
						}
						_, n, _ := net.ParseCIDR(rec.Prefix)
						if who, ok := b.GetByPrefix(n); !ok || who != rec.SubscriberID {
							report("%s: %s is recorded for %s but the restarted node answers %q", name, rec.Prefix, rec.SubscriberID, who)
						}
					}
					for i := 0; i < 4; i++ {
						s := fmt.Sprintf("new-%d", i)
						if p, err := b.Allocate(ctx, s); err == nil {
							if owner, taken := recorded[p.String()]; taken {
								report("%s: after the restart %s was handed to %s although the store records it for %s", name, p, s, owner)
							}
						}
					}
				}
			}
		}
	}
	if bad > 0 {
		t.Fatalf("%d violations in %d cases", bad, cases)
	}
	fmt.Printf("BOUNDED-OK %d restarts\n", cases)
}
