package govc

import (
	"go/ast"
	"go/constant"
	"go/types"
	"strings"

	"bngvc/smt"
)

// Ghost model of the layeh.com/radius attribute API (assumed library contract).
//
// A *radius.Packet p carries, per attribute type number t:
//
//	rad:has[p][t]    Bool  an attribute of type t is present
//	rad:int[p][t]    Int   its value when set through an integer setter
//	rad:str[p][t]    Str   its value when set through X_SetString
//	rad:bytes[p][t]  Int   its value as a byte sequence (bseq) when set through a []byte / net.IP setter
//
// radius.New returns a fresh packet without attributes. The generated setters
// rfcNNNN.X_Set / X_SetString / X_Add / X_AddString / X_Del are recognised by
// name; the attribute number is the package constant X_Type. X_Set replaces,
// X_SetString and the []byte setter fail (non-nil error, packet unchanged) when
// the value is longer than 253 octets, the net.IP setter fails unless the
// address is IPv4. radius.Exchange(ctx, p, addr) snapshots the attributes of
// the packet it is given (rad:sent*) and counts the exchange; it does not modify
// program memory.
//
// Spec functions: rad_has(p) rad_int(p) rad_str(p) rad_bytes(p) (views indexed by
// attribute number), rad_sent_has() rad_sent_int() rad_sent_str()
// rad_sent_bytes() rad_sent_count(); modifies targets rad_attrs(p), rad_sent.

const (
	radHasKey   = "rad:has"
	radIntKey   = "rad:int"
	radStrKey   = "rad:str"
	radBytesKey = "rad:bytes"
	radSentCnt  = "rad:sentcount"
	radSentHas  = "rad:senthas"
	radSentInt  = "rad:sentint"
	radSentStr  = "rad:sentstr"
	radSentByt  = "rad:sentbytes"
)

func (fv *funcVerifier) radDecls() {
	fv.regHeap(radHasKey, smt.Arr(smt.Int, smt.Arr(smt.Int, smt.Bool)))
	fv.regHeap(radIntKey, smt.Arr(smt.Int, smt.Arr(smt.Int, smt.Int)))
	fv.regHeap(radStrKey, smt.Arr(smt.Int, smt.Arr(smt.Int, StrSort)))
	fv.regHeap(radBytesKey, smt.Arr(smt.Int, smt.Arr(smt.Int, smt.Int)))
	fv.regHeap(radSentCnt, smt.Arr(smt.Int, smt.Int))
	fv.regHeap(radSentHas, smt.Arr(smt.Int, smt.Arr(smt.Int, smt.Bool)))
	fv.regHeap(radSentInt, smt.Arr(smt.Int, smt.Arr(smt.Int, smt.Int)))
	fv.regHeap(radSentStr, smt.Arr(smt.Int, smt.Arr(smt.Int, StrSort)))
	fv.regHeap(radSentByt, smt.Arr(smt.Int, smt.Arr(smt.Int, smt.Int)))
}

var radAttrKeys = []string{radHasKey, radIntKey, radStrKey, radBytesKey}
var radSentKeys = []string{radSentCnt, radSentHas, radSentInt, radSentStr, radSentByt}

func (fv *funcVerifier) radView(st *State, key string, p smt.Term) smt.Term {
	fv.radDecls()
	fv.instFrames(key, p)
	return smt.Select(fv.heapGet(st, key), p)
}

// radUpdate stores v at attribute t of packet p under key when ok holds.
func (fv *funcVerifier) radUpdate(st *State, key string, p, t, v, ok smt.Term) {
	h := fv.heapGet(st, key)
	inner := smt.Select(h, p)
	upd := smt.Store(inner, t, v)
	if !ok.IsTrue() {
		upd = smt.Ite(ok, upd, inner)
	}
	fv.mut++
	fv.heapSet(st, key, smt.Store(h, p, upd))
}

// layehModel returns the model for a generated attribute accessor, or nil.
func layehModel(fn *types.Func) libHandler {
	if fn.Pkg() == nil || !strings.HasPrefix(fn.Pkg().Path(), "layeh.com/radius/") {
		return nil
	}
	sig := fn.Type().(*types.Signature)
	if sig.Recv() != nil {
		return nil
	}
	i := strings.LastIndex(fn.Name(), "_")
	if i <= 0 {
		return nil
	}
	attr, op := fn.Name()[:i], fn.Name()[i+1:]
	switch op {
	case "Set", "SetString", "Add", "AddString", "Del":
	default:
		return nil
	}
	tc, ok := fn.Pkg().Scope().Lookup(attr + "_Type").(*types.Const)
	if !ok || tc.Val().Kind() != constant.Int {
		return nil
	}
	tnum, _ := constant.Int64Val(tc.Val())
	return func(fv *funcVerifier, st *State, call *ast.CallExpr, fn *types.Func) []smt.Term {
		fv.radDecls()
		args := fv.evalArgs(st, call, sig)
		p := args[0]
		fv.nilCheck(st, p, call.Args[0], call.Pos())
		for _, k := range radAttrKeys {
			fv.instFrames(k, p)
		}
		t := smt.IntLit(tnum)
		if op == "Del" {
			fv.radUpdate(st, radHasKey, p, t, smt.False, smt.True)
			return nil
		}
		if op == "Add" || op == "AddString" {
			fv.note("layeh %s: multi-valued attributes are tracked by their most recent value only", fn.Name())
		}
		ok := smt.True
		vt := sig.Params().At(1).Type()
		v := args[1]
		switch {
		case isString(vt):
			ok = fv.c.Let("radok", smt.Le(smt.App(smt.Int, "str_len", v), smt.IntLit(253)))
			fv.radUpdate(st, radStrKey, p, t, v, ok)
		case isInteger(vt):
			fv.radUpdate(st, radIntKey, p, t, v, ok)
		case vt.String() == "net.IP":
			fv.hashDecls()
			key := fv.memKey(types.Typ[types.Uint8])
			fv.instFrames(key, slArr(v))
			is4in6 := fv.c.Fresh("ip4in6", smt.Bool)
			ok = fv.c.Let("radok", smt.Or(smt.Eq(slLen(v), smt.IntLit(4)), smt.And(smt.Eq(slLen(v), smt.IntLit(16)), is4in6)))
			seq := smt.Ite(smt.Eq(slLen(v), smt.IntLit(4)),
				smt.App(smt.Int, "bseq", smt.Select(fv.heapGet(st, key), slArr(v)), slOff(v), smt.IntLit(4)),
				smt.App(smt.Int, "bseq", smt.Select(fv.heapGet(st, key), slArr(v)), smt.Add(slOff(v), smt.IntLit(12)), smt.IntLit(4)))
			fv.radUpdate(st, radBytesKey, p, t, fv.c.Let("radseq", seq), ok)
		case v.Sort == SliceSort:
			fv.hashDecls()
			key := fv.memKey(types.Typ[types.Uint8])
			fv.instFrames(key, slArr(v))
			ok = fv.c.Let("radok", smt.Le(slLen(v), smt.IntLit(253)))
			seq := smt.App(smt.Int, "bseq", smt.Select(fv.heapGet(st, key), slArr(v)), slOff(v), slLen(v))
			fv.radUpdate(st, radBytesKey, p, t, fv.c.Let("radseq", seq), ok)
		default:
			fv.note("layeh %s: value of type %s is not tracked (presence only)", fn.Name(), vt)
		}
		fv.radUpdate(st, radHasKey, p, t, smt.True, ok)
		if sig.Results().Len() == 0 {
			return nil
		}
		if ok.IsTrue() {
			return []smt.Term{smt.IntLit(0)}
		}
		e := fv.freshNonNil(st, "raderr", sig.Results().At(0).Type())
		return []smt.Term{fv.c.Let("raderr", smt.Ite(ok, smt.IntLit(0), e))}
	}
}

func init() {
	libModels["layeh.com/radius.New"] = func(fv *funcVerifier, st *State, call *ast.CallExpr, fn *types.Func) []smt.Term {
		fv.radDecls()
		fv.evalArgs(st, call, fn.Type().(*types.Signature))
		p := fv.alloc(st, "radpkt")
		h := fv.heapGet(st, radHasKey)
		none := smt.Term{S: "((as const " + smt.Arr(smt.Int, smt.Bool) + ") false)", Sort: smt.Arr(smt.Int, smt.Bool)}
		fv.mut++
		fv.heapSet(st, radHasKey, smt.Store(h, p, none))
		return []smt.Term{p}
	}
	libModels["layeh.com/radius.Exchange"] = func(fv *funcVerifier, st *State, call *ast.CallExpr, fn *types.Func) []smt.Term {
		fv.radDecls()
		args := fv.evalArgs(st, call, fn.Type().(*types.Signature))
		p := args[1]
		fv.nilCheck(st, p, call.Args[1], call.Pos())
		fv.setGhost0(st, radSentCnt, fv.c.Let("radsent", smt.Add(fv.ghost0(st, radSentCnt), smt.IntLit(1))))
		fv.setGhost0(st, radSentHas, fv.radView(st, radHasKey, p))
		fv.setGhost0(st, radSentInt, fv.radView(st, radIntKey, p))
		fv.setGhost0(st, radSentStr, fv.radView(st, radStrKey, p))
		fv.setGhost0(st, radSentByt, fv.radView(st, radBytesKey, p))
		resp := fv.alloc(st, "radresp")
		errT := fv.fresh(st, "res_Exchange", fn.Type().(*types.Signature).Results().At(1).Type())
		return []smt.Term{fv.c.Let("radresp", smt.Ite(smt.Eq(errT, smt.IntLit(0)), resp, smt.IntLit(0))), errT}
	}
	libModels["(*layeh.com/radius.Packet).Encode"] = func(fv *funcVerifier, st *State, call *ast.CallExpr, fn *types.Func) []smt.Term {
		if sel, ok := ast.Unparen(call.Fun).(*ast.SelectorExpr); ok {
			p := fv.evalExpr(st, sel.X)
			fv.nilCheck(st, p, sel.X, call.Pos())
		}
		sig := fn.Type().(*types.Signature)
		arr := fv.alloc(st, "encoded")
		fv.memKey(types.Typ[types.Uint8])
		n := fv.c.Fresh("enclen", smt.Int)
		fv.assume(st, smt.And(smt.Ge(n, smt.IntLit(20)), smt.Le(n, smt.IntLit(4096))))
		errT := fv.fresh(st, "res_Encode", sig.Results().At(1).Type())
		return []smt.Term{fv.c.Let("enc", smt.Ite(smt.Eq(errT, smt.IntLit(0)), mkSlice(arr, smt.IntLit(0), n, n), nilSlice)), errT}
	}
	AssumedLib = append(AssumedLib,
		"(*layeh.com/radius.Packet).Encode: returns a fresh slice (20..4096 octets) or an error; does not modify the packet or program memory",
		"layeh.com/radius.New: fresh packet without attributes; rfcNNNN.X_Set/X_Add(p, v) records attribute X_Type := v (integer setters never fail; X_SetString and []byte setters fail and leave the packet unchanged when the value exceeds 253 octets; net.IP setters fail unless the address is IPv4); X_Del removes it",
		"layeh.com/radius.Exchange(ctx, p, addr): transmits the attributes p holds at the call (ghost snapshot rad_sent_*), does not modify program memory; nil error implies a non-nil response",
		"context.CancelFunc values: calling them has no effect on modelled state")
}

// specBuiltinRad evaluates the spec functions of the RADIUS attribute model.
func (env *specEnv) specBuiltinRad(name string, e *SExpr, args []*SExpr) (sval, bool) {
	fv := env.fv
	view := func(key string) (sval, bool) {
		if len(args) != 1 {
			env.fail(e, "%s expects the packet", name)
		}
		return sval{fv.radView(env.cur, key, env.eval(args[0]).t), nil}, true
	}
	sent := func(key string) (sval, bool) {
		if len(args) != 0 {
			env.fail(e, "%s takes no arguments", name)
		}
		fv.radDecls()
		return sval{fv.ghost0(env.cur, key), nil}, true
	}
	switch name {
	case "rad_has":
		return view(radHasKey)
	case "rad_int":
		return view(radIntKey)
	case "rad_str":
		return view(radStrKey)
	case "rad_bytes":
		return view(radBytesKey)
	case "rad_sent_has":
		return sent(radSentHas)
	case "rad_sent_int":
		return sent(radSentInt)
	case "rad_sent_str":
		return sent(radSentStr)
	case "rad_sent_bytes":
		return sent(radSentByt)
	case "rad_sent_count":
		v, _ := sent(radSentCnt)
		return mathVal(v.t), true
	}
	return sval{}, false
}
