package llvc

import (
	"bytes"
	"crypto/sha256"
	"encoding/hex"
	"fmt"
	"os"
	"os/exec"
	"path/filepath"
	"regexp"
	"sort"
	"strconv"
	"strings"
)

// ShimDir holds the replacement <bpf/bpf_helpers.h> / <bpf/bpf_endian.h>.
var ShimDir = "/verif/shim"

// RepoBPFDir is searched for "maps.h" when a scratch copy of a program is
// compiled from another directory (selftest).
var RepoBPFDir = "/repo/bpf"

// Tools.
var (
	ClangBin = "clang"
	OptBin   = "opt-14"
)

func run(dir string, argv ...string) (string, error) {
	cmd := exec.Command(argv[0], argv[1:]...)
	cmd.Dir = dir
	var out bytes.Buffer
	cmd.Stdout = &out
	cmd.Stderr = &out
	err := cmd.Run()
	if err != nil {
		return out.String(), fmt.Errorf("%s: %v\n%s", strings.Join(argv, " "), err, out.String())
	}
	return out.String(), nil
}

func includeFlags(cFile string) []string {
	fl := []string{"-I" + ShimDir, "-I" + filepath.Dir(cFile)}
	if filepath.Dir(cFile) != RepoBPFDir {
		fl = append(fl, "-I"+RepoBPFDir)
	}
	return fl
}

// Compile compiles a BPF C file to SSA-form LLVM IR with clang-14 / opt-14
// (every call compiles afresh; nothing is cached) and parses it.
func Compile(cFile string) (*Module, error) {
	abs, err := filepath.Abs(cFile)
	if err != nil {
		return nil, err
	}
	if _, err := os.Stat(abs); err != nil {
		return nil, err
	}
	tmp, err := os.MkdirTemp("", "llvc-compile-")
	if err != nil {
		return nil, err
	}
	defer os.RemoveAll(tmp)
	base := strings.TrimSuffix(filepath.Base(abs), filepath.Ext(abs))
	// relative output names keep the ModuleID line (and so the IR hash)
	// independent of the temporary directory
	raw := base + ".raw.ll"
	ssa := base + ".ll"
	var cmds []string
	c1 := append([]string{ClangBin, "-O1", "-Xclang", "-disable-llvm-passes", "-g0"}, includeFlags(abs)...)
	c1 = append(c1, "-S", "-emit-llvm", "-fno-discard-value-names", "-o", raw, abs)
	cmds = append(cmds, strings.Join(c1, " "))
	if _, err := run(tmp, c1...); err != nil {
		return nil, fmt.Errorf("clang failed: %v", err)
	}
	c2 := []string{OptBin, "-S", "-passes=sroa,mem2reg,simplifycfg", raw, "-o", ssa}
	cmds = append(cmds, strings.Join(c2, " "))
	if _, err := run(tmp, c2...); err != nil {
		return nil, fmt.Errorf("opt failed: %v", err)
	}
	text, err := os.ReadFile(filepath.Join(tmp, ssa))
	if err != nil {
		return nil, err
	}
	m, err := ParseIR(string(text))
	if err != nil {
		return nil, err
	}
	m.CFile, m.Base, m.IRText, m.Cmds = abs, base, string(text), cmds
	h := sha256.Sum256(text)
	m.IRSHA = hex.EncodeToString(h[:])
	if err := m.checkDataLayout(); err != nil {
		return nil, err
	}
	for _, f := range m.Functions() {
		if err := f.buildCFG(); err != nil {
			return nil, fmt.Errorf("%s: %v", f.Name, err)
		}
	}
	if err := m.recoverMaps(); err != nil {
		return nil, err
	}
	if err := m.probe(tmp); err != nil {
		return nil, err
	}
	return m, nil
}

// recoverMaps derives key/value sizes of the libbpf-style map definitions
// from the IR type of the ".maps" globals.  __uint(name, N) members have type
// [N x i32]*, __type(name, T) members have type T*; the first two __type
// members are key and value (libbpf convention; cross-checked by name against
// the C source in probe()).
func (m *Module) recoverMaps() error {
	for _, g := range m.GlobalList {
		if g.Section != ".maps" {
			continue
		}
		mi := &MapInfo{Name: g.Name, KeySize: -1, ValueSize: -1}
		if g.Ty.Kind != TStruct {
			return fmt.Errorf("map %s: definition is not a struct", g.Name)
		}
		var tys []*Type
		for _, f := range g.Ty.Fields {
			if f.Kind != TPtr {
				return fmt.Errorf("map %s: non-pointer member in map definition", g.Name)
			}
			if f.Elem.Kind == TArray && f.Elem.Elem.Kind == TInt && f.Elem.Elem.Bits == 32 {
				continue // __uint
			}
			tys = append(tys, f.Elem)
		}
		if len(tys) >= 2 {
			ks, err := SizeOf(tys[0])
			if err != nil {
				return fmt.Errorf("map %s key: %v", g.Name, err)
			}
			vs, err := SizeOf(tys[1])
			if err != nil {
				return fmt.Errorf("map %s value: %v", g.Name, err)
			}
			mi.KeySize, mi.ValueSize = ks, vs
		} else if len(tys) == 1 {
			return fmt.Errorf("map %s: exactly one __type member (cannot tell key from value)", g.Name)
		}
		m.Maps[g.Name] = mi
	}
	return nil
}

var probeRe = regexp.MustCompile(`(?m)^@llvc_probe_([A-Za-z0-9_.]+) = .*constant i64 (-?\d+)`)

// probe compiles a small translation unit that includes the program source
// and evaluates sizeof/offsetof expressions by name, so that facts that are
// not visible in -g0 IR (member names) are taken from the real C text:
// key/value sizes of the maps (checked against recoverMaps) and the offsets
// of data/data_end/data_meta in the uapi context structs.
func (m *Module) probe(tmp string) error {
	var b strings.Builder
	fmt.Fprintf(&b, "#include \"%s\"\n#include <linux/bpf.h>\n", m.CFile)
	names := make([]string, 0, len(m.Maps))
	for n := range m.Maps {
		names = append(names, n)
	}
	sort.Strings(names)
	for _, n := range names {
		if m.Maps[n].KeySize >= 0 {
			fmt.Fprintf(&b, "const unsigned long llvc_probe_ks_%s = sizeof(*%s.key);\n", n, n)
			fmt.Fprintf(&b, "const unsigned long llvc_probe_vs_%s = sizeof(*%s.value);\n", n, n)
		}
	}
	for _, fo := range [][2]string{{"xdp_md", "data"}, {"xdp_md", "data_end"}, {"xdp_md", "data_meta"},
		{"__sk_buff", "data"}, {"__sk_buff", "data_end"}, {"__sk_buff", "data_meta"}, {"__sk_buff", "len"}} {
		fmt.Fprintf(&b, "const unsigned long llvc_probe_off_%s_%s = __builtin_offsetof(struct %s, %s);\n", fo[0], fo[1], fo[0], fo[1])
	}
	fmt.Fprintf(&b, "const unsigned long llvc_probe_size_xdp_md = sizeof(struct xdp_md);\n")
	fmt.Fprintf(&b, "const unsigned long llvc_probe_size___sk_buff = sizeof(struct __sk_buff);\n")
	pc := filepath.Join(tmp, "llvc_probe.c")
	pl := filepath.Join(tmp, "llvc_probe.ll")
	if err := os.WriteFile(pc, []byte(b.String()), 0o644); err != nil {
		return err
	}
	argv := append([]string{ClangBin, "-O0", "-g0", "-w"}, includeFlags(m.CFile)...)
	argv = append(argv, "-S", "-emit-llvm", "-o", pl, pc)
	m.Cmds = append(m.Cmds, strings.Join(argv, " "))
	if _, err := run(tmp, argv...); err != nil {
		return fmt.Errorf("probe compile failed: %v", err)
	}
	txt, err := os.ReadFile(pl)
	if err != nil {
		return err
	}
	got := map[string]int64{}
	for _, mm := range probeRe.FindAllStringSubmatch(string(txt), -1) {
		v, _ := strconv.ParseInt(mm[2], 10, 64)
		got[mm[1]] = v
	}
	for _, n := range names {
		mi := m.Maps[n]
		if mi.KeySize < 0 {
			continue
		}
		ks, ok1 := got["ks_"+n]
		vs, ok2 := got["vs_"+n]
		if !ok1 || !ok2 {
			return fmt.Errorf("probe: no key/value size for map %s", n)
		}
		if ks != mi.KeySize || vs != mi.ValueSize {
			return fmt.Errorf("map %s: key/value size from IR (%d/%d) disagrees with C sizeof (%d/%d)", n, mi.KeySize, mi.ValueSize, ks, vs)
		}
	}
	for k, v := range got {
		if strings.HasPrefix(k, "off_") {
			// off_xdp_md_data -> xdp_md.data
			rest := strings.TrimPrefix(k, "off_")
			for _, s := range []string{"xdp_md", "__sk_buff"} {
				if strings.HasPrefix(rest, s+"_") {
					m.CtxOff[s+"."+strings.TrimPrefix(rest, s+"_")] = v
				}
			}
		}
		if strings.HasPrefix(k, "size_") {
			m.CtxOff[strings.TrimPrefix(k, "size_")+".sizeof"] = v
		}
	}
	for _, need := range []string{"xdp_md.data", "xdp_md.data_end", "__sk_buff.data", "__sk_buff.data_end", "xdp_md.sizeof", "__sk_buff.sizeof"} {
		if _, ok := m.CtxOff[need]; !ok {
			return fmt.Errorf("probe: offset %s not found", need)
		}
	}
	return nil
}
