package radius

// Replay for the undischarged obligation
//   radius.AccountingManager.recoverOrphanedSessions.iteration[fsRemoves == iter(fsRemoves) + 1 ==> acctStops == iter(acctStops) + 1]
// (loop #1: a persisted session is consumed only with its Stop issued).
// The path that violates it: json.Unmarshal fails -> os.Remove(path); continue  -- the persisted copy
// is deleted and no Accounting-Stop is sent or queued. persistActiveSession writes the copy with
// os.WriteFile (truncate, then write, no temp file + rename) and StopSession REWRITES the copy of a
// running session just before the Stop. A crash inside that write leaves a truncated file; on the
// next start the session is silently dropped: started, never stopped.
// Replayed: session started (Start accepted), crash while StopSession rewrites the copy (modelled by
// truncating the file to a prefix of what persistActiveSession wrote), restart.

import (
	"fmt"
	"net"
	"os"
	"path/filepath"
	"sync/atomic"
	"testing"
	"time"

	"go.uber.org/zap"
	lradius "layeh.com/radius"
	"layeh.com/radius/rfc2866"
)

func TestReplayVC(t *testing.T) {
	secret := "s3cret"
	srvConn, err := net.ListenUDP("udp", &net.UDPAddr{IP: net.IPv4(127, 0, 0, 1), Port: 0})
	if err != nil {
		fmt.Println("REPLAY-SKIP: cannot open UDP socket:", err)
		return
	}
	defer srvConn.Close()
	port := srvConn.LocalAddr().(*net.UDPAddr).Port
	var starts, stops int32
	go func() {
		buf := make([]byte, 4096)
		for {
			n, from, err := srvConn.ReadFromUDP(buf)
			if err != nil {
				return
			}
			p, err := lradius.Parse(buf[:n], []byte(secret))
			if err != nil {
				continue
			}
			switch rfc2866.AcctStatusType_Get(p) {
			case rfc2866.AcctStatusType_Value_Start:
				atomic.AddInt32(&starts, 1)
			case rfc2866.AcctStatusType_Value_Stop:
				atomic.AddInt32(&stops, 1)
			}
			b, _ := p.Response(lradius.CodeAccountingResponse).Encode()
			srvConn.WriteToUDP(b, from)
		}
	}()

	c, err := NewClient(ClientConfig{Servers: []ServerConfig{{Host: "127.0.0.1", Port: port - 1, Secret: secret}}, NASID: "bng1", Timeout: 2 * time.Second}, zap.NewNop())
	if err != nil {
		t.Fatal(err)
	}
	dir, _ := os.MkdirTemp("", "replay-c08")
	defer os.RemoveAll(dir)
	cfg := DefaultAccountingConfig()
	cfg.PersistPath = dir
	am, err := NewAccountingManager(c, cfg, zap.NewNop())
	if err != nil {
		t.Fatal(err)
	}
	if err := am.StartSession(&AccountingSession{SessionID: "sess-1", Username: "alice"}); err != nil {
		t.Fatal(err)
	}
	file := filepath.Join(dir, "sessions", "sess-1.json")
	full, err := os.ReadFile(file)
	if err != nil {
		t.Fatal(err)
	}
	// crash in the middle of the os.WriteFile with which StopSession rewrites the copy
	if err := os.WriteFile(file, full[:len(full)/2], 0600); err != nil {
		t.Fatal(err)
	}

	// restart on the same directory
	am2, _ := NewAccountingManager(c, cfg, zap.NewNop())
	rerr := am2.recoverOrphanedSessions()
	time.Sleep(100 * time.Millisecond)
	_, statErr := os.Stat(file)
	if statErr != nil {
		// a copy kept aside for the operator (<file>.corrupt) is not a deleted copy
		_, statErr = os.Stat(file + ".corrupt")
	}
	am2.pendingMu.RLock()
	queued := len(am2.pendingRecords)
	am2.pendingMu.RUnlock()
	fmt.Printf("recoverOrphanedSessions err=%v; server saw %d Start, %d Stop; %d records queued; persisted copy still present: %v; orphanedRecovered=%d\n",
		rerr, atomic.LoadInt32(&starts), atomic.LoadInt32(&stops), queued, statErr == nil, atomic.LoadUint64(&am2.orphanedRecovered))
	if atomic.LoadInt32(&starts) == 1 && atomic.LoadInt32(&stops) == 0 && queued == 0 && statErr != nil {
		fmt.Println("REPLAY-VIOLATED: the persisted copy of started session sess-1 was deleted by recovery without an Accounting-Stop being sent or queued (truncated copy after a crash during the non-atomic rewrite)")
		return
	}
	fmt.Println("REPLAY-OK")
}
