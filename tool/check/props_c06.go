package check

import (
	"encoding/json"
	"fmt"
	"go/ast"
	"go/token"
	"go/types"
	"os"
	"os/exec"
	"path/filepath"
	"sort"
	"strconv"
	"strings"
	"time"

	"bngvc/llvc"
	"bngvc/smt"
)

func init() {
	register(&PropDef{
		ID:    "C06",
		Title: "Userspace and eBPF programs agree on every map layout and key encoding",
		Pkgs:  []string{"./pkg/ebpf", "./pkg/nat", "./pkg/qos", "./pkg/antispoof", "./pkg/walledgarden"},
		Funcs: []string{
			// derived keys: each Go derivation is proved equal to the function the kernel side computes
			"ebpf.MACToUint64", "ebpf.IPToUint32", "ebpf.MakeCircuitIDKey",
			"ebpf.Loader.AddVLANSubscriber", "ebpf.Loader.RemoveVLANSubscriber", "ebpf.Loader.GetVLANSubscriber",
			"antispoof.macToUint64", "antispoof.Manager.AddBinding", "antispoof.Manager.AddBindingV6", "antispoof.Manager.RemoveBinding", "antispoof.Manager.AddAllowedRange",
			"qos.ipToKey", "nat.ipToKey", "ebpf.HashCircuitID",
		},
		// kernel half of the circuit-id key: extract_circuit_id_fixed leaves exactly MakeCircuitIDKey(circuit-id)
		BPF:      []BPFUnit{{"dhcp_fastpath.c", "dhcp_fastpath_prog"}},
		BPFKinds: "cid_key",
		Trusted: []string{
			"clang's DWARF member metadata (offset, size) for the C declarations; go/types for the Go declarations",
			"github.com/cilium/ebpf marshals a key/value with encoding/binary rules (fields in declaration order, no padding, blank fields as zeros) in native byte order and rejects a size mismatch (dependency, not verified)",
			"little-endian host (the kernel programs are verified as x86_64 IR)",
		},
		Undecided: []string{
			"HALF DECIDED: ebpf.HashCircuitID is proved to be the 64-bit FNV-1a recurrence over all bytes of its argument (fnv1a64); that the loop of bpf/dhcp_fastpath.c computes the same recurrence is not proved on the C side",
			"NOT DECIDED: values the kernel writes and the control plane only reads through ring buffers / perf events (nat_log_rb, spoof_events carry no typed value in the map declaration); maps no Go code touches",
			"circuit-id keys: the kernel side (extract_circuit_id_fixed leaves the circuit-id bytes zero-padded to 32, for Option 82 at the recognised option offsets 3 and 12..19) and the Go side (MakeCircuitIDKey, under C20/C03) are each proved against the same statement; circuit-ids longer than 32 bytes are refused by the kernel side and truncated by the Go side (observation recorded under C20)",
			"the meaning of each field beyond offset and width (units, flag bits), except the IPv4 / MAC words covered by the derived-key contracts",
		},
		Assumptions: []string{
			"a Go map operation is recognised as x.f.Put/Update/Lookup/Delete/LookupAndDelete where the struct field f was assigned coll.Maps[\"name\"] in the same package; key and value types are the static types of the (pointer) arguments",
			"fields are paired by name after removing underscores and case; padding fields (blank, pad, reserved) must cover exactly the C padding",
		},
		Explanation: "Layout contracts: for every map operation found in the typed Go AST the check pairs the Go key/value type with the C declaration of the map of that name (DWARF of bpf/*.c compiled on every run) and generates one obligation per fact: total size, and for every field the offset, the width and (arrays) the element count; every C field must have a Go counterpart and vice versa. The facts are ground integer equalities, discharged by z3. Derived keys: the Go derivations carry postconditions stating the word/bytes the kernel program computes from the frame (MAC most-significant byte first; IPv4 words with the address bytes in network order in memory; circuit-id key = first 32 bytes zero padded) and are verified like every other contract. Findings are replayed against real kernel maps created with the C-declared sizes.",
		Extra:       c06Layouts,
	})
}

type goField struct {
	Name   string
	Offset int64
	Size   int64
	Count  int64 // arrays of scalars: element count (0 = scalar)
	Pad    bool
}

// goLayout flattens t as encoding/binary (and cilium/ebpf) lays it out: fields in order, no padding.
func goLayout(t types.Type, prefix string, off int64, out *[]goField) (int64, error) {
	switch u := t.Underlying().(type) {
	case *types.Basic:
		var sz int64
		switch u.Kind() {
		case types.Bool, types.Int8, types.Uint8:
			sz = 1
		case types.Int16, types.Uint16:
			sz = 2
		case types.Int32, types.Uint32, types.Float32:
			sz = 4
		case types.Int64, types.Uint64, types.Float64:
			sz = 8
		default:
			return 0, fmt.Errorf("type %s has no fixed encoding", t)
		}
		*out = append(*out, goField{Name: prefix, Offset: off, Size: sz})
		return sz, nil
	case *types.Array:
		if b, ok := u.Elem().Underlying().(*types.Basic); ok {
			var tmp []goField
			esz, err := goLayout(b, "", 0, &tmp)
			if err != nil {
				return 0, err
			}
			*out = append(*out, goField{Name: prefix, Offset: off, Size: esz * u.Len(), Count: u.Len()})
			return esz * u.Len(), nil
		}
		var total int64
		for i := int64(0); i < u.Len(); i++ {
			sz, err := goLayout(u.Elem(), fmt.Sprintf("%s[%d]", prefix, i), off+total, out)
			if err != nil {
				return 0, err
			}
			total += sz
		}
		return total, nil
	case *types.Struct:
		var total int64
		for i := 0; i < u.NumFields(); i++ {
			f := u.Field(i)
			name := f.Name()
			if prefix != "" {
				name = prefix + "." + name
			}
			n0 := len(*out)
			sz, err := goLayout(f.Type(), name, off+total, out)
			if err != nil {
				return 0, err
			}
			if isPadName(f.Name()) {
				for j := n0; j < len(*out); j++ {
					(*out)[j].Pad = true
				}
			}
			total += sz
		}
		return total, nil
	}
	return 0, fmt.Errorf("type %s has no fixed encoding", t)
}

func isPadName(n string) bool {
	l := strings.ToLower(strings.Trim(n, "_"))
	return n == "_" || l == "" || strings.HasPrefix(l, "pad") || strings.HasPrefix(l, "reserved")
}

func normField(n string) string {
	parts := strings.Split(n, ".")
	for i, p := range parts {
		parts[i] = strings.ToLower(strings.ReplaceAll(p, "_", ""))
	}
	return strings.Join(parts, ".")
}

type mapUse struct {
	Pkg   string // import path of the Go package
	Map   string // C map name
	Role  string // key | value
	Type  types.Type
	Pos   token.Position
	Field string // Go struct field holding the map
}

// c06Layouts generates and discharges the layout contracts.
func c06Layouts(r *propRun) {
	def := r.def
	llvc.RepoBPFDir = filepath.Join(r.repo, "bpf")
	files, _ := filepath.Glob(filepath.Join(llvc.RepoBPFDir, "*.c"))
	sort.Strings(files)
	cmaps := map[string]*llvc.MapLayout{}
	for _, f := range files {
		ms, err := llvc.MapLayouts(f)
		if err != nil {
			r.broken = append(r.broken, fmt.Sprintf("cannot derive the map layouts of %s: %v", filepath.Base(f), err))
			continue
		}
		for n, m := range ms {
			if _, dup := cmaps[n]; !dup {
				cmaps[n] = m
			}
		}
	}
	if len(cmaps) == 0 {
		r.broken = append(r.broken, "no C map declarations found")
		return
	}
	// Go side: fields bound to maps, then the operations on them
	var uses []mapUse
	var pkgPaths []string
	for p := range r.prog.Pkgs {
		pkgPaths = append(pkgPaths, p)
	}
	sort.Strings(pkgPaths)
	for _, pp := range pkgPaths {
		pkg := r.prog.Pkgs[pp]
		bound := map[*types.Var]string{}
		for _, file := range pkg.Syntax {
			ast.Inspect(file, func(n ast.Node) bool {
				as, ok := n.(*ast.AssignStmt)
				if !ok || len(as.Lhs) != 1 || len(as.Rhs) != 1 {
					return true
				}
				ix, ok := ast.Unparen(as.Rhs[0]).(*ast.IndexExpr)
				if !ok {
					return true
				}
				if sel, ok := ast.Unparen(ix.X).(*ast.SelectorExpr); !ok || sel.Sel.Name != "Maps" {
					return true
				}
				lit, ok := ast.Unparen(ix.Index).(*ast.BasicLit)
				if !ok || lit.Kind != token.STRING {
					return true
				}
				name, _ := strconv.Unquote(lit.Value)
				if lsel, ok := ast.Unparen(as.Lhs[0]).(*ast.SelectorExpr); ok {
					if s := pkg.TypesInfo.Selections[lsel]; s != nil {
						if v, ok := s.Obj().(*types.Var); ok && v.IsField() {
							bound[v] = name
						}
					}
				}
				return true
			})
		}
		for _, file := range pkg.Syntax {
			if strings.HasSuffix(r.prog.Fset.Position(file.Pos()).Filename, "_test.go") {
				continue
			}
			ast.Inspect(file, func(n ast.Node) bool {
				call, ok := n.(*ast.CallExpr)
				if !ok {
					return true
				}
				sel, ok := ast.Unparen(call.Fun).(*ast.SelectorExpr)
				if !ok {
					return true
				}
				nval := 0
				switch sel.Sel.Name {
				case "Put", "Update", "Lookup", "LookupAndDelete":
					nval = 1
				case "Delete":
				default:
					return true
				}
				rsel, ok := ast.Unparen(sel.X).(*ast.SelectorExpr)
				if !ok {
					return true
				}
				s := pkg.TypesInfo.Selections[rsel]
				if s == nil {
					return true
				}
				v, ok := s.Obj().(*types.Var)
				if !ok {
					return true
				}
				mname, ok := bound[v]
				if !ok {
					return true
				}
				argType := func(e ast.Expr) types.Type {
					t := pkg.TypesInfo.TypeOf(e)
					if t == nil {
						return nil
					}
					if p, ok := t.Underlying().(*types.Pointer); ok {
						return p.Elem()
					}
					if _, ok := t.Underlying().(*types.Interface); ok {
						return nil
					}
					return t
				}
				pos := r.prog.Fset.Position(call.Pos())
				if len(call.Args) >= 1 {
					if t := argType(call.Args[0]); t != nil {
						uses = append(uses, mapUse{pkg.PkgPath, mname, "key", t, pos, v.Name()})
					}
				}
				if nval == 1 && len(call.Args) >= 2 {
					if t := argType(call.Args[1]); t != nil {
						uses = append(uses, mapUse{pkg.PkgPath, mname, "value", t, pos, v.Name()})
					}
				}
				return true
			})
		}
	}
	if len(uses) == 0 {
		r.broken = append(r.broken, "no Go map operations recognised")
		return
	}
	known := map[string]Finding{}
	for _, f := range loadFindings() {
		if f.Property == def.ID && f.Status == "known" {
			known[f.Obligation] = f
		}
	}
	solver := smt.NewSolver(10*time.Second, "")
	type fact struct {
		id, desc string
		lhs, rhs int64
		pos      token.Position
		pkg      string
	}
	seen := map[string]bool{}
	var facts []fact
	var pairs []string
	rel := func(p token.Position) string {
		fn := p.Filename
		if i := strings.Index(fn, "/pkg/"); i >= 0 {
			fn = fn[i+1:]
		}
		return fmt.Sprintf("%s:%d", fn, p.Line)
	}
	for _, u := range uses {
		cm := cmaps[u.Map]
		tname := types.TypeString(u.Type, func(p *types.Package) string { return p.Name() })
		pairKey := u.Map + "." + u.Role + "<-" + tname
		if seen[pairKey] {
			continue
		}
		seen[pairKey] = true
		base := fmt.Sprintf("%s.layout.%s.%s[%s]", def.ID, u.Map, u.Role, smt.Sanitize(tname))
		if cm == nil {
			facts = append(facts, fact{id: base + ".map_declared", desc: "the map " + u.Map + " used at " + rel(u.Pos) + " is declared in bpf/*.c", lhs: 0, rhs: 1, pos: u.Pos, pkg: u.Pkg})
			continue
		}
		var ct *llvc.LayoutType
		csize := int64(0)
		if u.Role == "key" {
			ct, csize = cm.Key, cm.KeySize
		} else {
			ct, csize = cm.Value, cm.ValueSize
		}
		if ct != nil {
			csize = ct.Size
		}
		var gf []goField
		gsize, err := goLayout(u.Type, "", 0, &gf)
		if err != nil {
			facts = append(facts, fact{id: base + ".fixed_encoding", desc: err.Error(), lhs: 0, rhs: 1, pos: u.Pos, pkg: u.Pkg})
			continue
		}
		pairs = append(pairs, fmt.Sprintf("%s %s (%s, %d bytes) <- Go %s (%d bytes) at %s", u.Map, u.Role, func() string {
			if ct != nil {
				return ct.Type
			}
			return "sized"
		}(), csize, tname, gsize, rel(u.Pos)))
		facts = append(facts, fact{id: base + ".size", desc: fmt.Sprintf("size of Go %s == size of the C %s of %s", tname, u.Role, u.Map), lhs: gsize, rhs: csize, pos: u.Pos, pkg: u.Pkg})
		if ct == nil {
			continue
		}
		_, goIsStruct := u.Type.Underlying().(*types.Struct)
		cIsScalar := len(ct.Fields) == 1 && ct.Fields[0].Name == "(value)"
		if !goIsStruct || cIsScalar {
			continue // scalar / array against scalar / struct: the size fact is the whole contract
		}
		gby := map[string]goField{}
		for _, f := range gf {
			if !f.Pad {
				gby[normField(f.Name)] = f
			}
		}
		cby := map[string]bool{}
		for _, cf := range ct.Fields {
			if cf.Union || cf.BitSize > 0 {
				continue
			}
			last := cf.Name
			if i := strings.LastIndex(last, "."); i >= 0 {
				last = last[i+1:]
			}
			if isPadName(last) {
				continue
			}
			k := normField(cf.Name)
			cby[k] = true
			g, ok := gby[k]
			fid := base + "." + smt.Sanitize(cf.Name)
			if !ok {
				facts = append(facts, fact{id: fid + ".present", desc: fmt.Sprintf("C field %s of %s has a Go counterpart in %s", cf.Name, ct.Type, tname), lhs: 0, rhs: 1, pos: u.Pos, pkg: u.Pkg})
				continue
			}
			facts = append(facts, fact{id: fid + ".offset", desc: fmt.Sprintf("offset of %s", cf.Name), lhs: g.Offset, rhs: cf.Offset, pos: u.Pos, pkg: u.Pkg})
			facts = append(facts, fact{id: fid + ".width", desc: fmt.Sprintf("width of %s", cf.Name), lhs: g.Size, rhs: cf.Size, pos: u.Pos, pkg: u.Pkg})
			if cf.Count > 0 || g.Count > 0 {
				facts = append(facts, fact{id: fid + ".count", desc: fmt.Sprintf("element count of %s", cf.Name), lhs: g.Count, rhs: cf.Count, pos: u.Pos, pkg: u.Pkg})
			}
		}
		var gnames []string
		for k := range gby {
			gnames = append(gnames, k)
		}
		sort.Strings(gnames)
		for _, k := range gnames {
			if !cby[k] {
				facts = append(facts, fact{id: base + "." + smt.Sanitize(gby[k].Name) + ".declared_in_C", desc: fmt.Sprintf("Go field %s of %s exists in %s", gby[k].Name, tname, ct.Type), lhs: 0, rhs: 1, pos: u.Pos, pkg: u.Pkg})
			}
		}
	}
	sort.Slice(facts, func(i, j int) bool { return facts[i].id < facts[j].id })
	// all facts in ONE z3 run (push / check-sat / pop per fact): the facts are ground, a process
	// per fact only costs start-up time
	batch := map[int]string{}
	{
		var b strings.Builder
		b.WriteString("(set-logic QF_LIA)\n")
		for _, f := range facts {
			fmt.Fprintf(&b, "(push 1)\n(assert (not (= %d %d)))\n(check-sat)\n(pop 1)\n", f.lhs, f.rhs)
		}
		tmp := filepath.Join(os.TempDir(), fmt.Sprintf("bngvc-layout-%d.smt2", os.Getpid()))
		if os.WriteFile(tmp, []byte(b.String()), 0o644) == nil {
			out, err := exec.Command("z3", tmp).Output()
			os.Remove(tmp)
			lines := strings.Split(strings.TrimSpace(string(out)), "\n")
			if err == nil && len(lines) == len(facts) {
				for i, ln := range lines {
					batch[i] = strings.TrimSpace(ln)
				}
			}
		}
	}
	for fi, f := range facts {
		q := fmt.Sprintf("(set-logic QF_LIA)\n; %s\n(assert (not (= %d %d)))\n(check-sat)\n", f.desc, f.lhs, f.rhs)
		var res smt.Result
		if st, ok := batch[fi]; ok && (st == "unsat" || st == "sat") {
			res = smt.Result{Status: st, Solver: "z3"}
		} else {
			res = solver.Check(q)
		}
		r.solverTime += res.TimeS
		rec := oblRecord{ID: f.id, Kind: "layout", Func: "layout", Pos: rel(f.pos), Status: res.Status, Solver: res.Solver, TimeS: res.TimeS}
		if res.Status == "unsat" {
			rec.Class = "discharged"
			r.nClaimed++
			r.nDischarged++
			r.extraDischarged = append(r.extraDischarged, f.id)
			if len(r.samples) < 6 {
				r.samples = append(r.samples, map[string]string{"obligation": f.id, "pos": rel(f.pos), "solver": res.Solver, "smt2": q})
			}
		} else if kf, ok := known[f.id]; ok {
			rec.Class = "known-finding"
			r.nKnown++
			fmt.Printf("KNOWN-FINDING: property=%s %s — %s\n", def.ID, f.id, kf.What)
		} else {
			rec.Class = "violation"
			path := filepath.Join(r.replayDir(), smt.Sanitize(f.id)+".json")
			m := map[string]interface{}{"property": def.ID, "obligation": f.id, "what": f.desc, "go_side": f.lhs, "c_side": f.rhs, "at": rel(f.pos),
				"solver_status": res.Status, "query_smt2": q,
				"meaning": "the control plane and the kernel program disagree on this fact of the map layout; cilium/ebpf rejects the operation when the total size differs and silently misplaces fields otherwise"}
			b, _ := json.MarshalIndent(m, "", " ")
			os.MkdirAll(r.replayDir(), 0o755)
			os.WriteFile(path, b, 0o644)
			rp := r.manualReplayByID(f.id, f.pkg, path)
			noInput := !(rp != nil && rp.Reproduced)
			if rp != nil && rp.Reproduced {
				path = rp.Path
			}
			r.violations = append(r.violations, violation{f.id, path, noInput})
		}
		r.records = append(r.records, rec)
	}
	if r.extra == nil {
		r.extra = map[string]interface{}{}
	}
	sort.Strings(pairs)
	r.extra["layout_pairs"] = pairs
	var cnames []string
	for n := range cmaps {
		cnames = append(cnames, n)
	}
	sort.Strings(cnames)
	r.extra["c_maps"] = cnames
	r.funcsUnder = append(r.funcsUnder, fmt.Sprintf("%d (Go type, C map key/value) pairs from %d map operations", len(seen), len(uses)))
}

// manualReplayByID runs the hand-written replay stored for an obligation id that does not
// come from a Go function unit (layout facts); the outcome is added to the replay file.
func (r *propRun) manualReplayByID(id, pkgPath, jsonPath string) *ReplayResult {
	p := filepath.Join(verifDir, "spec", "replays", smt.Sanitize(id)+".go")
	b, err := os.ReadFile(p)
	if err != nil {
		return nil
	}
	out, rerr := RunOverlayTest(r.repo, pkgPath, string(b), "TestReplayVC")
	rr := &ReplayResult{Test: string(b), Output: truncate(out, 4000), Inputs: map[string]string{"manual_replay": p}, Path: jsonPath}
	switch {
	case strings.Contains(out, "REPLAY-PANIC"), strings.Contains(out, "REPLAY-VIOLATED"):
		rr.Reproduced = true
		for _, ln := range strings.Split(out, "\n") {
			if strings.Contains(ln, "REPLAY-PANIC") || strings.Contains(ln, "REPLAY-VIOLATED") {
				rr.Outcome = strings.TrimSpace(ln)
			}
		}
	case strings.Contains(out, "REPLAY-OK"):
		rr.Outcome = "hand-written replay ran: real code behaves correctly on this input"
	default:
		rr.Outcome = "replay did not run: " + fmt.Sprint(rerr)
	}
	var m map[string]interface{}
	if jb, err := os.ReadFile(jsonPath); err == nil && json.Unmarshal(jb, &m) == nil {
		m["replay"] = rr
		nb, _ := json.MarshalIndent(m, "", " ")
		os.WriteFile(jsonPath, nb, 0o644)
	}
	return rr
}
