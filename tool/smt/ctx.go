package smt

import (
	"fmt"
	"strings"
)

// entry is one top-level SMT-LIB command owned by a Ctx.
type entry struct {
	names []string // symbols introduced by this entry
	text  string   // full command text
	deps  map[string]bool
	axiom bool
	isDef bool
	keys  []string // for axioms: include when any key is in the cone (empty = always)
	closed map[string]bool // memoised transitive symbols through definitions
}

// Ctx accumulates declarations, definitions and axioms for one verification
// unit (one function). Queries are sliced to the cone of influence of the goal.
type Ctx struct {
	entries []*entry
	byName  map[string]*entry
	fresh   map[string]int
	lets    map[string]string // hash-consing of Let: sort|term -> name
	Logic   string
}

func NewCtx() *Ctx {
	return &Ctx{byName: map[string]*entry{}, fresh: map[string]int{}}
}

func (c *Ctx) add(e *entry) {
	e.deps = map[string]bool{}
	Symbols(e.text, e.deps)
	c.entries = append(c.entries, e)
	for _, n := range e.names {
		c.byName[n] = e
	}
}

// Has reports whether a symbol is already declared.
func (c *Ctx) Has(name string) bool { _, ok := c.byName[name]; return ok }

// Sanitize makes a string usable as part of a simple SMT symbol.
func Sanitize(s string) string {
	var b strings.Builder
	for i := 0; i < len(s); i++ {
		ch := s[i]
		if (ch >= 'a' && ch <= 'z') || (ch >= 'A' && ch <= 'Z') || (ch >= '0' && ch <= '9') || ch == '_' || ch == '.' {
			b.WriteByte(ch)
		} else {
			b.WriteByte('_')
		}
	}
	return b.String()
}

// FreshName returns a unique symbol with the given prefix.
func (c *Ctx) FreshName(prefix string) string {
	prefix = Sanitize(prefix)
	for {
		n := c.fresh[prefix]
		c.fresh[prefix] = n + 1
		name := fmt.Sprintf("%s!%d", prefix, n)
		if !c.Has(name) {
			return name
		}
	}
}

// DeclareSort declares an uninterpreted sort (idempotent).
func (c *Ctx) DeclareSort(name string) {
	if c.Has(name) {
		return
	}
	c.add(&entry{names: []string{name}, text: "(declare-sort " + name + " 0)"})
}

// Field of a datatype constructor.
type Field struct{ Name, Sort string }

// DeclareRecord declares a single-constructor datatype (idempotent).
func (c *Ctx) DeclareRecord(sort, ctor string, fields []Field) {
	if c.Has(sort) {
		return
	}
	var b strings.Builder
	fmt.Fprintf(&b, "(declare-datatypes ((%s 0)) (((%s", sort, ctor)
	names := []string{sort, ctor}
	for _, f := range fields {
		fmt.Fprintf(&b, " (%s %s)", f.Name, f.Sort)
		names = append(names, f.Name)
	}
	b.WriteString("))))")
	c.add(&entry{names: names, text: b.String()})
}

// DeclareFun declares an uninterpreted function (idempotent).
func (c *Ctx) DeclareFun(name string, args []string, ret string) {
	if c.Has(name) {
		return
	}
	c.add(&entry{names: []string{name}, text: fmt.Sprintf("(declare-fun %s (%s) %s)", name, strings.Join(args, " "), ret)})
}

// Const declares (idempotently) and returns a constant.
func (c *Ctx) Const(name, sort string) Term {
	c.DeclareFun(name, nil, sort)
	return Term{name, sort}
}

// Fresh declares a fresh constant.
func (c *Ctx) Fresh(prefix, sort string) Term {
	return c.Const(c.FreshName(prefix), sort)
}

// Let names a term (define-fun) so that later uses share it.
func (c *Ctx) Let(prefix string, t Term) Term {
	if len(t.S) < 24 || isAtom(t.S) {
		return t
	}
	if c.lets == nil {
		c.lets = map[string]string{}
	}
	if n, ok := c.lets[t.Sort+"|"+t.S]; ok {
		return Term{n, t.Sort}
	}
	name := c.FreshName(prefix)
	c.add(&entry{names: []string{name}, isDef: true, text: fmt.Sprintf("(define-fun %s () %s %s)", name, t.Sort, t.S)})
	c.lets[t.Sort+"|"+t.S] = name
	return Term{name, t.Sort}
}

func isAtom(s string) bool { return !strings.ContainsAny(s, " (") }

// DefineFun defines a (possibly recursive) function from raw text.
func (c *Ctx) DefineFun(name string, params []Term, ret string, body string, rec bool) {
	if c.Has(name) {
		return
	}
	var ps []string
	for _, p := range params {
		ps = append(ps, "("+p.S+" "+p.Sort+")")
	}
	kw := "define-fun"
	if rec {
		kw = "define-fun-rec"
	}
	c.add(&entry{names: []string{name}, text: fmt.Sprintf("(%s %s (%s) %s %s)", kw, name, strings.Join(ps, " "), ret, body)})
}

// Axiom adds a global assertion; it is included in a query when one of keys is
// in the goal's cone (always, when keys is empty).
func (c *Ctx) Axiom(id string, t Term, keys ...string) {
	if id != "" {
		if c.Has("axiom:" + id) {
			return
		}
	}
	e := &entry{text: "(assert " + t.S + ")", axiom: true, keys: keys}
	if id != "" {
		e.names = []string{"axiom:" + id}
	}
	c.add(e)
}

// Raw adds a raw top-level command introducing the given names.
func (c *Ctx) Raw(names []string, text string) {
	for _, n := range names {
		if c.Has(n) {
			return
		}
	}
	c.add(&entry{names: names, text: text})
}

// closure returns the symbols of a text expanded through define-fun definitions.
func (c *Ctx) closure(syms map[string]bool) map[string]bool {
	out := map[string]bool{}
	var visit func(s string)
	visit = func(s string) {
		if out[s] {
			return
		}
		out[s] = true
		if e := c.byName[s]; e != nil && e.isDef {
			if e.closed == nil {
				e.closed = map[string]bool{}
				tmp := map[string]bool{}
				for d := range e.deps {
					tmp[d] = true
				}
				for d := range c.closure(tmp) {
					e.closed[d] = true
				}
			}
			for d := range e.closed {
				out[d] = true
			}
		}
	}
	for s := range syms {
		visit(s)
	}
	return out
}

// Query builds the SMT-LIB text asking whether assumptions ∧ ¬goal is
// satisfiable. getValues lists terms whose model values are requested.
func (c *Ctx) Query(assumptions []Term, pc Term, goal Term, getValues []string) string {
	return c.build(assumptions, And(pc, Not(goal)), getValues)
}

// SatQuery builds a query asking whether assumptions ∧ extra is satisfiable.
func (c *Ctx) SatQuery(assumptions []Term, extra Term, getValues []string) string {
	return c.build(assumptions, extra, getValues)
}

func (c *Ctx) build(assumptions []Term, last Term, getValues []string) string {
	cone := map[string]bool{}
	Symbols(last.S, cone)
	for _, g := range getValues {
		Symbols(g, cone)
	}
	asmSyms := make([]map[string]bool, len(assumptions))
	for i, a := range assumptions {
		tmp := map[string]bool{}
		Symbols(a.S, tmp)
		asmSyms[i] = c.closure(tmp)
	}
	inclA := make([]bool, len(assumptions))
	inclE := make([]bool, len(c.entries))
	entryIdx := map[*entry]int{}
	for i, e := range c.entries {
		entryIdx[e] = i
	}
	var expand func(sym string)
	expand = func(sym string) {
		e := c.byName[sym]
		if e == nil {
			return
		}
		idx := entryIdx[e]
		if inclE[idx] {
			return
		}
		inclE[idx] = true
		for d := range e.deps {
			cone[d] = true
			expand(d)
		}
	}
	isLogical := func(s string) bool {
		switch s {
		case "and", "or", "not", "ite", "true", "false", "select", "store", "forall", "exists", "div", "mod", "Int", "Bool", "Array", "let", "distinct", "pattern", "as", "const", "_", "BitVec":
			return true
		}
		return len(s) > 0 && (s[0] >= '0' && s[0] <= '9')
	}
	for changed := true; changed; {
		changed = false
		for s := range cone {
			if e := c.byName[s]; e != nil && !inclE[entryIdx[e]] {
				expand(s)
				changed = true
			}
		}
		for i, a := range assumptions {
			if inclA[i] {
				continue
			}
			hit := false
			for s := range asmSyms[i] {
				if cone[s] && !isLogical(s) {
					hit = true
					break
				}
			}
			if hit || len(asmSyms[i]) == 0 {
				inclA[i] = true
				changed = true
				for s := range asmSyms[i] {
					cone[s] = true
				}
				_ = a
			}
		}
		for i, e := range c.entries {
			if !e.axiom || inclE[i] {
				continue
			}
			hit := len(e.keys) == 0
			for _, k := range e.keys {
				if cone[k] {
					hit = true
					break
				}
			}
			if hit {
				inclE[i] = true
				changed = true
				for d := range e.deps {
					cone[d] = true
				}
			}
		}
	}
	var b strings.Builder
	if c.Logic != "" {
		b.WriteString("(set-logic " + c.Logic + ")\n")
	}
	// sort declarations first (a heap constant may be registered before the
	// datatype of its element sort is declared), then everything else in order
	isSortDecl := func(e *entry) bool {
		return strings.HasPrefix(e.text, "(declare-datatypes") || strings.HasPrefix(e.text, "(declare-sort")
	}
	for i, e := range c.entries {
		if inclE[i] && isSortDecl(e) {
			b.WriteString(e.text)
			b.WriteByte('\n')
		}
	}
	for i, e := range c.entries {
		if inclE[i] && !isSortDecl(e) {
			b.WriteString(e.text)
			b.WriteByte('\n')
		}
	}
	for i, a := range assumptions {
		if inclA[i] && !a.IsTrue() {
			b.WriteString("(assert " + a.S + ")\n")
		}
	}
	b.WriteString("(assert " + last.S + ")\n(check-sat)\n")
	if len(getValues) > 0 {
		b.WriteString("(get-value (" + strings.Join(getValues, " ") + "))\n")
	}
	return b.String()
}
