package pppoe

import (
	"fmt"
	"testing"
	"time"

	"go.uber.org/zap"
)

// Obligations: C11.pppoe.LCPStateMachine.receiveTerminateRequest.ensures[lcp.termtimer],
// ...receiveConfigureAck/Nak/Reject.ensures[lcp.termtimer]  (inv termtimer: in Closing/Stopping a restart
// timer is pending)
//
//	(a) Opened + RTR -> Stopping, restart counter zeroed, NO timer: never reaches Stopped.
//	(b) Closing + RTR -> restart timer stopped, stays Closing: no retransmission, no TO-.
//	(c) Req-Sent, Close -> Closing; late Ack/Nak/Reject for the outstanding Configure-Request
//	    stops the restart timer and stays in Closing.
func TestReplayVC(t *testing.T) {
	mk := func() (*LCPStateMachine, *[][]byte) {
		sent := &[][]byte{}
		m := func() *LCPStateMachine {
			cfg := DefaultLCPConfig()
			cfg.MagicNumber = 0x11223344
			cfg.RestartTimer = 20 * time.Millisecond
			cfg.MaxConfigure, cfg.MaxTerminate = 3, 3
			x, err := NewLCPStateMachine(cfg, func(proto uint16, data []byte) {
				*sent = append(*sent, append([]byte(nil), data...))
			}, zap.NewNop())
			if err != nil {
				panic(err)
			}
			return x
		}()
		m.Open()
		m.Up() // Req-Sent
		return m, sent
	}
	open := func(m *LCPStateMachine, sent *[][]byte) {
		first := (*sent)[len(*sent)-1]
		m.ReceivePacket([]byte{LCPCodeConfigRequest, 9, 0, 14, LCPOptMRU, 4, 0x05, 0xd4, LCPOptMagicNumber, 6, 1, 2, 3, 4})
		ack := append([]byte(nil), first...)
		ack[0] = LCPCodeConfigAck
		m.ReceivePacket(ack)
	}
	timerPending := func(m *LCPStateMachine) bool {
		m.timerMu.Lock()
		defer m.timerMu.Unlock()
		return m.restartTimer != nil
	}
	countTR := func(ps [][]byte) int {
		n := 0
		for _, p := range ps {
			if p[0] == LCPCodeTermRequest {
				n++
			}
		}
		return n
	}
	termReq := []byte{LCPCodeTermRequest, 77, 0, 4}
	violated := false

	// (a)
	m, sent := mk()
	open(m, sent)
	if !m.IsOpened() {
		fmt.Println("REPLAY-SETUP-FAILED: not Opened")
		return
	}
	m.ReceivePacket(termReq)
	pending := timerPending(m)
	time.Sleep(200 * time.Millisecond) // 10 restart periods of silence
	if st := m.GetState(); st == LCPStateStopping {
		fmt.Printf("REPLAY-VIOLATED: (a) Opened + Terminate-Request: restart timer pending=%v; after 10 restart periods of silence still %s (Stopped is never reached)\n", pending, st)
		violated = true
	}
	m.stopTimer()

	// (b)
	m, sent = mk()
	open(m, sent)
	m.Close()
	n0 := len(*sent)
	m.ReceivePacket(termReq)
	pending = timerPending(m)
	time.Sleep(200 * time.Millisecond)
	if st := m.GetState(); st == LCPStateClosing {
		fmt.Printf("REPLAY-VIOLATED: (b) Closing + Terminate-Request: restart timer pending=%v; after 10 restart periods of silence: %d Terminate-Request retransmissions, still %s\n", pending, countTR((*sent)[n0:]), st)
		violated = true
	}
	m.stopTimer()

	// (c)
	for _, code := range []uint8{LCPCodeConfigAck, LCPCodeConfigNak, LCPCodeConfigReject} {
		m, sent = mk()
		first := (*sent)[len(*sent)-1]
		m.Close()
		n0 = len(*sent)
		reply := []byte{code, first[1], 0, 4}
		if code == LCPCodeConfigAck {
			reply = append([]byte(nil), first...)
			reply[0] = code
		}
		m.ReceivePacket(reply)
		pending = timerPending(m)
		time.Sleep(200 * time.Millisecond)
		if st := m.GetState(); st == LCPStateClosing {
			fmt.Printf("REPLAY-VIOLATED: (c) Closing + late reply code %d to request id %d: restart timer pending=%v; after 10 restart periods of silence: %d Terminate-Request retransmissions, still %s\n", code, first[1], pending, countTR((*sent)[n0:]), st)
			violated = true
		}
		m.stopTimer()
	}
	if !violated {
		fmt.Println("REPLAY-OK")
	}
}
