package govc

import (
	"go/ast"
	"go/constant"
	"go/token"
	"go/types"
	"sync"
)

// autoPure reports whether a repository function can be shown, by a syntactic
// check of its body, to write nothing but its own local variables (so a call
// to it leaves the caller's heap unchanged). Used only for callees WITHOUT a
// contract; results stay unconstrained. The check is conservative.
func (p *Program) autoPure(key string) bool {
	pureMu.Lock()
	defer pureMu.Unlock()
	return p.autoPureLocked(key)
}

var pureMu sync.Mutex

func (p *Program) autoPureLocked(key string) bool {
	if p.pureMemo == nil {
		p.pureMemo = map[string]int{}
	}
	switch p.pureMemo[key] {
	case 1:
		return true
	case 2, 3:
		return false // 3 = in progress (recursion): not pure
	}
	p.pureMemo[key] = 3
	fi := p.Funcs[key]
	ok := fi != nil && p.bodyPure(fi)
	if ok {
		p.pureMemo[key] = 1
	} else {
		p.pureMemo[key] = 2
	}
	return ok
}

func (p *Program) bodyPure(fi *FuncInfo) bool {
	info := fi.Pkg.TypesInfo
	body := fi.Decl.Body
	local := func(e ast.Expr) bool {
		id, ok := ast.Unparen(e).(*ast.Ident)
		if !ok {
			return false
		}
		if id.Name == "_" {
			return true
		}
		obj := info.Uses[id]
		if obj == nil {
			obj = info.Defs[id]
		}
		v, ok := obj.(*types.Var)
		if !ok || v.IsField() {
			return false
		}
		return v.Pos() >= fi.Decl.Pos() && v.Pos() <= fi.Decl.End()
	}
	pure := true
	ast.Inspect(body, func(n ast.Node) bool {
		if !pure {
			return false
		}
		switch x := n.(type) {
		case *ast.AssignStmt:
			for _, l := range x.Lhs {
				if !local(l) {
					pure = false
				}
			}
		case *ast.IncDecStmt:
			if !local(x.X) {
				pure = false
			}
		case *ast.RangeStmt:
			if x.Tok == token.ASSIGN {
				if (x.Key != nil && !local(x.Key)) || (x.Value != nil && !local(x.Value)) {
					pure = false
				}
			}
		case *ast.ForStmt:
			// a call to an auto-pure callee is assumed to return: its loops must be counted loops
			// that terminate on syntactic grounds (range loops always do)
			if !countedLoop(info, x) {
				pure = false
			}
		case *ast.GoStmt, *ast.DeferStmt, *ast.SendStmt, *ast.SelectStmt, *ast.FuncLit:
			pure = false
		case *ast.UnaryExpr:
			if x.Op == token.ARROW || x.Op == token.AND {
				pure = false
			}
		case *ast.CallExpr:
			if tv, ok := info.Types[x.Fun]; ok && tv.IsType() {
				return true
			}
			if id, ok := ast.Unparen(x.Fun).(*ast.Ident); ok {
				if b, ok := info.Uses[id].(*types.Builtin); ok {
					switch b.Name() {
					case "len", "cap", "min", "max", "make", "new", "panic":
						return true
					}
					pure = false
					return false
				}
			}
			var fn *types.Func
			switch f := ast.Unparen(x.Fun).(type) {
			case *ast.Ident:
				fn, _ = info.Uses[f].(*types.Func)
			case *ast.SelectorExpr:
				if sel, ok := info.Selections[f]; ok {
					if sel.Kind() == types.MethodVal {
						if _, isIface := sel.Recv().Underlying().(*types.Interface); !isIface {
							fn, _ = sel.Obj().(*types.Func)
						}
					}
				} else {
					fn, _ = info.Uses[f.Sel].(*types.Func)
				}
			}
			if fn == nil {
				pure = false
				return false
			}
			if isNoEffect(fn.FullName(), fn) || isPureLib(fn.FullName()) {
				return true
			}
			if p.InRepo(fn.Pkg()) {
				k := FuncKey(fn)
				if sp := p.Specs.Funcs[k]; sp != nil && (sp.Pure || (sp.Modifies != nil && len(sp.Modifies) == 0 && !sp.ModAll)) {
					return true
				}
				if p.autoPureLocked(k) {
					return true
				}
			}
			pure = false
			return false
		}
		return true
	})
	return pure
}


// countedLoop recognises `for i := ...; i <op> e; i++ / i-- / i += c / i -= c` (c a positive
// constant, direction matching the comparison) whose body never assigns i.
func countedLoop(info *types.Info, f *ast.ForStmt) bool {
	cond, ok := f.Cond.(*ast.BinaryExpr)
	if !ok || f.Post == nil {
		return false
	}
	var iv *ast.Ident
	up := false
	switch post := f.Post.(type) {
	case *ast.IncDecStmt:
		iv, _ = ast.Unparen(post.X).(*ast.Ident)
		up = post.Tok == token.INC
	case *ast.AssignStmt:
		if len(post.Lhs) != 1 || len(post.Rhs) != 1 || (post.Tok != token.ADD_ASSIGN && post.Tok != token.SUB_ASSIGN) {
			return false
		}
		iv, _ = ast.Unparen(post.Lhs[0]).(*ast.Ident)
		tv, ok := info.Types[post.Rhs[0]]
		if !ok || tv.Value == nil {
			return false
		}
		if v, ok := constInt64(tv); !ok || v <= 0 {
			return false
		}
		up = post.Tok == token.ADD_ASSIGN
	default:
		return false
	}
	if iv == nil {
		return false
	}
	obj := info.Uses[iv]
	isIV := func(e ast.Expr) bool {
		id, ok := ast.Unparen(e).(*ast.Ident)
		return ok && info.Uses[id] == obj && obj != nil
	}
	// the comparison bounds the induction variable in the direction it moves
	switch {
	case isIV(cond.X) && up && (cond.Op == token.LSS || cond.Op == token.LEQ):
	case isIV(cond.X) && !up && (cond.Op == token.GTR || cond.Op == token.GEQ):
	case isIV(cond.Y) && up && (cond.Op == token.GTR || cond.Op == token.GEQ):
	case isIV(cond.Y) && !up && (cond.Op == token.LSS || cond.Op == token.LEQ):
	default:
		return false
	}
	assigned := false
	ast.Inspect(f.Body, func(n ast.Node) bool {
		switch x := n.(type) {
		case *ast.AssignStmt:
			for _, l := range x.Lhs {
				if isIV(l) {
					assigned = true
				}
			}
		case *ast.IncDecStmt:
			if isIV(x.X) {
				assigned = true
			}
		case *ast.UnaryExpr:
			if x.Op == token.AND && isIV(x.X) {
				assigned = true
			}
		}
		return !assigned
	})
	return !assigned
}

func constInt64(tv types.TypeAndValue) (int64, bool) {
	if tv.Value == nil {
		return 0, false
	}
	if v, ok := constant.Int64Val(constant.ToInt(tv.Value)); ok {
		return v, true
	}
	return 0, false
}
