package govc

import (
	"go/ast"
	"go/types"
	"sync"

	"bngvc/smt"
)

// Self-deadlock detection for non-reentrant mutexes held in struct fields.
//
// While executing a function the verifier records, per (owner object, mutex field), whether the
// mutex is held (a 0/1/2 term in the state's ghost map: 0 free, 1 read-held, 2 write-held, merged
// with ite at joins like any other ghost). Acquiring a mutex that the same invocation already
// holds -- directly, or through a call of a method of the same object whose body (transitively,
// through methods of the same receiver) acquires it -- can never succeed: sync.Mutex and
// sync.RWMutex are not reentrant. The obligation kind is nopanic ("the gateway cannot hang").
// Read-after-read is allowed (it only deadlocks with a writer queued in between).

func heldKey(owner smt.Term, mu string) string { return "held:" + owner.S + "." + mu }

// noteLock updates the held state and, on an acquisition, emits the deadlock obligation.
func (fv *funcVerifier) noteLock(st *State, muExpr ast.Expr, acquire, write bool, call *ast.CallExpr) {
	sel, ok := ast.Unparen(muExpr).(*ast.SelectorExpr)
	if !ok {
		return
	}
	if _, isField := fv.info.Selections[sel]; !isField {
		return
	}
	owner := fv.evalExpr(st, sel.X)
	k := heldKey(owner, sel.Sel.Name)
	cur, have := st.ghost[k]
	if !have {
		cur = smt.IntLit(0)
	}
	if !acquire {
		st.ghost[k] = smt.IntLit(0)
		return
	}
	if fv.opt.NoPanic || fv.spec != nil {
		bad := smt.Ne(cur, smt.IntLit(0))
		if !write {
			bad = smt.Eq(cur, smt.IntLit(2))
		}
		fv.assert(st, "nopanic", "deadlock:"+fv.exprStr(muExpr)+" acquired while this call already holds it", call.Pos(), smt.Not(bad))
	}
	v := int64(1)
	if write {
		v = 2
	}
	st.ghost[k] = smt.IntLit(v)
}

// checkCalleeLocks emits the deadlock obligation for a call recv.m(...) of a method whose body
// acquires mutex fields of its receiver that the caller holds on the same object.
func (fv *funcVerifier) checkCalleeLocks(st *State, call *ast.CallExpr, fn *types.Func, recv smt.Term) {
	acq := fv.prog.receiverLocks(FuncKey(fn))
	for _, mu := range sortedKeys(acq) {
		cur, have := st.ghost[heldKey(recv, mu)]
		if !have {
			continue
		}
		bad := smt.Ne(cur, smt.IntLit(0))
		if !acq[mu] { // callee only read-locks
			bad = smt.Eq(cur, smt.IntLit(2))
		}
		fv.assert(st, "nopanic", "deadlock:"+fv.exprStr(call.Fun)+" acquires "+mu+" which this call already holds", call.Pos(), smt.Not(bad))
	}
}

func sortedKeys(m map[string]bool) []string {
	var ks []string
	for k := range m {
		ks = append(ks, k)
	}
	sortStrings(ks)
	return ks
}

var lockSetMu sync.Mutex

// receiverLocks returns the mutex fields of its own receiver that the method acquires, directly or
// through methods of the same receiver (value true = a write lock is among the acquisitions).
func (p *Program) receiverLocks(key string) map[string]bool {
	lockSetMu.Lock()
	defer lockSetMu.Unlock()
	if p.lockSets == nil {
		p.lockSets = map[string]map[string]bool{}
	}
	return p.receiverLocksLocked(key, map[string]bool{})
}

func (p *Program) receiverLocksLocked(key string, busy map[string]bool) map[string]bool {
	if s, ok := p.lockSets[key]; ok {
		return s
	}
	out := map[string]bool{}
	if busy[key] {
		return out
	}
	busy[key] = true
	fi := p.Funcs[key]
	if fi == nil || fi.Decl.Recv == nil || len(fi.Decl.Recv.List) == 0 || len(fi.Decl.Recv.List[0].Names) == 0 || fi.Decl.Body == nil {
		p.lockSets[key] = out
		return out
	}
	info := fi.Pkg.TypesInfo
	recvObj := info.Defs[fi.Decl.Recv.List[0].Names[0]]
	isRecv := func(e ast.Expr) bool {
		id, ok := ast.Unparen(e).(*ast.Ident)
		return ok && recvObj != nil && info.Uses[id] == recvObj
	}
	ast.Inspect(fi.Decl.Body, func(n ast.Node) bool {
		if _, isLit := n.(*ast.FuncLit); isLit {
			return false // closures (goroutines, callbacks) run elsewhere
		}
		call, ok := n.(*ast.CallExpr)
		if !ok {
			return true
		}
		sel, ok := ast.Unparen(call.Fun).(*ast.SelectorExpr)
		if !ok {
			return true
		}
		// recv.mu.Lock() / RLock()
		if inner, ok := ast.Unparen(sel.X).(*ast.SelectorExpr); ok && isRecv(inner.X) {
			if s, isField := info.Selections[inner]; isField && s.Kind() == types.FieldVal {
				switch sel.Sel.Name {
				case "Lock":
					out[inner.Sel.Name] = true
				case "RLock":
					if !out[inner.Sel.Name] {
						out[inner.Sel.Name] = false
					}
				}
			}
			return true
		}
		// recv.method(...)
		if isRecv(sel.X) {
			if s, ok := info.Selections[sel]; ok && s.Kind() == types.MethodVal {
				if fn, ok := s.Obj().(*types.Func); ok && p.InRepo(fn.Pkg()) {
					for mu, w := range p.receiverLocksLocked(FuncKey(fn), busy) {
						if w || !out[mu] {
							out[mu] = w || out[mu]
						}
					}
				}
			}
		}
		return true
	})
	p.lockSets[key] = out
	return out
}
