package main

import (
	"fmt"
	"os"
	"path/filepath"
	"runtime"
	"strings"
	"time"

	"bngvc/llvc"
	"bngvc/smt"
)

func main() {
	repo, file, entry, prop, kinds, pat := os.Args[1], os.Args[2], os.Args[3], os.Args[4], os.Args[5], os.Args[6]
	llvc.RepoBPFDir = filepath.Join(repo, "bpf")
	mod, err := llvc.Compile(filepath.Join(repo, "bpf", file))
	if err != nil {
		panic(err)
	}
	f := mod.Funcs[entry]
	sp, err := llvc.LoadSpec(llvc.SpecFile, mod.CFile, entry, llvc.ProgTypeOfSection(f.Section))
	if err != nil {
		panic(err)
	}
	solver := smt.NewSolver(60*time.Second, "")
	rep, err := llvc.Check(mod, entry, llvc.Options{Property: prop, Spec: sp}, solver, runtime.NumCPU(), llvc.CheckOptions{Replay: false, Kinds: kinds})
	if err != nil {
		panic(err)
	}
	fmt.Println("rejected:", rep.Result.Rejected)
	for _, s := range rep.Solved {
		if strings.Contains(s.O.ID, pat) {
			fmt.Println(s.O.ID, s.Status, s.Solver)
			if len(os.Args) > 7 {
				fmt.Println(s.O.Query())
			}
		}
	}
}
