package radius

// Replay for the undischarged obligation
//   radius.AccountingManager.StopSession.ensures[acctStops != 0 ==> unlockedN(2, sessionID !in am.sessions)]
// StopSession looks the session up in one critical section, releases sessionsMu, sends the
// Accounting-Stop, and deletes the session from the table only in a LATER critical section.
// A second StopSession for the same session that runs in between (DHCP RELEASE racing lease expiry,
// CoA disconnect racing PPPoE teardown, ...) still finds the session and sends a second Stop.
// The window is entered deterministically here through the counter-fetcher callback, which
// sendAccountingStop calls after the first critical section was left: the callback plays the second caller.

import (
	"fmt"
	"net"
	"os"
	"sync/atomic"
	"testing"
	"time"

	"go.uber.org/zap"
	lradius "layeh.com/radius"
	"layeh.com/radius/rfc2866"
)

func TestReplayVC(t *testing.T) {
	secret := "s3cret"
	srvConn, err := net.ListenUDP("udp", &net.UDPAddr{IP: net.IPv4(127, 0, 0, 1), Port: 0})
	if err != nil {
		fmt.Println("REPLAY-SKIP: cannot open UDP socket:", err)
		return
	}
	defer srvConn.Close()
	port := srvConn.LocalAddr().(*net.UDPAddr).Port
	var starts, stops int32
	go func() {
		buf := make([]byte, 4096)
		for {
			n, from, err := srvConn.ReadFromUDP(buf)
			if err != nil {
				return
			}
			p, err := lradius.Parse(buf[:n], []byte(secret))
			if err != nil {
				continue
			}
			switch rfc2866.AcctStatusType_Get(p) {
			case rfc2866.AcctStatusType_Value_Start:
				atomic.AddInt32(&starts, 1)
			case rfc2866.AcctStatusType_Value_Stop:
				atomic.AddInt32(&stops, 1)
			}
			b, _ := p.Response(lradius.CodeAccountingResponse).Encode()
			srvConn.WriteToUDP(b, from)
		}
	}()

	c, err := NewClient(ClientConfig{Servers: []ServerConfig{{Host: "127.0.0.1", Port: port - 1, Secret: secret}}, NASID: "bng1", Timeout: 2 * time.Second}, zap.NewNop())
	if err != nil {
		t.Fatal(err)
	}
	dir, _ := os.MkdirTemp("", "replay-c08")
	defer os.RemoveAll(dir)
	cfg := DefaultAccountingConfig()
	cfg.PersistPath = dir
	am, err := NewAccountingManager(c, cfg, zap.NewNop())
	if err != nil {
		t.Fatal(err)
	}
	if err := am.StartSession(&AccountingSession{SessionID: "sess-1", Username: "alice"}); err != nil {
		t.Fatal(err)
	}
	var second int32
	var err2 error
	am.SetCounterFetcher(func(id string) (*SessionCounters, error) {
		if atomic.CompareAndSwapInt32(&second, 0, 1) {
			// the "concurrent" second caller, scheduled after the first one released sessionsMu
			err2 = am.StopSession("sess-1", TerminateCauseLostCarrier)
		}
		return &SessionCounters{}, nil
	})
	err1 := am.StopSession("sess-1", TerminateCauseUserRequest)
	time.Sleep(100 * time.Millisecond)
	fmt.Printf("first StopSession err=%v, second StopSession err=%v; server saw %d Start, %d Stop\n", err1, err2, atomic.LoadInt32(&starts), atomic.LoadInt32(&stops))
	if n := atomic.LoadInt32(&stops); n != 1 {
		fmt.Printf("REPLAY-VIOLATED: one started session, two overlapping StopSession calls: %d Accounting-Stop records accepted by the server (second call returned %v instead of 'session not found')\n", n, err2)
		return
	}
	fmt.Println("REPLAY-OK")
}
