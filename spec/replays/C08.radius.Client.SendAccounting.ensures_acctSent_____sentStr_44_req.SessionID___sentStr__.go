package radius

// Replay for the undischarged obligation
//   C08.radius.Client.SendAccounting.ensures[acctSent() ==> sentStr(44, req.SessionID) && sentStr(1, req.Username)]
// SendAccounting discards the error the layeh setters return for values longer
// than 253 octets, so the Accounting-Request goes out WITHOUT the User-Name /
// Acct-Session-Id attribute and SendAccounting still returns nil.
// It also exercises the counter split with a 64-bit value (expected OK).

import (
	"context"
	"fmt"
	"net"
	"strings"
	"testing"
	"time"

	"go.uber.org/zap"
	lradius "layeh.com/radius"
	"layeh.com/radius/rfc2865"
	"layeh.com/radius/rfc2866"
	"layeh.com/radius/rfc2869"
)

func TestReplayVC(t *testing.T) {
	secret := "s3cret"
	srvConn, err := net.ListenUDP("udp", &net.UDPAddr{IP: net.IPv4(127, 0, 0, 1), Port: 0})
	if err != nil {
		fmt.Println("REPLAY-SKIP: cannot open UDP socket:", err)
		return
	}
	defer srvConn.Close()
	port := srvConn.LocalAddr().(*net.UDPAddr).Port
	got := make(chan *lradius.Packet, 1)
	go func() {
		buf := make([]byte, 4096)
		n, from, err := srvConn.ReadFromUDP(buf)
		if err != nil {
			return
		}
		p, err := lradius.Parse(buf[:n], []byte(secret))
		if err != nil {
			return
		}
		got <- p
		resp := p.Response(lradius.CodeAccountingResponse)
		b, _ := resp.Encode()
		srvConn.WriteToUDP(b, from)
	}()

	c, err := NewClient(ClientConfig{Servers: []ServerConfig{{Host: "127.0.0.1", Port: port - 1, Secret: secret}}, NASID: "bng1", Timeout: 2 * time.Second}, zap.NewNop())
	if err != nil {
		t.Fatal(err)
	}
	in := uint64(5)<<32 | 0x89ABCDEF
	req := &AcctRequest{
		SessionID:   "sess-1",
		Username:    strings.Repeat("u", 254),
		StatusType:  AcctStatusInterimUpdate,
		InputOctets: in, OutputOctets: 0xFFFFFFFF,
	}
	err = c.SendAccounting(context.Background(), req)
	var p *lradius.Packet
	select {
	case p = <-got:
	case <-time.After(3 * time.Second):
		fmt.Println("REPLAY-SKIP: server saw no packet; SendAccounting returned", err)
		return
	}
	lo := uint64(rfc2866.AcctInputOctets_Get(p))
	gw := uint64(rfc2869.AcctInputGigawords_Get(p))
	fmt.Printf("SendAccounting err=%v; record: session-id=%q input-octets=%d gigawords=%d (gw*2^32+octets == value: %v)\n",
		err, rfc2866.AcctSessionID_GetString(p), lo, gw, gw<<32+lo == in)
	if _, lerr := rfc2865.UserName_Lookup(p); lerr != nil {
		fmt.Printf("REPLAY-VIOLATED: accounting record sent (SendAccounting returned %v) without User-Name although req.Username has %d octets: %v\n", err, len(req.Username), lerr)
		return
	}
	fmt.Println("REPLAY-OK")
}
