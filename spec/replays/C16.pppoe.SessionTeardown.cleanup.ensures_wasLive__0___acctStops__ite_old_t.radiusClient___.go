package pppoe

// Replay for C16.pppoe.SessionTeardown.cleanup.ensures[wasLive__0___acctStops__ite_old_t.radiusClient__]
// "exactly one Accounting-Stop was issued if a Start was" / C08 "never for a session that was not started".
//
// History: a client authenticates (PAP accepted: Session.Authenticated) and the session is ended
// before any Accounting-Start was issued for it (nothing in pkg/pppoe issues one). The teardown must
// not send an Accounting-Stop for a session RADIUS never saw a Start for.

import (
	"net"
	"sync"
	"sync/atomic"
	"testing"
	"time"

	bngradius "github.com/codelaboratoryltd/bng/pkg/radius"
	"go.uber.org/zap"
	"layeh.com/radius"
	"layeh.com/radius/rfc2866"
)

type replayCountingPool struct {
	mu       sync.Mutex
	releases map[string]int
}

func (p *replayCountingPool) Allocate(sessionID string) net.IP { return net.IPv4(10, 0, 0, 2) }
func (p *replayCountingPool) Release(sessionID string) {
	p.mu.Lock()
	p.releases[sessionID]++
	p.mu.Unlock()
}

// replayAcctServer answers Accounting-Requests on 127.0.0.1 and counts Start / Stop records.
func replayAcctServer(t *testing.T, secret string) (port int, starts, stops *int32, closeFn func()) {
	var conn *net.UDPConn
	var err error
	// the client sends accounting to port+1: find a free pair
	for p := 28000; p < 28100; p++ {
		conn, err = net.ListenUDP("udp4", &net.UDPAddr{IP: net.IPv4(127, 0, 0, 1), Port: p + 1})
		if err == nil {
			port = p
			break
		}
	}
	if conn == nil {
		t.Fatalf("no free UDP port: %v", err)
	}
	starts, stops = new(int32), new(int32)
	go func() {
		buf := make([]byte, 4096)
		for {
			n, addr, err := conn.ReadFromUDP(buf)
			if err != nil {
				return
			}
			pkt, err := radius.Parse(buf[:n], []byte(secret))
			if err != nil || pkt.Code != radius.CodeAccountingRequest {
				continue
			}
			switch rfc2866.AcctStatusType_Get(pkt) {
			case rfc2866.AcctStatusType_Value_Start:
				atomic.AddInt32(starts, 1)
			case rfc2866.AcctStatusType_Value_Stop:
				atomic.AddInt32(stops, 1)
			}
			resp := pkt.Response(radius.CodeAccountingResponse)
			if b, err := resp.Encode(); err == nil {
				conn.WriteToUDP(b, addr)
			}
		}
	}()
	return port, starts, stops, func() { conn.Close() }
}

func TestReplayVC(t *testing.T) {
	const secret = "s3cret"
	port, starts, stops, closeSrv := replayAcctServer(t, secret)
	defer closeSrv()

	logger := zap.NewNop()
	rc, err := bngradius.NewClient(bngradius.ClientConfig{
		Servers: []bngradius.ServerConfig{{Host: "127.0.0.1", Port: port, Secret: secret}},
		NASID:   "replay-nas",
		Timeout: time.Second,
		Retries: 1,
	}, logger)
	if err != nil {
		t.Fatal(err)
	}

	mgr := NewSessionManager()
	pool := &replayCountingPool{releases: map[string]int{}}
	td := NewSessionTeardown(DefaultTeardownConfig(), logger)
	td.SetSessionManager(mgr)
	td.SetIPPool(pool)
	td.SetRADIUSClient(rc)

	clientMAC, _ := net.ParseMAC("aa:bb:cc:dd:ee:02")
	serverMAC, _ := net.ParseMAC("02:00:00:00:00:01")
	session, err := mgr.CreateSession(clientMAC, serverMAC)
	if err != nil {
		t.Fatal(err)
	}
	// PAP accepted; IPCP has not completed, no Accounting-Start was issued
	session.Username = "bob"
	session.Authenticated = true
	session.SetState(StateIPCPNegotiation)

	if err := td.HandleClientPADT(session, clientMAC, session.ID); err != nil {
		t.Fatal(err)
	}
	nStart, nStop := atomic.LoadInt32(starts), atomic.LoadInt32(stops)
	t.Logf("RADIUS server saw %d Accounting-Start and %d Accounting-Stop for the session", nStart, nStop)
	if nStop != 0 && nStart == 0 {
		t.Logf("REPLAY-VIOLATED: Accounting-Stop sent for a session that was never started (starts=%d stops=%d)", nStart, nStop)
		return
	}
	t.Logf("REPLAY-OK")
}
