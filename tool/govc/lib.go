package govc

import (
	"go/constant"
	"go/ast"
	"go/types"
	"strconv"
	"strings"

	"bngvc/smt"
)

type libHandler func(fv *funcVerifier, st *State, call *ast.CallExpr, fn *types.Func) []smt.Term
type ifaceHandler func(fv *funcVerifier, st *State, call *ast.CallExpr, fn *types.Func, recv smt.Term, args []smt.Term) []smt.Term

var libModels map[string]libHandler
var ifaceModels map[string]ifaceHandler

// AssumedLib lists the library contracts the models below assume (for evidence).
var AssumedLib = []string{
	"encoding/binary.{Big,Little}Endian.{Uint16,Uint32,Uint64,PutUint16,PutUint32,PutUint64}: panic iff the slice is shorter than the width; value = the big/little-endian combination of the bytes",
	"fmt.Errorf / errors.New: return a non-nil error, no other effect",
	"net.IP.To4: returns nil or a 4-byte slice (the receiver itself when it has length 4); To16: nil or a 16-byte slice (the receiver itself when it has length 16, non-nil when length 4)",
	"sync.(RW)Mutex: Lock/RLock acquire (monitor model: protected state is havocked and the lock invariant assumed), Unlock/RUnlock release (lock invariant asserted when declared)",
	"time.AfterFunc / time.NewTimer: return a non-nil *Timer, no effect on modelled state at the call",
	"time.Now: symbolic monotone clock; Time.Add/Sub/After/Before/Since/Unix: integer arithmetic on nanoseconds",
	"cilium/ebpf (*Map).Put/Update/Delete: only read their key/value arguments, no effect on Go state, unconstrained error",
	"net.IP.Equal(a,b) <=> ip_key(a) == ip_key(b) and net.IP.String() = ip_str(ip_key(a)) with ip_str injective: ip_key is an uninterpreted, extensional function of the address bytes standing for the Equal-equivalence class (4-byte and 16-byte forms of one address may share a key; nothing else is assumed)",
	"github.com/insomniacslk/dhcp/dhcpv4: With*/Opt*/New*/Get*/Is*/Has* functions and the read-only accessors of a message (RequestedIPAddress, MessageType, Options.Get, ...) allocate new objects and do not write existing memory; results unconstrained",
	"net.IPMask.Size() = (ones, bits): 0 <= ones <= bits and bits is 0 or 8*len(mask)",
	"net.HardwareAddr.String: an (uninterpreted) function of the address bytes; crypto/rand.Read: writes only into its argument's backing array",
	"zap, fmt.Sprint*, strings, strconv, errors, math, unicode, context, sync/atomic, prometheus: no panic, no effect on modelled state, unconstrained results",
}

var noEffectPkgs = map[string]bool{
	"go.uber.org/zap": true, "go.uber.org/zap/zapcore": true, "fmt": true, "strings": true, "strconv": true,
	"errors": true, "math": true, "math/bits": true, "unicode": true, "unicode/utf8": true, "time": true,
	"context": true, "sync/atomic": true, "log": true, "path/filepath": true, "regexp": true, "net/netip": true,
	"crypto/md5": true, "crypto/sha256": true, "crypto/hmac": true, "crypto/subtle": true, "hash/fnv": true,
	"github.com/google/uuid": true, "math/rand": true, "os": true, "runtime": true, "reflect": true,
	"github.com/prometheus/client_golang/prometheus": true, "net/url": true, "path": true, "slices": false, "maps": false,
	"net/http": true, "html": true, "unicode/utf16": true, "crypto/sha1": true, "encoding/base64": true,
}

var effectExceptions = map[string]bool{
	"fmt.Sscanf": true, "fmt.Sscan": true, "fmt.Fscan": true, "fmt.Fscanf": true, "strconv.AppendInt": true,
	"os.ReadFile": false, "(*os.File).Read": true, "math/rand.Read": true,
}

func isNoEffect(full string, fn *types.Func) bool {
	if fn.Pkg() == nil {
		return true // error.Error etc.
	}
	if effectExceptions[full] {
		return false
	}
	p := fn.Pkg().Path()
	if noEffectPkgs[p] {
		return true
	}
	if strings.HasPrefix(p, "github.com/prometheus/") {
		return true
	}
	if p == "net" {
		sig := fn.Type().(*types.Signature)
		if sig.Recv() != nil {
			rt := sig.Recv().Type().String()
			switch strings.TrimPrefix(rt, "*") {
			case "net.IP", "net.IPMask", "net.IPNet", "net.HardwareAddr", "net.UDPAddr", "net.TCPAddr", "net.Interface":
				return true
			}
			return false
		}
		switch fn.Name() {
		case "ParseIP", "ParseCIDR", "ParseMAC", "IPv4", "CIDRMask", "IPv4Mask", "JoinHostPort", "SplitHostPort", "ResolveUDPAddr", "ResolveTCPAddr", "LookupHost":
			return true
		}
		return false
	}
	if p == "bytes" {
		sig := fn.Type().(*types.Signature)
		return sig.Recv() == nil
	}
	if p == "github.com/insomniacslk/dhcp/dhcpv4" {
		// constructors of options / modifiers / replies and read-only accessors of a message:
		// they allocate new objects and copy their arguments, existing memory is not written
		n := fn.Name()
		for _, pre := range []string{"With", "Opt", "New", "Get", "Is", "Has"} {
			if strings.HasPrefix(n, pre) {
				return true
			}
		}
		switch n {
		case "RequestedIPAddress", "MessageType", "ServerIdentifier", "HostName", "Summary", "String", "ToBytes", "ClassIdentifier", "ParameterRequestList", "IPAddressLeaseTime", "FromBytes":
			return true
		}
		return false
	}
	if p == "encoding/hex" {
		return fn.Name() == "EncodeToString" || fn.Name() == "DecodeString" || fn.Name() == "Dump"
	}
	if p == "sort" {
		switch fn.Name() {
		case "SearchInts", "Search", "SearchStrings", "IsSorted", "SliceIsSorted":
			return true
		}
	}
	if p == "sync" {
		switch fn.Name() {
		case "Add", "Done", "Wait", "Load", "Store", "Delete", "Range", "LoadOrStore", "Do", "Broadcast", "Signal", "Get", "Put":
			return true
		}
	}
	return false
}

// isPureLib: calls that modify nothing (used for loop frame computation).
func isPureLib(full string) bool {
	if _, ok := libModels[full]; ok {
		if impureModel[full] {
			return false
		}
		switch {
		case strings.Contains(full, ".Put"), strings.Contains(full, "Lock"), strings.Contains(full, "Unlock"):
			return false
		case strings.Contains(full, "math/big"):
			return strings.HasSuffix(full, ".Bit") || strings.HasSuffix(full, ".Uint64") || strings.HasSuffix(full, ".Cmp") || strings.HasSuffix(full, ".Sign") || strings.HasSuffix(full, ".Int64") || strings.HasSuffix(full, ".BitLen")
		}
		return true
	}
	i := strings.LastIndex(full, ".")
	if i < 0 {
		return false
	}
	p := strings.TrimLeft(full[:i], "(*")
	if j := strings.LastIndex(p, ")"); j >= 0 {
		p = p[:j]
	}
	// strip type name for methods: "(T).M" forms carry "pkg.T"
	for q := p; q != ""; {
		if noEffectPkgs[q] {
			return !effectExceptions[full]
		}
		k := strings.LastIndex(q, ".")
		if k < 0 {
			break
		}
		q = q[:k]
	}
	return false
}

func init() {
	libModels = map[string]libHandler{}
	ifaceModels = map[string]ifaceHandler{}
	for _, end := range []struct {
		typ string
		big bool
	}{{"bigEndian", true}, {"littleEndian", false}} {
		for _, w := range []int{2, 4, 8} {
			w, big := w, end.big
			name := map[int]string{2: "Uint16", 4: "Uint32", 8: "Uint64"}[w]
			libModels["(encoding/binary."+end.typ+")."+name] = func(fv *funcVerifier, st *State, call *ast.CallExpr, fn *types.Func) []smt.Term {
				s := fv.evalExpr(st, call.Args[0])
				g := smt.Ge(slLen(s), smt.IntLit(int64(w)))
				if fv.opt.NoPanic {
					fv.assert(st, "nopanic", "binary."+name+":"+fv.exprStr(call.Args[0]), call.Pos(), g)
				} else {
					fv.assume(st, g)
				}
				key := fv.memKey(types.Typ[types.Uint8])
				fv.instFrames(key, slArr(s))
				m := smt.Select(fv.heapGet(st, key), slArr(s))
				sum := smt.IntLit(0)
				for i := 0; i < w; i++ {
					b := fv.c.Let("b", smt.Select(m, smt.Add(slOff(s), smt.IntLit(int64(i)))))
					fv.assume(st, smt.And(smt.Ge(b, smt.IntLit(0)), smt.Le(b, smt.IntLit(255))))
					sh := i
					if big {
						sh = w - 1 - i
					}
					sum = smt.Add(sum, smt.Mul(b, smt.BigLit(pow2(8*sh))))
				}
				return []smt.Term{fv.c.Let("be", sum)}
			}
			libModels["(encoding/binary."+end.typ+").Put"+name] = func(fv *funcVerifier, st *State, call *ast.CallExpr, fn *types.Func) []smt.Term {
				s := fv.evalExpr(st, call.Args[0])
				v := fv.evalExpr(st, call.Args[1])
				g := smt.Ge(slLen(s), smt.IntLit(int64(w)))
				if fv.opt.NoPanic {
					fv.assert(st, "nopanic", "binary.Put"+name+":"+fv.exprStr(call.Args[0]), call.Pos(), g)
				} else {
					fv.assume(st, g)
				}
				key := fv.memKey(types.Typ[types.Uint8])
				mm := fv.heapGet(st, key)
				m := smt.Select(mm, slArr(s))
				for i := 0; i < w; i++ {
					sh := i
					if big {
						sh = w - 1 - i
					}
					b := smt.Mod(smt.Div(v, smt.BigLit(pow2(8*sh))), smt.IntLit(256))
					m = smt.Store(m, smt.Add(slOff(s), smt.IntLit(int64(i))), b)
				}
				fv.mut++
				fv.heapSet(st, key, smt.Store(mm, slArr(s), m))
				return nil
			}
		}
	}
	nonNilErr := func(fv *funcVerifier, st *State, call *ast.CallExpr, fn *types.Func) []smt.Term {
		wrapped := smt.Term{}
		for _, a := range call.Args {
			v := fv.evalExpr(st, a)
			if t := fv.typeOf(a); t.String() == "error" {
				wrapped = v
			}
		}
		e := fv.freshNonNil(st, "err", fv.typeOf(call))
		// %w wrapping: errors.Is(e, sentinel) is modelled by errIs(e) = sentinel
		fv.c.DeclareFun("err_is", []string{smt.Int}, smt.Int)
		if wrapped.S != "" {
			fv.assume(st, smt.Eq(smt.App(smt.Int, "err_is", e), smt.App(smt.Int, "err_is", wrapped)))
		} else {
			fv.assume(st, smt.Eq(smt.App(smt.Int, "err_is", e), e))
		}
		return []smt.Term{e}
	}
	libModels["fmt.Errorf"] = nonNilErr
	libModels["errors.New"] = nonNilErr

	libModels["errors.Is"] = func(fv *funcVerifier, st *State, call *ast.CallExpr, fn *types.Func) []smt.Term {
		e := fv.evalExpr(st, call.Args[0])
		t := fv.evalExpr(st, call.Args[1])
		fv.c.DeclareFun("err_is", []string{smt.Int}, smt.Int)
		return []smt.Term{fv.c.Let("is", smt.And(smt.Ne(e, smt.IntLit(0)), smt.Or(smt.Eq(e, t), smt.Eq(smt.App(smt.Int, "err_is", e), t))))}
	}

	// net.IP
	libModels["(net.IP).To4"] = func(fv *funcVerifier, st *State, call *ast.CallExpr, fn *types.Func) []smt.Term {
		sel := ast.Unparen(call.Fun).(*ast.SelectorExpr)
		ip := fv.evalExpr(st, sel.X)
		fv.c.DeclareFun("ip_to4", []string{SliceSort}, SliceSort)
		r := fv.c.Let("to4", smt.App(SliceSort, "ip_to4", ip))
		fv.assume(st, fv.so.valid(r, fn.Type().(*types.Signature).Results().At(0).Type(), st.frontier))
		fv.assume(st, smt.Or(smt.Eq(slArr(r), smt.IntLit(0)), smt.Eq(slLen(r), smt.IntLit(4))))
		fv.assume(st, smt.Implies(smt.Eq(slLen(ip), smt.IntLit(4)), smt.Eq(r, ip)))
		fv.assume(st, smt.Implies(smt.And(smt.Ne(slLen(ip), smt.IntLit(4)), smt.Ne(slLen(ip), smt.IntLit(16))), smt.Eq(slArr(r), smt.IntLit(0))))
		// a 16-byte address that has a 4-byte form: that form is the slice ip[12:16] of the same array
		fv.assume(st, smt.Implies(smt.And(smt.Eq(slLen(ip), smt.IntLit(16)), smt.Ne(slArr(r), smt.IntLit(0))),
			smt.And(smt.Eq(slArr(r), slArr(ip)), smt.Eq(slOff(r), smt.Add(slOff(ip), smt.IntLit(12))))))
		return []smt.Term{r}
	}
	// net.IPMask.Size: (ones, bits) with 0 <= ones <= bits and bits either 0 (non-canonical mask,
	// then ones is 0 too) or 8*len(mask)
	libModels["(net.IPMask).Size"] = func(fv *funcVerifier, st *State, call *ast.CallExpr, fn *types.Func) []smt.Term {
		sel := ast.Unparen(call.Fun).(*ast.SelectorExpr)
		m := fv.evalExpr(st, sel.X)
		rs := fv.freshResults(st, call, "masksize")
		ones, bits := rs[0], rs[1]
		fv.assume(st, smt.And(smt.Ge(ones, smt.IntLit(0)), smt.Le(ones, bits)))
		fv.assume(st, smt.Or(smt.Eq(bits, smt.IntLit(0)), smt.Eq(bits, smt.Mul(smt.IntLit(8), slLen(m)))))
		return rs
	}
	libModels["(net.IP).To16"] = func(fv *funcVerifier, st *State, call *ast.CallExpr, fn *types.Func) []smt.Term {
		sel := ast.Unparen(call.Fun).(*ast.SelectorExpr)
		ip := fv.evalExpr(st, sel.X)
		fv.c.DeclareFun("ip_to16", []string{SliceSort}, SliceSort)
		r := fv.c.Let("to16", smt.App(SliceSort, "ip_to16", ip))
		fv.assume(st, fv.so.valid(r, fn.Type().(*types.Signature).Results().At(0).Type(), st.frontier))
		fv.assume(st, smt.Or(smt.Eq(slArr(r), smt.IntLit(0)), smt.Eq(slLen(r), smt.IntLit(16))))
		fv.assume(st, smt.Implies(smt.Eq(slLen(ip), smt.IntLit(16)), smt.Eq(r, ip)))
		fv.assume(st, smt.Implies(smt.Eq(slLen(ip), smt.IntLit(4)), smt.Ne(slArr(r), smt.IntLit(0))))
		fv.assume(st, smt.Implies(smt.And(smt.Ne(slLen(ip), smt.IntLit(4)), smt.Ne(slLen(ip), smt.IntLit(16))), smt.Eq(slArr(r), smt.IntLit(0))))
		return []smt.Term{r}
	}

	// (*net.IPNet).Contains: an uninterpreted predicate of the network's address and mask bytes and
	// of the Equal-class of the address asked about (deterministic; nothing else is assumed)
	libModels["(*net.IPNet).Contains"] = func(fv *funcVerifier, st *State, call *ast.CallExpr, fn *types.Func) []smt.Term {
		sel := ast.Unparen(call.Fun).(*ast.SelectorExpr)
		n := fv.evalExpr(st, sel.X)
		ip := fv.evalExpr(st, call.Args[0])
		return []smt.Term{fv.c.Let("netc", fv.netContains(st, n, fv.typeOf(sel.X), ip))}
	}

	// net.IP.Equal / String through the equivalence-class key (see ipKey)
	libModels["(net.IP).Equal"] = func(fv *funcVerifier, st *State, call *ast.CallExpr, fn *types.Func) []smt.Term {
		sel := ast.Unparen(call.Fun).(*ast.SelectorExpr)
		a := fv.evalExpr(st, sel.X)
		b := fv.evalExpr(st, call.Args[0])
		return []smt.Term{fv.c.Let("ipeq", smt.Eq(fv.ipKey(st, a), fv.ipKey(st, b)))}
	}
	libModels["(net.IP).String"] = func(fv *funcVerifier, st *State, call *ast.CallExpr, fn *types.Func) []smt.Term {
		sel := ast.Unparen(call.Fun).(*ast.SelectorExpr)
		a := fv.evalExpr(st, sel.X)
		return []smt.Term{fv.c.Let("ipstr", smt.App(StrSort, "ip_str", fv.ipKey(st, a)))}
	}

	// cilium/ebpf Map.Put/Update/Delete: kernel map writes; key/value are only read, no
	// effect on the modelled Go state; the error result is unconstrained
	for _, name := range []string{"Put", "Update", "Delete"} {
		name := name
		libModels["(*github.com/cilium/ebpf.Map)."+name] = func(fv *funcVerifier, st *State, call *ast.CallExpr, fn *types.Func) []smt.Term {
			fv.evalCallee(st, call.Fun)
			fv.evalArgs(st, call, fn.Type().(*types.Signature))
			// observable through function-level ghost counters, when the contract declares them:
			// bpfPuts (Put / Update calls made) and bpfDeletes (Delete calls made)
			g := "bpfPuts"
			if name == "Delete" {
				g = "bpfDeletes"
			}
			if cur, ok := st.ghost[g]; ok && !st.dead() {
				st.ghost[g] = fv.c.Let("ghost_"+g, smt.Add(cur, smt.IntLit(1)))
			}
			return fv.freshResults(st, call, "bpfmap")
		}
	}

	// crypto/rand.Read(b): writes only into the backing array of b; results unconstrained
	libModels["crypto/rand.Read"] = func(fv *funcVerifier, st *State, call *ast.CallExpr, fn *types.Func) []smt.Term {
		b := fv.evalExpr(st, call.Args[0])
		key := fv.memKey(types.Typ[types.Uint8])
		h := fv.heapGet(st, key)
		fv.mut++
		fv.heapSet(st, key, smt.Store(h, slArr(b), fv.c.Fresh("rnd", smt.ElemSort(h.Sort))))
		return fv.freshResults(st, call, "randread")
	}

	// net.HardwareAddr.String: a deterministic function of the address bytes (uninterpreted:
	// equal backing contents, offset and length give equal strings; nothing else is assumed)
	libModels["(net.HardwareAddr).String"] = func(fv *funcVerifier, st *State, call *ast.CallExpr, fn *types.Func) []smt.Term {
		sel := ast.Unparen(call.Fun).(*ast.SelectorExpr)
		hw := fv.evalExpr(st, sel.X)
		return []smt.Term{fv.hwaddrStr(st, hw)}
	}

	// fmt.Sprintf with a constant format made of literal text and %s verbs only, applied to string
	// arguments: the concatenation of the pieces (left fold over the engine's str_cat symbol).
	// Every other use keeps the generic treatment (no effect, unconstrained result).
	libModels["fmt.Sprintf"] = func(fv *funcVerifier, st *State, call *ast.CallExpr, fn *types.Func) []smt.Term {
		generic := func() []smt.Term {
			fv.evalArgs(st, call, fn.Type().(*types.Signature))
			return fv.freshResults(st, call, fn.Name())
		}
		if len(call.Args) == 0 || call.Ellipsis.IsValid() {
			return generic()
		}
		tv, ok := fv.fi.Pkg.TypesInfo.Types[call.Args[0]]
		if !ok || tv.Value == nil || tv.Value.Kind() != constant.String {
			return generic()
		}
		format := constant.StringVal(tv.Value)
		var pieces []string // literal pieces; a verb sits between pieces[i] and pieces[i+1]
		cur := ""
		for i := 0; i < len(format); i++ {
			if format[i] != '%' {
				cur += string(format[i])
				continue
			}
			if i+1 >= len(format) || format[i+1] != 's' {
				return generic()
			}
			pieces = append(pieces, cur)
			cur = ""
			i++
		}
		pieces = append(pieces, cur)
		if len(pieces)-1 != len(call.Args)-1 {
			return generic()
		}
		for _, a := range call.Args[1:] {
			b, ok := fv.typeOf(a).Underlying().(*types.Basic)
			if !ok || b.Info()&types.IsString == 0 {
				return generic()
			}
			if _, named := fv.typeOf(a).(*types.Named); named {
				return generic() // may have a String method / Error method
			}
		}
		var acc smt.Term
		have := false
		add := func(t smt.Term) {
			if !have {
				acc, have = t, true
				return
			}
			acc = fv.strConcat(st, acc, t)
		}
		for i, lit := range pieces {
			if lit != "" {
				add(fv.so.strConst(lit))
			}
			if i < len(call.Args)-1 {
				add(fv.evalExpr(st, call.Args[1+i]))
			}
		}
		if !have {
			acc = fv.so.strConst("")
		}
		return []smt.Term{acc}
	}

	// hex.EncodeToString: deterministic function of the bytes (see hexStr)
	libModels["encoding/hex.EncodeToString"] = func(fv *funcVerifier, st *State, call *ast.CallExpr, fn *types.Func) []smt.Term {
		return []smt.Term{fv.hexStr(st, fv.evalExpr(st, call.Args[0]))}
	}

	// locks
	lock := func(acquire bool) libHandler {
		return func(fv *funcVerifier, st *State, call *ast.CallExpr, fn *types.Func) []smt.Term {
			sel := ast.Unparen(call.Fun).(*ast.SelectorExpr)
			fv.noteLock(st, sel.X, acquire, sel.Sel.Name == "Lock" || sel.Sel.Name == "Unlock", call)
			fv.lockOp(st, sel.X, acquire, call)
			return nil
		}
	}
	for _, t := range []string{"(*sync.Mutex)", "(*sync.RWMutex)"} {
		libModels[t+".Lock"] = lock(true)
		libModels[t+".Unlock"] = lock(false)
	}
	libModels["(*sync.RWMutex).RLock"] = lock(true)
	libModels["(*sync.RWMutex).RUnlock"] = lock(false)

	// time
	libModels["time.Now"] = func(fv *funcVerifier, st *State, call *ast.CallExpr, fn *types.Func) []smt.Term {
		n := fv.c.Fresh("now", smt.Int)
		fv.assume(st, smt.Ge(n, st.now))
		st.now = n
		return []smt.Term{n}
	}
	libModels["time.Since"] = func(fv *funcVerifier, st *State, call *ast.CallExpr, fn *types.Func) []smt.Term {
		t := fv.evalExpr(st, call.Args[0])
		n := fv.c.Fresh("now", smt.Int)
		fv.assume(st, smt.Ge(n, st.now))
		st.now = n
		return []smt.Term{fv.wrap(smt.Sub(n, t), types.Typ[types.Int64])}
	}
	// time.AfterFunc / time.NewTimer: never return nil (the callback runs later, on another goroutine:
	// no effect on the caller's state at the call)
	for _, name := range []string{"time.AfterFunc", "time.NewTimer"} {
		libModels[name] = func(fv *funcVerifier, st *State, call *ast.CallExpr, fn *types.Func) []smt.Term {
			sig := fn.Type().(*types.Signature)
			fv.evalArgs(st, call, sig)
			return []smt.Term{fv.freshNonNil(st, "timer", sig.Results().At(0).Type())}
		}
	}
	timeRecv := func(fv *funcVerifier, st *State, call *ast.CallExpr) smt.Term {
		sel := ast.Unparen(call.Fun).(*ast.SelectorExpr)
		return fv.evalExpr(st, sel.X)
	}
	libModels["(time.Time).Add"] = func(fv *funcVerifier, st *State, call *ast.CallExpr, fn *types.Func) []smt.Term {
		t := timeRecv(fv, st, call)
		d := fv.evalExpr(st, call.Args[0])
		return []smt.Term{smt.Add(t, d)}
	}
	libModels["(time.Time).Sub"] = func(fv *funcVerifier, st *State, call *ast.CallExpr, fn *types.Func) []smt.Term {
		t := timeRecv(fv, st, call)
		u := fv.evalExpr(st, call.Args[0])
		return []smt.Term{fv.wrap(smt.Sub(t, u), types.Typ[types.Int64])}
	}
	libModels["(time.Time).After"] = func(fv *funcVerifier, st *State, call *ast.CallExpr, fn *types.Func) []smt.Term {
		t := timeRecv(fv, st, call)
		u := fv.evalExpr(st, call.Args[0])
		return []smt.Term{smt.Gt(t, u)}
	}
	libModels["(time.Time).Before"] = func(fv *funcVerifier, st *State, call *ast.CallExpr, fn *types.Func) []smt.Term {
		t := timeRecv(fv, st, call)
		u := fv.evalExpr(st, call.Args[0])
		return []smt.Term{smt.Lt(t, u)}
	}
	libModels["(time.Time).Equal"] = func(fv *funcVerifier, st *State, call *ast.CallExpr, fn *types.Func) []smt.Term {
		t := timeRecv(fv, st, call)
		u := fv.evalExpr(st, call.Args[0])
		return []smt.Term{smt.Eq(t, u)}
	}
	libModels["(time.Time).IsZero"] = func(fv *funcVerifier, st *State, call *ast.CallExpr, fn *types.Func) []smt.Term {
		t := timeRecv(fv, st, call)
		return []smt.Term{smt.Eq(t, smt.IntLit(0))}
	}
}

// lockOp models acquiring/releasing the mutex designated by expression mu.
// hwaddrStr is the model of net.HardwareAddr.String() for the slice value hw in state st.
func (fv *funcVerifier) hwaddrStr(st *State, hw smt.Term) smt.Term {
	return fv.bytesStr(st, "hwaddr_str", "hx", hw)
}

// hexStr is the model of encoding/hex.EncodeToString(b): like hwaddrStr a deterministic,
// otherwise uninterpreted function of the byte window.
func (fv *funcVerifier) hexStr(st *State, b smt.Term) smt.Term {
	return fv.bytesStr(st, "hex_str", "hs", b)
}

// bytesStr applies the uninterpreted string-valued function fname to the byte window of slice b.
func (fv *funcVerifier) bytesStr(st *State, fname, pfx string, hw smt.Term) smt.Term {
	key := fv.memKey(types.Typ[types.Uint8])
	fv.instFrames(key, slArr(hw))
	if !fv.c.Has(fname) {
		fv.c.DeclareFun(fname, []string{smt.Arr(smt.Int, smt.Int), smt.Int, smt.Int}, StrSort)
		// the string depends only on the bytes of the window (extensionality, stated contrapositively so
		// that the index is a Skolem function): different strings => some byte of the windows differs
		a, b := smt.Term{S: pfx + "_a", Sort: smt.Arr(smt.Int, smt.Int)}, smt.Term{S: pfx + "_b", Sort: smt.Arr(smt.Int, smt.Int)}
		oa, ob, n := smt.Term{S: pfx + "_oa", Sort: smt.Int}, smt.Term{S: pfx + "_ob", Sort: smt.Int}, smt.Term{S: pfx + "_n", Sort: smt.Int}
		i := smt.Term{S: pfx + "_i", Sort: smt.Int}
		sa := smt.App(StrSort, fname, a, oa, n)
		sb := smt.App(StrSort, fname, b, ob, n)
		fv.c.Axiom(fname+"_ext", smt.Term{S: "(forall ((" + a.S + " (Array Int Int)) (" + oa.S + " Int) (" + b.S + " (Array Int Int)) (" + ob.S + " Int) (" + n.S + " Int)) (! " +
			smt.Implies(smt.Ne(sa, sb), smt.Exists([]smt.Term{i}, smt.And(smt.Ge(i, smt.IntLit(0)), smt.Lt(i, n),
				smt.Ne(smt.Select(a, smt.Add(oa, i)), smt.Select(b, smt.Add(ob, i)))))).S +
			" :pattern (" + sa.S + " " + sb.S + ")))", Sort: smt.Bool}, fname)
	}
	return smt.App(StrSort, fname, smt.Select(fv.heapGet(st, key), slArr(hw)), slOff(hw), slLen(hw))
}

// netContains is the model of (*net.IPNet).Contains for the network n (a *net.IPNet of type nt).
func (fv *funcVerifier) netContains(st *State, n smt.Term, nt types.Type, ip smt.Term) smt.Term {
	named, ok := derefNamed(nt)
	if !ok {
		fv.unsupported("netContains: not a *net.IPNet: %s", nt)
	}
	si := fv.so.structOf(named)
	_, fi := si.field("IP")
	_, fm := si.field("Mask")
	if fi == nil || fm == nil {
		fv.unsupported("netContains: %s has no IP/Mask fields", named)
	}
	nip := fv.fieldLval(st, n, named, fi).load()
	nm := fv.fieldLval(st, n, named, fm).load()
	if !fv.c.Has("ipnet_contains") {
		fv.c.DeclareFun("ipnet_contains", []string{smt.Int, smt.Int, smt.Int}, smt.Bool)
	}
	return smt.App(smt.Bool, "ipnet_contains", fv.ipKey(st, nip), fv.ipKey(st, nm), fv.ipKey(st, ip))
}

// ipKey is the identity of the net.IP.Equal equivalence class of the address held
// by the slice ip in state st: a function of the byte window only (extensional), so
// that a.Equal(b) <=> ipKey(a) == ipKey(b). Nothing is assumed about windows of
// different lengths (a 4-byte address and its 16-byte form MAY have the same key).
func (fv *funcVerifier) ipKey(st *State, ip smt.Term) smt.Term {
	key := fv.memKey(types.Typ[types.Uint8])
	fv.instFrames(key, slArr(ip))
	if !fv.c.Has("ip_key") {
		fv.c.DeclareFun("ip_key", []string{smt.Arr(smt.Int, smt.Int), smt.Int, smt.Int}, smt.Int)
		a, b := smt.Term{S: "ik_a", Sort: smt.Arr(smt.Int, smt.Int)}, smt.Term{S: "ik_b", Sort: smt.Arr(smt.Int, smt.Int)}
		oa, ob, n := smt.Term{S: "ik_oa", Sort: smt.Int}, smt.Term{S: "ik_ob", Sort: smt.Int}, smt.Term{S: "ik_n", Sort: smt.Int}
		i := smt.Term{S: "ik_i", Sort: smt.Int}
		sa := smt.App(smt.Int, "ip_key", a, oa, n)
		sb := smt.App(smt.Int, "ip_key", b, ob, n)
		fv.c.Axiom("ip_key_ext", smt.Term{S: "(forall ((ik_a (Array Int Int)) (ik_oa Int) (ik_b (Array Int Int)) (ik_ob Int) (ik_n Int)) (! " +
			smt.Implies(smt.Ne(sa, sb), smt.Exists([]smt.Term{i}, smt.And(smt.Ge(i, smt.IntLit(0)), smt.Lt(i, n),
				smt.Ne(smt.Select(a, smt.Add(oa, i)), smt.Select(b, smt.Add(ob, i)))))).S +
			" :pattern (" + sa.S + " " + sb.S + ")))", Sort: smt.Bool}, "ip_key")
		// String() is an injective function of the class
		fv.c.DeclareFun("ip_str", []string{smt.Int}, StrSort)
		fv.c.DeclareFun("ip_unstr", []string{StrSort}, smt.Int)
		k := smt.Term{S: "ik_k", Sort: smt.Int}
		fv.c.Axiom("ip_str_inj", smt.Forall([]smt.Term{k}, smt.Eq(smt.App(smt.Int, "ip_unstr", smt.App(StrSort, "ip_str", k)), k), smt.App(StrSort, "ip_str", k)), "ip_str")
	}
	return smt.App(smt.Int, "ip_key", smt.Select(fv.heapGet(st, key), slArr(ip)), slOff(ip), slLen(ip))
}

func (fv *funcVerifier) lockOp(st *State, mu ast.Expr, acquire bool, call *ast.CallExpr) {
	// evaluate the owner for nil checks
	if sel, ok := ast.Unparen(mu).(*ast.SelectorExpr); ok {
		if _, isField := fv.info.Selections[sel]; isField {
			fv.selectLval(st, sel)
		}
	}
	if fv.lockSpecOp(st, mu, acquire, call) {
		return
	}
	if acquire {
		fv.note("mutex %s acquired: no ownership declared, whole heap havocked (monitor model)", fv.exprStr(mu))
		fv.havocAll(st)
	}
}

func init() {
	// hashes: md5.New()/sha256.New() carry their digest size; Sum appends it.
	hashNew := func(size int64) libHandler {
		return func(fv *funcVerifier, st *State, call *ast.CallExpr, fn *types.Func) []smt.Term {
			h := fv.freshNonNil(st, "hash", fv.typeOf(call))
			fv.c.DeclareFun("hash_size", []string{smt.Int}, smt.Int)
			fv.assume(st, smt.Eq(smt.App(smt.Int, "hash_size", h), smt.IntLit(size)))
			return []smt.Term{h}
		}
	}
	libModels["crypto/md5.New"] = hashNew(16)
	libModels["crypto/sha256.New"] = hashNew(32)
	libModels["crypto/sha1.New"] = hashNew(20)
	ifaceModels["(hash.Hash).Sum"] = func(fv *funcVerifier, st *State, call *ast.CallExpr, fn *types.Func, recv smt.Term, args []smt.Term) []smt.Term {
		fv.c.DeclareFun("hash_size", []string{smt.Int}, smt.Int)
		r := fv.fresh(st, "sum", fv.typeOf(call))
		sz := smt.App(smt.Int, "hash_size", recv)
		fv.assume(st, smt.Ge(sz, smt.IntLit(0)))
		fv.assume(st, smt.And(smt.Eq(slLen(r), smt.Add(slLen(args[0]), sz)), smt.Ne(slArr(r), smt.IntLit(0))))
		return []smt.Term{r}
	}
	ifaceModels["(hash.Hash).Write"] = func(fv *funcVerifier, st *State, call *ast.CallExpr, fn *types.Func, recv smt.Term, args []smt.Term) []smt.Term {
		return fv.freshResults(st, call, "hwrite")
	}
	ifaceModels["(io.Writer).Write"] = ifaceModels["(hash.Hash).Write"]
	ifaceModels["(hash.Hash).Reset"] = ifaceModels["(hash.Hash).Write"]
	ifaceModels["(hash.Hash).Size"] = func(fv *funcVerifier, st *State, call *ast.CallExpr, fn *types.Func, recv smt.Term, args []smt.Term) []smt.Term {
		fv.c.DeclareFun("hash_size", []string{smt.Int}, smt.Int)
		return []smt.Term{smt.App(smt.Int, "hash_size", recv)}
	}
	for _, name := range []string{"md5", "sha256", "sha1"} {
		name := name
		size := map[string]int64{"md5": 16, "sha256": 32, "sha1": 20}[name]
		_ = size
	}
	// UDP reads: n bytes were written into the buffer, 0 <= n <= len(buf)
	readInto := func(fv *funcVerifier, st *State, call *ast.CallExpr, fn *types.Func) []smt.Term {
		fv.evalCallee(st, call.Fun)
		buf := fv.evalExpr(st, call.Args[0])
		fv.mut++
		fv.havocKeys(st, []string{fv.memKey(types.Typ[types.Uint8])})
		res := fv.freshResults(st, call, "read")
		errT := res[len(res)-1]
		fv.assume(st, smt.Implies(smt.Eq(errT, smt.IntLit(0)), smt.And(smt.Ge(res[0], smt.IntLit(0)), smt.Le(res[0], slLen(buf)))))
		for i := 1; i < len(res)-1; i++ {
			if res[i].Sort == smt.Int {
				fv.assume(st, smt.Implies(smt.Eq(errT, smt.IntLit(0)), smt.Ne(res[i], smt.IntLit(0))))
			}
		}
		return res
	}
	libModels["(*net.UDPConn).ReadFromUDP"] = readInto
	libModels["(*net.UDPConn).ReadFrom"] = readInto
	libModels["(*net.UDPConn).Read"] = readInto
	AssumedLib = append(AssumedLib,
		"crypto/md5.New/sha256.New: Sum(b) returns a non-nil slice of len(b)+digest size (16/32); Write never fails or panics",
		"(*net.UDPConn).ReadFromUDP: on nil error 0 <= n <= len(buf) and addr != nil; buffer contents arbitrary")
}

func init() {
	libModels["bytes.Equal"] = func(fv *funcVerifier, st *State, call *ast.CallExpr, fn *types.Func) []smt.Term {
		a := fv.evalExpr(st, call.Args[0])
		b := fv.evalExpr(st, call.Args[1])
		return []smt.Term{fv.c.Let("bytesEq", fv.sameBytes(st, a, b))}
	}
	AssumedLib = append(AssumedLib, "bytes.Equal(a,b) <=> len(a)==len(b) and all bytes equal")
	AssumedLib = append(AssumedLib, "(*net.IPNet).Contains(ip) is a deterministic predicate of the bytes of n.IP, n.Mask and of the Equal-class of ip (uninterpreted)")
	AssumedLib = append(AssumedLib, "encoding/hex.EncodeToString(b) is a deterministic function of the bytes of b (uninterpreted)")
}

// sameBytes is content equality of two byte slices in state st.
func (fv *funcVerifier) sameBytes(st *State, a, b smt.Term) smt.Term {
	key := fv.memKey(types.Typ[types.Uint8])
	fv.instFrames(key, slArr(a))
	fv.instFrames(key, slArr(b))
	m := fv.heapGet(st, key)
	fv.nQuant++
	i := smt.Term{S: "i_eq!" + itoa(fv.nQuant), Sort: smt.Int}
	return smt.And(smt.Eq(slLen(a), slLen(b)),
		smt.Forall([]smt.Term{i}, smt.Implies(smt.And(smt.Ge(i, smt.IntLit(0)), smt.Lt(i, slLen(a))),
			smt.Eq(smt.Select(smt.Select(m, slArr(a)), smt.Add(slOff(a), i)), smt.Select(smt.Select(m, slArr(b)), smt.Add(slOff(b), i))))))
}

func itoa(n int) string { return strconv.Itoa(n) }

func init() {
	// sync/atomic on addressable operands: atomic.AddUint64(&x.f, d) etc. are modelled as the plain operation
	atomicOperand := func(fv *funcVerifier, st *State, e ast.Expr) (lval, bool) {
		u, ok := ast.Unparen(e).(*ast.UnaryExpr)
		if !ok || u.Op.String() != "&" {
			return lval{}, false
		}
		return fv.tryLval(st, u.X)
	}
	for _, ty := range []string{"Int32", "Int64", "Uint32", "Uint64", "Uintptr"} {
		ty := ty
		libModels["sync/atomic.Add"+ty] = func(fv *funcVerifier, st *State, call *ast.CallExpr, fn *types.Func) []smt.Term {
			lv, ok := atomicOperand(fv, st, call.Args[0])
			d := fv.evalExpr(st, call.Args[1])
			if !ok {
				fv.evalExpr(st, call.Args[0])
				fv.note("atomic.Add on a non-addressable operand: pointee havocked")
				fv.havocExternal(st, call, fn.Type().(*types.Signature))
				return fv.freshResults(st, call, "atomic")
			}
			nv := fv.wrapNear(smt.Add(lv.load(), d), lv.typ)
			lv.store(nv)
			return []smt.Term{nv}
		}
		libModels["sync/atomic.Load"+ty] = func(fv *funcVerifier, st *State, call *ast.CallExpr, fn *types.Func) []smt.Term {
			lv, ok := atomicOperand(fv, st, call.Args[0])
			if !ok {
				fv.evalExpr(st, call.Args[0])
				return fv.freshResults(st, call, "atomic")
			}
			return []smt.Term{lv.load()}
		}
		libModels["sync/atomic.Store"+ty] = func(fv *funcVerifier, st *State, call *ast.CallExpr, fn *types.Func) []smt.Term {
			lv, ok := atomicOperand(fv, st, call.Args[0])
			v := fv.evalExpr(st, call.Args[1])
			if !ok {
				fv.evalExpr(st, call.Args[0])
				fv.havocExternal(st, call, fn.Type().(*types.Signature))
				return nil
			}
			lv.store(v)
			return nil
		}
		libModels["sync/atomic.CompareAndSwap"+ty] = func(fv *funcVerifier, st *State, call *ast.CallExpr, fn *types.Func) []smt.Term {
			lv, ok := atomicOperand(fv, st, call.Args[0])
			o := fv.evalExpr(st, call.Args[1])
			n := fv.evalExpr(st, call.Args[2])
			if !ok {
				fv.evalExpr(st, call.Args[0])
				fv.havocExternal(st, call, fn.Type().(*types.Signature))
				return fv.freshResults(st, call, "cas")
			}
			cur := lv.load()
			hit := fv.c.Let("cas", smt.Eq(cur, o))
			lv.store(smt.Ite(hit, n, cur))
			return []smt.Term{hit}
		}
	}
	AssumedLib = append(AssumedLib, "sync/atomic Add/Load/Store/CompareAndSwap on &x.f are the plain sequential operations (no interleaving between the atomic and other accesses is modelled)")
}

func init() {
	// crypto/rand.Read fills exactly its argument
	libModels["crypto/rand.Read"] = func(fv *funcVerifier, st *State, call *ast.CallExpr, fn *types.Func) []smt.Term {
		b := fv.evalExpr(st, call.Args[0])
		key := fv.memKey(types.Typ[types.Uint8])
		fv.instFrames(key, slArr(b))
		fv.mut++
		h := fv.heapGet(st, key)
		fv.heapSet(st, key, smt.Store(h, slArr(b), fv.c.Fresh("randmem", smt.ElemSort(h.Sort))))
		res := fv.freshResults(st, call, "rand")
		fv.assume(st, smt.Implies(smt.Eq(res[1], smt.IntLit(0)), smt.Eq(res[0], slLen(b))))
		return res
	}
	AssumedLib = append(AssumedLib, "crypto/rand.Read(b) writes only the elements of b; on nil error n == len(b)")
}
